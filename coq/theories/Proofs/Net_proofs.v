(* Proofs for C10 (Model/Net.v against Model/RefNet.v). *)
From Coq Require Import ZArith List Bool Lia ZifyBool.
From CV Require Import Base.Val Base.Tys Gen.NetTables Model.Net Model.RefNet.
Import ListNotations.
Open Scope Z_scope.
Ltac Zify.zify_post_hook ::= Z.to_euclidean_division_equations.

(* ------------------------------------------------------------------ callbacks *)
Lemma hkind_eqb_spec : forall a b, hkind_eqb a b = true <-> a = b.
Proof.
  destruct a, b; cbn; try (split; intro H; try reflexivity; discriminate H).
  rewrite Z.eqb_eq. split; [intros ->; reflexivity | intros H; inversion H; reflexivity].
Qed.

Lemma nobj_eqb_spec : forall a b, nobj_eqb a b = true <-> a = b.
Proof.
  intros [u n l] [u' n' l']; unfold nobj_eqb; cbn.
  rewrite !andb_true_iff, !Z.eqb_eq, eqb_true_iff. split.
  - intros [[-> ->] ->]; reflexivity.
  - intros H; inversion H; auto.
Qed.

Lemma handler_eqb_spec : forall a b, handler_eqb a b = true <-> a = b.
Proof.
  intros [x| |o k] [y| |o' k']; cbn; try (split; intro H; discriminate H).
  - rewrite Z.eqb_eq. split; [intros ->; reflexivity | intros H; inversion H; reflexivity].
  - split; reflexivity.
  - rewrite andb_true_iff, nobj_eqb_spec, hkind_eqb_spec.
    split; [intros [-> ->]; reflexivity | intros H; inversion H; auto].
Qed.

Lemma handler_eqb_refl : forall a, handler_eqb a a = true.
Proof. intros; apply handler_eqb_spec; reflexivity. Qed.

Lemma handler_eqb_neq : forall a b, handler_eqb a b = false <-> a <> b.
Proof.
  intros a b; split.
  - intros H E. apply handler_eqb_spec in E. congruence.
  - intros H. destruct (handler_eqb a b) eqn:E; auto. apply handler_eqb_spec in E; contradiction.
Qed.

Lemma hmem_spec : forall h l, hmem h l = true <-> In h l.
Proof.
  induction l as [|x r IH]; cbn.
  - split; [discriminate | tauto].
  - rewrite orb_true_iff, IH, handler_eqb_spec. split; intros [H|H]; auto.
Qed.

Lemma hmem_false : forall h l, hmem h l = false <-> ~ In h l.
Proof.
  intros h l. rewrite <- hmem_spec. destruct (hmem h l); split; intro H; auto; try discriminate.
  exfalso; apply H; reflexivity.
Qed.

Lemma filter_notin : forall h l, ~ In h l -> filter (fun x => negb (handler_eqb h x)) l = l.
Proof.
  induction l as [|x r IH]; cbn; intros H; auto.
  destruct (handler_eqb h x) eqn:E.
  - apply handler_eqb_spec in E. exfalso; apply H; auto.
  - cbn. rewrite IH; auto.
Qed.

(* list.remove deletes the only occurrence when there are no duplicates *)
Lemma remove_first_filter : forall h l, NoDup l ->
  remove_first h l = filter (fun x => negb (handler_eqb h x)) l.
Proof.
  induction l as [|x r IH]; cbn; intros H; auto.
  inversion H as [|? ? Hn Hr]; subst.
  destruct (handler_eqb h x) eqn:E; cbn.
  - apply handler_eqb_spec in E; subst. rewrite filter_notin; auto.
  - rewrite IH; auto.
Qed.

Lemma in_filter_neq : forall h x l, In x (filter (fun y => negb (handler_eqb h y)) l) <-> In x l /\ x <> h.
Proof.
  intros. rewrite filter_In, negb_true_iff, handler_eqb_neq. split; intros [A B]; split; auto.
Qed.

(* ------------------------------------------------------------------ the association list *)
Lemma lookup_subscribe_same : forall m c h,
  lookup c (subscribe c h m) = Some (if hmem h (abs m c) then abs m c else abs m c ++ [h]).
Proof.
  unfold abs. induction m as [|[c' l] r IH]; intros c h; cbn.
  - rewrite Z.eqb_refl. reflexivity.
  - destruct (c =? c') eqn:E; cbn; rewrite E; auto.
Qed.

Lemma lookup_subscribe_other : forall m c h x, x <> c -> lookup x (subscribe c h m) = lookup x m.
Proof.
  induction m as [|[c' l] r IH]; intros c h x Hx; cbn.
  - destruct (x =? c) eqn:E; auto. lia.
  - destruct (c =? c') eqn:E; cbn.
    + destruct (x =? c') eqn:E2; auto. lia.
    + destruct (x =? c') eqn:E2; auto.
Qed.

Lemma lookup_set_list_same : forall m c l l', lookup c m = Some l -> lookup c (set_list c l' m) = Some l'.
Proof.
  induction m as [|[c' l0] r IH]; intros c l l'; cbn; [discriminate|].
  destruct (c =? c') eqn:E; cbn; rewrite E; eauto.
Qed.

Lemma lookup_set_list_other : forall m c l' x, x <> c -> lookup x (set_list c l' m) = lookup x m.
Proof.
  induction m as [|[c' l0] r IH]; intros c l' x Hx; cbn; auto.
  destruct (c =? c') eqn:E; cbn.
  - destruct (x =? c') eqn:E2; auto. lia.
  - destruct (x =? c') eqn:E2; auto.
Qed.

Lemma lookup_del_key_same : forall m c, lookup c (del_key c m) = None.
Proof.
  induction m as [|[c' l0] r IH]; intros c; cbn; auto.
  destruct (c =? c') eqn:E; cbn; auto. rewrite E; auto.
Qed.

Lemma lookup_del_key_other : forall m c x, x <> c -> lookup x (del_key c m) = lookup x m.
Proof.
  induction m as [|[c' l0] r IH]; intros c x Hx; cbn; auto.
  destruct (c =? c') eqn:E; cbn.
  - destruct (x =? c') eqn:E2; auto. lia.
  - destruct (x =? c') eqn:E2; auto.
Qed.

(* ------------------------------------------------------------------ primitives refine the multimap *)
Lemma r_sub_ext : forall c h (f g : rmap), (forall x, g x = f x) -> forall x, r_sub c h g x = r_sub c h f x.
Proof.
  intros c h f g H x. unfold r_sub, upd. rewrite (H c).
  destruct (hmem h (f c)); auto. destruct (x =? c); auto.
Qed.

Lemma subscribe_refines : forall m f c h, (forall x, abs m x = f x) ->
  forall x, abs (subscribe c h m) x = r_sub c h f x.
Proof.
  intros m f c h H x. rewrite (r_sub_ext c h (abs m) f) by (intro; symmetry; apply H).
  unfold r_sub, upd. destruct (x =? c) eqn:E.
  - assert (x = c) by lia; subst. unfold abs at 1. rewrite lookup_subscribe_same.
    destruct (hmem h (abs m c)); rewrite ?Z.eqb_refl; reflexivity.
  - unfold abs at 1. rewrite lookup_subscribe_other by lia.
    destruct (hmem h (abs m c)); try rewrite E; reflexivity.
Qed.

Lemma unsub1_refines : forall m f c h, (forall x, abs m x = f x) -> NoDup (f c) ->
  match unsubscribe c (Some h) m, r_unsub1 c h f with
  | Ok m', Some f' => forall x, abs m' x = f' x
  | Err _, None => True
  | _, _ => False
  end.
Proof.
  intros m f c h H Hnd. unfold unsubscribe, r_unsub1.
  pose proof (H c) as Hc. unfold abs in Hc.
  destruct (lookup c m) as [l|] eqn:El.
  - subst l. destruct (hmem h (f c)) eqn:Em; auto.
    intros x. unfold upd. destruct (x =? c) eqn:E.
    + assert (x = c) by lia; subst. unfold abs. erewrite lookup_set_list_same by eauto.
      apply remove_first_filter; auto.
    + unfold abs. rewrite lookup_set_list_other by lia. apply H.
  - rewrite <- Hc. cbn. exact I.
Qed.

Lemma unsub_all_refines : forall m f c, (forall x, abs m x = f x) ->
  match unsubscribe c None m with
  | Ok m' => forall x, abs m' x = r_unsub_all c f x
  | Err _ => forall x, abs m x = r_unsub_all c f x
  | Abort _ => False
  end.
Proof.
  intros m f c H. unfold unsubscribe, r_unsub_all, upd.
  destruct (lookup c m) as [l|] eqn:El; intros x; destruct (x =? c) eqn:E.
  - assert (x = c) by lia; subst. unfold abs. rewrite lookup_del_key_same. reflexivity.
  - unfold abs. rewrite lookup_del_key_other by lia. apply H.
  - assert (x = c) by lia; subst. unfold abs. rewrite El. reflexivity.
  - apply H.
Qed.

(* ------------------------------------------------------------------ facts about the reference multimap *)
Lemma r_sub_nodup : forall c h f, (forall x, NoDup (f x)) -> forall x, NoDup (r_sub c h f x).
Proof.
  intros c h f H x. unfold r_sub. destruct (hmem h (f c)) eqn:E; auto.
  unfold upd. destruct (x =? c); auto.
  apply hmem_false in E. specialize (H c).
  induction (f c) as [|a l IH]; cbn.
  - constructor; [intros []|constructor].
  - inversion H; subst. constructor.
    + rewrite in_app_iff. intros [A|[A|[]]]; auto. subst. apply E; left; auto.
    + apply IH; auto. intro; apply E; right; auto.
Qed.

Lemma r_sub_in : forall c h f x y, In y (r_sub c h f x) <-> In y (f x) \/ (x = c /\ y = h).
Proof.
  intros c h f x y. unfold r_sub. destruct (hmem h (f c)) eqn:E.
  - apply hmem_spec in E. split; auto. intros [A|[-> ->]]; auto.
  - unfold upd. destruct (x =? c) eqn:E2.
    + assert (x = c) by lia; subst. rewrite in_app_iff. cbn. split.
      * intros [A|[A|[]]]; auto.
      * intros [A|[_ ->]]; auto.
    + split; auto. intros [A|[-> _]]; auto. lia.
Qed.

Lemma r_sub_all_nodup : forall chs f, (forall x, NoDup (f x)) -> forall x, NoDup (r_sub_all chs f x).
Proof.
  unfold r_sub_all. induction chs as [|[c h] r IH]; intros f H x; cbn; auto.
  apply IH. apply r_sub_nodup; auto.
Qed.

Lemma r_sub_all_in : forall chs f x y,
  In y (r_sub_all chs f x) <-> In y (f x) \/ In (x, y) chs.
Proof.
  unfold r_sub_all. induction chs as [|[c h] r IH]; intros f x y; cbn.
  - tauto.
  - rewrite IH, r_sub_in. split.
    + intros [[A|[-> ->]]|A]; auto.
    + intros [A|[A|A]]; auto. inversion A; subst; auto.
Qed.

Lemma r_unsub1_nodup : forall c h f f', r_unsub1 c h f = Some f' ->
  (forall x, NoDup (f x)) -> forall x, NoDup (f' x).
Proof.
  unfold r_unsub1. intros c h f f' H Hn x. destruct (hmem h (f c)); inversion H; subst.
  unfold upd. destruct (x =? c); auto. apply NoDup_filter; auto.
Qed.

Lemma r_unsub1_in : forall c h f f', r_unsub1 c h f = Some f' ->
  forall x y, In y (f' x) <-> In y (f x) /\ ~ (x = c /\ y = h).
Proof.
  unfold r_unsub1. intros c h f f' H x y. destruct (hmem h (f c)); inversion H; subst.
  unfold upd. destruct (x =? c) eqn:E.
  - assert (x = c) by lia; subst. rewrite in_filter_neq. split.
    + intros [A B]; split; auto. intros [_ C]; auto.
    + intros [A B]; split; auto.
  - split; [intros A; split; auto; intros [C _]; lia | tauto].
Qed.

Lemma r_unsub_seq_nodup : forall chs f f' b, r_unsub_seq chs f = (f', b) ->
  (forall x, NoDup (f x)) -> forall x, NoDup (f' x).
Proof.
  induction chs as [|[c h] r IH]; intros f f' b H Hn; cbn in H.
  - inversion H; subst; auto.
  - destruct (r_unsub1 c h f) as [f1|] eqn:E.
    + eapply IH; eauto. eapply r_unsub1_nodup; eauto.
    + inversion H; subst; auto.
Qed.

(* detaching only removes *)
Lemma r_unsub_seq_shrinks : forall chs f f' b, r_unsub_seq chs f = (f', b) ->
  forall x y, In y (f' x) -> In y (f x).
Proof.
  induction chs as [|[c h] r IH]; intros f f' b H x y Hy; cbn in H.
  - inversion H; subst; auto.
  - destruct (r_unsub1 c h f) as [f1|] eqn:E.
    + apply (IH _ _ _ H) in Hy. apply (proj1 (r_unsub1_in _ _ _ _ E _ _)) in Hy. tauto.
    + inversion H; subst; auto.
Qed.

(* a completed detachment leaves none of the listed callbacks behind *)
Lemma r_unsub_seq_removes : forall chs f f', r_unsub_seq chs f = (f', true) ->
  forall c h, In (c, h) chs -> ~ In h (f' c).
Proof.
  induction chs as [|[c0 h0] r IH]; intros f f' H c h Hin; cbn in H.
  - destruct Hin.
  - destruct (r_unsub1 c0 h0 f) as [f1|] eqn:E; [|inversion H].
    destruct Hin as [A|A].
    + inversion A; subst. intros Hy. apply (r_unsub_seq_shrinks _ _ _ _ H) in Hy.
      apply (proj1 (r_unsub1_in _ _ _ _ E _ _)) in Hy. tauto.
    + eapply IH; eauto.
Qed.

(* ------------------------------------------------------------------ node operations refine *)
Lemma extras_ref : forall txs o k, extras_from o k txs = ref_extras o k txs.
Proof. induction txs as [|t r IH]; intros; cbn; [reflexivity|]. rewrite IH. reflexivity. Qed.

Lemma node_handlers_ref : forall txs o, node_handlers txs o = ref_handlers txs o.
Proof. intros. unfold node_handlers, ref_handlers. rewrite extras_ref. destruct (o_local o); reflexivity. Qed.

Lemma ref_extras_own : forall txs o k c h, In (c, h) (ref_extras o k txs) -> exists k', h = HNode o k'.
Proof.
  induction txs as [|t r IH]; intros o k c h H; cbn in H; [destruct H|].
  destruct H as [H|H]; [inversion H; eexists; reflexivity | eapply IH; eauto].
Qed.

Lemma ref_handlers_own : forall txs o c h, In (c, h) (ref_handlers txs o) -> exists k, h = HNode o k.
Proof.
  intros txs o c h. unfold ref_handlers. destruct (o_local o); cbn; intros H.
  - repeat (destruct H as [H|H]; [inversion H; eexists; reflexivity|]); destruct H.
  - destruct H as [H|H]; [inversion H; eexists; reflexivity|].
    apply in_app_iff in H. destruct H as [H|H]; [eapply ref_extras_own; eauto|].
    repeat (destruct H as [H|H]; [inversion H; eexists; reflexivity|]); destruct H.
Qed.

Lemma ref_extras_app : forall txs o k tx,
  ref_extras o k (txs ++ [tx]) = ref_extras o k txs ++ [(tx, HNode o (KSdoExtra (k + Z.of_nat (length txs))))].
Proof.
  induction txs as [|t r IH]; intros o k tx; cbn [ref_extras app].
  - cbn. rewrite Z.add_0_r. reflexivity.
  - rewrite IH. cbn [length]. rewrite Nat2Z.inj_succ.
    replace (k + 1 + Z.of_nat (length r)) with (k + Z.succ (Z.of_nat (length r))) by lia. reflexivity.
Qed.

(* adding a channel only adds to the callbacks of a node *)
Lemma ref_handlers_grow : forall txs tx o c h,
  In (c, h) (ref_handlers txs o) -> In (c, h) (ref_handlers (txs ++ [tx]) o).
Proof.
  intros txs tx o c h. unfold ref_handlers. destruct (o_local o); auto.
  rewrite ref_extras_app. intros H. destruct H as [H|H]; [left; exact H|right].
  rewrite in_app_iff in H. rewrite !in_app_iff. tauto.
Qed.

Lemma ref_handlers_new : forall txs tx o, o_local o = false ->
  In (tx, HNode o (KSdoExtra (Z.of_nat (length txs) + 1))) (ref_handlers (txs ++ [tx]) o).
Proof.
  intros txs tx o Hl. unfold ref_handlers. rewrite Hl, ref_extras_app. right.
  rewrite !in_app_iff. left. right. left. do 3 f_equal. lia.
Qed.

Lemma nobj_eqb_refl : forall o, nobj_eqb o o = true.
Proof. intros. apply nobj_eqb_spec. reflexivity. Qed.

Lemma txs_of_add_tx : forall cm o tx x,
  txs_of x (add_tx o tx cm) = if nobj_eqb x o then txs_of o cm ++ [tx] else txs_of x cm.
Proof.
  induction cm as [|[o' l] r IH]; intros o tx x; cbn.
  - destruct (nobj_eqb x o); reflexivity.
  - destruct (nobj_eqb o o') eqn:E; cbn.
    + apply nobj_eqb_spec in E; subst o'. destruct (nobj_eqb x o); reflexivity.
    + rewrite IH. destruct (nobj_eqb x o') eqn:E2; destruct (nobj_eqb x o) eqn:E3; auto.
      apply nobj_eqb_spec in E2, E3. subst. rewrite nobj_eqb_refl in E. discriminate.
Qed.

Lemma associate_refines : forall chs m f, (forall x, abs m x = f x) ->
  forall x, abs (fold_left (fun m ch => subscribe (fst ch) (snd ch) m) chs m) x = r_sub_all chs f x.
Proof.
  unfold r_sub_all. induction chs as [|[c h] r IH]; intros m f H x; cbn; auto.
  apply IH. intro. apply subscribe_refines; auto.
Qed.

Definition res_ok {A} (r : res A) : bool := match r with Ok _ => true | _ => false end.

Lemma unsub_seq_refines : forall chs m f, (forall x, abs m x = f x) -> (forall x, NoDup (f x)) ->
  (forall x, abs (fst (unsub_seq chs m)) x = fst (r_unsub_seq chs f) x) /\
  res_ok (snd (unsub_seq chs m)) = snd (r_unsub_seq chs f).
Proof.
  induction chs as [|[c h] r IH]; intros m f H Hn; cbn; auto.
  pose proof (unsub1_refines m f c h H (Hn c)) as U.
  destruct (unsubscribe c (Some h) m) as [m'|k|k]; destruct (r_unsub1 c h f) as [f'|] eqn:E;
    try contradiction; cbn; auto.
  apply IH; auto. eapply r_unsub1_nodup; eauto.
Qed.

(* ------------------------------------------------------------------ the scanner *)
Lemma land_127 : forall a, Z.land a 127 = a mod 128.
Proof. intros. change 127 with (Z.ones 7). rewrite Z.land_ones by lia. reflexivity. Qed.

Lemma land_not_127 : forall a, Z.land a (Z.lnot 127) = a - a mod 128.
Proof.
  intros. rewrite <- Z.ldiff_land. change 127 with (Z.ones 7).
  rewrite Z.ldiff_ones_r, Z.shiftl_mul_pow2, Z.shiftr_div_pow2 by lia.
  change (2 ^ 7) with 128. lia.
Qed.

Definition aligned (s : Z) : bool := s mod 128 =? 0.

Lemma zmem_spec : forall k l, zmem k l = true <-> In k l.
Proof.
  induction l as [|x r IH]; cbn.
  - split; [discriminate | tauto].
  - destruct (k =? x) eqn:E.
    + split; auto. intros _. left. lia.
    + rewrite IH. split; auto. intros [A|A]; auto. lia.
Qed.

Lemma names_from_spec : forall svcs, forallb aligned svcs = true -> forall id,
  names_from svcs id =
  if negb (id mod 128 =? 0) && zmem (id - id mod 128) svcs then Some (id mod 128) else None.
Proof.
  induction svcs as [|s r IH]; intros Hal id; cbn.
  - rewrite andb_false_r. reflexivity.
  - cbn in Hal. apply andb_true_iff in Hal. destruct Hal as [Hs Hr]. unfold aligned in Hs.
    rewrite IH by auto.
    destruct ((1 <=? id - s) && (id - s <=? 127)) eqn:E1.
    + assert (id mod 128 = id - s) by lia.
      assert (E2 : id - id mod 128 =? s = true) by lia. rewrite E2.
      assert (E3 : id mod 128 =? 0 = false) by lia. rewrite E3. cbn. f_equal. lia.
    + destruct (id mod 128 =? 0) eqn:E3; cbn; auto.
      assert (E2 : id - id mod 128 =? s = false) by lia. rewrite E2. reflexivity.
Qed.

Lemma services_aligned : forallb aligned SERVICES = true.
Proof. vm_compute. reflexivity. Qed.

Lemma scan_step_ref : forall found id, scan_step found id = ref_scan_step found id.
Proof.
  intros. unfold scan_step, ref_scan_step, names.
  rewrite names_from_spec by apply services_aligned.
  rewrite land_127, land_not_127.
  destruct (id mod 128 =? 0); destruct (zmem (id - id mod 128) SERVICES); cbn;
    destruct (zmem (id mod 128) found); reflexivity.
Qed.

Lemma scan_from_ref : forall ids found, scan_from found ids = fold_left ref_scan_step ids found.
Proof.
  unfold scan_from. induction ids as [|i r IH]; intros; cbn; auto. rewrite scan_step_ref. apply IH.
Qed.

Lemma scan_ref : forall ids, scan ids = ref_scan ids.
Proof. intros. apply scan_from_ref. Qed.

(* the node id named by a COB-ID: declarative form *)
Definition names_node (id n : Z) : Prop :=
  1 <= n <= 127 /\ exists svc, In svc SERVICES /\ id = svc + n.

Lemma names_from_some : forall svcs id n, names_from svcs id = Some n ->
  1 <= n <= 127 /\ exists svc, In svc svcs /\ id = svc + n.
Proof.
  induction svcs as [|s r IH]; intros id n H; cbn in H; [discriminate|].
  destruct ((1 <=? id - s) && (id - s <=? 127)) eqn:E.
  - inversion H; subst. split; [lia|]. exists s; split; [left; auto | lia].
  - apply IH in H. destruct H as [A [svc [B C]]]. split; auto. exists svc; split; [right; auto|auto].
Qed.

Lemma names_iff : forall id n, names id = Some n <-> names_node id n.
Proof.
  intros id n. unfold names, names_node. split.
  - apply names_from_some.
  - intros [Hn [svc [Hin Heq]]].
    rewrite names_from_spec by apply services_aligned.
    pose proof services_aligned as Hal. rewrite forallb_forall in Hal.
    specialize (Hal svc Hin). unfold aligned in Hal.
    assert (id mod 128 = n) by lia.
    assert (E : id mod 128 =? 0 = false) by lia. rewrite E. cbn [negb andb].
    assert (E2 : zmem (id - id mod 128) SERVICES = true).
    { apply zmem_spec. replace (id - id mod 128) with svc by lia. auto. }
    rewrite E2. f_equal. auto.
Qed.

Local Arguments names : simpl never.

Lemma ref_scan_prefix : forall ids found, exists l, fold_left ref_scan_step ids found = found ++ l.
Proof.
  induction ids as [|i r IH]; intros found; cbn.
  - exists []. rewrite app_nil_r. reflexivity.
  - unfold ref_scan_step at 2. destruct (names i) as [n|].
    + destruct (zmem n found).
      * apply IH.
      * destruct (IH (found ++ [n])) as [l Hl]. exists ([n] ++ l). rewrite Hl, <- app_assoc. reflexivity.
    + apply IH.
Qed.

Lemma ref_scan_nodup : forall ids found, NoDup found -> NoDup (fold_left ref_scan_step ids found).
Proof.
  induction ids as [|i r IH]; intros found H; cbn; auto.
  apply IH. unfold ref_scan_step. destruct (names i) as [n|]; auto.
  destruct (zmem n found) eqn:E; auto.
  assert (~ In n found) by (rewrite <- zmem_spec, E; discriminate).
  clear E. induction found as [|a l IHl]; cbn.
  - constructor; [intros []|constructor].
  - inversion H; subst. constructor.
    + rewrite in_app_iff. cbn. intros [A|[A|[]]]; auto. subst. apply H0; left; auto.
    + apply IHl; auto. intro; apply H0; right; auto.
Qed.

Lemma ref_scan_in : forall ids found n,
  In n (fold_left ref_scan_step ids found) <-> In n found \/ exists id, In id ids /\ names id = Some n.
Proof.
  induction ids as [|i r IH]; intros found n; cbn.
  - split; auto. intros [A|[id [[] _]]]; auto.
  - rewrite IH. unfold ref_scan_step. destruct (names i) as [m|] eqn:E.
    + destruct (zmem m found) eqn:Em.
      * apply zmem_spec in Em. split.
        -- intros [A|[id [A B]]]; auto. right; exists id; auto.
        -- intros [A|[id [[A|A] B]]]; auto.
           ++ subst. left. congruence.
           ++ right; exists id; auto.
      * rewrite in_app_iff. cbn. split.
        -- intros [[A|[A|[]]]|[id [A B]]]; auto.
           ++ subst. right; exists i; auto.
           ++ right; exists id; auto.
        -- intros [A|[id [[A|A] B]]]; auto.
           ++ subst. left; right; left. congruence.
           ++ right; exists id; auto.
    + split.
      * intros [A|[id [A B]]]; auto. right; exists id; auto.
      * intros [A|[id [[A|A] B]]]; auto.
        -- subst. congruence.
        -- right; exists id; auto.
Qed.

Lemma scanner_spec : forall ids : list Z,
  NoDup (scan ids) /\
  (forall n, In n (scan ids) <-> exists id, In id ids /\ names_node id n) /\
  (forall pre id post n, ids = pre ++ id :: post -> names_node id n ->
     (forall id', In id' pre -> ~ names_node id' n) ->
     exists rest, scan ids = scan pre ++ n :: rest).
Proof.
  intros ids. rewrite scan_ref. unfold ref_scan. repeat split.
  - apply ref_scan_nodup. constructor.
  - rewrite ref_scan_in. intros [[]|[id [A B]]]. exists id; split; auto. apply names_iff; auto.
  - intros [id [A B]]. apply ref_scan_in. right. exists id; split; auto. apply names_iff; auto.
  - intros pre id post n -> Hn Hpre. rewrite scan_ref. unfold ref_scan.
    rewrite fold_left_app. cbn.
    assert (Hnot : ~ In n (fold_left ref_scan_step pre [])).
    { rewrite ref_scan_in. intros [[]|[id' [A B]]]. apply (Hpre id' A). apply names_iff; auto. }
    unfold ref_scan_step at 2. apply names_iff in Hn. rewrite Hn.
    destruct (zmem n (fold_left ref_scan_step pre [])) eqn:E.
    + apply zmem_spec in E. contradiction.
    + destruct (ref_scan_prefix post (fold_left ref_scan_step pre [] ++ [n])) as [l Hl].
      exists l. rewrite Hl, <- app_assoc. reflexivity.
Qed.

(* ------------------------------------------------------------------ simulation *)
Record sim (s : net) (r : rnet) : Prop := {
  sim_map : forall x, abs (subs s) x = r_map r x;
  sim_nodes : forall n, lookup_node n (nodes s) = r_nodes r n;
  sim_scan : scanned s = r_scan r;
  sim_chans : forall o, txs_of o (chans s) = r_chans r o }.

(* invariant of the reference: no duplicates; a node callback is only ever subscribed to its own
   COB-ID (for an SDO channel: that channel's tx id), and only while its node object is the one
   registered under its node id *)
Record inv (r : rnet) : Prop := {
  inv_nodup : forall c, NoDup (r_map r c);
  inv_nodes : forall c o k, In (HNode o k) (r_map r c) ->
     r_nodes r (o_nid o) = Some o /\ In (c, HNode o k) (ref_handlers (r_chans r o) o) }.

Lemma lookup_set_node : forall ns n o x,
  lookup_node x (set_node n o ns) = if x =? n then Some o else lookup_node x ns.
Proof.
  induction ns as [|[n' o'] r IH]; intros n o x; cbn.
  - reflexivity.
  - destruct (n =? n') eqn:E; cbn.
    + destruct (x =? n') eqn:E2; destruct (x =? n) eqn:E3; auto; lia.
    + rewrite IH. destruct (x =? n') eqn:E2; destruct (x =? n) eqn:E3; auto; lia.
Qed.

Lemma lookup_del_node : forall ns n x,
  lookup_node x (del_node n ns) = if x =? n then None else lookup_node x ns.
Proof.
  induction ns as [|[n' o'] r IH]; intros n x; cbn.
  - destruct (x =? n); reflexivity.
  - destruct (n =? n') eqn:E; cbn.
    + rewrite IH. destruct (x =? n') eqn:E2; destruct (x =? n) eqn:E3; auto; lia.
    + rewrite IH. destruct (x =? n') eqn:E2; destruct (x =? n) eqn:E3; auto; lia.
Qed.

Lemma init_sim : sim init_net ref_init.
Proof.
  constructor; cbn; auto.
  intros x. unfold abs. cbn. destruct (x =? LSS_RX_COBID); reflexivity.
Qed.

Lemma init_inv : inv ref_init.
Proof.
  constructor; cbn.
  - intros c. destruct (c =? LSS_RX_COBID); repeat constructor. intros [].
  - intros c o k. destruct (c =? LSS_RX_COBID); cbn; intros H.
    + destruct H as [H|[]]. discriminate H.
    + destruct H.
Qed.

(* detaching the object registered under n *)
Lemma detach_some : forall s r n old, sim s r -> inv r -> r_nodes r n = Some old ->
  let cm := unsub_seq (node_handlers (txs_of old (chans s)) old) (subs s) in
  let rm := r_unsub_seq (ref_handlers (r_chans r old) old) (r_map r) in
  (forall x, abs (fst cm) x = fst rm x) /\ res_ok (snd cm) = snd rm /\
  (forall x, NoDup (fst rm x)) /\ (forall x y, In y (fst rm x) -> In y (r_map r x)) /\
  (snd rm = true -> forall c k, ~ In (HNode old k) (fst rm c)).
Proof.
  intros s r n old S I Hn cm rm. subst cm rm. rewrite node_handlers_ref, (sim_chans _ _ S).
  destruct (unsub_seq_refines (ref_handlers (r_chans r old) old) (subs s) (r_map r)
              (sim_map _ _ S) (inv_nodup _ I)) as [A B].
  destruct (r_unsub_seq (ref_handlers (r_chans r old) old) (r_map r)) as [f1 ok] eqn:E. cbn in *.
  repeat split; auto.
  - eapply r_unsub_seq_nodup; eauto. apply (inv_nodup _ I).
  - eapply r_unsub_seq_shrinks; eauto.
  - intros -> c k Hin.
    assert (Hin0 : In (HNode old k) (r_map r c)) by (eapply r_unsub_seq_shrinks; eauto).
    apply (inv_nodes _ I) in Hin0. destruct Hin0 as [_ Hh].
    eapply r_unsub_seq_removes; eauto.
Qed.

Lemma attach_inv : forall r o f1, inv r -> (forall x, NoDup (f1 x)) ->
  (forall x y, In y (f1 x) -> In y (r_map r x)) ->
  (forall old, r_nodes r (o_nid o) = Some old -> forall c k, ~ In (HNode old k) (f1 c)) ->
  inv {| r_map := r_sub_all (ref_handlers (r_chans r o) o) f1; r_nodes := upd (r_nodes r) (o_nid o) (Some o);
         r_scan := r_scan r; r_chans := r_chans r |}.
Proof.
  intros r o f1 I Hn Hs Hno. constructor; cbn.
  - apply r_sub_all_nodup; auto.
  - intros c o' k Hin. apply r_sub_all_in in Hin. destruct Hin as [Hin|Hin].
    + pose proof (Hs _ _ Hin) as H0. apply (inv_nodes _ I) in H0. destruct H0 as [A B].
      split; auto. unfold upd. destruct (o_nid o' =? o_nid o) eqn:E; auto.
      assert (E' : o_nid o' = o_nid o) by lia. rewrite E' in A.
      exfalso. eapply Hno; eauto.
    + destruct (ref_handlers_own _ _ _ _ Hin) as [k' Hk]. inversion Hk; subst.
      split; auto. unfold upd. rewrite Z.eqb_refl. reflexivity.
Qed.

Lemma detach_inv : forall r n f1 (ok : bool), inv r -> (forall x, NoDup (f1 x)) ->
  (forall x y, In y (f1 x) -> In y (r_map r x)) ->
  (ok = true -> forall old, r_nodes r n = Some old -> forall c k, ~ In (HNode old k) (f1 c)) ->
  inv {| r_map := f1; r_nodes := if ok then upd (r_nodes r) n None else r_nodes r; r_scan := r_scan r;
         r_chans := r_chans r |}.
Proof.
  intros r n f1 ok I Hn Hs Hno. constructor; cbn; auto.
  intros c o' k Hin. pose proof (Hs _ _ Hin) as H0. apply (inv_nodes _ I) in H0. destruct H0 as [A B].
  split; auto. destruct ok; auto. unfold upd. destruct (o_nid o' =? n) eqn:E; auto.
  assert (E' : o_nid o' = n) by lia. rewrite E' in A. exfalso. eapply Hno; eauto.
Qed.

Lemma notify_refines : forall s r c data ts, sim s r ->
  sim (fst (notify c data ts s)) (fst (ref_deliver c data ts r)) /\
  snd (notify c data ts s) = snd (ref_deliver c data ts r).
Proof.
  intros s r c data ts S. unfold notify, ref_deliver; cbn. split.
  - constructor; cbn.
    + apply (sim_map _ _ S).
    + apply (sim_nodes _ _ S).
    + rewrite scan_step_ref, (sim_scan _ _ S). reflexivity.
    + apply (sim_chans _ _ S).
  - rewrite <- (sim_map _ _ S c). unfold abs. destruct (lookup c (subs s)); reflexivity.
Qed.

Lemma inv_same_map : forall r sc, inv r ->
  inv {| r_map := r_map r; r_nodes := r_nodes r; r_scan := sc; r_chans := r_chans r |}.
Proof. intros r sc I. constructor; cbn; [apply (inv_nodup _ I) | apply (inv_nodes _ I)]. Qed.

Lemma inv_shrunk : forall r f1, inv r -> (forall x, NoDup (f1 x)) ->
  (forall x y, In y (f1 x) -> In y (r_map r x)) ->
  inv (with_map r f1).
Proof.
  intros r f1 I Hn Hs. constructor; cbn; auto.
  intros c o k H. apply Hs in H. apply (inv_nodes _ I) in H. exact H.
Qed.

Lemma registered_ref : forall s r o, sim s r -> registered o s = ref_registered o r.
Proof. intros s r o S. unfold registered, ref_registered. rewrite (sim_nodes _ _ S). reflexivity. Qed.

Ltac sim_rest S := try apply (sim_nodes _ _ S); try apply (sim_scan _ _ S); try apply (sim_chans _ _ S).

Lemma step_sim : forall o s r, sim s r -> inv r ->
  sim (fst (step o s)) (fst (ref_step o r)) /\ inv (fst (ref_step o r)) /\
  log_of (snd (step o s)) = snd (ref_step o r).
Proof.
  intros o s r S I. destruct o as [c u|c [h|]|o|n|c data ts|f| |o rx tx|o| |]; cbn [step ref_step].
  - (* OSub *) cbn. split; [|split]; auto.
    + constructor; cbn; [|sim_rest S..].
      apply subscribe_refines. apply (sim_map _ _ S).
    + constructor; cbn.
      * apply r_sub_nodup. apply (inv_nodup _ I).
      * intros x o k H. apply r_sub_in in H. destruct H as [H|[_ H]]; [|discriminate H].
        apply (inv_nodes _ I) in H. exact H.
  - (* OUnsub one *)
    pose proof (unsub1_refines (subs s) (r_map r) c h (sim_map _ _ S) (inv_nodup _ I c)) as U.
    destruct (unsubscribe c (Some h) (subs s)) as [m'|k|k]; destruct (r_unsub1 c h (r_map r)) as [f'|] eqn:E;
      try contradiction; cbn.
    + split; [|split]; auto.
      * constructor; cbn; [auto|sim_rest S..].
      * apply inv_shrunk; auto.
        -- eapply r_unsub1_nodup; eauto. apply (inv_nodup _ I).
        -- intros x y H. apply (proj1 (r_unsub1_in _ _ _ _ E _ _)) in H. tauto.
    + auto.
  - (* OUnsub all *)
    pose proof (unsub_all_refines (subs s) (r_map r) c (sim_map _ _ S)) as U.
    assert (I' : inv (with_map r (r_unsub_all c (r_map r)))).
    { constructor; cbn; unfold r_unsub_all, upd.
      - intros x. destruct (x =? c); [constructor | apply (inv_nodup _ I)].
      - intros x o k. destruct (x =? c); [intros [] | apply (inv_nodes _ I)]. }
    destruct (unsubscribe c None (subs s)) as [m'|k|k]; try contradiction; cbn; (split; [|split]); auto;
      constructor; cbn; auto; sim_rest S.
  - (* OAdd *)
    unfold setitem, ref_detach. rewrite (sim_nodes _ _ S).
    destruct (r_nodes r (o_nid o)) as [old|] eqn:En.
    + destruct (detach_some s r (o_nid o) old S I En) as [A [B [C [D E]]]].
      destruct (unsub_seq (node_handlers (txs_of old (chans s)) old) (subs s)) as [m1 st] eqn:E1.
      destruct (r_unsub_seq (ref_handlers (r_chans r old) old) (r_map r)) as [f1 ok] eqn:E2.
      cbn in A, B, C, D, E.
      destruct st as [u|k|k]; cbn in B; subst ok; cbn; (split; [|split]); auto.
      * constructor; cbn; [| |sim_rest S..].
        -- unfold associate. rewrite node_handlers_ref, (sim_chans _ _ S). apply associate_refines; auto.
        -- intros x. rewrite lookup_set_node. unfold upd. rewrite (sim_nodes _ _ S). reflexivity.
      * apply attach_inv; auto. intros old' Ho; rewrite En in Ho; inversion Ho; subst; auto.
      * constructor; cbn; [auto|sim_rest S..].
      * apply inv_shrunk; auto.
      * constructor; cbn; [auto|sim_rest S..].
      * apply inv_shrunk; auto.
    + cbn. split; [|split]; auto.
      * constructor; cbn; [| |sim_rest S..].
        -- unfold associate. rewrite node_handlers_ref, (sim_chans _ _ S). apply associate_refines.
           apply (sim_map _ _ S).
        -- intros x. rewrite lookup_set_node. unfold upd. rewrite (sim_nodes _ _ S). reflexivity.
      * apply attach_inv; auto.
        -- apply (inv_nodup _ I).
        -- intros old' Ho; rewrite En in Ho; discriminate Ho.
  - (* ODel *)
    unfold delitem, ref_detach. rewrite (sim_nodes _ _ S).
    destruct (r_nodes r n) as [old|] eqn:En.
    + destruct (detach_some s r n old S I En) as [A [B [C [D E]]]].
      destruct (unsub_seq (node_handlers (txs_of old (chans s)) old) (subs s)) as [m1 st] eqn:E1.
      destruct (r_unsub_seq (ref_handlers (r_chans r old) old) (r_map r)) as [f1 ok] eqn:E2.
      cbn in A, B, C, D, E.
      assert (I' := detach_inv r n f1 ok I C D
                      ltac:(intros Hok old' Ho; rewrite En in Ho; inversion Ho; subst; auto)).
      destruct st as [u|k|k]; cbn in B; subst ok; cbn; (split; [|split]); auto;
        constructor; cbn; auto; sim_rest S.
      intros x. rewrite lookup_del_node. unfold upd. rewrite (sim_nodes _ _ S). reflexivity.
    + cbn. auto.
  - (* ONotify *)
    destruct (notify_refines s r c data ts S) as [A B].
    destruct (notify c data ts s) as [s' l] eqn:E1. cbn in *. split; [|split]; auto.
    apply inv_same_map; auto.
  - (* ORecv *)
    unfold listener. destruct (f_err f || f_remote f); [cbn; auto|].
    destruct (notify_refines s r (f_id f) (f_data f) (f_ts f) S) as [A B].
    destruct (notify (f_id f) (f_data f) (f_ts f) s) as [s' l] eqn:E1. cbn in *. split; [|split]; auto.
    apply inv_same_map; auto.
  - (* OScanReset *)
    cbn. split; [|split]; auto.
    + constructor; cbn; auto; [apply (sim_map _ _ S)|sim_rest S..].
    + apply inv_same_map; auto.
  - (* OAddSdo *)
    unfold add_sdo. destruct (o_local o) eqn:El; [cbn; auto|].
    rewrite (registered_ref s r o S), (sim_chans _ _ S). cbn. split; [|split]; auto.
    + constructor; cbn; [|sim_rest S..|].
      * destruct (ref_registered o r); [|apply (sim_map _ _ S)].
        apply subscribe_refines. apply (sim_map _ _ S).
      * intros x. rewrite txs_of_add_tx, !(sim_chans _ _ S). reflexivity.
    + assert (Hgrow : forall c o' k, r_nodes r (o_nid o') = Some o' /\ In (c, HNode o' k) (ref_handlers (r_chans r o') o') ->
                r_nodes r (o_nid o') = Some o' /\
                In (c, HNode o' k) (ref_handlers (if nobj_eqb o' o then r_chans r o ++ [tx] else r_chans r o') o')).
      { intros c o' k [A B]. split; auto. destruct (nobj_eqb o' o) eqn:E; auto.
        apply nobj_eqb_spec in E; subst o'. apply ref_handlers_grow; auto. }
      constructor; cbn.
      * destruct (ref_registered o r); [apply r_sub_nodup|]; apply (inv_nodup _ I).
      * intros c o' k H. destruct (ref_registered o r) eqn:Er.
        -- apply r_sub_in in H. destruct H as [H|[-> H]].
           ++ apply Hgrow. apply (inv_nodes _ I); auto.
           ++ inversion H; subst o' k. rewrite nobj_eqb_refl. split.
              ** unfold ref_registered in Er. destruct (r_nodes r (o_nid o)) as [o'|]; [|discriminate].
                 apply nobj_eqb_spec in Er. subst; reflexivity.
              ** apply ref_handlers_new; auto.
        -- apply Hgrow. apply (inv_nodes _ I); auto.
  - (* OReassoc *)
    rewrite (registered_ref s r o S). destruct (ref_registered o r) eqn:Er; [|cbn; auto].
    cbn. split; [|split]; auto.
    + constructor; cbn; [|sim_rest S..].
      unfold associate. rewrite node_handlers_ref, (sim_chans _ _ S). apply associate_refines.
      apply (sim_map _ _ S).
    + constructor; cbn.
      * apply r_sub_all_nodup. apply (inv_nodup _ I).
      * intros c o' k H. apply r_sub_all_in in H. destruct H as [H|H]; [apply (inv_nodes _ I); auto|].
        destruct (ref_handlers_own _ _ _ _ H) as [k' Hk]. inversion Hk; subst o' k'. split; auto.
        unfold ref_registered in Er. destruct (r_nodes r (o_nid o)) as [o'|]; [|discriminate].
        apply nobj_eqb_spec in Er. subst; reflexivity.
  - (* OConnect *) cbn. auto.
  - (* ODisconnect *) cbn. auto.
Qed.

Lemma run_sim : forall ops s r, sim s r -> inv r ->
  sim (fst (run_ops ops s)) (fst (ref_run ops r)) /\ inv (fst (ref_run ops r)) /\
  map log_of (snd (run_ops ops s)) = snd (ref_run ops r).
Proof.
  induction ops as [|o rest IH]; intros s r S I; cbn.
  - auto.
  - destruct (step_sim o s r S I) as [S1 [I1 L1]].
    destruct (step o s) as [s1 x] eqn:E1. destruct (ref_step o r) as [r1 y] eqn:E2. cbn in S1, I1, L1.
    destruct (IH s1 r1 S1 I1) as [S2 [I2 L2]].
    destruct (run_ops rest s1) as [s2 xs] eqn:E3. destruct (ref_run rest r1) as [r2 ys] eqn:E4.
    cbn in *. split; [|split]; auto. rewrite L1, L2. reflexivity.
Qed.

(* ------------------------------------------------------------------ main lemmas *)
Lemma dispatch_refines : forall ops : list op,
  map log_of (snd (run_ops ops init_net)) = snd (ref_run ops ref_init) /\
  (forall c, abs (subs (fst (run_ops ops init_net))) c = r_map (fst (ref_run ops ref_init)) c) /\
  (forall c, NoDup (r_map (fst (ref_run ops ref_init)) c)).
Proof.
  intros ops. destruct (run_sim ops init_net ref_init init_sim init_inv) as [S [I L]].
  repeat split; auto. apply (sim_map _ _ S). apply (inv_nodup _ I).
Qed.

(* what one notify delivers in a state reached by any history: exactly the reference list, mapped *)
Lemma notify_delivers : forall ops c data ts,
  snd (notify c data ts (fst (run_ops ops init_net))) =
  map (fun h => (h, c, data, ts)) (r_map (fst (ref_run ops ref_init)) c).
Proof.
  intros ops c data ts. destruct (run_sim ops init_net ref_init init_sim init_inv) as [S [I L]].
  destruct (notify_refines _ _ c data ts S) as [_ B]. rewrite B. reflexivity.
Qed.

Lemma hmem_app_self : forall h l, hmem h (l ++ [h]) = true.
Proof. intros. apply hmem_spec. rewrite in_app_iff. right; left; reflexivity. Qed.

Lemma subscribe_idempotent : forall c h m, subscribe c h (subscribe c h m) = subscribe c h m.
Proof.
  induction m as [|[c' l] r IH]; cbn.
  - rewrite Z.eqb_refl. cbn. rewrite handler_eqb_refl. reflexivity.
  - destruct (c =? c') eqn:E; cbn; rewrite E.
    + destruct (hmem h l) eqn:Em.
      * rewrite Em. reflexivity.
      * rewrite hmem_app_self. reflexivity.
    + rewrite IH. reflexivity.
Qed.


(* ---- removed / replaced nodes are silent ---- *)
Lemma step_log_silent : forall o s r old, sim s r -> inv r ->
  lookup_node (o_nid old) (nodes s) <> Some old ->
  forall k c d t, ~ In (HNode old k, c, d, t) (log_of (snd (step o s))).
Proof.
  intros o s r old S I Hno k c d t Hin.
  destruct (step_sim o s r S I) as [_ [_ L]]. rewrite L in Hin. clear L.
  assert (Hdel : forall c' data ts, ~ In (HNode old k, c, d, t) (snd (ref_deliver c' data ts r))).
  { intros c' data ts H. unfold ref_deliver in H. cbn in H. apply in_map_iff in H.
    destruct H as [h [Heq Hh]]. inversion Heq; subst.
    apply (inv_nodes _ I) in Hh. destruct Hh as [A _]. rewrite <- (sim_nodes _ _ S) in A. contradiction. }
  destruct o as [c0 u|c0 [h|]|o|n|c0 data ts|f| |o rx tx|o| |]; cbn [ref_step] in Hin.
  - destruct Hin.
  - destruct (r_unsub1 c0 h (r_map r)); destruct Hin.
  - destruct Hin.
  - destruct (ref_detach (o_nid o) r) as [f1 [|]]; destruct Hin.
  - destruct (r_nodes r n); [destruct (ref_detach n r) as [f1 ok]|]; destruct Hin.
  - eapply Hdel; eauto.
  - destruct (f_err f || f_remote f); [destruct Hin | eapply Hdel; eauto].
  - destruct Hin.
  - destruct (o_local o); destruct Hin.
  - destruct (ref_registered o r); destruct Hin.
  - destruct Hin.
  - destruct Hin.
Qed.

Lemma step_keeps_unregistered : forall o s old,
  lookup_node (o_nid old) (nodes s) <> Some old -> o <> OAdd old ->
  lookup_node (o_nid old) (nodes (fst (step o s))) <> Some old.
Proof.
  intros o s old Hno Hne.
  destruct o as [c0 u|c0 h|o|n|c0 data ts|f| |o rx tx|o| |]; cbn [step].
  - cbn. auto.
  - destruct (unsubscribe c0 h (subs s)); cbn; auto.
  - unfold setitem.
    destruct (match lookup_node (o_nid o) (nodes s) with
              | Some old0 => unsub_seq (node_handlers (txs_of old0 (chans s)) old0) (subs s)
              | None => (subs s, Ok tt) end) as [m1 st].
    destruct st; cbn; auto.
    rewrite lookup_set_node. destruct (o_nid old =? o_nid o) eqn:E; auto.
    intros H. inversion H; subst. apply Hne; reflexivity.
  - unfold delitem. destruct (lookup_node n (nodes s)); cbn; auto.
    destruct (unsub_seq (node_handlers (txs_of n0 (chans s)) n0) (subs s)) as [m1 st]. destruct st; cbn; auto.
    rewrite lookup_del_node. destruct (o_nid old =? n); auto. discriminate.
  - cbn. auto.
  - unfold listener. destruct (f_err f || f_remote f); cbn; auto.
  - cbn. auto.
  - unfold add_sdo. destruct (o_local o); cbn; auto.
  - destruct (registered o s); cbn; auto.
  - cbn. auto.
  - cbn. auto.
Qed.

Lemma silent_general : forall ops s r old, sim s r -> inv r ->
  lookup_node (o_nid old) (nodes s) <> Some old ->
  Forall (fun o => o <> OAdd old) ops ->
  forall k c d t, ~ In (HNode old k, c, d, t) (concat (map log_of (snd (run_ops ops s)))).
Proof.
  induction ops as [|o rest IH]; intros s r old S I Hno Hall k c d t; cbn.
  - auto.
  - inversion Hall as [|? ? Ho Hrest]; subst.
    pose proof (step_log_silent o s r old S I Hno k c d t) as H1.
    pose proof (step_keeps_unregistered o s old Hno Ho) as H2.
    destruct (step_sim o s r S I) as [S1 [I1 _]].
    destruct (step o s) as [s1 x] eqn:E1. cbn in *.
    pose proof (IH s1 _ old S1 I1 H2 Hrest k c d t) as H3.
    destruct (run_ops rest s1) as [s2 xs] eqn:E3. cbn in *.
    rewrite in_app_iff. tauto.
Qed.

Lemma run_ops_app : forall a b s,
  run_ops (a ++ b) s =
  (fst (run_ops b (fst (run_ops a s))), snd (run_ops a s) ++ snd (run_ops b (fst (run_ops a s)))).
Proof.
  induction a as [|o r IH]; intros b s; cbn.
  - destruct (run_ops b s); reflexivity.
  - destruct (step o s) as [s1 x]. rewrite IH.
    destruct (run_ops r s1) as [s2 xs]. cbn. reflexivity.
Qed.

(* invariant form: in a state reached by ANY history, a node object that is not the one
   registered under its id has no callback in any list *)
Lemma unregistered_not_subscribed : forall ops old,
  let s := fst (run_ops ops init_net) in
  lookup_node (o_nid old) (nodes s) <> Some old ->
  forall c k, ~ In (HNode old k) (abs (subs s) c).
Proof.
  intros ops old s Hno c k Hin. subst s.
  destruct (run_sim ops init_net ref_init init_sim init_inv) as [S [I _]].
  rewrite (sim_map _ _ S) in Hin. apply (inv_nodes _ I) in Hin. destruct Hin as [A _].
  rewrite <- (sim_nodes _ _ S) in A. contradiction.
Qed.

Definition removes_or_replaces (o : op) (old : nobj) : Prop :=
  o = ODel (o_nid old) \/ exists o', o = OAdd o' /\ o_nid o' = o_nid old /\ o' <> old.

(* temporal form: after a successful remove / replace of [old], whatever happens next (short of
   adding the very same object again), no callback of [old] is invoked *)
Lemma removed_node_silent : forall ops1 old o ops2,
  let s := fst (run_ops ops1 init_net) in
  lookup_node (o_nid old) (nodes s) = Some old ->
  removes_or_replaces o old ->
  res_ok (snd (step o s)) = true ->
  Forall (fun o2 => o2 <> OAdd old) ops2 ->
  forall k c d t,
    ~ In (HNode old k, c, d, t) (concat (map log_of (snd (run_ops ops2 (fst (step o s)))))).
Proof.
  intros ops1 old o ops2 s Hreg Hrr Hok Hall. subst s.
  destruct (run_sim ops1 init_net ref_init init_sim init_inv) as [S [I _]].
  set (s := fst (run_ops ops1 init_net)) in *. set (r := fst (ref_run ops1 ref_init)) in *.
  destruct (step_sim o s r S I) as [S1 [I1 _]].
  apply (silent_general ops2 _ _ old S1 I1); auto.
  destruct Hrr as [->|[o' [-> [Hn Hne]]]]; cbn [step] in *.
  - unfold delitem in *. rewrite Hreg in *.
    destruct (unsub_seq (node_handlers (txs_of old (chans s)) old) (subs s)) as [m1 st].
    destruct st; cbn in *; try discriminate.
    rewrite lookup_del_node, Z.eqb_refl. discriminate.
  - unfold setitem in *.
    destruct (match lookup_node (o_nid o') (nodes s) with
              | Some old0 => unsub_seq (node_handlers (txs_of old0 (chans s)) old0) (subs s)
              | None => (subs s, Ok tt) end) as [m1 st].
    destruct st; cbn in *; try discriminate.
    rewrite lookup_set_node, Hn, Z.eqb_refl. intros H; inversion H; auto.
Qed.

(* ---- frames ---- *)
Lemma frame_format : forall (c : Z) (data : list Z) (remote : bool),
  let f := mk_frame c data remote in
  (f_id f = c /\ f_remote f = remote /\ (f_ext f = true <-> c > 2047) /\ f_err f = false /\
   f_data f = (if remote then [] else data)) /\
  send_message true c data remote = Ok [f] /\
  send_message false c data remote = Err E_RUNTIME /\
  (forall p, periodic_task c data p remote = (f, [(f, p)])).
Proof.
  intros c data remote f. subst f. unfold mk_frame, send_message, periodic_task; cbn.
  repeat split; auto; lia.
Qed.

Lemma listener_filters : forall (f : frame) (s : net),
  (f_err f = true \/ f_remote f = true -> listener f s = (s, [])) /\
  (f_err f = false -> f_remote f = false -> listener f s = notify (f_id f) (f_data f) (f_ts f) s).
Proof.
  intros f s. unfold listener. split.
  - intros [H|H]; rewrite H; [reflexivity | rewrite orb_true_r; reflexivity].
  - intros -> ->. reflexivity.
Qed.

(* subscribing the same callback twice: same state as subscribing once, and a frame is delivered
   to it exactly once (the delivery list has no duplicates and contains it) *)
Lemma double_subscribe_once : forall ops c u data ts,
  let s := fst (run_ops (ops ++ [OSub c u; OSub c u]) init_net) in
  s = fst (run_ops (ops ++ [OSub c u]) init_net) /\
  exists l, snd (notify c data ts s) = map (fun h => (h, c, data, ts)) l /\ NoDup l /\ In (HUser u) l.
Proof.
  intros ops c u data ts s. subst s. split.
  - rewrite !run_ops_app. cbn. unfold with_subs; cbn. rewrite subscribe_idempotent. reflexivity.
  - exists (r_map (fst (ref_run (ops ++ [OSub c u; OSub c u]) ref_init)) c).
    split; [apply notify_delivers|].
    destruct (dispatch_refines (ops ++ [OSub c u; OSub c u])) as [_ [A N]].
    split; [apply N|]. rewrite <- A. rewrite run_ops_app. cbn.
    unfold abs. rewrite lookup_subscribe_same.
    match goal with |- In _ (if ?b then _ else _) => destruct b eqn:E end.
    + apply hmem_spec in E. exact E.
    + rewrite in_app_iff. right; left; reflexivity.
Qed.

(* ---- periodic task: the message after any number of update() calls ---- *)
Definition frame_ok (c : Z) (remote : bool) (f : frame) : Prop :=
  f_id f = c /\ f_remote f = remote /\ f_ext f = (c >? 2047) /\ f_err f = false.

Definition call_ok (c : Z) (remote : bool) (d : list Z) (b : bus_call) : Prop :=
  match b with
  | BModify f dlc => frame_ok c remote f /\ f_data f = d /\ dlc = Z.of_nat (length d)
  | BStop => True
  | BSendPeriodic f dlc _ => frame_ok c remote f /\ f_data f = d /\ dlc = Z.of_nat (length d)
  end.

Lemma periodic_updates_ok : forall modify period c remote ds st,
  frame_ok c remote (fst st) ->
  Forall2 (fun d sc => frame_ok c remote (fst (fst sc)) /\ f_data (fst (fst sc)) = d /\
                       snd (fst sc) = Z.of_nat (length d) /\
                       Forall (call_ok c remote d) (snd sc))
          ds (periodic_updates modify period st ds).
Proof.
  induction ds as [|d r IH]; intros [m dlc] Hok; cbn [periodic_updates].
  - constructor.
  - assert (Hm : frame_ok c remote (set_frame_data m d)) by (destruct Hok as [A [B [C D]]]; repeat split; auto).
    unfold periodic_update. cbn [fst] in Hok.
    destruct modify; [|destruct (list_Z_eqb d (f_data m))]; constructor;
      try (apply IH; exact Hm); cbn; repeat split; auto; try apply Hm;
      repeat constructor; try apply Hm.
Qed.

Lemma periodic_update_format : forall modify period c data remote ds,
  Forall2 (fun d sc => frame_ok c remote (fst (fst sc)) /\ f_data (fst (fst sc)) = d /\
                       snd (fst sc) = Z.of_nat (length d) /\
                       Forall (call_ok c remote d) (snd sc))
          ds (periodic_updates modify period (periodic_start c data remote) ds).
Proof.
  intros. apply periodic_updates_ok. unfold periodic_start, mk_frame, frame_ok; cbn. auto.
Qed.

(* ---- re-entrant callbacks (snapshot rule of Network.notify) ---- *)
Lemma reentrant_dispatch_snapshot : forall scripts c data ts s,
  snd (notify_re scripts c data ts s) = Ok (snd (notify c data ts s)) /\
  snd (notify c data ts s) = map (fun h => (h, c, data, ts)) (abs (subs s) c).
Proof.
  intros. unfold notify_re, notify, live_list, abs; cbn.
  destruct (lookup c (subs s)); split; reflexivity.
Qed.

Lemma dispatch_re_nil : forall l s, dispatch_re [] l s = s.
Proof. induction l as [|h r IH]; intros; cbn; auto. destruct h; cbn; apply IH. Qed.

Lemma step_re_nil : forall o s, step_re [] o s = step o s.
Proof.
  intros o s. destruct o; cbn [step_re step]; auto.
  - unfold notify_re, notify, live_list. rewrite dispatch_re_nil. cbn.
    destruct (lookup c (subs s)); reflexivity.
  - unfold listener. destruct (f_err f || f_remote f); auto.
    unfold notify_re, notify, live_list. rewrite dispatch_re_nil. cbn.
    destruct (lookup (f_id f) (subs s)); reflexivity.
Qed.

(* a history without re-entrant callbacks is a plain history: the theorems above apply to it *)
Lemma run_ops_re_nil : forall ops s, run_ops_re [] ops s = run_ops ops s.
Proof.
  induction ops as [|o r IH]; intros; cbn; auto.
  rewrite step_re_nil. destruct (step o s) as [s1 x]. rewrite IH. reflexivity.
Qed.
