(* Tie (c): SdoServer.segmented_upload as translated from the CURRENT source text (Gen/Src.v) computes the
   command byte and the next toggle of the model's segmented_upload (Model/SdoServer.v, C02). *)
From Coq Require Import ZArith List Bool Lia.
From CV Require Import Base.Val Base.Bytes Base.Tys Base.PyLib Gen.SdoTables Gen.SrcC02 Model.Codec Model.SdoServer.
Import ListNotations.
Open Scope Z_scope.

Lemma zlen_firstn7 (buf : list Z) : zlen (firstn 7 buf) = Z.min (zlen buf) 7.
Proof. unfold zlen. rewrite firstn_length. lia. Qed.

Lemma skipn7_nil (buf : list Z) : (Z.max 0 (zlen buf - 7) =? 0) = match skipn 7 buf with [] => true | _ => false end.
Proof.
  unfold zlen. pose proof (skipn_length 7 buf) as H.
  destruct (skipn 7 buf) eqn:E; cbn [length] in H; lia.
Qed.

Theorem src_server_segmented_upload_eq st command buf : s_buf st = Some buf ->
  match src_server_segmented_upload command (s_toggle st) (zlen buf) with
  | None => segmented_upload st command = (st, Abort AB_TOGGLE)
  | Some (c, t) => exists data st', segmented_upload st command = (st', Ok [c :: data]) /\ s_toggle st' = t
  end.
Proof.
  intros Hb. unfold src_server_segmented_upload, segmented_upload. cbv zeta.
  destruct (negb (Z.land command TOGGLE_BIT =? s_toggle st)); [reflexivity|].
  rewrite Hb, skipn7_nil, zlen_firstn7.
  destruct (skipn 7 buf); eexists; eexists; split; reflexivity.
Qed.
