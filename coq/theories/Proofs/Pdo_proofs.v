(* Proofs about Model/Pdo.v (C05). *)
From Coq Require Import ZArith List Bool Lia ZifyBool.
From CV Require Import Base.Val Base.Bytes Base.Bits Base.Tys Gen.Tables Model.Codec Model.Pdo Proofs.Codec_proofs.
Import ListNotations.
Open Scope Z_scope.
Ltac Zify.zify_post_hook ::= Z.to_euclidean_division_equations.

(* ------------------------------------------------------------------ lists of bytes *)
Lemma bytes_ok_firstn n l : bytes_ok l -> bytes_ok (firstn n l).
Proof. revert n. induction l as [|x r IH]; intros [|n] H; cbn; try constructor; inversion H; subst; auto. apply IH; auto. Qed.

Lemma bytes_ok_skipn n l : bytes_ok l -> bytes_ok (skipn n l).
Proof. revert n. induction l as [|x r IH]; intros [|n] H; cbn; auto. inversion H; subst. apply IH; auto. Qed.

Lemma bytes_ok_app a b : bytes_ok a -> bytes_ok b -> bytes_ok (a ++ b).
Proof. intros. apply Forall_app; auto. Qed.

Lemma In_firstn_aux {A} (x : A) n l : In x (firstn n l) -> In x l.
Proof.
  revert n. induction l as [|y r IH]; intros [|n] H; cbn in *; try contradiction.
  destruct H as [H|H]; [left; exact H|right; eapply IH; exact H].
Qed.

Lemma In_skipn_aux {A} (x : A) n l : In x (skipn n l) -> In x l.
Proof.
  revert n. induction l as [|y r IH]; intros [|n] H; cbn in *; try contradiction; try exact H.
  right. eapply IH. exact H.
Qed.

Lemma nth_firstn_lt {A} (d : A) n j l : (j < n)%nat -> nth j (firstn n l) d = nth j l d.
Proof.
  revert n j. induction l as [|x r IH]; intros [|n] [|j] H; cbn; try lia; auto. apply IH. lia.
Qed.

Lemma nth_firstn_ge {A} (d : A) n j l : (n <= j)%nat -> nth j (firstn n l) d = d.
Proof. intros H. apply nth_overflow. rewrite firstn_length. lia. Qed.

Lemma nth_skipn {A} (d : A) n j l : nth j (skipn n l) d = nth (n + j) l d.
Proof.
  revert n. induction l as [|x r IH]; intros [|n]; cbn; auto.
  - destruct j; reflexivity.
Qed.

(* bits of a byte above 7 are clear *)
Lemma byte_high_bits b k : 0 <= b < 256 -> 8 <= k -> Z.testbit b k = false.
Proof.
  intros Hb Hk. destruct (Z.eq_dec b 0) as [->|Hn]; [apply Z.bits_0|].
  apply Z.bits_above_log2; [lia|].
  assert (Z.log2 b < 8) by (apply Z.log2_lt_pow2; [lia|]; change (2 ^ 8) with 256; lia). lia.
Qed.

Lemma nth_byte_ok l j : bytes_ok l -> 0 <= nth j l 0 < 256.
Proof.
  intros H. destruct (Nat.lt_ge_cases j (length l)) as [L|L].
  - unfold bytes_ok in H. rewrite Forall_forall in H. apply (H (nth j l 0)). now apply nth_In.
  - rewrite nth_overflow by lia. lia.
Qed.

(* bit i of the frame number, also beyond the end *)
Lemma le_decode_bit l i : bytes_ok l -> 0 <= i ->
  Z.testbit (le_decode l) i = Z.testbit (nth (Z.to_nat (i / 8)) l 0) (i mod 8).
Proof. apply le_decode_testbit. Qed.

(* ------------------------------------------------------------------ slices are fields *)
Lemma le_decode_slice l a n : bytes_ok l -> 0 <= a -> 0 <= n ->
  le_decode (slice l a (a + n)) = get_field (le_decode l) (8 * a) (8 * n).
Proof.
  intros Hl Ha Hn. apply Z.bits_inj'. intros i Hi.
  unfold slice. replace (a + n - a) with n by lia.
  rewrite le_decode_bit by (try apply bytes_ok_firstn; try apply bytes_ok_skipn; auto).
  rewrite get_field_spec by lia.
  destruct (i <? 8 * n) eqn:E.
  - rewrite nth_firstn_lt by lia. rewrite nth_skipn.
    rewrite le_decode_bit by (auto; lia).
    replace (Z.to_nat ((i + 8 * a) / 8)) with (Z.to_nat a + Z.to_nat (i / 8))%nat by lia.
    f_equal. lia.
  - rewrite nth_firstn_ge by lia. apply Z.bits_0.
Qed.

Definition splice (l : list Z) (a : Z) (d : list Z) : list Z :=
  firstn (Z.to_nat a) l ++ d ++ skipn (Z.to_nat (a + zlen d)) l.

Lemma splice_length l a d : 0 <= a -> a + zlen d <= zlen l -> zlen (splice l a d) = zlen l.
Proof.
  intros Ha H. unfold splice, zlen in *. rewrite !app_length, firstn_length, skipn_length. lia.
Qed.

Lemma splice_ok l a d : bytes_ok l -> bytes_ok d -> bytes_ok (splice l a d).
Proof. intros. unfold splice. repeat apply bytes_ok_app; auto using bytes_ok_firstn, bytes_ok_skipn. Qed.

Lemma nth_splice l a d j : 0 <= a -> a + zlen d <= zlen l ->
  nth j (splice l a d) 0 =
  if (Z.of_nat j <? a) then nth j l 0
  else if (Z.of_nat j <? a + zlen d) then nth (j - Z.to_nat a) d 0
  else nth j l 0.
Proof.
  intros Ha H. unfold splice, zlen in *.
  destruct (Z.of_nat j <? a) eqn:E1.
  - rewrite app_nth1 by (rewrite firstn_length; lia). apply nth_firstn_lt. lia.
  - rewrite app_nth2 by (rewrite firstn_length; lia). rewrite firstn_length.
    replace (Nat.min (Z.to_nat a) (length l)) with (Z.to_nat a) by lia.
    destruct (Z.of_nat j <? a + Z.of_nat (length d)) eqn:E2.
    + apply app_nth1. lia.
    + rewrite app_nth2 by lia. rewrite nth_skipn. f_equal. lia.
Qed.

Lemma le_decode_splice l a d : bytes_ok l -> bytes_ok d -> 0 <= a -> a + zlen d <= zlen l ->
  le_decode (splice l a d) = set_field (le_decode l) (8 * a) (8 * zlen d) (le_decode d).
Proof.
  intros Hl Hd Ha H. apply Z.bits_inj'. intros i Hi.
  assert (Hzd : 0 <= zlen d) by (unfold zlen; lia).
  rewrite le_decode_bit by (auto using splice_ok).
  rewrite set_field_spec by lia.
  rewrite nth_splice by auto. rewrite Z2Nat.id by lia.
  destruct (i / 8 <? a) eqn:E1.
  - replace ((8 * a <=? i) && (i <? 8 * a + 8 * zlen d)) with false by lia.
    now rewrite le_decode_bit by auto.
  - destruct (i / 8 <? a + zlen d) eqn:E2.
    + replace ((8 * a <=? i) && (i <? 8 * a + 8 * zlen d)) with true by lia.
      rewrite le_decode_bit by (auto; lia).
      replace (Z.to_nat ((i - 8 * a) / 8)) with (Z.to_nat (i / 8) - Z.to_nat a)%nat by lia.
      f_equal. lia.
    + replace ((8 * a <=? i) && (i <? 8 * a + 8 * zlen d)) with false by lia.
      now rewrite le_decode_bit by auto.
Qed.

(* ------------------------------------------------------------------ field arithmetic *)
Lemma testbit_top d len : 0 < len -> 0 <= d < 2 ^ len -> Z.testbit d (len - 1) = (2 ^ (len - 1) <=? d).
Proof.
  intros Hl Hd. pose proof (pow_split len Hl) as Hs.
  assert (Hp : 0 < 2 ^ (len - 1)) by (apply Z.pow_pos_nonneg; lia).
  remember (2 ^ (len - 1)) as x eqn:Ex.
  destruct (x <=? d) eqn:E.
  - apply Z.testbit_true; [lia|]. rewrite <- Ex.
    assert (H1 : d / x = 1) by (symmetry; apply (Z.div_unique d x 1 (d - x)); lia).
    rewrite H1. reflexivity.
  - apply Z.testbit_false; [lia|]. rewrite <- Ex. rewrite Z.div_small by lia. reflexivity.
Qed.

Lemma sign_fix d len : 0 < len -> 0 <= d < 2 ^ len ->
  (if Z.testbit d (len - 1) then d - 2 ^ len else d) = sext len d.
Proof.
  intros Hl Hd. rewrite testbit_top by assumption. unfold sext.
  destruct (2 ^ (len - 1) <=? d) eqn:E; destruct (d <? 2 ^ (len - 1)) eqn:F; lia.
Qed.

Lemma set_field_mod old off len v w : 0 <= off -> 0 <= len -> len <= w ->
  set_field old off len (v mod 2 ^ w) = set_field old off len v.
Proof.
  intros Ho Hl Hw. unfold set_field. f_equal. f_equal.
  apply Z.bits_inj'. intros i Hi. rewrite !Z.land_spec.
  destruct (i <? len) eqn:E.
  - rewrite Z.mod_pow2_bits_low by lia. reflexivity.
  - rewrite Z.ones_spec_high by lia. now rewrite !andb_false_r.
Qed.

Lemma in_range_sext len w d : 0 < len -> len <= w -> 0 <= d < 2 ^ len -> in_range true w (sext len d) = true.
Proof.
  intros Hl Hw Hd. pose proof (sext_range len d Hl Hd).
  assert (2 ^ (len - 1) <= 2 ^ (w - 1)) by (apply Z.pow_le_mono_r; lia).
  unfold in_range. lia.
Qed.

Lemma in_range_field len w d : 0 <= len -> len <= w -> 0 <= d < 2 ^ len -> in_range false w d = true.
Proof.
  intros Hl Hw Hd. assert (2 ^ len <= 2 ^ w) by (apply Z.pow_le_mono_r; lia). unfold in_range. lia.
Qed.

(* ------------------------------------------------------------------ what is mapped *)
(* the kinds of object the property quantifies over *)
Inductive ftype := FInt (s : bool) (w : Z) | FBool | FReal (w : Z).

(* entry (dt, len) is an object of kind ft mapped with its own length, or (BOOLEAN) as one bit,
   or (8-bit integer types) with a sub-byte length *)
Definition entry_is (dt len : Z) (ft : ftype) : Prop :=
  match ft with
  | FInt s w => exists p, zassoc dt STRUCT_TYPES = Some p /\ int_packer p = Some (s, w) /\
                          (len = w \/ (w = 8 /\ 1 <= len <= 8))
  | FBool => zassoc dt STRUCT_TYPES = Some PBool /\ len = 1
  | FReal w => zassoc dt STRUCT_TYPES = Some (PReal w) /\ len = w
  end.

Definition field_value (ft : ftype) (len f : Z) : pyval :=
  match ft with
  | FInt s _ => PInt (if s then sext len f else f)
  | FBool => PInt f
  | FReal _ => PFloat f
  end.

Definition write_value (ft : ftype) (v : Z) : pyval :=
  match ft with FReal _ => PFloat v | _ => PInt v end.

Definition fits (ft : ftype) (v : Z) : Prop :=
  match ft with
  | FInt s w => in_range s w v = true
  | FBool => v = 0 \/ v = 1
  | FReal w => 0 <= v < 2 ^ w
  end.

Lemma signed_iff t p s w : zassoc t STRUCT_TYPES = Some p -> int_packer p = Some (s, w) -> is_signed t = s.
Proof.
  intros Ht Hp. pose proof (entry_ok_of t p Ht) as E. unfold entry_ok in E.
  unfold is_signed.
  destruct p; cbn in Hp; try discriminate; injection Hp as <- <-; cbv beta iota in E;
    rewrite !andb_true_iff in E.
  - destruct E as (_ & (_ & E) & _). apply eqb_prop in E. auto.
  - destruct E as (_ & (_ & E) & _). auto.
  - destruct E as (_ & (_ & E) & _). rewrite negb_true_iff in E. auto.
Qed.

Lemma nonint_unsigned_b :
  forallb (fun e => match snd e with PBool | PReal _ => negb (zmem (fst e) SIGNED_TYPES) | _ => true end) STRUCT_TYPES = true.
Proof. vm_compute. reflexivity. Qed.

Lemma nonint_unsigned t p : zassoc t STRUCT_TYPES = Some p -> (p = PBool \/ exists w, p = PReal w) -> is_signed t = false.
Proof.
  intros Ht Hp. apply zassoc_In in Ht. pose proof nonint_unsigned_b as T.
  rewrite forallb_forall in T. specialize (T _ Ht). cbn [fst snd] in T.
  unfold is_signed. destruct Hp as [->|(w & ->)]; now rewrite negb_true_iff in T.
Qed.

Lemma od_size_of t p : zassoc t STRUCT_TYPES = Some p -> od_size t = packer_bits p / 8 * 8 / 8.
Proof. intros Ht. unfold od_size, len_bits. now rewrite Ht. Qed.

(* ------------------------------------------------------------------ reading *)
Theorem pdo_read_spec frame dt off len ft :
  bytes_ok frame -> entry_is dt len ft -> 0 <= off -> off + len <= 8 * zlen frame ->
  pdo_read frame dt off len = Ok (field_value ft len (get_field (le_decode frame) off len)).
Proof.
  intros Hf He Ho Hfit. unfold pdo_read, pdo_get_data.
  set (F := le_decode frame). set (d := get_field F off len).
  destruct ft as [s w| |w]; cbn [entry_is field_value] in *.
  - (* integer *)
    destruct He as (p & Ht & Hp & Hown).
    destruct (packer_wf_of dt p s w Ht Hp) as (Hwf & Hw). pose proof (width_div w Hw) as (Hd8 & He8 & H64).
    rewrite (signed_iff dt p s w Ht Hp).
    assert (Hsz : od_size dt = w / 8).
    { rewrite (od_size_of dt p Ht). destruct p; cbn in Hp; try discriminate; injection Hp as <- <-; cbn [packer_bits]; lia. }
    assert (Hl0 : 0 < len) by lia. assert (Hlw : len <= w) by lia.
    pose proof (get_field_range F off len Ho ltac:(lia)) as Hdr. fold d in Hdr.
    destruct (negb (off mod 8 =? 0) || negb (len mod 8 =? 0)) eqn:Una.
    + (* bit-field path *)
      rewrite Hsz. unfold to_bytes. replace (8 * (w / 8)) with w by lia.
      destruct s; cbn [andb].
      * rewrite sign_fix by assumption. rewrite in_range_sext by assumption. cbn [rbind].
        now rewrite (decode_encode dt p true w _ Ht Hp) by now apply in_range_sext.
      * rewrite (in_range_field len w d) by (assumption || lia). cbn [rbind].
        now rewrite (decode_encode dt p false w _ Ht Hp) by (apply (in_range_field len w d); assumption || lia).
    + (* byte-aligned, whole bytes: len = w *)
      assert (len = w) by lia. subst len.
      cbn [rbind]. rewrite Hsz.
      assert (Hsl : le_decode (slice frame (off / 8) (off / 8 + w / 8)) = d).
      { rewrite le_decode_slice by (auto; lia). unfold d. f_equal; lia. }
      assert (Hlen : zlen (slice frame (off / 8) (off / 8 + w / 8)) = w / 8).
      { unfold slice, zlen in *. rewrite firstn_length, skipn_length. lia. }
      rewrite (decode_raw_int dt p _ Ht) by eauto.
      rewrite (iunpack_ok p s w _ Hwf Hp) by (auto; unfold slice; auto using bytes_ok_firstn, bytes_ok_skipn).
      now rewrite Hsl.
  - (* BOOLEAN as one bit *)
    destruct He as (Ht & ->).
    rewrite (nonint_unsigned dt PBool Ht) by auto.
    replace (negb (off mod 8 =? 0) || negb (1 mod 8 =? 0)) with true by (cbn; lia).
    cbn [andb]. rewrite (od_size_of dt PBool Ht). cbn [packer_bits]. change (8 / 8 * 8 / 8) with 1.
    pose proof (get_field_range F off 1 Ho ltac:(lia)) as Hdr. fold d in Hdr. change (2 ^ 1) with 2 in Hdr.
    unfold to_bytes. rewrite (in_range_field 1 (8 * 1) d) by (cbn; lia). cbn [rbind Z.to_nat Pos.to_nat Pos.iter_op Nat.add le_encode].
    destruct (not_text _ _ Ht) as (A & B & C & D).
    unfold decode_raw. rewrite A, B, Ht. cbn [unpack zlen length Z.of_nat Pos.of_succ_nat Z.eqb Pos.eqb le_decode].
    assert (Hd : d = 0 \/ d = 1) by lia. destruct Hd as [-> | ->]; reflexivity.
  - (* REAL *)
    destruct He as (Ht & ->).
    rewrite (nonint_unsigned dt (PReal w) Ht) by eauto.
    pose proof (entry_ok_of _ _ Ht) as E. unfold entry_ok in E. rewrite !andb_true_iff in E.
    destruct E as (_ & E). assert (Hw : w = 32 \/ w = 64) by lia.
    assert (Hsz : od_size dt = w / 8) by (rewrite (od_size_of dt _ Ht); cbn [packer_bits]; lia).
    pose proof (get_field_range F off w Ho ltac:(lia)) as Hdr. fold d in Hdr.
    destruct (negb (off mod 8 =? 0) || negb (w mod 8 =? 0)) eqn:Una.
    + cbn [andb]. rewrite Hsz. unfold to_bytes. rewrite (in_range_field w (8 * (w / 8)) d) by lia.
      cbn [rbind]. destruct (real_codec dt w d Ht Hdr) as (_ & R). exact R.
    + cbn [rbind]. rewrite Hsz.
      assert (Hsl : le_decode (slice frame (off / 8) (off / 8 + w / 8)) = d).
      { rewrite le_decode_slice by (auto; lia). unfold d. f_equal; lia. }
      assert (Hlen : zlen (slice frame (off / 8) (off / 8 + w / 8)) = w / 8).
      { unfold slice, zlen in *. rewrite firstn_length, skipn_length. lia. }
      destruct (not_text _ _ Ht) as (A & B & C & D).
      unfold decode_raw. rewrite A, B, Ht. cbn [unpack]. rewrite Hlen, Z.eqb_refl, Hsl. reflexivity.
Qed.

(* ------------------------------------------------------------------ writing *)
Lemma encode_value ft dt len v : entry_is dt len ft -> fits ft v ->
  exists data w, encode_raw (Some dt) (write_value ft v) = Ok data /\ bytes_ok data /\
                 zlen data = w / 8 /\ w = 8 * (w / 8) /\ 0 < w / 8 /\ len <= w /\ 0 < len /\
                 (len mod 8 = 0 -> len = w) /\
                 le_decode data = v mod 2 ^ w.
Proof.
  intros He Hv. destruct ft as [s w| |w]; cbn [entry_is fits write_value] in *.
  - destruct He as (p & Ht & Hp & Hown).
    destruct (packer_wf_of dt p s w Ht Hp) as (Hwf & Hw). pose proof (width_div w Hw) as (Hd8 & He8 & H64).
    exists (le_encode (Z.to_nat (w / 8)) v), w.
    rewrite (encode_exact dt p s w v Ht Hp Hv). rewrite zlen_le_encode, le_decode_encode.
    repeat split; try lia. apply le_encode_ok. f_equal. f_equal. lia.
  - destruct He as (Ht & ->). exists [v], 8.
    destruct (not_text _ _ Ht) as (A & B & C & D).
    unfold encode_raw. rewrite A, B, C, D, Ht. cbn [orb pack].
    assert (Hb : bytes_ok [v]) by (repeat constructor; unfold byte_ok; lia).
    destruct Hv as [-> | ->]; cbn; repeat split; try lia; auto.
  - destruct He as (Ht & ->).
    pose proof (entry_ok_of _ _ Ht) as E. unfold entry_ok in E. rewrite !andb_true_iff in E.
    destruct E as (_ & E). assert (Hw : w = 32 \/ w = 64) by lia.
    exists (le_encode (Z.to_nat (w / 8)) v), w.
    destruct (real_codec dt w v Ht Hv) as (R & _). rewrite R.
    rewrite zlen_le_encode, le_decode_encode.
    repeat split; try lia. apply le_encode_ok. f_equal. f_equal. lia.
Qed.

Theorem pdo_write_spec frame dt off len ft v :
  bytes_ok frame -> entry_is dt len ft -> fits ft v -> 0 <= off -> off + len <= 8 * zlen frame ->
  exists frame', pdo_write frame dt off len (write_value ft v) = Ok frame' /\
                 zlen frame' = zlen frame /\ bytes_ok frame' /\
                 le_decode frame' = set_field (le_decode frame) off len v.
Proof.
  intros Hf He Hv Ho Hfit.
  destruct (encode_value ft dt len v He Hv) as (data & w & Henc & Hdok & Hdl & Hw8 & Hw0 & Hlw & Hl0 & Hal & Hdec).
  unfold pdo_write. rewrite Henc. cbn [rbind]. unfold pdo_set_data.
  pose proof (le_decode_range frame Hf) as Hfr.
  destruct (negb (off mod 8 =? 0) || negb (len mod 8 =? 0)) eqn:Una.
  - pose proof (set_field_bound (le_decode frame) off len (le_decode data) (8 * zlen frame) Hfr Ho ltac:(lia) Hfit) as Hb.
    unfold to_bytes, in_range.
    replace ((0 <=? set_field (le_decode frame) off len (le_decode data)) &&
             (set_field (le_decode frame) off len (le_decode data) <? 2 ^ (8 * zlen frame))) with true by lia.
    eexists. split; [reflexivity|].
    rewrite zlen_le_encode, le_decode_encode.
    assert (Hzl : 0 <= zlen frame) by (unfold zlen; lia).
    rewrite !Z2Nat.id by lia. rewrite Z.mod_small by lia.
    split; [reflexivity|]. split; [apply le_encode_ok|].
    rewrite Hdec. apply set_field_mod; lia.
  - assert (len = w) by (apply Hal; lia). subst len.
    fold (splice frame (off / 8) data).
    assert (Hin : off / 8 + zlen data <= zlen frame) by lia.
    eexists. split; [reflexivity|].
    split; [apply splice_length; lia|]. split; [now apply splice_ok|].
    rewrite le_decode_splice by (auto; lia).
    rewrite Hdec.
    replace (8 * (off / 8)) with off by lia. replace (8 * zlen data) with w by lia.
    apply set_field_mod; lia.
Qed.

(* out-of-range values are refused: the frame cannot change because nothing is returned *)
Theorem pdo_write_rejects frame dt off len s w p v :
  zassoc dt STRUCT_TYPES = Some p -> int_packer p = Some (s, w) -> in_range s w v = false ->
  pdo_write frame dt off len (PInt v) = Err E_VALUE.
Proof. intros Ht Hp Hr. unfold pdo_write. now rewrite (encode_rejects dt p s w v Ht Hp Hr). Qed.

(* bit-level statement of a write *)
Theorem pdo_write_bits frame dt off len ft v :
  bytes_ok frame -> entry_is dt len ft -> fits ft v -> 0 <= off -> off + len <= 8 * zlen frame ->
  exists frame', pdo_write frame dt off len (write_value ft v) = Ok frame' /\
    length frame' = length frame /\ bytes_ok frame' /\
    forall i, 0 <= i ->
      Z.testbit (nth (Z.to_nat (i / 8)) frame' 0) (i mod 8) =
      if (off <=? i) && (i <? off + len) then Z.testbit v (i - off)
      else Z.testbit (nth (Z.to_nat (i / 8)) frame 0) (i mod 8).
Proof.
  intros Hf He Hv Ho Hfit.
  destruct (pdo_write_spec frame dt off len ft v Hf He Hv Ho Hfit) as (f' & Hw & Hl & Hok & Hd).
  exists f'. split; [assumption|]. split; [unfold zlen in Hl; lia|]. split; [assumption|].
  intros i Hi. rewrite <- !le_decode_bit by assumption. rewrite Hd.
  destruct (encode_value ft dt len v He Hv) as (_ & _ & _ & _ & _ & _ & _ & _ & Hl0 & _).
  apply set_field_spec; lia.
Qed.

(* the value read back is the value's low [len] bits, reinterpreted by the type *)
Theorem pdo_read_after_write frame dt off len ft v :
  bytes_ok frame -> entry_is dt len ft -> fits ft v -> 0 <= off -> off + len <= 8 * zlen frame ->
  exists frame', pdo_write frame dt off len (write_value ft v) = Ok frame' /\
    pdo_read frame' dt off len = Ok (field_value ft len (v mod 2 ^ len)).
Proof.
  intros Hf He Hv Ho Hfit.
  destruct (pdo_write_spec frame dt off len ft v Hf He Hv Ho Hfit) as (f' & Hw & Hl & Hok & Hd).
  exists f'. split; [assumption|].
  destruct (encode_value ft dt len v He Hv) as (_ & _ & _ & _ & _ & _ & _ & _ & Hl0 & _).
  rewrite (pdo_read_spec f' dt off len ft Hok He Ho) by lia.
  rewrite Hd, get_set by lia. rewrite Z.land_ones by lia. reflexivity.
Qed.

(* in-range values of a full-length field come back unchanged *)
Lemma full_field_value ft dt w v : entry_is dt w ft -> fits ft v ->
  match ft with FInt _ w' => w = w' | _ => True end ->
  field_value ft w (v mod 2 ^ w) = write_value ft v.
Proof.
  intros He Hv Hfull. destruct ft as [s w'| |w']; cbn in *.
  - subst w'. destruct He as (p & Ht & Hp & _).
    destruct (packer_wf_of dt p s w Ht Hp) as (_ & Hw). pose proof (width_div w Hw) as (Hd8 & He8 & H64).
    unfold in_range in Hv. destruct s; f_equal.
    + apply sext_mod; lia.
    + apply Z.mod_small; lia.
  - destruct He as (_ & ->). destruct Hv as [-> | ->]; reflexivity.
  - destruct He as (_ & ->). f_equal. apply Z.mod_small; lia.
Qed.

(* a write never disturbs a disjoint variable *)
Theorem pdo_write_preserves_other frame dt off len ft v dt2 off2 len2 ft2 :
  bytes_ok frame -> entry_is dt len ft -> fits ft v -> 0 <= off -> off + len <= 8 * zlen frame ->
  entry_is dt2 len2 ft2 -> 0 <= off2 -> off2 + len2 <= 8 * zlen frame ->
  off2 + len2 <= off \/ off + len <= off2 ->
  exists frame', pdo_write frame dt off len (write_value ft v) = Ok frame' /\
    pdo_read frame' dt2 off2 len2 = pdo_read frame dt2 off2 len2.
Proof.
  intros Hf He Hv Ho Hfit He2 Ho2 Hfit2 Hdis.
  destruct (pdo_write_spec frame dt off len ft v Hf He Hv Ho Hfit) as (f' & Hw & Hl & Hok & Hd).
  exists f'. split; [assumption|].
  destruct (encode_value ft dt len v He Hv) as (_ & _ & _ & _ & _ & _ & _ & _ & Hl0 & _).
  assert (Hl2 : 0 <= len2).
  { destruct ft2; cbn in He2.
    - destruct He2 as (p & Ht & Hp & Hown). destruct (packer_wf_of _ _ _ _ Ht Hp) as (_ & Hw2).
      pose proof (width_div _ Hw2). lia.
    - lia.
    - destruct He2 as (Ht & ->). pose proof (entry_ok_of _ _ Ht) as E. unfold entry_ok in E.
      rewrite !andb_true_iff in E. lia. }
  rewrite (pdo_read_spec f' dt2 off2 len2 ft2 Hok He2 Ho2) by lia.
  rewrite (pdo_read_spec frame dt2 off2 len2 ft2 Hf He2 Ho2) by lia.
  rewrite Hd, get_set_other by lia. reflexivity.
Qed.

(* ------------------------------------------------------------------ layout *)
Lemma fold_shift l x : fold_left (fun a e => a + e_len e) l x = x + fold_left (fun a e => a + e_len e) l 0.
Proof.
  revert x. induction l as [|y l IH]; intros x; cbn [fold_left]; [lia|].
  rewrite (IH (x + e_len y)), (IH (0 + e_len y)). lia.
Qed.

Lemma offsets_from_nth start es k off : nth_error (offsets_from start es) k = Some off ->
  off = start + total_bits (firstn k es).
Proof.
  revert start k. induction es as [|e r IH]; intros start [|k] H; cbn in H; try discriminate.
  - injection H as <-. cbn. unfold total_bits. cbn. lia.
  - apply IH in H. subst off. unfold total_bits. cbn [firstn fold_left].
    rewrite (fold_shift _ (0 + e_len e)). lia.
Qed.

Lemma total_bits_app a b : total_bits (a ++ b) = total_bits a + total_bits b.
Proof.
  unfold total_bits. rewrite fold_left_app.
  apply fold_shift.
Qed.

Lemma total_bits_nonneg es : Forall (fun e => 0 <= e_len e) es -> 0 <= total_bits es.
Proof.
  induction 1 as [|e r He Hr IH]; [cbn; lia|].
  change (e :: r) with ([e] ++ r). rewrite total_bits_app.
  assert (Hone : total_bits [e] = e_len e) by (unfold total_bits; cbn [fold_left]; lia). lia.
Qed.

Lemma firstn_split_nth {A} (l : list A) k e : nth_error l k = Some e -> firstn (S k) l = firstn k l ++ [e].
Proof.
  revert k. induction l as [|x r IH]; intros [|k] H; cbn in *; try discriminate.
  - now injection H as ->.
  - f_equal. auto.
Qed.

(* offsets are prefix sums; fields are pairwise disjoint, in order, and inside the frame *)
Theorem layout_offsets es : Forall (fun e => 0 <= e_len e) es ->
  length (offsets es) = length es /\
  (forall k e off, nth_error es k = Some e -> nth_error (offsets es) k = Some off ->
     off = total_bits (firstn k es) /\ 0 <= off /\ off + e_len e <= total_bits es) /\
  (forall i j ei ej oi oj, (i < j)%nat -> nth_error es i = Some ei -> nth_error es j = Some ej ->
     nth_error (offsets es) i = Some oi -> nth_error (offsets es) j = Some oj -> oi + e_len ei <= oj) /\
  8 * (frame_len es - 1) < total_bits es <= 8 * frame_len es.
Proof.
  intros Hpos.
  assert (Hlen : forall s l, length (offsets_from s l) = length l)
    by (intros s l; revert s; induction l; intros; cbn; auto).
  assert (Hpre : forall k, 0 <= total_bits (firstn k es)).
  { intros k. apply total_bits_nonneg. rewrite Forall_forall in *. intros x Hx. apply Hpos.
    eapply In_firstn_aux. exact Hx. }
  split; [apply Hlen|]. split; [|split].
  - intros k e off He Ho. apply offsets_from_nth in Ho. split; [lia|]. split; [rewrite Ho; apply Hpre|].
    assert (Hsplit : total_bits es = total_bits (firstn (S k) es) + total_bits (skipn (S k) es))
      by (rewrite <- total_bits_app, firstn_skipn; reflexivity).
    rewrite Hsplit, (firstn_split_nth es k e He), total_bits_app.
    assert (0 <= total_bits (skipn (S k) es)).
    { apply total_bits_nonneg. rewrite Forall_forall in *. intros x Hx. apply Hpos. eapply In_skipn_aux. exact Hx. }
    assert (Hone : total_bits [e] = e_len e) by (unfold total_bits; cbn [fold_left]; lia). lia.
  - intros i j ei ej oi oj Hij Hi Hj Hoi Hoj.
    apply offsets_from_nth in Hoi. apply offsets_from_nth in Hoj. subst oi oj.
    assert (Hsplit : total_bits (firstn j es) =
                     total_bits (firstn (S i) (firstn j es)) + total_bits (skipn (S i) (firstn j es)))
      by (rewrite <- total_bits_app, firstn_skipn; reflexivity).
    rewrite firstn_firstn in Hsplit. replace (Nat.min (S i) j) with (S i) in Hsplit by lia.
    rewrite (firstn_split_nth es i ei Hi), total_bits_app in Hsplit.
    assert (0 <= total_bits (skipn (S i) (firstn j es))).
    { apply total_bits_nonneg. rewrite Forall_forall in *. intros x Hx. apply Hpos.
      eapply In_firstn_aux. eapply In_skipn_aux. exact Hx. }
    assert (Hone : total_bits [ei] = e_len ei) by (unfold total_bits; cbn [fold_left]; lia). lia.
  - unfold frame_len. lia.
Qed.
