(* Proofs about Model/Eds.v (C08, C14). *)
From Coq Require Import ZArith List Bool Lia ZifyBool.
From Coq Require String.
Import String.StringSyntax.
From CV Require Import Base.Val Base.Bytes Base.Tys Gen.Tables Gen.EdsTables Model.Eds.
Import ListNotations.
Open Scope Z_scope.
Ltac Zify.zify_post_hook ::= Z.to_euclidean_division_equations.

(* ================================================================== generic facts *)
Lemma list_Z_eqb_refl a : list_Z_eqb a a = true.
Proof. induction a as [|x a IH]; cbn; [reflexivity|]. rewrite Z.eqb_refl. exact IH. Qed.

Lemma list_Z_eqb_eq a b : list_Z_eqb a b = true <-> a = b.
Proof.
  split; [|intros ->; apply list_Z_eqb_refl].
  revert b; induction a as [|x a IH]; intros [|y b]; cbn; try discriminate; [reflexivity|].
  intros H. apply andb_prop in H as [H1 H2]. apply Z.eqb_eq in H1. f_equal; auto.
Qed.

Lemma streq_refl a : streq a a = true.
Proof. apply list_Z_eqb_refl. Qed.

Definition zrange (n : Z) : list Z := map Z.of_nat (seq 0 (Z.to_nat n)).
Lemma in_zrange n d : 0 <= d < n -> In d (zrange n).
Proof.
  intros H. unfold zrange. replace d with (Z.of_nat (Z.to_nat d)) by lia.
  apply in_map, in_seq. lia.
Qed.
Lemma zrange_check (P : Z -> bool) n : forallb P (zrange n) = true -> forall d, 0 <= d < n -> P d = true.
Proof. intros H d Hd. rewrite forallb_forall in H. apply H, in_zrange, Hd. Qed.

(* ================================================================== digits *)
Definition pval (b : Z) (ds : list Z) (acc : Z) : Z := fold_left (fun a d => a * b + d) ds acc.

Lemma pval_app b x y acc : pval b (x ++ y) acc = pval b y (pval b x acc).
Proof. unfold pval. apply fold_left_app. Qed.

Definition digits_ok (b : Z) (ds : list Z) : Prop := Forall (fun d => 0 <= d < b) ds.

Lemma rdigits_ok fuel : forall b v, 2 <= b -> (0 < fuel)%nat -> 0 <= v < b ^ Z.of_nat fuel ->
  pval b (rev (rdigits fuel b v)) 0 = v /\ digits_ok b (rdigits fuel b v) /\ rdigits fuel b v <> [].
Proof.
  induction fuel as [|f IH]; intros b v Hb Hf Hv; [lia|].
  cbn [rdigits]. destruct (v <? b) eqn:E.
  - split; [cbn; ring|]. split; [|discriminate]. constructor; [lia|constructor].
  - assert (Hp : b ^ Z.of_nat (S f) = b * b ^ Z.of_nat f).
    { replace (Z.of_nat (S f)) with (1 + Z.of_nat f) by lia. rewrite Z.pow_add_r by lia. lia. }
    assert (f <> O). { intros ->. cbn in Hv. lia. }
    assert (0 < b ^ Z.of_nat f) by (apply Z.pow_pos_nonneg; lia).
    destruct (IH b (v / b) Hb ltac:(lia)) as (I1 & I2 & I3).
    { split; [apply Z.div_pos; lia|]. apply Z.div_lt_upper_bound; lia. }
    repeat split; [| |discriminate].
    + cbn [rev]. rewrite pval_app, I1. cbn. lia.
    + constructor; [|exact I2]. lia.
Qed.

(* with enough fuel the most significant digit of a positive number is not 0 *)
Lemma rdigits_lead fuel : forall b v, 2 <= b -> 0 < v < b ^ Z.of_nat fuel ->
  exists d t, rev (rdigits fuel b v) = d :: t /\ d <> 0.
Proof.
  induction fuel as [|f IH]; intros b v Hb Hv; [cbn in Hv; lia|].
  cbn [rdigits]. destruct (v <? b) eqn:E.
  - exists v, []. split; [reflexivity|lia].
  - assert (Hp : b ^ Z.of_nat (S f) = b * b ^ Z.of_nat f).
    { replace (Z.of_nat (S f)) with (1 + Z.of_nat f) by lia. rewrite Z.pow_add_r by lia. lia. }
    assert (0 <= b ^ Z.of_nat f) by (apply Z.pow_nonneg; lia).
    destruct (IH b (v / b) Hb) as (d & t & Hr & Hd).
    { split; [apply Z.div_str_pos; lia|]. apply Z.div_lt_upper_bound; lia. }
    exists d, (t ++ [v mod b]). cbn [rev]. rewrite Hr. split; [reflexivity|exact Hd].
Qed.

Lemma fuel_enough b v : 2 <= b -> 0 <= v -> v < b ^ Z.of_nat (S (Z.to_nat (Z.log2 v))).
Proof.
  intros Hb Hv.
  assert (L : 0 <= Z.log2 v) by apply Z.log2_nonneg.
  replace (Z.of_nat (S (Z.to_nat (Z.log2 v)))) with (Z.succ (Z.log2 v)) by lia.
  assert (v < 2 ^ Z.succ (Z.log2 v)).
  { destruct (Z.eq_dec v 0) as [->|]; [cbn; lia|]. apply Z.log2_spec. lia. }
  assert (2 ^ Z.succ (Z.log2 v) <= b ^ Z.succ (Z.log2 v)) by (apply Z.pow_le_mono_l; lia).
  lia.
Qed.

Lemma digits_spec b v : 2 <= b -> 0 <= v ->
  pval b (digits b v) 0 = v /\ digits_ok b (digits b v) /\ digits b v <> [].
Proof.
  intros Hb Hv. unfold digits.
  destruct (rdigits_ok (S (Z.to_nat (Z.log2 v))) b v Hb ltac:(lia)) as (A & B & C).
  { split; [lia|]. apply fuel_enough; lia. }
  repeat split; [exact A| |].
  - unfold digits_ok in *. apply Forall_rev. exact B.
  - intros H. apply C. rewrite <- (rev_involutive (rdigits _ _ _)), H. reflexivity.
Qed.

Lemma digits_lead b v : 2 <= b -> 0 < v -> exists d t, digits b v = d :: t /\ d <> 0.
Proof.
  intros Hb Hv. unfold digits. apply rdigits_lead; [exact Hb|].
  split; [lia|]. apply fuel_enough; lia.
Qed.

(* ---- characters of digits ---- *)
Definition nospace (c : Z) : bool := negb (is_space c).
Record digit_chars (b : Z) (ch : Z -> Z) : Prop := {
  dc_val : forall d, 0 <= d < b -> digit_val (ch d) = Some d;
  dc_plain : forall d, 0 <= d < b -> ch d <> 95 /\ ch d <> 45 /\ ch d <> 43 /\ ch d <> 36 /\ ch d <> 32 /\ is_space (ch d) = false;
  dc_upper : forall d, 0 <= d < b -> upper_c (ch d) = hexchar_u d }.

Definition chk_chars (b : Z) (ch : Z -> Z) (d : Z) : bool :=
  match digit_val (ch d) with Some x => x =? d | None => false end &&
  negb (ch d =? 95) && negb (ch d =? 45) && negb (ch d =? 43) && negb (ch d =? 36) && negb (ch d =? 32) &&
  negb (is_space (ch d)) && (upper_c (ch d) =? hexchar_u d).

Lemma digit_chars_of b ch : forallb (chk_chars b ch) (zrange b) = true -> digit_chars b ch.
Proof.
  intros H. pose proof (zrange_check _ _ H) as K. unfold chk_chars in K.
  split; intros d Hd; specialize (K d Hd);
    repeat (apply andb_prop in K as [K ?]).
  - destruct (digit_val (ch d)); [|discriminate]. f_equal. lia.
  - repeat split; try lia. destruct (is_space (ch d)); [discriminate|reflexivity].
  - lia.
Qed.

Lemma dc_hex_u : digit_chars 16 hexchar_u.
Proof. apply digit_chars_of. vm_compute. reflexivity. Qed.
Lemma dc_hex_l : digit_chars 16 hexchar_l.
Proof. apply digit_chars_of. vm_compute. reflexivity. Qed.
Lemma dc_dec : digit_chars 10 (fun d => 48 + d).
Proof. apply digit_chars_of. vm_compute. reflexivity. Qed.

Lemma pdigits_map b ch (D : digit_chars b ch) : forall ds acc p,
  digits_ok b ds -> (ds <> [] \/ p = true) ->
  pdigits b (map ch ds) acc p = Some (pval b ds acc).
Proof.
  induction ds as [|d r IH]; intros acc p Hd Hp.
  - destruct Hp as [Hp| ->]; [congruence|reflexivity].
  - inversion Hd as [|? ? H1 H2]; subst.
    cbn [map pdigits]. destruct (dc_plain _ _ D d H1) as (N & _).
    replace (ch d =? 95) with false by lia.
    rewrite (dc_val _ _ D d H1). replace (d <? b) with true by lia.
    rewrite IH by (auto). reflexivity.
Qed.

Lemma pval_zeros b k acc : acc = 0 -> pval b (repeat 0 k) acc = 0.
Proof. intros ->. induction k as [|k IH]; cbn; [reflexivity|]. exact IH. Qed.

(* zero padding in front does not change the number *)
Lemma pdigits_padded b ch (D : digit_chars b ch) k ds p : 1 <= b -> ch 0 = 48 ->
  digits_ok b ds -> ds <> [] ->
  pdigits b (repeat 48 k ++ map ch ds) 0 p = Some (pval b ds 0).
Proof.
  intros Hb H0 Hd Hn.
  replace (repeat 48 k) with (map ch (repeat 0 k)).
  2:{ induction k as [|k IH]; cbn; [reflexivity|]. rewrite IH, H0. reflexivity. }
  rewrite <- map_app.
  assert (b <> 1 \/ b = 1) as [Hb1|Hb1] by lia.
  - rewrite (pdigits_map b ch D).
    + rewrite pval_app, pval_zeros by reflexivity. reflexivity.
    + apply Forall_app. split; [|exact Hd]. apply Forall_forall. intros x Hx. apply repeat_spec in Hx. lia.
    + left. destruct k; cbn; [exact Hn|discriminate].
  - rewrite (pdigits_map b ch D).
    + rewrite pval_app, pval_zeros by reflexivity. reflexivity.
    + apply Forall_app. split; [|exact Hd]. apply Forall_forall. intros x Hx. apply repeat_spec in Hx. lia.
    + left. destruct k; cbn; [exact Hn|discriminate].
Qed.

(* ================================================================== strip *)
Lemma lstrip_id l : (match l with c :: _ => is_space c = false | [] => True end) -> lstrip l = l.
Proof. destruct l as [|c t]; [reflexivity|]. intros H. cbn. rewrite H. reflexivity. Qed.

Lemma strip_nospace l : Forall (fun c => is_space c = false) l -> strip l = l.
Proof.
  intros H. unfold strip.
  rewrite (lstrip_id l) by (destruct H; auto).
  assert (R : Forall (fun c => is_space c = false) (rev l)) by (apply Forall_rev; exact H).
  rewrite (lstrip_id (rev l)) by (destruct R; auto).
  apply rev_involutive.
Qed.

Lemma nospace_map b ch (D : digit_chars b ch) ds : digits_ok b ds -> Forall (fun c => is_space c = false) (map ch ds).
Proof.
  intros H. apply Forall_forall. intros c Hc. apply in_map_iff in Hc as (d & <- & Hd).
  unfold digits_ok in H. rewrite Forall_forall in H. apply (dc_plain _ _ D d (H d Hd)).
Qed.

Lemma nospace_repeat48 k : Forall (fun c => is_space c = false) (repeat 48 k).
Proof. apply Forall_forall. intros c Hc. apply repeat_spec in Hc. subst. reflexivity. Qed.

(* ================================================================== int(text, 0) / int(text) on spelled numbers *)
From CV Require Import Model.RefEds.

Definition plain (c : Z) : Prop := is_space c = false.
Lemma signed_plain body c t : c <> 45 -> c <> 43 -> Forall plain (c :: t) -> signed body (c :: t) = body (c :: t).
Proof.
  intros H1 H2 H. unfold signed. rewrite strip_nospace by exact H.
  replace (c =? 45) with false by lia. replace (c =? 43) with false by lia. reflexivity.
Qed.
Lemma signed_neg body t : Forall plain t -> signed body (45 :: t) = option_map Z.opp (body t).
Proof.
  intros H. unfold signed. rewrite strip_nospace; [reflexivity|]. constructor; [reflexivity|exact H].
Qed.

Lemma int0_body_dec c t : c <> 48 -> int0_body (c :: t) = pdigits 10 (c :: t) 0 false.
Proof. intros H. unfold int0_body. replace (c =? 48) with false by lia. reflexivity. Qed.

Lemma int0_body_hex x c t : x = 120 \/ x = 88 -> c <> 95 ->
  int0_body (48 :: x :: c :: t) = pdigits 16 (c :: t) 0 false.
Proof.
  intros Hx Hc. unfold int0_body, prefixed. rewrite Z.eqb_refl.
  replace ((x =? 120) || (x =? 88)) with true by lia.
  replace (c =? 95) with false by lia. reflexivity.
Qed.

Lemma dec_u_zero : dec_u 0 = [48].
Proof. reflexivity. Qed.

Lemma dec_u_as_hexchars v : 0 <= v -> dec_u v = map hexchar_u (digits 10 v).
Proof.
  intros Hv. unfold dec_u. apply map_ext_in. intros d Hd.
  destruct (digits_spec 10 v ltac:(lia) Hv) as (_ & D & _).
  unfold digits_ok in D. rewrite Forall_forall in D. specialize (D d Hd).
  unfold hexchar_u. replace (d <? 10) with true by lia. reflexivity.
Qed.

Definition hexch (low : bool) : Z -> Z := if low then hexchar_l else hexchar_u.
Lemma dc_hexch low : digit_chars 16 (hexch low).
Proof. destruct low; [apply dc_hex_l|apply dc_hex_u]. Qed.
Lemma hexdigits_text (low : bool) v : (if low then hex_l v else hex_u v) = map (hexch low) (digits 16 v).
Proof. destruct low; reflexivity. Qed.

Lemma map_chars_plain b ch (D : digit_chars b ch) ds : digits_ok b ds -> Forall plain (map ch ds).
Proof. apply nospace_map; exact D. Qed.

(* the body of a spelled non-negative number: value, no blanks, and its first character is not a sign *)
Lemma spell_nat_spec sp v : 0 <= v ->
  int0_body (spell_nat sp v) = Some v /\ Forall plain (spell_nat sp v) /\
  exists c t, spell_nat sp v = c :: t /\ c <> 45 /\ c <> 43.
Proof.
  intros Hv. destruct sp as [|upx low pad]; cbn [spell_nat].
  - destruct (digits_spec 10 v ltac:(lia) Hv) as (P & D & N).
    assert (Pl : Forall plain (dec_u v)) by (apply (map_chars_plain 10 _ dc_dec); exact D).
    destruct (Z.eq_dec v 0) as [->|Hnz].
    + rewrite dec_u_zero. split; [reflexivity|]. split; [exact Pl|]. exists 48, []. repeat split; lia.
    + destruct (digits_lead 10 v ltac:(lia) ltac:(lia)) as (d & t & E & Hd).
      assert (Hd' : 0 <= d < 10). { unfold digits_ok in D. rewrite E in D. inversion D; assumption. }
      unfold dec_u in *. rewrite E in *. cbn [map] in *.
      split; [|split; [exact Pl|]].
      * rewrite int0_body_dec by lia.
        change ((48 + d) :: map (fun d0 => 48 + d0) t) with (map (fun d0 => 48 + d0) (d :: t)).
        rewrite (pdigits_map 10 _ dc_dec) by (auto; left; discriminate). rewrite P. reflexivity.
      * exists (48 + d), (map (fun d0 => 48 + d0) t). repeat split; lia.
  - destruct (digits_spec 16 v ltac:(lia) Hv) as (P & D & N).
    rewrite hexdigits_text. unfold pad0.
    set (k := (pad - length (map (hexch low) (digits 16 v)))%nat).
    assert (Pl : Forall plain (repeat 48 k ++ map (hexch low) (digits 16 v))).
    { apply Forall_app. split; [apply nospace_repeat48|]. apply (map_chars_plain 16 _ (dc_hexch low)); exact D. }
    assert (Hx : (if upx then 88 else 120) = 120 \/ (if upx then 88 else 120) = 88) by (destruct upx; auto).
    assert (Hhead : exists c t, repeat 48 k ++ map (hexch low) (digits 16 v) = c :: t /\ c <> 95).
    { destruct k as [|k]; cbn [repeat app].
      - destruct (digits 16 v) as [|d t] eqn:E; [congruence|]. cbn [map]. eexists _, _. split; [reflexivity|].
        apply (dc_plain _ _ (dc_hexch low)). unfold digits_ok in D. inversion D; assumption.
      - eexists _, _. split; [reflexivity|]. lia. }
    destruct Hhead as (c & t & E & Hc).
    split; [|split].
    + rewrite E. rewrite int0_body_hex by assumption. rewrite <- E.
      rewrite (pdigits_padded 16 _ (dc_hexch low)); [rewrite P; reflexivity|lia| |exact D|exact N].
      destruct low; reflexivity.
    + constructor; [reflexivity|]. constructor; [destruct upx; reflexivity|exact Pl].
    + eexists _, _. split; [reflexivity|]. lia.
Qed.

Lemma spell_plain sp v : Forall plain (spell sp v).
Proof.
  unfold spell. destruct (v <? 0) eqn:E.
  - constructor; [reflexivity|]. apply spell_nat_spec. lia.
  - apply spell_nat_spec. lia.
Qed.

(* int(text, 0) reads every spelling of every integer *)
Lemma int0_spell sp v : int0 (spell sp v) = Some v.
Proof.
  unfold int0, spell. destruct (v <? 0) eqn:E.
  - destruct (spell_nat_spec sp (- v) ltac:(lia)) as (B & Pl & _).
    rewrite signed_neg by exact Pl. rewrite B. cbn. f_equal. lia.
  - destruct (spell_nat_spec sp v ltac:(lia)) as (B & Pl & c & t & Ec & H1 & H2).
    rewrite Ec in *. rewrite signed_plain by assumption. exact B.
Qed.

Lemma dec_is_spell v : dec v = spell SpDec v.
Proof. reflexivity. Qed.
Lemma fmt_0x02X_is_spell v : 0 <= v -> fmt_0x02X v = spell (SpHex false false 2) v.
Proof.
  intros Hv. unfold fmt_0x02X, fmt_X, spell. replace (v <? 0) with false by lia. reflexivity.
Qed.

(* int(text) (base 10) reads str(v) *)
Lemma int10_dec v : int10 (dec v) = Some v.
Proof.
  assert (K : forall u, 0 <= u -> pdigits 10 (dec_u u) 0 false = Some u /\ Forall plain (dec_u u) /\
                          exists c t, dec_u u = c :: t /\ c <> 45 /\ c <> 43).
  { intros u Hu. destruct (digits_spec 10 u ltac:(lia) Hu) as (P & D & N).
    split; [|split].
    - unfold dec_u. rewrite (pdigits_map 10 _ dc_dec) by auto. rewrite P. reflexivity.
    - apply (map_chars_plain 10 _ dc_dec); exact D.
    - unfold dec_u. destruct (digits 10 u) as [|d t] eqn:E; [congruence|]. cbn [map].
      eexists _, _. split; [reflexivity|]. unfold digits_ok in D. inversion D; subst. lia. }
  unfold int10, dec. destruct (v <? 0) eqn:E.
  - destruct (K (- v) ltac:(lia)) as (B & Pl & _). rewrite signed_neg by exact Pl. rewrite B. cbn. f_equal. lia.
  - destruct (K v ltac:(lia)) as (B & Pl & c & t & Ec & H1 & H2).
    rewrite Ec in *. rewrite signed_plain by assumption. exact B.
Qed.

(* ================================================================== upper / remove_spaces / $NODEID *)
Definition sp_upper (sp : spelling) : spelling :=
  match sp with SpDec => SpDec | SpHex _ _ pad => SpHex true false pad end.

Lemma remove_spaces_id l : Forall (fun c => c <> 32) l -> remove_spaces l = l.
Proof.
  induction 1 as [|c r Hc Hr IH]; [reflexivity|]. cbn. replace (c =? 32) with false by lia. cbn. f_equal. exact IH.
Qed.

Lemma map_chars_no32 b ch (D : digit_chars b ch) ds : digits_ok b ds -> Forall (fun c => c <> 32) (map ch ds).
Proof.
  intros H. apply Forall_forall. intros c Hc. apply in_map_iff in Hc as (d & <- & Hd).
  unfold digits_ok in H. rewrite Forall_forall in H. apply (dc_plain _ _ D d (H d Hd)).
Qed.

Lemma upper_map_chars b ch (D : digit_chars b ch) ds : digits_ok b ds -> upper (map ch ds) = map hexchar_u ds.
Proof.
  intros H. unfold upper. rewrite map_map. apply map_ext_in. intros d Hd.
  unfold digits_ok in H. rewrite Forall_forall in H. apply (dc_upper _ _ D d (H d Hd)).
Qed.

Lemma upper_repeat48 k : upper (repeat 48 k) = repeat 48 k.
Proof. induction k as [|k IH]; cbn; [reflexivity|]. unfold upper in IH. rewrite IH. reflexivity. Qed.

Lemma spell_nat_upper sp v : 0 <= v ->
  remove_spaces (spell_nat sp v) = spell_nat sp v /\ upper (spell_nat sp v) = spell_nat (sp_upper sp) v.
Proof.
  intros Hv. destruct sp as [|upx low pad]; cbn [spell_nat sp_upper].
  - destruct (digits_spec 10 v ltac:(lia) Hv) as (_ & D & _). split.
    + apply remove_spaces_id. apply (map_chars_no32 10 _ dc_dec). exact D.
    + unfold dec_u at 1. rewrite (upper_map_chars 10 _ dc_dec) by exact D. symmetry. apply dec_u_as_hexchars, Hv.
  - destruct (digits_spec 16 v ltac:(lia) Hv) as (_ & D & _).
    rewrite hexdigits_text. unfold pad0. rewrite map_length.
    replace (length (hex_u v)) with (length (digits 16 v)) by (unfold hex_u; now rewrite map_length).
    set (k := (pad - length (digits 16 v))%nat). split.
    + apply remove_spaces_id. constructor; [lia|]. constructor; [destruct upx; lia|].
      apply Forall_app. split.
      * apply Forall_forall. intros c Hc. apply repeat_spec in Hc. lia.
      * apply (map_chars_no32 16 _ (dc_hexch low)). exact D.
    + unfold upper. cbn [map]. f_equal. f_equal; [destruct upx; reflexivity|].
      rewrite map_app. fold (upper (repeat 48 k)). rewrite upper_repeat48. f_equal.
      apply (upper_map_chars 16 _ (dc_hexch low)). exact D.
Qed.

Lemma remove_spaces_app a b : remove_spaces (a ++ b) = remove_spaces a ++ remove_spaces b.
Proof. unfold remove_spaces. apply filter_app. Qed.
Lemma upper_app a b : upper (a ++ b) = upper a ++ upper b.
Proof. unfold upper. apply map_app. Qed.

Lemma spell_upper sp v : upper (remove_spaces (spell sp v)) = spell (sp_upper sp) v.
Proof.
  unfold spell. destruct (v <? 0) eqn:E.
  - destruct (spell_nat_upper sp (- v) ltac:(lia)) as (A & B).
    change (45 :: spell_nat sp (- v)) with ([45] ++ spell_nat sp (- v)).
    rewrite remove_spaces_app, upper_app, A, B. reflexivity.
  - destruct (spell_nat_upper sp v ltac:(lia)) as (A & B). rewrite A, B. reflexivity.
Qed.

Lemma NODEID_lit : NODEID = [36; 78; 79; 68; 69; 73; 68].
Proof. reflexivity. Qed.

Lemma contains_no_dollar l : Forall (fun c => c <> 36) l -> contains NODEID l = false.
Proof.
  rewrite NODEID_lit. induction 1 as [|c r Hc Hr IH]; [reflexivity|].
  cbn [contains starts_with]. replace (36 =? c) with false by lia. cbn. exact IH.
Qed.

Definition no_dollar_plus (l : str) : Prop := Forall (fun c => c <> 36 /\ c <> 43) l.

Lemma spell_nat_no_dollar_plus sp v : 0 <= v -> no_dollar_plus (spell_nat sp v).
Proof.
  intros Hv. unfold no_dollar_plus. destruct sp as [|upx low pad]; cbn [spell_nat].
  - destruct (digits_spec 10 v ltac:(lia) Hv) as (_ & D & _).
    apply Forall_forall. intros c Hc. apply in_map_iff in Hc as (d & <- & Hd).
    unfold digits_ok in D. rewrite Forall_forall in D. specialize (D d Hd). lia.
  - destruct (digits_spec 16 v ltac:(lia) Hv) as (_ & D & _).
    constructor; [lia|]. constructor; [destruct upx; lia|]. rewrite hexdigits_text. unfold pad0.
    apply Forall_app. split.
    + apply Forall_forall. intros c Hc. apply repeat_spec in Hc. lia.
    + apply Forall_forall. intros c Hc. apply in_map_iff in Hc as (d & <- & Hd).
      unfold digits_ok in D. rewrite Forall_forall in D.
      destruct (dc_plain _ _ (dc_hexch low) d (D d Hd)) as (_ & _ & ? & ? & _). split; assumption.
Qed.

Lemma spell_no_dollar sp v : Forall (fun c => c <> 36) (spell sp v).
Proof.
  unfold spell. destruct (v <? 0) eqn:E.
  - constructor; [lia|]. eapply Forall_impl; [|apply spell_nat_no_dollar_plus; lia]. cbn. intros a [? ?]; assumption.
  - eapply Forall_impl; [|apply spell_nat_no_dollar_plus; lia]. cbn. intros a [? ?]; assumption.
Qed.

Lemma sub_nodeid_keep l : no_dollar_plus l -> forall r, sub_nodeid 0 (l ++ r) = l ++ sub_nodeid 0 r.
Proof.
  induction 1 as [|c t [H1 H2] Ht IH]; intros r; [reflexivity|].
  cbn [app sub_nodeid]. rewrite NODEID_lit. cbn [starts_with].
  replace (43 =? c) with false by lia. replace (36 =? c) with false by lia. cbn [andb].
  f_equal. apply IH.
Qed.

Lemma sub_nodeid_pre t : sub_nodeid 0 (NODEID ++ 43 :: t) = sub_nodeid 0 t.
Proof. rewrite NODEID_lit. reflexivity. Qed.
Lemma sub_nodeid_post : sub_nodeid 0 (43 :: NODEID) = [].
Proof. reflexivity. Qed.

(* ================================================================== _convert_variable on written values *)
Definition int_class (dt : Z) : bool :=
  negb (is_bytes_type dt) && negb (is_text_type dt) && negb (zmem dt FLOAT_TYPES).

Lemma convert_int_text nid dt t z : int_class dt = true ->
  Forall (fun c => c <> 36) t -> int0 (upper (remove_spaces t)) = Some z ->
  (forall l, Forall (fun c => c <> 36) l -> Forall (fun c => c <> 36) (upper (remove_spaces l))) ->
  convert_variable nid dt t = Some (PVInt z).
Proof.
  intros Hc Hd Hi Hup. unfold int_class in Hc. unfold convert_variable.
  destruct (is_bytes_type dt); [discriminate|]. destruct (is_text_type dt); [discriminate|].
  destruct (zmem dt FLOAT_TYPES); [discriminate|].
  rewrite (contains_no_dollar _ (Hup _ Hd)). destruct nid; rewrite Hi; reflexivity.
Qed.

Lemma upper_c_no_dollar c : c <> 36 -> upper_c c <> 36.
Proof. unfold upper_c. intros H. destruct ((97 <=? c) && (c <=? 122)) eqn:E; lia. Qed.

Lemma upper_remove_no_dollar l : Forall (fun c => c <> 36) l -> Forall (fun c => c <> 36) (upper (remove_spaces l)).
Proof.
  induction 1 as [|c r Hc Hr IH]; [constructor|].
  cbn. destruct (c =? 32); cbn; [exact IH|]. constructor; [apply upper_c_no_dollar, Hc|exact IH].
Qed.

(* every spelling of every integer is read back as that integer *)
Lemma convert_spell nid dt sp z : int_class dt = true -> convert_variable nid dt (spell sp z) = Some (PVInt z).
Proof.
  intros Hc. apply convert_int_text; [exact Hc|apply spell_no_dollar| |apply upper_remove_no_dollar].
  rewrite spell_upper. apply int0_spell.
Qed.

(* C14 value level: what _revert_variable prints, _convert_variable reads, for every integer *)
Lemma convert_revert_int nid dt z : int_class dt = true ->
  exists t, revert_variable dt (PVInt z) = Some t /\ convert_variable nid dt t = Some (PVInt z).
Proof.
  intros Hc. pose proof Hc as Hc'. unfold int_class in Hc'. unfold revert_variable.
  destruct (is_bytes_type dt); [discriminate|]. destruct (is_text_type dt); [discriminate|].
  destruct (zmem dt FLOAT_TYPES); [discriminate|].
  eexists. split; [reflexivity|].
  destruct (z <? 0) eqn:E.
  - rewrite fmt_0x02X_is_spell by lia.
    replace (45 :: spell (SpHex false false 2) (- z)) with (spell (SpHex false false 2) z).
    + apply convert_spell, Hc.
    + unfold spell. rewrite E. replace (- z <? 0) with false by lia. reflexivity.
  - rewrite fmt_0x02X_is_spell by lia. apply convert_spell, Hc.
Qed.

Lemma contains_app_r p a b : contains p b = true -> contains p (a ++ b) = true.
Proof.
  intros H. induction a as [|c t IH]; [exact H|].
  rewrite <- app_comm_cons. cbn [contains]. rewrite IH. apply orb_true_r.
Qed.

(* $NODEID-relative values, both orders, with or without blanks around '+' *)
Lemma convert_relative nid dt off sp post spaces : int_class dt = true -> 0 <= off ->
  convert_variable (Some nid) dt (dvalue_text (DRel off sp post spaces)) = Some (PVInt (off + nid)).
Proof.
  intros Hc Hoff. pose proof Hc as Hc'. unfold int_class in Hc'. unfold convert_variable.
  destruct (is_bytes_type dt); [discriminate|]. destruct (is_text_type dt); [discriminate|].
  destruct (zmem dt FLOAT_TYPES); [discriminate|]. clear Hc'.
  assert (Sp : spell sp off = spell_nat sp off) by (unfold spell; replace (off <? 0) with false by lia; reflexivity).
  assert (Su : spell (sp_upper sp) off = spell_nat (sp_upper sp) off)
    by (unfold spell; replace (off <? 0) with false by lia; reflexivity).
  pose proof (spell_upper sp off) as U.
  pose proof (spell_nat_no_dollar_plus (sp_upper sp) off Hoff) as ND.
  assert (Pl : upper (remove_spaces (if spaces then s " + " else s "+")) = [43]) by (destruct spaces; reflexivity).
  assert (Nu : upper (remove_spaces NODEID) = NODEID) by reflexivity.
  cbn [dvalue_text]. destruct post.
  - rewrite !remove_spaces_app, !upper_app, U, Pl, Nu, Su.
    assert (C : contains NODEID (spell_nat (sp_upper sp) off ++ [43] ++ NODEID) = true)
      by (apply contains_app_r; reflexivity).
    rewrite C. rewrite sub_nodeid_keep by exact ND. cbn [app]. rewrite sub_nodeid_post, app_nil_r.
    rewrite <- Su, int0_spell. reflexivity.
  - rewrite !remove_spaces_app, !upper_app, U, Pl, Nu, Su.
    assert (C : contains NODEID (NODEID ++ [43] ++ spell_nat (sp_upper sp) off) = true) by reflexivity.
    rewrite C. cbn [app]. rewrite sub_nodeid_pre.
    rewrite <- (app_nil_r (spell_nat (sp_upper sp) off)), sub_nodeid_keep by exact ND. cbn [sub_nodeid].
    rewrite app_nil_r, <- Su, int0_spell. reflexivity.
Qed.

(* ---- byte strings ---- *)
Lemma hexchar_digit (up : bool) d : 0 <= d < 16 ->
  digit_val (if up then hexchar_u d else hexchar_l d) = Some d /\ is_space (if up then hexchar_u d else hexchar_l d) = false.
Proof.
  intros H. destruct up.
  - split; [apply (dc_val _ _ dc_hex_u d H)|apply (dc_plain _ _ dc_hex_u d H)].
  - split; [apply (dc_val _ _ dc_hex_l d H)|apply (dc_plain _ _ dc_hex_l d H)].
Qed.

Lemma fromhex_go_hexbytes up bs : bytes_ok bs -> forall fuel, (length bs < fuel)%nat ->
  fromhex_go fuel (flat_map (hexbyte up) bs) = Some bs.
Proof.
  induction 1 as [|b r Hb Hr IH]; intros fuel Hf.
  - destruct fuel; [lia|reflexivity].
  - destruct fuel as [|f]; [lia|]. unfold byte_ok in Hb.
    destruct (hexchar_digit up (b / 16) ltac:(lia)) as (A1 & A2).
    destruct (hexchar_digit up (b mod 16) ltac:(lia)) as (B1 & B2).
    cbn [flat_map fromhex_go].
    assert (E : hexbyte up b = [if up then hexchar_u (b / 16) else hexchar_l (b / 16);
                               if up then hexchar_u (b mod 16) else hexchar_l (b mod 16)])
      by (destruct up; reflexivity).
    rewrite E. cbn [app lstrip]. rewrite A2, A1, B1.
    assert (Q1 : b / 16 <? 16 = true) by (apply Z.ltb_lt; apply Z.div_lt_upper_bound; lia).
    assert (Q2 : b mod 16 <? 16 = true) by (apply Z.ltb_lt; apply Z.mod_pos_bound; lia).
    rewrite Q1, Q2. cbn [andb].
    rewrite IH by (cbn in Hf; lia). cbn [option_map]. f_equal. f_equal.
    rewrite (Z.div_mod b 16) at 3 by lia. ring.
Qed.

Lemma fromhex_hexbytes up bs : bytes_ok bs -> fromhex (flat_map (hexbyte up) bs) = Some bs.
Proof.
  intros H. unfold fromhex. apply fromhex_go_hexbytes; [exact H|].
  assert (length (flat_map (hexbyte up) bs) = (2 * length bs)%nat).
  { clear H. induction bs as [|b r IH]; [reflexivity|]. cbn [flat_map]. rewrite app_length, IH. destruct up; cbn; lia. }
  lia.
Qed.

Lemma tohex_is_hexbytes bs : tohex bs = flat_map (hexbyte false) bs.
Proof. reflexivity. Qed.

Lemma convert_revert_bytes nid dt bs : is_bytes_type dt = true -> bytes_ok bs ->
  exists t, revert_variable dt (PVBytes bs) = Some t /\ convert_variable nid dt t = Some (PVBytes bs).
Proof.
  intros Hc Hb. unfold revert_variable, convert_variable. rewrite Hc.
  eexists. split; [reflexivity|]. rewrite tohex_is_hexbytes, fromhex_hexbytes by exact Hb. reflexivity.
Qed.

Lemma convert_revert_text nid dt t : is_bytes_type dt = false -> is_text_type dt = true ->
  revert_variable dt (PVStr t) = Some t /\ convert_variable nid dt t = Some (PVStr t).
Proof. intros H1 H2. unfold revert_variable, convert_variable. rewrite H1, H2. split; reflexivity. Qed.

(* ================================================================== limits: _signed_int_from_hex *)
Definition signed_table_row (t : Z) : bool :=
  match zassoc t CALC_BIT_LENGTH with Some w => (w =? signed_width t) && (0 <? w) | None => false end.
(* the code knows the CiA 301 width of every one of the eight signed integer types *)
Lemma signed_table_ok : forallb signed_table_row SIGNED_TYPES = true /\ length SIGNED_TYPES = 8%nat.
Proof. split; vm_compute; reflexivity. Qed.

Lemma signed_width_of dt : zmem dt SIGNED_TYPES = true ->
  zassoc dt CALC_BIT_LENGTH = Some (signed_width dt) /\ 0 < signed_width dt.
Proof.
  intros H. destruct signed_table_ok as (T & _). rewrite forallb_forall in T.
  assert (I : In dt SIGNED_TYPES).
  { revert H. generalize SIGNED_TYPES. induction l as [|x r IH]; cbn; [discriminate|].
    destruct (dt =? x) eqn:E; [left; lia|right; auto]. }
  specialize (T dt I). unfold signed_table_row in T.
  destruct (zassoc dt CALC_BIT_LENGTH) as [w|]; [|discriminate]. split; [f_equal|]; lia.
Qed.

Lemma pow_split w : 0 < w -> 2 ^ w = 2 * 2 ^ (w - 1).
Proof. intros. replace w with (1 + (w - 1)) at 1 by lia. rewrite Z.pow_add_r by lia. reflexivity. Qed.

(* two's-complement hex limits of signed types become negative numbers; plain spellings stay *)
Lemma signed_limit_written dt ls v : zmem dt SIGNED_TYPES = true ->
  - 2 ^ (signed_width dt - 1) <= v < 2 ^ (signed_width dt - 1) ->
  parse_limit dt (spell_limit (signed_width dt) ls v) = Some v.
Proof.
  intros Hs Hv. destruct (signed_width_of dt Hs) as (Hw & Hpos).
  unfold parse_limit. rewrite Hs, Hw. unfold signed_int_from_hex.
  set (w := signed_width dt) in *.
  pose proof (pow_split w Hpos) as P2.
  assert (0 < 2 ^ (w - 1)) by (apply Z.pow_pos_nonneg; lia).
  destruct ls as [sp|upx low pad]; cbn [spell_limit].
  - rewrite int0_spell. replace (v >? 2 ^ (w - 1) - 1) with false by lia. reflexivity.
  - replace (spell_nat (SpHex upx low pad) (v mod 2 ^ w)) with (spell (SpHex upx low pad) (v mod 2 ^ w)).
    2:{ unfold spell. replace (v mod 2 ^ w <? 0) with false; [reflexivity|].
        assert (0 <= v mod 2 ^ w) by (apply Z.mod_pos_bound; lia). lia. }
    rewrite int0_spell. f_equal.
    destruct (0 <=? v) eqn:S.
    + rewrite Z.mod_small by lia. replace (v >? 2 ^ (w - 1) - 1) with false by lia. reflexivity.
    + replace (v mod 2 ^ w) with (v + 2 ^ w).
      2:{ symmetry. rewrite <- (Z.mod_add v 1 (2 ^ w)) by lia. rewrite Z.mul_1_l. apply Z.mod_small. lia. }
      replace (v + 2 ^ w >? 2 ^ (w - 1) - 1) with true by lia. lia.
Qed.

Lemma other_limit_written dt sp v : zmem dt SIGNED_TYPES = false -> parse_limit dt (spell sp v) = Some v.
Proof. intros H. unfold parse_limit. rewrite H. apply int0_spell. Qed.

(* C14: a limit exported as str(v) is read back, for every data type, provided a limit of a signed
   type does not exceed the type's maximum (a larger number would be taken for a bit pattern) *)
Lemma limit_roundtrip dt v : (zmem dt SIGNED_TYPES = true -> v < 2 ^ (signed_width dt - 1)) ->
  parse_limit dt (dec v) = Some v.
Proof.
  intros H. rewrite dec_is_spell. destruct (zmem dt SIGNED_TYPES) eqn:E.
  - destruct (signed_width_of dt E) as (Hw & Hpos). specialize (H eq_refl).
    unfold parse_limit. rewrite E, Hw. unfold signed_int_from_hex. rewrite int0_spell.
    replace (v >? 2 ^ (signed_width dt - 1) - 1) with false by lia. reflexivity.
  - apply other_limit_written, E.
Qed.

(* ================================================================== sections written key by key *)
Lemma opt_get_kvs_nil k : opt_get (kvs_of []) k = None.
Proof. reflexivity. Qed.

(* what build_variable reads from a section written by export_variable *)
Lemma read_var_exported (name ot dtx pdo : str) (sto acc dv pv low high descr fac unit : option str) :
  read_var (kvs_of [ (k_PName, Some name); (s "StorageLocation", sto); (s "ObjectType", Some ot);
                     (s "DataType", Some dtx); (s "AccessType", acc); (s "DefaultValue", dv);
                     (k_PValue, pv); (s "PDOMapping", Some pdo); (s "LowLimit", low);
                     (s "HighLimit", high); (s "Description", descr); (s "Factor", fac); (s "Unit", unit) ])
  = mkRaw (Some name) sto (Some dtx) acc (Some pdo) low high dv pv fac descr unit.
Proof.
  destruct sto, acc, dv, pv, low, high, descr, fac, unit; vm_compute; reflexivity.
Qed.

(* ... and from a section written by the reference writer (with or without ObjectType) *)
Lemma read_var_written (name dtx acc : str) (ot dv pv pdo low high sto fac unit descr : option str) :
  read_var (kvs_of ((k_PName, Some name) :: (s "ObjectType", ot) ::
                    [ (s "DataType", Some dtx); (s "AccessType", Some acc); (s "DefaultValue", dv);
                      (k_PValue, pv); (s "PDOMapping", pdo); (s "LowLimit", low); (s "HighLimit", high);
                      (s "StorageLocation", sto); (s "Factor", fac); (s "Unit", unit); (s "Description", descr) ]))
  = mkRaw (Some name) sto (Some dtx) (Some acc) pdo low high dv pv fac descr unit.
Proof.
  destruct ot, dv, pv, pdo, low, high, sto, fac, unit, descr; vm_compute; reflexivity.
Qed.

(* ================================================================== C14, object level: export then import one variable *)
Definition float_rt (f : Z * Z) : Prop := float_parse (float_print f) = Some f.

Definition value_ok (dt : Z) (v : pyv) : Prop :=
  if is_bytes_type dt then exists b, v = PVBytes b /\ bytes_ok b
  else if is_text_type dt then exists t, v = PVStr t
  else if zmem dt FLOAT_TYPES then exists m e, v = PVFloat m e /\ float_rt (m, e)
  else exists z, v = PVInt z.

(* convert_revert, all kinds of value *)
Lemma convert_revert dt v nid : value_ok dt v ->
  exists t, revert_variable dt v = Some t /\ convert_variable nid dt t = Some v.
Proof.
  unfold value_ok. intros H.
  destruct (is_bytes_type dt) eqn:B.
  - destruct H as (b & -> & Hb). apply convert_revert_bytes; assumption.
  - destruct (is_text_type dt) eqn:T.
    + destruct H as (t & ->). exists t. apply convert_revert_text; assumption.
    + destruct (zmem dt FLOAT_TYPES) eqn:F.
      * destruct H as (m & e & -> & Hf). unfold revert_variable, convert_variable. rewrite B, T, F.
        eexists. split; [reflexivity|]. unfold float_rt in Hf. rewrite Hf. reflexivity.
      * destruct H as (z & ->). apply convert_revert_int. unfold int_class. rewrite B, T, F. reflexivity.
Qed.

(* the original text, when kept, must mean the value (dictionaries that came from a file);
   dictionaries built in code have no original text *)
Definition raw_ok (nid : option Z) (dt : Z) (raw : option str) (val : option pyv) : Prop :=
  match raw with
  | Some t => convert_variable nid dt t = val
  | None => match val with Some x => value_ok dt x | None => True end
  end.

Lemma value_text_roundtrip nid dt raw val : raw_ok nid dt raw val ->
  exists o, value_text dt raw val = Some o /\
            match o with Some t => convert_variable nid dt t | None => None end = val.
Proof.
  unfold raw_ok, value_text. destruct raw as [t|].
  - intros H. exists (Some t). split; [reflexivity|exact H].
  - destruct val as [x|].
    + intros H. destruct (convert_revert dt x nid H) as (t & R & C). rewrite R. exists (Some t). split; [reflexivity|exact C].
    + intros _. exists None. split; reflexivity.
Qed.

Record wf_var (nid : option Z) (v : odvar) : Prop := {
  wv_dt : 0 <= v_dt v <= 27;
  wv_access : v_access v <> [] /\ lower (v_access v) = v_access v;
  wv_storage : v_storage v <> Some [];
  wv_default : raw_ok nid (v_dt v) (v_default_raw v) (v_default v);
  wv_value : raw_ok nid (v_dt v) (v_value_raw v) (v_value v);
  wv_min : forall z, v_min v = Some z -> zmem (v_dt v) SIGNED_TYPES = true -> z < 2 ^ (signed_width (v_dt v) - 1);
  wv_max : forall z, v_max v = Some z -> zmem (v_dt v) SIGNED_TYPES = true -> z < 2 ^ (signed_width (v_dt v) - 1);
  wv_factor : v_factor v = (1, 0) \/ float_rt (v_factor v) }.

(* the attributes the property lists *)
Definition same_attrs (dcf : bool) (v v' : odvar) : Prop :=
  v_name v' = v_name v /\ v_index v' = v_index v /\ v_sub v' = v_sub v /\ v_dt v' = v_dt v /\
  v_access v' = v_access v /\ v_pdo v' = v_pdo v /\ v_default v' = v_default v /\
  v_min v' = v_min v /\ v_max v' = v_max v /\ v_storage v' = v_storage v /\
  v_factor v' = v_factor v /\ v_unit v' = v_unit v /\ v_descr v' = v_descr v /\
  (dcf = true -> v_value v' = v_value v).

Lemma nonempty_back t : match nonempty t with Some x => x | None => [] end = t.
Proof. destruct t; reflexivity. Qed.

Lemma req_int0_spell sp z : req_int0 (spell sp z) = Ok z.
Proof. unfold req_int0. rewrite int0_spell. reflexivity. Qed.

Lemma hex_dt_is_spell dt : 0 <= dt -> s "0x" ++ fmt_X 4 dt = spell (SpHex false false 4) dt.
Proof. intros H. unfold fmt_X, spell. replace (dt <? 0) with false by lia. reflexivity. Qed.

(* what import makes of the section export writes for v *)
Definition reimported (dcf : bool) (v : odvar) (dv pv : option str) : odvar :=
  mkVar (v_name v) (v_index v) (v_sub v) (v_dt v) (v_access v) (v_pdo v) (v_default v) (v_min v) (v_max v)
        (if dcf then v_value v else None) dv (if dcf then pv else None)
        (match dv with Some t => contains NODEID t | None => false end)
        (v_storage v) (v_factor v) (v_unit v) (v_descr v).

Lemma export_import_var d dcf top nid v : wf_var nid v ->
  exists dv pv, value_text (v_dt v) (v_default_raw v) (v_default v) = Some dv /\
    value_text (v_dt v) (v_value_raw v) (v_value v) = Some pv /\
    export_variable dcf top v = Some (var_section_name top v, kvs_of (var_entries dcf v dv pv)) /\
    build_variable d (kvs_of (var_entries dcf v dv pv)) nid (v_index v) (v_sub v) = Ok (reimported dcf v dv pv).
Proof.
  intros [Hdt [Ha1 Ha2] Hst Hd Hv Hmin Hmax Hf].
  destruct (value_text_roundtrip _ _ _ _ Hd) as (dv & Ed & Cd).
  destruct (value_text_roundtrip _ _ _ _ Hv) as (pv & Ev & Cv).
  exists dv, pv. split; [exact Ed|]. split; [exact Ev|]. unfold export_variable. rewrite Ed, Ev. split; [reflexivity|].
  unfold build_variable, var_entries. rewrite read_var_exported.
  unfold interp_var. cbn [r_name r_dt r_access r_pdo r_low r_high r_default r_pvalue r_storage r_factor r_unit r_descr req rbind].
  rewrite hex_dt_is_spell by lia. rewrite req_int0_spell. cbn [rbind].
  assert (An : nonempty (v_access v) = Some (v_access v)) by (destruct (v_access v) eqn:Eacc; [congruence|reflexivity]).
  rewrite An. cbn [req rbind]. replace (v_dt v >? 27) with false by lia. cbn [rbind].
  assert (Hp : req_int0 (hex_bool (v_pdo v)) = Ok (if v_pdo v then 1 else 0)) by (destruct (v_pdo v); reflexivity).
  rewrite Hp. cbn [rbind]. unfold reimported. f_equal.
  assert (Sto : match v_storage v with Some t => nonempty t | None => None end = v_storage v).
  { destruct (v_storage v) as [[|c t]|] eqn:Esto; [|reflexivity|reflexivity].
    exfalso. first [apply Hst; reflexivity | apply Hst; exact Esto]. }
  assert (Lim : forall o, (forall z, o = Some z -> zmem (v_dt v) SIGNED_TYPES = true -> z < 2 ^ (signed_width (v_dt v) - 1)) ->
                match option_map dec o with Some t => parse_limit (v_dt v) t | None => None end = o).
  { intros [z|] H; [|reflexivity]. cbn. apply limit_roundtrip. intros S. apply (H z eq_refl S). }
  rewrite (Lim _ Hmin), (Lim _ Hmax), Sto, Ha2, Cd.
  assert (Pd : negb ((if v_pdo v then 1 else 0) =? 0) = v_pdo v) by (destruct (v_pdo v); reflexivity).
  rewrite Pd.
  assert (Fa : match (if (fst (v_factor v) =? 1) && (snd (v_factor v) =? 0) then None else Some (float_print (v_factor v))) with
               | Some t => match float_parse t with Some f => f | None => (1, 0) end
               | None => (1, 0) end = v_factor v).
  { destruct ((fst (v_factor v) =? 1) && (snd (v_factor v) =? 0)) eqn:E.
    - destruct (v_factor v) as [m e]. cbn in E. f_equal; lia.
    - destruct Hf as [Hf|Hf]; [rewrite Hf in E; discriminate|]. unfold float_rt in Hf. rewrite Hf. reflexivity. }
  rewrite Fa, !nonempty_back.
  destruct dcf; [rewrite Cv|]; reflexivity.
Qed.

Lemma reimported_same dcf v dv pv : same_attrs dcf v (reimported dcf v dv pv).
Proof. unfold same_attrs, reimported. cbn. repeat split; try reflexivity. intros ->. reflexivity. Qed.

(* ================================================================== C08, object level: import a written variable *)
Definition dvalue_ok (nid : option Z) (dt : Z) (d : dvalue) : Prop :=
  match d with
  | DInt _ _ => int_class dt = true
  | DRel off _ _ _ => int_class dt = true /\ 0 <= off /\ nid <> None      (* resolved against the node id in force *)
  | DStr _ => is_bytes_type dt = false /\ is_text_type dt = true
  | DBytes b _ => is_bytes_type dt = true /\ bytes_ok b
  | DFloat f t => is_bytes_type dt = false /\ is_text_type dt = false /\ zmem dt FLOAT_TYPES = true /\ float_parse t = Some f
  end.

Definition limit_ok (dt : Z) (l : option (Z * limit_spelling)) : Prop :=
  match l with
  | None => True
  | Some (v, ls) =>
      if zmem dt SIGNED_TYPES then - 2 ^ (signed_width dt - 1) <= v < 2 ^ (signed_width dt - 1)
      else exists sp, ls = LPlain sp
  end.

Record wf_vdesc (nid : option Z) (v : vdesc) : Prop := {
  wd_dt : 0 <= d_dt v <= 27;
  wd_default : match d_default v with Some x => dvalue_ok nid (d_dt v) x | None => True end;
  wd_pvalue : match d_pvalue v with Some x => dvalue_ok nid (d_dt v) x | None => True end;
  wd_low : limit_ok (d_dt v) (d_low v);
  wd_high : limit_ok (d_dt v) (d_high v);
  wd_factor : match d_factor v with Some (f, t) => float_parse t = Some f | None => True end }.

Lemma convert_written nid dt x : dvalue_ok nid dt x -> convert_variable nid dt (dvalue_text x) = dvalue_sem nid x.
Proof.
  destruct x as [z sp|off sp post spaces|t|b up|f t]; cbn [dvalue_ok dvalue_sem].
  - intros H. apply convert_spell, H.
  - intros (H & Ho & Hn). destruct nid as [n|]; [|congruence]. cbn [option_map]. apply convert_relative; assumption.
  - intros (H1 & H2). unfold convert_variable. cbn [dvalue_text]. rewrite H1, H2. reflexivity.
  - intros (H1 & H2). unfold convert_variable. cbn [dvalue_text]. rewrite H1, fromhex_hexbytes by exact H2. reflexivity.
  - intros (H1 & H2 & H3 & H4). unfold convert_variable. cbn [dvalue_text]. rewrite H1, H2, H3, H4. destruct f; reflexivity.
Qed.

Lemma limit_written dt l : limit_ok dt l ->
  match option_map (fun p : Z * limit_spelling => spell_limit (signed_width dt) (snd p) (fst p)) l with
  | Some t => parse_limit dt t | None => None end = option_map fst l.
Proof.
  destruct l as [[v ls]|]; [|reflexivity]. cbn [limit_ok option_map fst snd].
  destruct (zmem dt SIGNED_TYPES) eqn:E.
  - intros H. apply signed_limit_written; assumption.
  - intros (sp & ->). cbn [spell_limit]. apply other_limit_written, E.
Qed.

Lemma import_written_var d nid index sub name ot (v : vdesc) : wf_vdesc nid v ->
  build_variable d (kvs_of ((k_PName, Some name) :: (s "ObjectType", ot) :: var_keys v)) nid index sub
  = Ok (described_var nid index sub name v).
Proof.
  intros [Hdt Hd Hp Hl Hh Hf]. unfold build_variable, var_keys. rewrite read_var_written.
  unfold interp_var. cbn [r_name r_dt r_access r_pdo r_low r_high r_default r_pvalue r_storage r_factor r_unit r_descr req rbind].
  rewrite req_int0_spell. cbn [rbind]. replace (d_dt v >? 27) with false by lia. cbn [rbind].
  assert (Pd : req_int0 (match option_map (fun p : bool * spelling => spell (snd p) (if fst p then 1 else 0)) (d_pdo v) with
                         | Some t => t | None => s "0" end)
               = Ok (match d_pdo v with Some (b, _) => if b then 1 else 0 | None => 0 end)).
  { destruct (d_pdo v) as [[b sp]|]; [|reflexivity]. cbn [option_map fst snd]. apply req_int0_spell. }
  rewrite Pd. cbn [rbind]. unfold described_var. f_equal.
  rewrite (limit_written _ _ Hl), (limit_written _ _ Hh).
  assert (Cv : forall o, match o with Some x => dvalue_ok nid (d_dt v) x | None => True end ->
               match option_map dvalue_text o with Some t => convert_variable nid (d_dt v) t | None => None end
               = match o with Some x => dvalue_sem nid x | None => None end).
  { intros [x|] H; [|reflexivity]. cbn [option_map]. apply convert_written, H. }
  rewrite (Cv _ Hd), (Cv _ Hp).
  assert (B : negb (match d_pdo v with Some (b, _) => if b then 1 else 0 | None => 0 end =? 0)
              = match d_pdo v with Some (b, _) => b | None => false end).
  { destruct (d_pdo v) as [[[|] sp]|]; reflexivity. }
  rewrite B.
  assert (F : match option_map snd (d_factor v) with
              | Some t => match float_parse t with Some f => f | None => (1, 0) end
              | None => (1, 0) end = match d_factor v with Some (f, _) => f | None => (1, 0) end).
  { destruct (d_factor v) as [[f t]|]; [|reflexivity]. cbn [option_map snd]. rewrite Hf. reflexivity. }
  rewrite F. destruct (d_default v); reflexivity.
Qed.

(* ================================================================== section names (finite: 65536 indices, 256 sub-indices) *)
Definition hexchar_lower_ok (c : Z) : bool :=
  implb (is_hex c) (is_hex (lower_c c) && match digit_val c, digit_val (lower_c c) with
                                          | Some x, Some y => x =? y | _, _ => false end).
Lemma hexchars_lower_ok : forallb hexchar_lower_ok (zrange 128) = true.
Proof. vm_compute. reflexivity. Qed.
Lemma is_hex_lower c : is_hex c = true -> is_hex (lower_c c) = true /\ digit_val (lower_c c) = digit_val c.
Proof.
  intros H. assert (B : 0 <= c < 128) by (unfold is_hex in H; lia).
  pose proof (zrange_check _ _ hexchars_lower_ok c B) as K. unfold hexchar_lower_ok in K. rewrite H in K.
  cbn [implb] in K. apply andb_prop in K as [K1 K2]. split; [exact K1|].
  destruct (digit_val c), (digit_val (lower_c c)); try discriminate. f_equal. lia.
Qed.
Lemma hexval_go_lower l : forallb is_hex l = true -> forall acc,
  fold_left (fun a c => a * 16 + match digit_val c with Some d => d | None => 0 end) (lower l) acc =
  fold_left (fun a c => a * 16 + match digit_val c with Some d => d | None => 0 end) l acc.
Proof.
  induction l as [|c r IH]; intros H acc; [reflexivity|].
  cbn [forallb] in H. apply andb_prop in H as [Hc Hr]. cbn [lower map fold_left].
  destruct (is_hex_lower c Hc) as (_ & E). rewrite E. apply (IH Hr).
Qed.
Lemma lower_hex_facts l : forallb is_hex l = true ->
  length (lower l) = length l /\ forallb is_hex (lower l) = true /\ hexval (lower l) = hexval l.
Proof.
  intros H. split; [apply map_length|]. split; [|apply hexval_go_lower, H].
  induction l as [|c r IH]; [reflexivity|]. cbn [forallb] in H. apply andb_prop in H as [Hc Hr].
  cbn [lower map forallb]. rewrite (proj1 (is_hex_lower c Hc)). apply (IH Hr).
Qed.

Lemma rdigits_length fuel : forall b v k, 2 <= b -> 0 <= v < b ^ Z.of_nat k -> (0 < k)%nat ->
  (length (rdigits fuel b v) <= k)%nat.
Proof.
  induction fuel as [|f IH]; intros b v k Hb Hv Hk; [cbn; lia|].
  cbn [rdigits]. destruct (v <? b) eqn:E; [cbn; lia|].
  destruct k as [|k]; [lia|]. destruct k as [|k].
  - cbn in Hv. lia.
  - cbn [length]. apply le_n_S. apply IH; [exact Hb| |lia].
    assert (Hp : b ^ Z.of_nat (S (S k)) = b * b ^ Z.of_nat (S k)).
    { replace (Z.of_nat (S (S k))) with (1 + Z.of_nat (S k)) by lia. rewrite Z.pow_add_r by lia. lia. }
    assert (0 < b ^ Z.of_nat (S k)) by (apply Z.pow_pos_nonneg; lia).
    split; [apply Z.div_pos; lia|]. apply Z.div_lt_upper_bound; lia.
Qed.

Lemma hexval_go_chars ch (D : digit_chars 16 ch) ds : digits_ok 16 ds -> forall acc,
  fold_left (fun a c => a * 16 + match digit_val c with Some d => d | None => 0 end) (map ch ds) acc = pval 16 ds acc.
Proof.
  induction 1 as [|d r Hd Hr IH]; intros acc; [reflexivity|].
  cbn [map fold_left]. rewrite (dc_val _ _ D d Hd). unfold pval. cbn [fold_left]. apply IH.
Qed.

Lemma is_hex_hexchar_u d : 0 <= d < 16 -> is_hex (hexchar_u d) = true.
Proof. intros H. apply (zrange_check (fun d => is_hex (hexchar_u d)) 16); [vm_compute; reflexivity|exact H]. Qed.

Definition index_name_ok (i : Z) : bool :=
  let n := fmt_X 4 i in (length n =? 4)%nat && forallb is_hex n && (hexval n =? i).
Lemma index_names_ok_at i : 0 <= i < 65536 -> index_name_ok i = true.
Proof.
  intros H. unfold index_name_ok, fmt_X. replace (i <? 0) with false by lia.
  destruct (digits_spec 16 i ltac:(lia) ltac:(lia)) as (P & D & N).
  assert (L : (length (digits 16 i) <= 4)%nat).
  { unfold digits. rewrite rev_length. apply rdigits_length; [lia| |lia]. change (16 ^ Z.of_nat 4) with 65536. lia. }
  unfold hex_u, pad0. rewrite map_length.
  set (k := (4 - length (digits 16 i))%nat).
  assert (Lk : length (repeat 48 k ++ map hexchar_u (digits 16 i)) = 4%nat).
  { rewrite app_length, repeat_length, map_length. unfold k. lia. }
  rewrite Lk. cbn [Nat.eqb andb].
  assert (Hx : forallb is_hex (repeat 48 k ++ map hexchar_u (digits 16 i)) = true).
  { rewrite forallb_app. apply andb_true_intro. split.
    - apply forallb_forall. intros c Hc. apply repeat_spec in Hc. subst. reflexivity.
    - apply forallb_forall. intros c Hc. apply in_map_iff in Hc as (d & <- & Hd).
      unfold digits_ok in D. rewrite Forall_forall in D. apply is_hex_hexchar_u, D, Hd. }
  rewrite Hx. cbn [andb]. apply Z.eqb_eq. unfold hexval. rewrite fold_left_app.
  assert (Z0 : fold_left (fun a c => a * 16 + match digit_val c with Some d => d | None => 0 end) (repeat 48 k) 0 = 0).
  { clear. induction k as [|k IH]; [reflexivity|]. cbn [repeat fold_left]. exact IH. }
  rewrite Z0, (hexval_go_chars _ dc_hex_u) by exact D. exact P.
Qed.
Lemma index_names_ok : forall i, 0 <= i < 65536 -> index_name_ok i = true.
Proof. exact index_names_ok_at. Qed.

Definition sub_name_ok (j : Z) : bool :=
  let h := fmt_X 0 j in negb (length h =? 0)%nat && (length h <=? 2)%nat && forallb is_hex h && (hexval h =? j).
Lemma sub_names_ok : forallb sub_name_ok (zrange 256) = true.
Proof. vm_compute. reflexivity. Qed.

Definition sub_text (lower_sub : bool) (j : Z) : str := if lower_sub then lower (fmt_X 0 j) else fmt_X 0 j.

Lemma dummy_needs_10 n : length n <> 10%nat -> is_dummy_name n = false.
Proof. intros H. unfold is_dummy_name. replace (length n =? 10)%nat with false; [reflexivity|]. symmetry. apply Nat.eqb_neq, H. Qed.

Lemma index_name_facts lo i : 0 <= i < 65536 ->
  length (sec_name lo i) = 4%nat /\ forallb is_hex (sec_name lo i) = true /\ is_index_name (sec_name lo i) = true /\
  hexval (sec_name lo i) = i /\ is_dummy_name (sec_name lo i) = false.
Proof.
  intros H. pose proof (index_names_ok i H) as K.
  unfold index_name_ok in K. repeat (apply andb_prop in K as [K ?]).
  apply Nat.eqb_eq in K.
  assert (A : length (sec_name lo i) = 4%nat /\ forallb is_hex (sec_name lo i) = true /\ hexval (sec_name lo i) = i).
  { unfold sec_name. destruct lo.
    - destruct (lower_hex_facts (fmt_X 4 i)) as (L1 & L2 & L3); [assumption|]. rewrite L1, L3. repeat split; [assumption|assumption|lia].
    - repeat split; [assumption|assumption|lia]. }
  destruct A as (A1 & A2 & A3). repeat split; try assumption.
  - unfold is_index_name. rewrite A1, A2. reflexivity.
  - apply dummy_needs_10. rewrite A1. discriminate.
Qed.

Lemma sub_name_facts lo j : 0 <= j < 256 ->
  sub_text lo j <> [] /\ (length (sub_text lo j) <= 2)%nat /\ forallb is_hex (sub_text lo j) = true /\ hexval (sub_text lo j) = j.
Proof.
  intros H. pose proof (zrange_check _ _ sub_names_ok j H) as K.
  unfold sub_name_ok in K. repeat (apply andb_prop in K as [K ?]).
  assert (N : length (fmt_X 0 j) <> 0%nat) by (intros E; rewrite E in K; discriminate).
  assert (L : (length (fmt_X 0 j) <= 2)%nat) by (apply Nat.leb_le; assumption).
  unfold sub_text. destruct lo.
  - destruct (lower_hex_facts (fmt_X 0 j)) as (L1 & L2 & L3); [assumption|]. rewrite L1, L3.
    repeat split; [|assumption|assumption|lia]. intros E. apply N. rewrite <- L1, E. reflexivity.
  - repeat split; [|assumption|assumption|lia]. intros E. apply N. rewrite E. reflexivity.
Qed.

(* ================================================================== the dictionary as a state *)
Lemma zassoc_app {A} k (x y : list (Z * A)) :
  zassoc k (x ++ y) = match zassoc k x with Some a => Some a | None => zassoc k y end.
Proof.
  induction x as [|[k' a] r IH]; [reflexivity|]. cbn [app zassoc]. destruct (k =? k'); [reflexivity|exact IH].
Qed.
Lemma zassoc_filter_ne {A} k (l : list (Z * A)) : zassoc k (filter (fun p => negb (k =? fst p)) l) = None.
Proof.
  induction l as [|[k' a] r IH]; [reflexivity|]. cbn [filter fst]. destruct (k =? k') eqn:E; cbn [negb]; [exact IH|].
  cbn [zassoc]. rewrite E. exact IH.
Qed.
Lemma zassoc_zset_same {A} k (a : A) l : zassoc k (zset k a l) = Some a.
Proof. unfold zset. rewrite zassoc_app, zassoc_filter_ne. cbn. rewrite Z.eqb_refl. reflexivity. Qed.

Lemma zassoc_filter_other {A} k k' (l : list (Z * A)) : k <> k' ->
  zassoc k (filter (fun p => negb (k' =? fst p)) l) = zassoc k l.
Proof.
  intros H. induction l as [|[k2 a] r IH]; [reflexivity|]. cbn [filter fst zassoc].
  destruct (k' =? k2) eqn:E; cbn [negb].
  - replace (k =? k2) with false by lia. exact IH.
  - cbn [zassoc]. destruct (k =? k2); [reflexivity|exact IH].
Qed.
Lemma zassoc_zset_other {A} k k' (a : A) l : k <> k' -> zassoc k (zset k' a l) = zassoc k l.
Proof.
  intros H. unfold zset. rewrite zassoc_app, zassoc_filter_other by exact H.
  destruct (zassoc k l); [reflexivity|]. cbn. replace (k =? k') with false by lia. reflexivity.
Qed.

Lemma set_nth_last {A} (h : list A) o o' : set_nth (length h) o' (h ++ [o]) = h ++ [o'].
Proof. induction h as [|x r IH]; [reflexivity|]. cbn. f_equal. exact IH. Qed.

Lemma od_get_added o od : od_get_int (add_object o od) (obj_index o) = Ok (length (od_heap od), o).
Proof.
  unfold od_get_int, add_object. cbn [od_indices od_heap]. rewrite zassoc_zset_same.
  rewrite nth_error_app2 by lia. rewrite Nat.sub_diag. reflexivity.
Qed.

Lemma set_heap_added o o' od : obj_index o' = obj_index o -> obj_name o' = obj_name o ->
  set_heap (length (od_heap od)) o' (add_object o od) = add_object o' od.
Proof.
  intros Hi Hn. unfold set_heap, add_object. cbn [od_heap od_indices od_names od_comments od_bitrate od_node_id od_devinfo od_bools od_baud].
  rewrite set_nth_last, Hi, Hn. reflexivity.
Qed.

(* ================================================================== sections of the reference writer, one object at a time *)
Lemma import_section_other D nid n kv od :
  is_dummy_name n = false -> is_index_name n = false -> sub_match n = None -> name_match n = None ->
  import_section D nid (n, kv) od = Ok od.
Proof. intros H1 H2 H3 H4. unfold import_section. rewrite H1, H2, H3, H4. reflexivity. Qed.

Lemma read_head_written (name dtx acc : str) (ot dv pv pdo low high sto fac unit descr : option str) :
  read_head (kvs_of ((k_PName, Some name) :: (s "ObjectType", ot) ::
                    [ (s "DataType", Some dtx); (s "AccessType", Some acc); (s "DefaultValue", dv);
                      (k_PValue, pv); (s "PDOMapping", pdo); (s "LowLimit", low); (s "HighLimit", high);
                      (s "StorageLocation", sto); (s "Factor", fac); (s "Unit", unit); (s "Description", descr) ]))
  = mkHead (Some name) ot sto None.
Proof.
  destruct ot, dv, pv, pdo, low, high, sto, fac, unit, descr; vm_compute; reflexivity.
Qed.

Lemma objtype_var_or_domain (b : bool) : ((if b then 2 else 7) =? OT_VAR) || ((if b then 2 else 7) =? OT_DOMAIN) = true.
Proof. destruct b; reflexivity. Qed.

Lemma import_var_object D nid rest od index lo ot domain v :
  0 <= index < 65536 -> wf_vdesc nid v ->
  import_sections D nid (write_obj (DVar index lo ot domain v) ++ rest) od =
  import_sections D nid rest (add_object (described_obj nid (DVar index lo ot domain v)) od).
Proof.
  intros Hi Hv. destruct (index_name_facts lo index Hi) as (_ & _ & N1 & N2 & N3).
  cbn [write_obj app import_sections]. unfold import_section. rewrite N3. cbn [rbind]. rewrite N1, N2.
  unfold import_index, var_keys. rewrite read_head_written. fold (var_keys v).
  cbn [h_name h_objtype h_storage h_compact req rbind].
  destruct ot as [sp|]; cbn [option_map].
  - rewrite req_int0_spell. cbn [rbind]. rewrite objtype_var_or_domain.
    rewrite import_written_var by exact Hv. reflexivity.
  - cbn [rbind]. change ((OT_VAR =? OT_VAR) || (OT_VAR =? OT_DOMAIN)) with true. cbn iota.
    rewrite import_written_var by exact Hv. reflexivity.
Qed.

Lemma firstn_skipn_app {A} (a b : list A) n : length a = n -> firstn n (a ++ b) = a /\ skipn n (a ++ b) = b.
Proof.
  intros <-. split.
  - rewrite firstn_app, Nat.sub_diag, firstn_all. cbn. apply app_nil_r.
  - rewrite skipn_app, Nat.sub_diag, skipn_all. reflexivity.
Qed.

Definition member_name (lo cap_sub lower_sub : bool) (index sub : Z) : str :=
  sec_name lo index ++ (if cap_sub then s "Sub" else s "sub") ++ sub_text lower_sub sub.

Lemma member_name_facts lo cap lowsub index sub : 0 <= index < 65536 -> 0 <= sub < 256 ->
  let n := member_name lo cap lowsub index sub in
  is_dummy_name n = false /\ is_index_name n = false /\ sub_match n = Some (index, sub) /\ name_match n = None.
Proof.
  intros Hi Hs. destruct (index_name_facts lo index Hi) as (L & X & _ & V & _).
  destruct (sub_name_facts lowsub sub Hs) as (N & L2 & X2 & V2).
  cbn zeta. unfold member_name.
  set (sec := sec_name lo index) in *. set (st := sub_text lowsub sub) in *.
  assert (Len : length (sec ++ (if cap then s "Sub" else s "sub") ++ st) = (7 + length st)%nat).
  { rewrite !app_length, L. destruct cap; reflexivity. }
  assert (Lst : (1 <= length st <= 2)%nat). { destruct st; [congruence|cbn in *; lia]. }
  destruct (firstn_skipn_app sec ((if cap then s "Sub" else s "sub") ++ st) 4 L) as (F & S).
  repeat split.
  - apply dummy_needs_10. lia.
  - unfold is_index_name. replace (length (sec ++ (if cap then s "Sub" else s "sub") ++ st) =? 4)%nat with false; [reflexivity|].
    symmetry. apply Nat.eqb_neq. lia.
  - unfold sub_match. rewrite F, S, L, X. cbn [Nat.eqb andb].
    assert (E : (if cap then s "Sub" else s "sub") ++ st = (if cap then 83 else 115) :: 117 :: 98 :: st) by (destruct cap; reflexivity).
    rewrite E. replace (((if cap then 83 else 115) =? 83) || ((if cap then 83 else 115) =? 124) || ((if cap then 83 else 115) =? 115)) with true by (destruct cap; reflexivity).
    change (starts_with (s "ub") (117 :: 98 :: st)) with true. change (skipn 2 (117 :: 98 :: st)) with st.
    rewrite X2. replace (length st =? 0)%nat with false by (symmetry; apply Nat.eqb_neq; lia).
    cbn [andb negb]. rewrite V, V2. reflexivity.
  - unfold name_match. rewrite F, S, L, X. cbn [Nat.eqb andb].
    replace (starts_with (s "Name") ((if cap then s "Sub" else s "sub") ++ st)) with false by (destruct cap; reflexivity).
    reflexivity.
Qed.

Lemma read_head_cont (name ot sn : str) (sto : option str) :
  read_head (kvs_of [ (k_PName, Some name); (s "ObjectType", Some ot); (s "SubNumber", Some sn);
                      (s "StorageLocation", sto) ]) = mkHead (Some name) (Some ot) sto None.
Proof. destruct sto; vm_compute; reflexivity. Qed.

Definition member_section (lo cap lowsub : bool) (index : Z) (m : vdesc) : section :=
  (member_name lo cap lowsub index (d_sub m), kvs_of ((k_PName, Some (d_name m)) :: var_keys m)).

Lemma kvs_of_no_objtype (a : str * option str) r : kvs_of (a :: r) = kvs_of (a :: (s "ObjectType", None) :: r).
Proof. reflexivity. Qed.

Definition member_ok (nid : option Z) (m : vdesc) : Prop := wf_vdesc nid m /\ 0 <= d_sub m < 256.

Lemma import_members D nid index lo cap lowsub : 0 <= index < 65536 -> forall ms rest c od0,
  c_index c = index -> Forall (member_ok nid) ms ->
  import_sections D nid (map (member_section lo cap lowsub index) ms ++ rest) (add_object (OCont c) od0) =
  import_sections D nid rest
    (add_object (OCont (fold_left (fun c v => add_member v c)
                          (map (fun m => described_var nid index (d_sub m) (d_name m) m) ms) c)) od0).
Proof.
  intros Hi. induction ms as [|m r IH]; intros rest c od0 Hc Hm; [reflexivity|].
  inversion Hm as [|? ? [Hw Hs] Hr]; subst.
  destruct (member_name_facts lo cap lowsub (c_index c) (d_sub m) Hi Hs) as (N1 & N2 & N3 & N4).
  cbn [map app import_sections]. unfold member_section at 1. unfold import_section. rewrite N1. cbn [rbind].
  rewrite N2, N3, N4. unfold import_sub.
  change (c_index c) with (obj_index (OCont c)) at 1. rewrite od_get_added. cbn [rbind snd fst].
  rewrite kvs_of_no_objtype, import_written_var by exact Hw. cbn [rbind].
  rewrite set_heap_added by reflexivity.
  rewrite IH; [reflexivity|reflexivity|exact Hr].
Qed.

Lemma import_cont_object D nid rest od k index lo name storage ot_sp cap lowsub members :
  0 <= index < 65536 -> Forall (member_ok nid) members ->
  import_sections D nid (write_obj (DCont k index lo name storage ot_sp cap lowsub members) ++ rest) od =
  import_sections D nid rest (add_object (described_obj nid (DCont k index lo name storage ot_sp cap lowsub members)) od).
Proof.
  intros Hi Hm. destruct (index_name_facts lo index Hi) as (_ & _ & N1 & N2 & N3).
  cbn [write_obj]. rewrite <- app_comm_cons. cbn [import_sections]. unfold import_section at 1.
  rewrite N3. cbn [rbind]. rewrite N1, N2.
  unfold import_index. rewrite read_head_cont. cbn [h_name h_objtype h_storage h_compact req rbind].
  rewrite req_int0_spell. cbn [rbind].
  assert (E : (if (match k with KArr => 8 | KRec => 9 end =? OT_VAR) || (match k with KArr => 8 | KRec => 9 end =? OT_DOMAIN)
               then rbind (build_variable D (kvs_of [ (k_PName, Some name);
                             (s "ObjectType", Some (spell ot_sp match k with KArr => 8 | KRec => 9 end));
                             (s "SubNumber", Some (dec (Z.of_nat (length members)))); (s "StorageLocation", storage) ]) nid index 0)
                          (fun v => Ok (add_object (OVar v) od))
               else if match k with KArr => 8 | KRec => 9 end =? OT_ARR
                    then Ok (add_object (OCont (mkCont KArr name index storage [] [])) od)
                    else if match k with KArr => 8 | KRec => 9 end =? OT_RECORD
                         then Ok (add_object (OCont (mkCont KRec name index storage [] [])) od) else Ok od)
              = Ok (add_object (OCont (mkCont k name index storage [] [])) od)) by (destruct k; reflexivity).
  rewrite E. cbn [rbind].
  change (map (fun m => (sec_name lo index ++ (if cap then s "Sub" else s "sub") ++
                           (if lowsub then lower (fmt_X 0 (d_sub m)) else fmt_X 0 (d_sub m)),
                         kvs_of ((k_PName, Some (d_name m)) :: var_keys m))) members)
    with (map (member_section lo cap lowsub index) members).
  exact (import_members D nid index lo cap lowsub Hi members rest (mkCont k name index storage [] []) od eq_refl Hm).
Qed.

(* ---- compact arrays ---- *)
Lemma read_var_compact (name dtx acc cso : str) (ot dv pv pdo low high sto fac unit descr : option str) :
  read_var (kvs_of ((k_PName, Some name) :: (s "ObjectType", ot) ::
                    [ (s "DataType", Some dtx); (s "AccessType", Some acc); (s "DefaultValue", dv);
                      (k_PValue, pv); (s "PDOMapping", pdo); (s "LowLimit", low); (s "HighLimit", high);
                      (s "StorageLocation", sto); (s "Factor", fac); (s "Unit", unit); (s "Description", descr) ]
                    ++ [(s "CompactSubObj", Some cso)]))
  = mkRaw (Some name) sto (Some dtx) (Some acc) pdo low high dv pv fac descr unit /\
  read_head (kvs_of ((k_PName, Some name) :: (s "ObjectType", ot) ::
                    [ (s "DataType", Some dtx); (s "AccessType", Some acc); (s "DefaultValue", dv);
                      (k_PValue, pv); (s "PDOMapping", pdo); (s "LowLimit", low); (s "HighLimit", high);
                      (s "StorageLocation", sto); (s "Factor", fac); (s "Unit", unit); (s "Description", descr) ]
                    ++ [(s "CompactSubObj", Some cso)]))
  = mkHead (Some name) ot sto (Some cso).
Proof.
  destruct ot, dv, pv, pdo, low, high, sto, fac, unit, descr; vm_compute; split; reflexivity.
Qed.

(* build_variable only looks at its twelve keys: an extra CompactSubObj entry does not matter *)
Lemma build_variable_compact D nid index sub name ot cso (v : vdesc) : wf_vdesc nid v ->
  build_variable D (kvs_of ((k_PName, Some name) :: (s "ObjectType", ot) :: var_keys v ++ [(s "CompactSubObj", Some cso)])) nid index sub
  = Ok (described_var nid index sub name v).
Proof.
  intros Hv. rewrite <- (import_written_var D nid index sub name ot v Hv).
  unfold build_variable, var_keys. rewrite read_var_written.
  rewrite (proj1 (read_var_compact _ _ _ _ _ _ _ _ _ _ _ _ _ _)). reflexivity.
Qed.

Lemma dec_inj a b : dec a = dec b -> a = b.
Proof. intros H. pose proof (int10_dec a) as A. rewrite H, int10_dec in A. congruence. Qed.
Lemma streq_dec a b : streq (dec a) (dec b) = (a =? b).
Proof.
  destruct (a =? b) eqn:E.
  - replace b with a by lia. apply streq_refl.
  - destruct (streq (dec a) (dec b)) eqn:S; [|reflexivity]. apply list_Z_eqb_eq in S. apply dec_inj in S. lia.
Qed.
Lemma streq_dec_word a w : int10 w = None -> streq (dec a) w = false.
Proof.
  intros H. destruct (streq (dec a) w) eqn:S; [|reflexivity].
  apply list_Z_eqb_eq in S. rewrite <- S, int10_dec in H. discriminate.
Qed.

Fixpoint names_sorted (lo hi : Z) (l : list (Z * str)) : Prop :=
  match l with [] => True | (k, _) :: r => lo <= k < hi /\ names_sorted (k + 1) hi r end.

Definition name_entries (l : list (Z * str)) : list (str * str) := map (fun p : Z * str => (dec (fst p), snd p)) l.

Lemma name_entries_miss k l : (forall p, In p l -> fst p <> k) -> sassoc (dec k) (name_entries l) = None.
Proof.
  induction l as [|[j nm] r IH]; intros H; [reflexivity|].
  cbn [name_entries map sassoc fst snd]. rewrite streq_dec.
  replace (k =? j) with false by (specialize (H (j, nm) (or_introl eq_refl)); cbn in H; lia).
  apply IH. intros p Hp. apply H. right. exact Hp.
Qed.

Lemma names_sorted_lower lo hi l : names_sorted lo hi l -> forall p, In p l -> lo <= fst p.
Proof.
  revert lo. induction l as [|[j nm] r IH]; intros lo H p Hp; [destruct Hp|].
  cbn in H. destruct H as (Hj & Hr). destruct Hp as [<-|Hp]; [cbn; lia|].
  specialize (IH (j + 1) Hr p Hp). lia.
Qed.

Definition copied (src : odvar) (sub : Z) (name : str) : odvar :=
  mkVar name (v_index src) sub (v_dt src) (v_access src) (v_pdo src) (v_default src)
        (v_min src) (v_max src) (v_value src) (v_default_raw src) (v_value_raw src)
        (v_relative src) (v_storage src) (v_factor src) (v_unit src) (v_descr src).

Lemma sassoc_app_str {A} key (x y : list (str * A)) :
  sassoc key (x ++ y) = match sassoc key x with Some a => Some a | None => sassoc key y end.
Proof. induction x as [|[k' a] t IHx]; [reflexivity|]. cbn [app sassoc]. destruct (streq key k'); [reflexivity|exact IHx]. Qed.

Lemma sassoc_name_entries_app key pre l :
  sassoc key (name_entries (pre ++ l)) =
  match sassoc key (name_entries pre) with Some a => Some a | None => sassoc key (name_entries l) end.
Proof. unfold name_entries. rewrite map_app. apply sassoc_app_str. Qed.

Lemma copy_names_sorted hk hv src : int10 hk = None -> forall cnt lo pre l c,
  (forall p, In p pre -> fst p < lo) -> names_sorted lo (lo + Z.of_nat cnt) l ->
  copy_names ((hk, hv) :: name_entries (pre ++ l)) src cnt lo c =
  fold_left (fun c v => add_member v c) (map (fun p : Z * str => copied src (fst p) (snd p)) l) c.
Proof.
  intros Hh. induction cnt as [|cnt IH]; intros lo pre l c Hpre Hl.
  - destruct l as [|[k nm] r]; [reflexivity|]. cbn in Hl. lia.
  - cbn [copy_names]. unfold opt_get. cbn [sassoc]. rewrite (streq_dec_word lo hk Hh).
    rewrite sassoc_name_entries_app.
    assert (Mp : sassoc (dec lo) (name_entries pre) = None).
    { apply name_entries_miss. intros p Hp. specialize (Hpre p Hp). lia. }
    rewrite Mp.
    destruct l as [|[k nm] r].
    + cbn [name_entries map sassoc fold_left]. apply (IH (lo + 1) pre [] c); [|exact I].
      intros p Hp. specialize (Hpre p Hp). lia.
    + cbn in Hl. destruct Hl as (Hk & Hr).
      cbn [name_entries map sassoc fst snd]. rewrite streq_dec.
      destruct (lo =? k) eqn:E.
      * assert (k = lo) by lia. subst k. cbn [map fold_left fst snd].
        pose proof (IH (lo + 1) (pre ++ [(lo, nm)]) r (add_member (copied src lo nm) c)) as IH'.
        rewrite <- app_assoc in IH'. cbn [app] in IH'. apply IH'.
        -- intros p Hp. apply in_app_or in Hp as [Hp|[<-|[]]]; [specialize (Hpre p Hp); lia|cbn; lia].
        -- replace (lo + 1 + Z.of_nat cnt) with (lo + Z.of_nat (S cnt)) by lia. exact Hr.
      * assert (Mr : sassoc (dec lo) (name_entries r) = None).
        { apply name_entries_miss. intros p Hp. pose proof (names_sorted_lower _ _ _ Hr p Hp). lia. }
        fold (name_entries r). rewrite Mr.
        apply (IH (lo + 1) pre ((k, nm) :: r) c).
        -- intros p Hp. specialize (Hpre p Hp). lia.
        -- cbn. split; [lia|]. replace (lo + 1 + Z.of_nat cnt) with (lo + Z.of_nat (S cnt)) by lia. exact Hr.
Qed.

Definition names_ok (n : Z) (names : option (list (Z * str))) : Prop :=
  match names with None => True | Some l => names_sorted 1 (1 + Z.of_nat (Z.to_nat n)) l end.

Lemma name_section_facts lo index : 0 <= index < 65536 ->
  let n := sec_name lo index ++ s "Name" in
  is_dummy_name n = false /\ is_index_name n = false /\ sub_match n = None /\ name_match n = Some index.
Proof.
  intros Hi. destruct (index_name_facts lo index Hi) as (L & X & _ & V & _).
  cbn zeta. set (sec := sec_name lo index) in *.
  destruct (firstn_skipn_app sec (s "Name") 4 L) as (F & S).
  assert (Len : length (sec ++ s "Name") = 8%nat) by (rewrite app_length, L; reflexivity).
  repeat split.
  - apply dummy_needs_10. rewrite Len. discriminate.
  - unfold is_index_name. rewrite Len. reflexivity.
  - unfold sub_match. rewrite F, S, L, X. reflexivity.
  - unfold name_match. rewrite F, S, L, X, V. reflexivity.
Qed.

Lemma copy_names_keeps kv src cnt : forall lo c,
  c_kind (copy_names kv src cnt lo c) = c_kind c /\ c_name (copy_names kv src cnt lo c) = c_name c /\
  c_index (copy_names kv src cnt lo c) = c_index c.
Proof.
  induction cnt as [|cnt IH]; intros lo c; [repeat split|].
  cbn [copy_names]. destruct (opt_get kv (dec lo)) as [nm|]; [|apply IH].
  destruct (IH (lo + 1) (add_member (copied src lo nm) c)) as (A & B & C). unfold copied in *.
  rewrite A, B, C. repeat split.
Qed.

Lemma import_compact_object D nid rest od index lo ot_sp v n names :
  0 <= index < 65536 -> wf_vdesc nid v -> names_ok n names ->
  import_sections D nid (write_obj (DCompact index lo ot_sp v n names) ++ rest) od =
  import_sections D nid rest (add_object (described_obj nid (DCompact index lo ot_sp v n names)) od).
Proof.
  intros Hi Hv Hn. destruct (index_name_facts lo index Hi) as (_ & _ & N1 & N2 & N3).
  cbn [write_obj]. rewrite <- app_comm_cons.
  set (kv := kvs_of ((k_PName, Some (d_name v)) :: (s "ObjectType", Some (spell ot_sp 8)) ::
                     var_keys v ++ [(s "CompactSubObj", Some (dec n))])).
  assert (RH : read_head kv = mkHead (Some (d_name v)) (Some (spell ot_sp 8)) (d_storage v) (Some (dec n))).
  { unfold kv, var_keys. apply (proj2 (read_var_compact _ _ _ _ _ _ _ _ _ _ _ _ _ _)). }
  assert (BV : build_variable D kv nid index 1 = Ok (described_var nid index 1 (d_name v) v))
    by (apply build_variable_compact; exact Hv).
  cbn [import_sections]. unfold import_section at 1.
  rewrite N3. cbn [rbind]. rewrite N1, N2.
  unfold import_index. rewrite RH.
  cbn [h_name h_objtype h_storage h_compact req rbind]. rewrite req_int0_spell. cbn [rbind].
  change ((8 =? OT_VAR) || (8 =? OT_DOMAIN)) with false. change (8 =? OT_ARR) with true. cbn iota.
  rewrite BV. cbn [rbind]. clear RH BV. clearbody kv.
  set (src := described_var nid index 1 (d_name v) v).
  set (o1 := OCont (mkCont KArr (d_name v) index (d_storage v)
                      (c_subs (add_member src (add_member (number_of_entries index) (mkCont KArr (d_name v) index None [] []))))
                      (c_names (add_member src (add_member (number_of_entries index) (mkCont KArr (d_name v) index None [] [])))))).
  destruct names as [l|].
  - cbn [app import_sections]. destruct (name_section_facts lo index Hi) as (M1 & M2 & M3 & M4).
    unfold import_section. rewrite M1. cbn [rbind]. rewrite M2, M3, M4.
    unfold import_names. 
    change (req_get ((s "NrOfEntries", dec n) :: map (fun p : Z * str => (dec (fst p), snd p)) l) (s "NrOfEntries")) with (Ok (A := str) (dec n)).
    cbn [rbind]. unfold req_int10. rewrite int10_dec. cbn [rbind].
    change index with (obj_index o1) at 1. rewrite od_get_added. cbn [rbind snd fst].
    change (obj_get o1 (KI 1)) with (Ok (A := odvar) src). cbn [rbind].
    unfold o1 at 1.
    rewrite set_heap_added.
    + f_equal. f_equal. cbn [described_obj]. unfold build_cont. f_equal.
      fold (name_entries l). 
      rewrite (copy_names_sorted (s "NrOfEntries") (dec n) src eq_refl (Z.to_nat n) 1 [] l _ (fun p (H : In p []) => match H with end) Hn).
      reflexivity.
    + cbn [obj_index]. apply copy_names_keeps.
    + cbn [obj_name]. apply copy_names_keeps.
  - reflexivity.
Qed.

(* ================================================================== whole documents of the reference writer *)
Definition odesc_ok (nid : option Z) (o : odesc) : Prop :=
  match o with
  | DVar i _ _ _ v => 0 <= i < 65536 /\ wf_vdesc nid v
  | DCont _ i _ _ _ _ _ _ ms => 0 <= i < 65536 /\ Forall (member_ok nid) ms
  | DCompact i _ _ v n names => 0 <= i < 65536 /\ wf_vdesc nid v /\ names_ok n names
  end.

Lemma import_object D nid o rest od : odesc_ok nid o ->
  import_sections D nid (write_obj o ++ rest) od = import_sections D nid rest (add_object (described_obj nid o) od).
Proof.
  destruct o; cbn [odesc_ok].
  - intros (H1 & H2). apply import_var_object; assumption.
  - intros (H1 & H2). apply import_cont_object; assumption.
  - intros (H1 & H2 & H3). apply import_compact_object; assumption.
Qed.

Lemma import_objects D nid objs : Forall (odesc_ok nid) objs -> forall rest od,
  import_sections D nid (flat_map write_obj objs ++ rest) od =
  import_sections D nid rest (fold_left (fun od o => add_object (described_obj nid o) od) objs od).
Proof.
  induction 1 as [|o r Ho Hr IH]; intros rest od; [reflexivity|].
  cbn [flat_map fold_left]. rewrite <- app_assoc, import_object by exact Ho. apply IH.
Qed.

Lemma import_sections_app D nid a b od :
  import_sections D nid (a ++ b) od = rbind (import_sections D nid a od) (import_sections D nid b).
Proof.
  revert od. induction a as [|x r IH]; intros od; [reflexivity|].
  cbn [app import_sections]. destruct (import_section D nid x od); cbn [rbind]; [apply IH|reflexivity|reflexivity].
Qed.

Lemma import_fixed_parts D nid od :
  (forall b, import_sections D nid (head_fileinfo b) od = Ok od) /\
  (forall b o, import_sections D nid (pick b (head_devinfo o)) od = Ok od) /\
  (forall b o, import_sections D nid (pick b (head_commissioning o)) od = Ok od) /\
  (forall b, import_sections D nid (head_dummy b) od = Ok od) /\
  (forall b o, import_sections D nid (pick b (head_comments o)) od = Ok od).
Proof.
  split; [intros [|]; reflexivity|]. split; [|split; [|split]].
  - intros [|] [pb|]; reflexivity.
  - intros [|] [c|]; reflexivity.
  - intros [|]; vm_compute; reflexivity.
  - intros [|] [c|]; reflexivity.
Qed.

Lemma import_head D nid d od : import_sections D nid (write_head d) od = Ok od.
Proof.
  unfold write_head. destruct (import_fixed_parts D nid od) as (A & B & C & Dm & E).
  rewrite import_sections_app, A. cbn [rbind]. rewrite import_sections_app, B. cbn [rbind].
  rewrite import_sections_app, C. cbn [rbind]. rewrite import_sections_app, Dm. cbn [rbind]. apply E.
Qed.

(* the fixed sections may also follow the objects: sections are looked up by name, not by position *)
Lemma import_tail D nid d od : import_sections D nid (write_tail d) od = Ok od.
Proof.
  unfold write_tail. destruct (import_fixed_parts D nid od) as (_ & B & C & _ & E).
  rewrite import_sections_app, B. cbn [rbind]. rewrite import_sections_app, C. cbn [rbind]. apply E.
Qed.

(* ---- object sections never carry one of the fixed names ---- *)
Definition hex_prefixed (n : str) : Prop := forallb is_hex (firstn 4 n) = true.

Lemma hex_prefixed_app lo i rest : 0 <= i < 65536 -> hex_prefixed (sec_name lo i ++ rest).
Proof.
  intros H. destruct (index_name_facts lo i H) as (L & X & _).
  unfold hex_prefixed. rewrite (proj1 (firstn_skipn_app _ rest 4 L)). exact X.
Qed.

Lemma write_obj_names nid o : odesc_ok nid o -> Forall (fun sec => hex_prefixed (fst sec)) (write_obj o).
Proof.
  destruct o as [i lo ot dom v|k i lo name sto ot_sp cap lowsub ms|i lo ot_sp v n names]; cbn [odesc_ok write_obj].
  - intros (H & _). constructor; [|constructor]. cbn [fst]. rewrite <- (app_nil_r (sec_name lo i)). apply hex_prefixed_app, H.
  - intros (H & _). constructor.
    + cbn [fst]. rewrite <- (app_nil_r (sec_name lo i)). apply hex_prefixed_app, H.
    + apply Forall_forall. intros sec Hs. apply in_map_iff in Hs as (m & <- & _). cbn [fst]. apply hex_prefixed_app, H.
  - intros (H & _). constructor.
    + cbn [fst]. rewrite <- (app_nil_r (sec_name lo i)). apply hex_prefixed_app, H.
    + destruct names; constructor; [|constructor]. cbn [fst]. apply hex_prefixed_app, H.
Qed.

Lemma objects_not_named nid k objs : forallb is_hex (firstn 4 k) = false -> Forall (odesc_ok nid) objs ->
  sassoc k (flat_map write_obj objs) = None.
Proof.
  intros Hk Ho.
  assert (G : Forall (fun sec : section => hex_prefixed (fst sec)) (flat_map write_obj objs)).
  { induction Ho as [|o r H1 H2 IH]; [constructor|]. cbn [flat_map]. apply Forall_app. split; [eapply write_obj_names; exact H1|exact IH]. }
  induction G as [|[n kv] r Hn Hr IH]; [reflexivity|].
  cbn [sassoc]. destruct (streq k n) eqn:E; [|exact IH].
  apply list_Z_eqb_eq in E. subst n. unfold hex_prefixed in Hn. cbn [fst] in Hn. congruence.
Qed.

(* ---- [Comments] ---- *)
Lemma line_key_not_lines i : streq (s "Line" ++ dec i) (s "Lines") = false.
Proof.
  destruct (streq (s "Line" ++ dec i) (s "Lines")) eqn:E; [|reflexivity].
  apply list_Z_eqb_eq in E. change (s "Lines") with (s "Line" ++ s "s") in E. apply app_inv_head in E.
  pose proof (int10_dec i) as H. rewrite E in H. discriminate.
Qed.
Lemma line_key_eq i j : streq (s "Line" ++ dec i) (s "Line" ++ dec j) = (i =? j).
Proof.
  destruct (i =? j) eqn:E.
  - replace j with i by lia. apply streq_refl.
  - destruct (streq (s "Line" ++ dec i) (s "Line" ++ dec j)) eqn:S; [|reflexivity].
    apply list_Z_eqb_eq in S. apply app_inv_head in S. apply dec_inj in S. lia.
Qed.
Lemma lines_lookup : forall L j i, j <= i ->
  sassoc (s "Line" ++ dec i) (number_lines_from j L) = nth_error L (Z.to_nat (i - j)).
Proof.
  induction L as [|x r IH]; intros j i H; [destruct (Z.to_nat (i - j)); reflexivity|].
  cbn [number_lines_from sassoc]. rewrite line_key_eq. destruct (i =? j) eqn:E.
  - replace (i - j) with 0 by lia. reflexivity.
  - rewrite IH by lia. replace (Z.to_nat (i - j)) with (S (Z.to_nat (i - (j + 1)))) by lia. reflexivity.
Qed.
Lemma firstn_skipn_step {A} (L : list A) : forall k n x, nth_error L k = Some x ->
  firstn (S n) (skipn k L) = x :: firstn n (skipn (S k) L).
Proof.
  induction L as [|y r IH]; intros k n x H; [destruct k; discriminate|].
  destruct k as [|k]; [cbn in H; injection H as ->; reflexivity|]. cbn [skipn]. apply IH. exact H.
Qed.
Lemma comment_lines_ok x L : forall n i, 1 <= i -> (Z.to_nat (i - 1) + n <= length L)%nat ->
  comment_lines ((s "Lines", x) :: number_lines_from 1 L) n i = Ok (firstn n (skipn (Z.to_nat (i - 1)) L)).
Proof.
  induction n as [|n IH]; intros i Hi Hn; [reflexivity|].
  cbn [comment_lines]. unfold req_get, opt_get. cbn [sassoc]. rewrite line_key_not_lines, lines_lookup by lia.
  destruct (nth_error L (Z.to_nat (i - 1))) as [y|] eqn:E.
  2:{ apply nth_error_None in E. lia. }
  cbn [rbind]. rewrite IH by lia. cbn [rbind].
  rewrite (firstn_skipn_step L _ n y E). replace (Z.to_nat (i + 1 - 1)) with (S (Z.to_nat (i - 1))) by lia. reflexivity.
Qed.

Lemma import_comments_kv D ls od : find_section D (s "Comments") = Some (comments_kv ls) ->
  import_comments D od = Ok (with_comments od (join_nl ls)).
Proof.
  intros H. unfold import_comments. rewrite H. unfold comments_kv.
  change (req_get ((s "Lines", dec (Z.of_nat (length ls))) :: number_lines_from 1 ls) (s "Lines"))
    with (Ok (A := str) (dec (Z.of_nat (length ls)))).
  cbn [rbind]. rewrite dec_is_spell, req_int0_spell. cbn [rbind]. rewrite Nat2Z.id.
  rewrite <- dec_is_spell, comment_lines_ok by (cbn; lia). cbn [rbind]. change (Z.to_nat (1 - 1)) with 0%nat.
  cbn [skipn]. rewrite firstn_all. reflexivity.
Qed.

(* ---- [DeviceComissioning] ---- *)
Lemma commissioning_keys (a b : option str) :
  opt_get (kvs_of [ (s "NodeID", a); (s "Baudrate", b) ]) (s "Baudrate") = b /\
  opt_get (kvs_of [ (s "NodeID", a); (s "Baudrate", b) ]) (s "NodeID") = a.
Proof. destruct a, b; split; reflexivity. Qed.

Lemma spell_nonempty sp v : exists c t, spell sp v = c :: t.
Proof.
  unfold spell. destruct (v <? 0) eqn:Ev; [eexists _, _; reflexivity|].
  destruct (spell_nat_spec sp v) as (_ & _ & c & t & E & _); [lia|]. exists c, t. exact E.
Qed.

Lemma import_commissioning_kv D c nid od : find_section D (s "DeviceComissioning") = Some (commissioning_kv c) ->
  import_commissioning D nid od =
  Ok (with_commissioning od (match snd c with Some r => if r =? 0 then None else Some (r * 1000) | None => None end)
                            (match nid with Some n => Some n | None => option_map fst (fst c) end),
      match nid with Some n => Some n | None => option_map fst (fst c) end).
Proof.
  intros H. unfold import_commissioning. rewrite H. unfold commissioning_kv.
  destruct (commissioning_keys (option_map (fun p : Z * spelling => spell (snd p) (fst p)) (fst c)) (option_map dec (snd c))) as (K1 & K2).
  rewrite K1, K2. destruct c as [[[n sp]|] [r|]]; cbn [fst snd option_map].
  - unfold req_int10. rewrite int10_dec. cbn [rbind]. destruct nid as [m|]; cbn [rbind]; [reflexivity|].
    destruct (spell_nonempty sp n) as (ch & t & E). rewrite E. cbn iota. rewrite <- E, req_int0_spell. reflexivity.
  - cbn [rbind]. destruct nid as [m|]; cbn [rbind]; [reflexivity|].
    destruct (spell_nonempty sp n) as (ch & t & E). rewrite E. cbn iota. rewrite <- E, req_int0_spell. reflexivity.
  - unfold req_int10. rewrite int10_dec. cbn [rbind]. destruct nid; reflexivity.
  - cbn [rbind]. destruct nid; reflexivity.
Qed.

(* ---- the fixed sections of a written document ---- *)
Lemma sassoc_sections_app key (x y : list section) :
  sassoc key (x ++ y) = match sassoc key x with Some a => Some a | None => sassoc key y end.
Proof. apply sassoc_app_str. Qed.

Lemma find_fixed nid d k : forallb is_hex (firstn 4 k) = false -> Forall (odesc_ok nid) (dd_objects d) ->
  find_section (write d) k = sassoc k (write_head d ++ write_tail d).
Proof.
  intros Hk Ho. unfold find_section, write. rewrite !sassoc_sections_app.
  rewrite (objects_not_named nid k _ Hk Ho). reflexivity.
Qed.

Lemma fixed_comments_found d : sassoc (s "Comments") (write_head d ++ write_tail d) = option_map comments_kv (dd_comments d).
Proof.
  unfold write_head, write_tail, tail_di, tail_co, tail_cm. rewrite !sassoc_sections_app.
  destruct (dd_tail d) as [[[|] [|]] [|]], (dd_extra d), (dd_devinfo d), (dd_commissioning d), (dd_comments d); reflexivity.
Qed.
Lemma fixed_commissioning_found d :
  sassoc (s "DeviceComissioning") (write_head d ++ write_tail d) = option_map commissioning_kv (dd_commissioning d).
Proof.
  unfold write_head, write_tail, tail_di, tail_co, tail_cm. rewrite !sassoc_sections_app.
  destruct (dd_tail d) as [[[|] [|]] [|]], (dd_extra d), (dd_devinfo d), (dd_commissioning d), (dd_comments d); reflexivity.
Qed.
Lemma fixed_devinfo_absent d : dd_devinfo d = None -> sassoc (s "DeviceInfo") (write_head d ++ write_tail d) = None.
Proof.
  intros H. unfold write_head, write_tail, tail_di, tail_co, tail_cm. rewrite !sassoc_sections_app, H.
  destruct (dd_tail d) as [[[|] [|]] [|]], (dd_extra d), (dd_commissioning d), (dd_comments d); reflexivity.
Qed.

Lemma fold_left_map {A B C} (f : A -> B -> A) (g : C -> B) l a :
  fold_left f (map g l) a = fold_left (fun x c => f x (g c)) l a.
Proof. revert a. induction l as [|x r IH]; intros a; [reflexivity|]. cbn. apply IH. Qed.

(* C08, whole document (partial: descriptions without a [DeviceInfo] section; the written document has no
   duplicate section or key) *)
Theorem import_of_written_partial d nid :
  dd_devinfo d = None -> Forall (odesc_ok (node_id_in_force d nid)) (dd_objects d) -> doc_ok (write d) = true ->
  import_ini (write d) nid = Ok (described d nid).
Proof.
  intros Hdi Ho Hok. unfold import_ini. rewrite Hok. cbn [negb].
  set (eff := node_id_in_force d nid) in *.
  assert (Cm : import_comments (write d) empty_od =
               Ok (with_comments empty_od (match dd_comments d with Some ls => join_nl ls | None => [] end))).
  { destruct (dd_comments d) as [ls|] eqn:E.
    - apply import_comments_kv. rewrite (find_fixed eff) by (reflexivity || exact Ho). rewrite fixed_comments_found, E. reflexivity.
    - unfold import_comments. rewrite (find_fixed eff) by (reflexivity || exact Ho). rewrite fixed_comments_found, E. reflexivity. }
  rewrite Cm. cbn [rbind].
  assert (Di : forall od, import_devinfo (write d) od = Ok od).
  { intros od. unfold import_devinfo. rewrite (find_fixed eff) by (reflexivity || exact Ho). rewrite fixed_devinfo_absent by exact Hdi. reflexivity. }
  rewrite Di. cbn [rbind].
  assert (Co : forall od, import_commissioning (write d) nid od =
               Ok (match dd_commissioning d with
                   | Some c => with_commissioning od
                                 (match snd c with Some r => if r =? 0 then None else Some (r * 1000) | None => None end) eff
                   | None => od end, eff)).
  { intros od. unfold eff, node_id_in_force. destruct (dd_commissioning d) as [c|] eqn:E.
    - rewrite (import_commissioning_kv _ c) by (rewrite (find_fixed eff) by (reflexivity || exact Ho); rewrite fixed_commissioning_found, E; reflexivity).
      destruct c as [[[n sp]|] [r|]], nid; reflexivity.
    - unfold import_commissioning. rewrite (find_fixed eff) by (reflexivity || exact Ho). rewrite fixed_commissioning_found, E.
      cbn [option_map]. destruct nid; reflexivity. }
  rewrite Co. cbn [rbind fst snd].
  unfold write at 2. rewrite import_sections_app, import_head. cbn [rbind].
  rewrite import_objects by exact Ho. rewrite import_tail.
  f_equal. unfold described, described_devinfo. fold eff. rewrite Hdi.
  unfold build_od. rewrite fold_left_map. f_equal.
  destruct (dd_commissioning d) as [[? [?|]]|]; reflexivity.
Qed.

(* ================================================================== look-ups (ObjectDictionary.__getitem__ and the containers) *)
Lemma sassoc_filter_ne {A} k (l : list (str * A)) : sassoc k (filter (fun p => negb (streq k (fst p))) l) = None.
Proof.
  induction l as [|[k' a] r IH]; [reflexivity|]. cbn [filter fst]. destruct (streq k k') eqn:E; cbn [negb]; [exact IH|].
  cbn [sassoc]. rewrite E. exact IH.
Qed.
Lemma sassoc_sset_same {A} k (a : A) l : sassoc k (sset k a l) = Some a.
Proof. unfold sset. rewrite sassoc_app_str, sassoc_filter_ne. cbn. rewrite streq_refl. reflexivity. Qed.
Lemma streq_sym a b : streq a b = streq b a.
Proof.
  destruct (streq a b) eqn:E1, (streq b a) eqn:E2; try reflexivity.
  - apply list_Z_eqb_eq in E1. subst. rewrite streq_refl in E2. discriminate.
  - apply list_Z_eqb_eq in E2. subst. rewrite streq_refl in E1. discriminate.
Qed.
Lemma sassoc_filter_other {A} k k' (l : list (str * A)) : streq k k' = false ->
  sassoc k (filter (fun p => negb (streq k' (fst p))) l) = sassoc k l.
Proof.
  intros H. induction l as [|[k2 a] r IH]; [reflexivity|]. cbn [filter fst sassoc].
  destruct (streq k' k2) eqn:E; cbn [negb].
  - apply list_Z_eqb_eq in E. subst k2. rewrite H. exact IH.
  - cbn [sassoc]. destruct (streq k k2); [reflexivity|exact IH].
Qed.
Lemma sassoc_sset_other {A} k k' (a : A) l : streq k k' = false -> sassoc k (sset k' a l) = sassoc k l.
Proof.
  intros H. unfold sset. rewrite sassoc_app_str, sassoc_filter_other by exact H.
  destruct (sassoc k l); [reflexivity|]. cbn. rewrite H. reflexivity.
Qed.
Lemma streq_neq a b : a <> b -> streq a b = false.
Proof. intros H. destruct (streq a b) eqn:E; [|reflexivity]. apply list_Z_eqb_eq in E. contradiction. Qed.

Definition built (objs : list odobj) (base : odict) : odict := fold_left (fun od o => add_object o od) objs base.
Definition blank (base : odict) : Prop := od_heap base = [] /\ od_indices base = [] /\ od_names base = [].

Lemma built_snoc objs o base : built (objs ++ [o]) base = add_object o (built objs base).
Proof. unfold built. rewrite fold_left_app. reflexivity. Qed.

(* the two look-up tables of a dictionary built from objects with distinct indices and names *)
Lemma built_tables base : blank base -> forall objs,
  NoDup (map obj_index objs) -> NoDup (map obj_name objs) ->
  od_heap (built objs base) = objs /\
  (forall p o, nth_error objs p = Some o ->
     zassoc (obj_index o) (od_indices (built objs base)) = Some p /\
     sassoc (obj_name o) (od_names (built objs base)) = Some p) /\
  (forall i, ~ In i (map obj_index objs) -> zassoc i (od_indices (built objs base)) = None) /\
  (forall k, ~ In k (map obj_name objs) -> sassoc k (od_names (built objs base)) = None).
Proof.
  intros (B1 & B2 & B3). induction objs as [|o' objs IH] using rev_ind; intros Hi Hn.
  - cbn. rewrite B1, B2, B3. split; [reflexivity|]. split; [|split; intros; reflexivity].
    intros p o H. destruct p; discriminate.
  - rewrite built_snoc. rewrite !map_app in Hi, Hn. cbn [map] in Hi, Hn.
    apply NoDup_remove in Hi as (Hi1 & Hi2). apply NoDup_remove in Hn as (Hn1 & Hn2).
    rewrite app_nil_r in *. destruct (IH Hi1 Hn1) as (H1 & H2 & H3 & H4).
    unfold add_object. cbn [od_heap od_indices od_names]. rewrite H1. split; [reflexivity|]. split; [|split].
    + intros p o Hp. destruct (Nat.lt_ge_cases p (length objs)) as [L|L].
      * rewrite nth_error_app1 in Hp by exact L. destruct (H2 p o Hp) as (A1 & A2).
        assert (obj_index o <> obj_index o').
        { intros E. apply Hi2. rewrite <- E. apply in_map. eapply nth_error_In; exact Hp. }
        assert (obj_name o <> obj_name o').
        { intros E. apply Hn2. rewrite <- E. apply in_map. eapply nth_error_In; exact Hp. }
        rewrite zassoc_zset_other by assumption. rewrite sassoc_sset_other by (apply streq_neq; assumption). split; assumption.
      * rewrite nth_error_app2 in Hp by exact L. destruct (p - length objs)%nat as [|q] eqn:E; [|destruct q; discriminate].
        cbn in Hp. injection Hp as <-. replace p with (length objs) by lia.
        rewrite zassoc_zset_same, sassoc_sset_same. split; reflexivity.
    + intros i Hni. rewrite map_app in Hni. cbn [map] in Hni.
      rewrite zassoc_zset_other; [apply H3|]; intros E; apply Hni, in_or_app; [left; exact E|right; left; congruence].
    + intros k Hnk. rewrite map_app in Hnk. cbn [map] in Hnk.
      rewrite sassoc_sset_other; [apply H4|apply streq_neq]; intros E; apply Hnk, in_or_app; [left; exact E|right; left; congruence].
Qed.

(* members of a container built with add_member *)
Definition filled (c0 : container) (vars : list odvar) : container := fold_left (fun c v => add_member v c) vars c0.
Lemma filled_snoc c0 vars v : filled c0 (vars ++ [v]) = add_member v (filled c0 vars).
Proof. unfold filled. rewrite fold_left_app. reflexivity. Qed.

Lemma filled_tables c0 : c_subs c0 = [] -> c_names c0 = [] -> forall vars,
  NoDup (map v_sub vars) -> NoDup (map v_name vars) ->
  (forall v, In v vars -> zassoc (v_sub v) (c_subs (filled c0 vars)) = Some v /\
                          sassoc (v_name v) (c_names (filled c0 vars)) = Some v) /\
  (forall j, ~ In j (map v_sub vars) -> zassoc j (c_subs (filled c0 vars)) = None) /\
  (vars <> [] -> c_subs (filled c0 vars) <> []).
Proof.
  intros B1 B2. induction vars as [|v' vars IH] using rev_ind; intros Hs Hn.
  - cbn. rewrite B1. split; [intros v []|]. split; [intros; reflexivity|congruence].
  - rewrite filled_snoc. rewrite !map_app in Hs, Hn. cbn [map] in Hs, Hn.
    apply NoDup_remove in Hs as (Hs1 & Hs2). apply NoDup_remove in Hn as (Hn1 & Hn2).
    rewrite app_nil_r in *. destruct (IH Hs1 Hn1) as (H1 & H2 & _).
    unfold add_member. cbn [c_subs c_names]. split; [|split].
    + intros v Hv. apply in_app_or in Hv as [Hv|[<-|[]]].
      * destruct (H1 v Hv) as (A1 & A2).
        assert (v_sub v <> v_sub v') by (intros E; apply Hs2; rewrite <- E; apply in_map, Hv).
        assert (v_name v <> v_name v') by (intros E; apply Hn2; rewrite <- E; apply in_map, Hv).
        rewrite zassoc_zset_other by assumption. rewrite sassoc_sset_other by (apply streq_neq; assumption). split; assumption.
      * rewrite zassoc_zset_same, sassoc_sset_same. split; reflexivity.
    + intros j Hj. rewrite map_app in Hj. cbn [map] in Hj.
      rewrite zassoc_zset_other; [apply H2|]; intros E; apply Hj, in_or_app; [left; exact E|right; left; congruence].
    + intros _. unfold zset. intros E. apply app_eq_nil in E as (_ & E). discriminate.
Qed.

Definition no_dot (t : str) : Prop := Forall (fun c => c <> 46) t.
Lemma split_dot_app a b : no_dot a -> split_dot (a ++ 46 :: b) = Some (a, b).
Proof.
  induction 1 as [|c r Hc Hr IH]; [reflexivity|]. cbn [app split_dot].
  replace (c =? 46) with false by lia. rewrite IH. reflexivity.
Qed.

(* C08 lookup_consistent: by index, by name and by 'Parent.Child' the same object is reached *)
Theorem lookup_consistent base objs : blank base ->
  NoDup (map obj_index objs) -> NoDup (map obj_name objs) ->
  forall p o, nth_error objs p = Some o ->
  od_get_int (built objs base) (obj_index o) = Ok (p, o) /\
  od_get (built objs base) (KI (obj_index o)) = Ok (LObj p o) /\
  (obj_truthy o = true -> od_get (built objs base) (KS (obj_name o)) = Ok (LObj p o)) /\
  (forall c0 vars v, o = OCont (filled c0 vars) -> c_subs c0 = [] -> c_names c0 = [] ->
     NoDup (map v_sub vars) -> NoDup (map v_name vars) -> In v vars ->
     obj_get o (KI (v_sub v)) = Ok v /\ obj_get o (KS (v_name v)) = Ok v /\
     (Forall (fun o => no_dot (obj_name o)) objs ->
      od_get (built objs base) (KS (obj_name o ++ 46 :: v_name v)) = Ok (LVar p v))).
Proof.
  intros Hb Hi Hn p o Hp. destruct (built_tables base Hb objs Hi Hn) as (T1 & T2 & T3 & T4).
  destruct (T2 p o Hp) as (Z1 & S1).
  assert (G : od_get_int (built objs base) (obj_index o) = Ok (p, o)).
  { unfold od_get_int. rewrite Z1, T1, Hp. reflexivity. }
  assert (NG : obj_truthy o = true -> names_get (built objs base) (obj_name o) = Some (p, o)).
  { intros Ht. unfold names_get. rewrite S1, T1, Hp, Ht. reflexivity. }
  split; [exact G|]. split; [cbn [od_get]; rewrite G; reflexivity|]. split.
  - intros Ht. cbn [od_get]. rewrite (NG Ht). reflexivity.
  - intros c0 vars v -> B1 B2 Vs Vn Hv.
    destruct (filled_tables c0 B1 B2 vars Vs Vn) as (F1 & F2 & F3). destruct (F1 v Hv) as (A1 & A2).
    split; [cbn [obj_get]; unfold cont_get_int; rewrite A1; reflexivity|].
    split; [cbn [obj_get]; unfold cont_get_str; rewrite A2; reflexivity|].
    intros Hd. cbn [od_get obj_name].
    assert (Nd : no_dot (c_name (filled c0 vars))).
    { rewrite Forall_forall in Hd. apply (Hd _ (nth_error_In _ _ Hp)). }
    assert (Miss : names_get (built objs base) (c_name (filled c0 vars) ++ 46 :: v_name v) = None).
    { unfold names_get. rewrite T4; [reflexivity|]. intros Hin. apply in_map_iff in Hin as (o2 & E & Ho2).
      rewrite Forall_forall in Hd. specialize (Hd o2 Ho2). rewrite E in Hd. unfold no_dot in Hd.
      rewrite Forall_forall in Hd. apply (Hd 46); [apply in_or_app; right; left; reflexivity|reflexivity]. }
    rewrite Miss, split_dot_app by exact Nd.
    assert (Tr : obj_truthy (OCont (filled c0 vars)) = true).
    { cbn [obj_truthy]. destruct (c_subs (filled c0 vars)) eqn:E; [|reflexivity].
      exfalso. apply F3; [intros ->; destruct Hv|reflexivity]. }
    pose proof (NG Tr) as NG'. cbn [obj_name] in NG'. rewrite NG'.
    cbn [snd rbind obj_get]. unfold cont_get_str. rewrite A2. reflexivity.
Qed.

(* ================================================================== C14: the object sections written by export_eds, re-imported *)
Definition reimported' (dcf : bool) (v : odvar) : odvar :=
  match value_text (v_dt v) (v_default_raw v) (v_default v), value_text (v_dt v) (v_value_raw v) (v_value v) with
  | Some dv, Some pv => reimported dcf v dv pv
  | _, _ => v
  end.

Lemma export_import_var' D dcf top nid v : wf_var nid v ->
  exists kv, export_variable dcf top v = Some (var_section_name top v, kv) /\
             build_variable D kv nid (v_index v) (v_sub v) = Ok (reimported' dcf v) /\
             (top = true -> read_head kv = mkHead (Some (v_name v)) (Some (s "0x7")) (v_storage v) None).
Proof.
  intros H. destruct (export_import_var D dcf top nid v H) as (dv & pv & Ed & Ev & E & B).
  exists (kvs_of (var_entries dcf v dv pv)). split; [exact E|]. split.
  - rewrite B. unfold reimported'. rewrite Ed, Ev. reflexivity.
  - intros _. unfold var_entries.
    assert (R : forall (name ot dtx pdo : str) (sto acc dv pv low high descr fac unit : option str),
      read_head (kvs_of [ (k_PName, Some name); (s "StorageLocation", sto); (s "ObjectType", Some ot);
                          (s "DataType", Some dtx); (s "AccessType", acc); (s "DefaultValue", dv);
                          (k_PValue, pv); (s "PDOMapping", Some pdo); (s "LowLimit", low);
                          (s "HighLimit", high); (s "Description", descr); (s "Factor", fac); (s "Unit", unit) ])
      = mkHead (Some name) (Some ot) sto None).
    { intros. destruct sto, acc, dv0, pv0, low, high, descr, fac, unit; vm_compute; reflexivity. }
    rewrite R. f_equal. destruct H as [_ _ Hst _ _ _ _ _].
    destruct (v_storage v) as [[|c t]|] eqn:Es; [exfalso; apply Hst; reflexivity|reflexivity|reflexivity].
Qed.

Lemma zinsert_In {A} k (a : A) l p : In p (zinsert k a l) <-> p = (k, a) \/ In p l.
Proof.
  induction l as [|[k' a'] r IH]; cbn [zinsert]; [cbn; intuition|].
  destruct (k <=? k'); cbn [In]; [intuition|]. rewrite IH. intuition.
Qed.
Lemma zsort_In {A} (l : list (Z * A)) p : In p (zsort l) <-> In p l.
Proof.
  unfold zsort. induction l as [|[k a] r IH]; cbn [fold_right]; [reflexivity|].
  cbn [fst snd]. rewrite zinsert_In, IH. cbn [In]. intuition.
Qed.

Definition member_wf (nid : option Z) (index : Z) (v : odvar) : Prop :=
  wf_var nid v /\ v_index v = index /\ 0 <= v_sub v < 256.

Definition wf_obj (nid : option Z) (o : odobj) : Prop :=
  match o with
  | OVar v => wf_var nid v /\ 0 <= v_index v < 65536 /\ v_sub v = 0
  | OCont c => 0 <= c_index c < 65536 /\ c_storage c <> Some [] /\
               Forall (fun p => member_wf nid (c_index c) (snd p)) (c_subs c)
  end.

Definition reimported_obj (dcf : bool) (o : odobj) : odobj :=
  match o with
  | OVar v => OVar (reimported' dcf v)
  | OCont c => OCont (filled (mkCont (c_kind c) (c_name c) (c_index c) (c_storage c) [] [])
                             (map (fun p => reimported' dcf (snd p)) (zsort (c_subs c))))
  end.

Lemma export_import_members D dcf nid index : 0 <= index < 65536 -> forall vars rest c od0,
  c_index c = index -> Forall (member_wf nid index) vars ->
  exists secs, opt_all (map (export_variable dcf false) vars) = Some secs /\
    import_sections D nid (secs ++ rest) (add_object (OCont c) od0) =
    import_sections D nid rest (add_object (OCont (filled c (map (reimported' dcf) vars))) od0).
Proof.
  intros Hi. induction vars as [|v r IH]; intros rest c od0 Hc Hm.
  - exists []. split; reflexivity.
  - inversion Hm as [|? ? (Hw & Hx & Hs) Hr]; subst.
    destruct (export_import_var' D dcf false nid v Hw) as (kv & E & B & _).
    destruct (IH rest (add_member (reimported' dcf v) c) od0 eq_refl Hr) as (secs & Es & Is).
    exists ((var_section_name false v, kv) :: secs). split.
    + cbn [map opt_all]. rewrite E, Es. reflexivity.
    + cbn [app import_sections].
      change (var_section_name false v) with (member_name false false false (v_index v) (v_sub v)).
      destruct (member_name_facts false false false (v_index v) (v_sub v)) as (N1 & N2 & N3 & N4); [lia|exact Hs|].
      unfold import_section. rewrite N1. cbn [rbind]. rewrite N2, N3, N4. unfold import_sub.
      rewrite Hx in *. change (c_index c) with (obj_index (OCont c)) at 1. rewrite od_get_added. cbn [rbind snd fst].
      cbn [obj_index]. rewrite B. cbn [rbind]. rewrite set_heap_added by reflexivity. exact Is.
Qed.

Lemma read_head_exported_cont (name sn ot : str) (sto : option str) :
  read_head (kvs_of [ (k_PName, Some name); (s "StorageLocation", sto); (s "SubNumber", Some sn);
                      (s "ObjectType", Some ot) ]) = mkHead (Some name) (Some ot) sto None.
Proof. destruct sto; vm_compute; reflexivity. Qed.

Lemma export_import_object D dcf nid o : wf_obj nid o ->
  exists secs, export_object dcf o = Some secs /\ forall rest od,
    import_sections D nid (secs ++ rest) od = import_sections D nid rest (add_object (reimported_obj dcf o) od).
Proof.
  destruct o as [v|c]; cbn [wf_obj].
  - intros (Hw & Hi & H0). destruct (export_import_var' D dcf true nid v Hw) as (kv & E & B & R).
    exists [(var_section_name true v, kv)]. split; [cbn [export_object]; rewrite E; reflexivity|].
    intros rest od. cbn [app import_sections].
    change (var_section_name true v) with (sec_name false (v_index v)).
    destruct (index_name_facts false (v_index v) Hi) as (_ & _ & N1 & N2 & N3).
    unfold import_section. rewrite N3. cbn [rbind]. rewrite N1, N2.
    unfold import_index. rewrite (R eq_refl). cbn [h_name h_objtype h_storage h_compact req rbind].
    change (req_int0 (s "0x7")) with (Ok (A := Z) 7). cbn [rbind].
    change ((7 =? OT_VAR) || (7 =? OT_DOMAIN)) with true. cbn iota.
    rewrite H0 in B. rewrite B. reflexivity.
  - intros (Hi & Hst & Hm).
    assert (Hm' : Forall (member_wf nid (c_index c)) (map snd (zsort (c_subs c)))).
    { apply Forall_forall. intros v Hv. apply in_map_iff in Hv as (p & <- & Hp). apply (proj1 (zsort_In _ _)) in Hp.
      rewrite Forall_forall in Hm. apply (Hm p Hp). }
    set (c0 := mkCont (c_kind c) (c_name c) (c_index c) (c_storage c) [] []).
    destruct (export_import_members D dcf nid (c_index c) Hi (map snd (zsort (c_subs c))) [] c0 empty_od eq_refl Hm') as (secs & Es & _).
    eexists. split.
    + cbn [export_object]. rewrite <- (map_map snd (export_variable dcf false)), Es. reflexivity.
    + intros rest od. cbn [app import_sections].
      change (fmt_X 4 (c_index c)) with (sec_name false (c_index c)).
      destruct (index_name_facts false (c_index c) Hi) as (_ & _ & N1 & N2 & N3).
      unfold import_section at 1. rewrite N3. cbn [rbind]. rewrite N1, N2.
      unfold import_index. rewrite read_head_exported_cont. cbn [h_name h_objtype h_storage h_compact req rbind].
      assert (Sto : match c_storage c with Some t => nonempty t | None => None end = c_storage c).
      { destruct (c_storage c) as [[|ch t]|] eqn:Es'; [exfalso; apply Hst; reflexivity|reflexivity|reflexivity]. }
      rewrite Sto.
      assert (Ot : rbind (req_int0 (match c_kind c with KRec => s "0x9" | KArr => s "0x8" end))
                     (fun ot => if (ot =? OT_VAR) || (ot =? OT_DOMAIN)
                                then rbind (build_variable D (kvs_of [ (k_PName, Some (c_name c));
                                        (s "StorageLocation", c_storage c);
                                        (s "SubNumber", Some (s "0x" ++ fmt_X 0 (Z.of_nat (length (c_subs c)))));
                                        (s "ObjectType", Some (match c_kind c with KRec => s "0x9" | KArr => s "0x8" end)) ]) nid (c_index c) 0)
                                           (fun v => Ok (add_object (OVar v) od))
                                else if ot =? OT_ARR
                                     then Ok (add_object (OCont (mkCont KArr (c_name c) (c_index c) (c_storage c) [] [])) od)
                                     else if ot =? OT_RECORD
                                          then Ok (add_object (OCont (mkCont KRec (c_name c) (c_index c) (c_storage c) [] [])) od)
                                          else Ok od) = Ok (add_object (OCont c0) od)) by (unfold c0; destruct (c_kind c); reflexivity).
      match goal with |- rbind ?X _ = _ => replace X with (Ok (add_object (OCont c0) od)) end.
      cbn [rbind].
      destruct (export_import_members D dcf nid (c_index c) Hi (map snd (zsort (c_subs c))) rest c0 od eq_refl Hm') as (secs' & Es2 & Is).
      rewrite Es in Es2. injection Es2 as <-. rewrite Is. cbn [reimported_obj]. rewrite map_map. reflexivity.
Qed.

(* C14, object lists: the sections export_eds writes for a list of objects (export_list) are read back as those objects *)
Theorem export_import_objects_partial D dcf nid objs : Forall (wf_obj nid) objs ->
  exists secss, opt_all (map (export_object dcf) objs) = Some secss /\ forall rest od,
    import_sections D nid (concat secss ++ rest) od =
    import_sections D nid rest (fold_left (fun od o => add_object (reimported_obj dcf o) od) objs od).
Proof.
  induction 1 as [|o r Ho Hr IH].
  - exists []. split; [reflexivity|]. intros; reflexivity.
  - destruct (export_import_object D dcf nid o Ho) as (secs & E & I). destruct IH as (secss & Es & Is).
    exists (secs :: secss). split; [cbn [map opt_all]; rewrite E, Es; reflexivity|].
    intros rest od. cbn [concat fold_left]. rewrite <- app_assoc, I. apply Is.
Qed.

(* every attribute the property lists survives, member by member *)
Lemma reimported'_same dcf nid v : wf_var nid v -> same_attrs dcf v (reimported' dcf v).
Proof.
  intros H. destruct (export_import_var [] dcf true nid v H) as (dv & pv & Ed & Ev & _).
  unfold reimported'. rewrite Ed, Ev. apply reimported_same.
Qed.

(* ... and container by container: kind, name, index, storage location are kept, the members are the re-imported members *)
Lemma reimported_obj_shape dcf o :
  match o, reimported_obj dcf o with
  | OVar v, OVar v' => v' = reimported' dcf v
  | OCont c, OCont c' =>
      c_kind c' = c_kind c /\ c_name c' = c_name c /\ c_index c' = c_index c /\ c_storage c' = c_storage c /\
      c' = filled (mkCont (c_kind c) (c_name c) (c_index c) (c_storage c) [] [])
                  (map (fun p => reimported' dcf (snd p)) (zsort (c_subs c)))
  | _, _ => False
  end.
Proof.
  destruct o as [v|c]; cbn [reimported_obj]; [reflexivity|].
  set (l := map (fun p => reimported' dcf (snd p)) (zsort (c_subs c))).
  assert (K : forall vars c0, c_kind (filled c0 vars) = c_kind c0 /\ c_name (filled c0 vars) = c_name c0 /\
                              c_index (filled c0 vars) = c_index c0 /\ c_storage (filled c0 vars) = c_storage c0).
  { induction vars as [|v r IH]; intros c0; [repeat split|]. cbn [filled fold_left]. destruct (IH (add_member v c0)) as (A & B & C & E).
    unfold filled in *. rewrite A, B, C, E. repeat split. }
  destruct (K l (mkCont (c_kind c) (c_name c) (c_index c) (c_storage c) [] [])) as (A & B & C & E).
  repeat split; assumption.
Qed.

(* DCF: bit rate and node id *)
Lemma export_import_commissioning D od nid :
  (match od_bitrate od with Some b => 0 <= b /\ b mod 1000 = 0 | None => True end) ->
  find_section D (s "DeviceComissioning") =
    Some (kvs_of [ (s "Baudrate", match od_bitrate od with Some b => if b =? 0 then None else Some (dec (b / 1000)) | None => None end);
                   (s "NodeID", match od_node_id od with Some n => if n =? 0 then None else Some (dec n) | None => None end) ]) ->
  exists od' eff, import_commissioning D nid empty_od = Ok (od', eff) /\
    od_bitrate od' = (match od_bitrate od with Some 0 => None | x => x end) /\
    (nid = None -> od_node_id od' = (match od_node_id od with Some 0 => None | x => x end)).
Proof.
  intros Hb Hf. unfold import_commissioning. rewrite Hf.
  assert (K : forall a b : option str,
     opt_get (kvs_of [ (s "Baudrate", a); (s "NodeID", b) ]) (s "Baudrate") = a /\
     opt_get (kvs_of [ (s "Baudrate", a); (s "NodeID", b) ]) (s "NodeID") = b) by (intros [|] [|]; split; reflexivity).
  match goal with |- context [kvs_of [ (_, ?a); (_, ?b) ]] => destruct (K a b) as (K1 & K2) end.
  rewrite K1, K2. clear K K1 K2.
  assert (B : exists br, (match (match od_bitrate od with Some b => if b =? 0 then None else Some (dec (b / 1000)) | None => None end) with
                          | None => Ok None
                          | Some t => rbind (req_int10 t) (fun b => Ok (if b =? 0 then None else Some (b * 1000))) end) = Ok br /\
                         br = match od_bitrate od with Some 0 => None | x => x end).
  { destruct (od_bitrate od) as [b|]; [|eexists; split; reflexivity].
    destruct (b =? 0) eqn:E; [eexists; split; [reflexivity|]; replace b with 0 by lia; reflexivity|].
    unfold req_int10. rewrite int10_dec. cbn [rbind]. destruct Hb as (H1 & H2).
    replace (b / 1000 =? 0) with false by lia. eexists. split; [reflexivity|].
    replace (b / 1000 * 1000) with b by lia. destruct b; [lia|reflexivity|reflexivity]. }
  destruct B as (br & EB & Hbr). rewrite EB. cbn [rbind].
  destruct nid as [n|].
  - cbn [rbind]. eexists _, _. split; [reflexivity|]. split; [exact Hbr|discriminate].
  - destruct (od_node_id od) as [n|]; [|cbn [rbind]; eexists _, _; split; [reflexivity|]; split; [exact Hbr|reflexivity]].
    destruct (n =? 0) eqn:E.
    + cbn [rbind]. eexists _, _. split; [reflexivity|]. split; [exact Hbr|]. intros _. replace n with 0 by lia. reflexivity.
    + destruct (spell_nonempty SpDec n) as (ch & t & Es). rewrite dec_is_spell, Es. cbn iota. rewrite <- Es, req_int0_spell.
      cbn [rbind]. eexists _, _. split; [reflexivity|]. split; [exact Hbr|]. intros _. cbn. destruct n; [lia|reflexivity|reflexivity].
Qed.

(* ================================================================== compact arrays are expanded (ODArray.__getitem__) *)
Theorem compact_expanded c t sub : c_kind c = KArr -> zassoc 1 (c_subs c) = Some t -> 0 < sub < 256 ->
  zassoc sub (c_subs c) = None ->
  exists v, cont_get_int c sub = Ok v /\ v_index v = c_index c /\ v_sub v = sub /\
    v_dt v = v_dt t /\ v_access v = v_access t /\ v_pdo v = v_pdo t /\ v_default v = v_default t /\
    v_min v = v_min t /\ v_max v = v_max t /\ v_storage v = v_storage t /\ v_factor v = v_factor t /\
    v_unit v = v_unit t /\ v_descr v = v_descr t.
Proof.
  intros Hk H1 Hs Hn. unfold cont_get_int. rewrite Hn, Hk. replace ((0 <? sub) && (sub <? 256)) with true by lia.
  unfold template_var. rewrite H1. eexists. split; [reflexivity|]. cbn. repeat split.
Qed.

(* the members of a written compact array: sub-index 1 and every named sub-index carry the described attributes *)
Lemma described_compact_members nid index lo ot_sp v n names :
  described_obj nid (DCompact index lo ot_sp v n names) =
  OCont (filled (mkCont KArr (d_name v) index (d_storage v) [] [])
           (number_of_entries index :: described_var nid index 1 (d_name v) v ::
            match names with None => [] | Some l => map (fun p : Z * str => described_var nid index (fst p) (snd p) v) l end)).
Proof. reflexivity. Qed.

Lemma devinfo_table_ok : DEVINFO_IMPORT = DEVINFO_ROWS /\ BAUD_RATES = STD_RATES.
Proof. split; reflexivity. Qed.

(* ================================================================== whole numbers in REAL objects
   (var.default = -40 on a REAL32: written as str(int), read by float()) *)
Lemma take_digits_dec_u v : 0 <= v -> take_digits (dec_u v) = (dec_u v, []).
Proof.
  intros Hv. destruct (digits_spec 10 v ltac:(lia) Hv) as (_ & D & _). unfold dec_u.
  induction D as [|d r Hd Hr IH]; [reflexivity|]. cbn [map take_digits].
  replace ((48 <=? 48 + d) && (48 + d <=? 57)) with true by lia. rewrite IH. reflexivity.
Qed.

Lemma decval_dec_u v : 0 <= v -> decval (dec_u v) = v.
Proof.
  intros Hv. destruct (digits_spec 10 v ltac:(lia) Hv) as (P & _ & _). unfold decval, dec_u.
  assert (G : forall ds a, fold_left (fun a c => a * 10 + (c - 48)) (map (fun d => 48 + d) ds) a = pval 10 ds a).
  { induction ds as [|d r IH]; intros a; [reflexivity|]. cbn [map fold_left]. unfold pval. cbn [fold_left].
    replace (a * 10 + (48 + d - 48)) with (a * 10 + d) by lia. apply IH. }
  rewrite G. exact P.
Qed.

Lemma float_body_dec_u v : 0 <= v -> float_body (dec_u v) = Some (fnorm v 0).
Proof.
  intros Hv. unfold float_body. rewrite take_digits_dec_u by exact Hv. cbn iota beta.
  rewrite app_nil_r, decval_dec_u by exact Hv.
  destruct (spell_nat_spec SpDec v Hv) as (_ & _ & c & t & E & _). cbn [spell_nat] in E.
  rewrite E. cbn [length]. cbn [Nat.add Nat.eqb]. reflexivity.
Qed.

Lemma float_parse_dec z :
  float_parse (dec z) = Some (if z <? 0 then (- fst (fnorm (- z) 0), snd (fnorm (- z) 0)) else fnorm z 0).
Proof.
  unfold float_parse, dec. destruct (z <? 0) eqn:E.
  - destruct (spell_nat_spec SpDec (- z) ltac:(lia)) as (_ & Pl & _). cbn [spell_nat] in Pl.
    rewrite strip_nospace by (constructor; [reflexivity|exact Pl]).
    rewrite Z.eqb_refl. rewrite float_body_dec_u by lia. reflexivity.
  - destruct (spell_nat_spec SpDec z ltac:(lia)) as (_ & Pl & c & t & Ec & H1 & H2). cbn [spell_nat] in *.
    rewrite strip_nospace by exact Pl. rewrite Ec.
    replace (c =? 45) with false by lia. replace (c =? 43) with false by lia. rewrite <- Ec.
    apply float_body_dec_u. lia.
Qed.

(* the normal form denotes the same number *)
Lemma norm10_value fuel : forall m e, 0 <= e -> let p := norm10 fuel m e in fst p * 10 ^ snd p = m * 10 ^ e /\ 0 <= snd p.
Proof.
  induction fuel as [|f IH]; intros m e He; cbn [norm10]; [split; [reflexivity|exact He]|].
  destruct (m =? 0) eqn:E0; [cbn; split; lia|].
  destruct (m mod 10 =? 0) eqn:E1; [|split; [reflexivity|exact He]].
  destruct (IH (m / 10) (e + 1) ltac:(lia)) as (A & B). cbn zeta in *. split; [|exact B].
  rewrite A. rewrite Z.pow_add_r by lia. change (10 ^ 1) with 10.
  assert (m = 10 * (m / 10)) by (rewrite (Z.div_mod m 10) at 1 by lia; lia). nia.
Qed.

(* C14: a whole number held as a Python int by a REAL object survives export and import as that number *)
Theorem real_int_roundtrip nid dt z : is_bytes_type dt = false -> is_text_type dt = false -> zmem dt FLOAT_TYPES = true ->
  exists m e, revert_variable dt (PVInt z) = Some (dec z) /\
              convert_variable nid dt (dec z) = Some (PVFloat m e) /\ 0 <= e /\ m * 10 ^ e = z.
Proof.
  intros B T F. unfold revert_variable, convert_variable. rewrite B, T, F, float_parse_dec.
  destruct (z <? 0) eqn:E.
  - destruct (norm10_value (S (Z.to_nat (Z.log2 (Z.abs (- z))))) (- z) 0 ltac:(lia)) as (A & Hb). cbn zeta in *.
    fold (fnorm (- z) 0) in A, Hb. destruct (fnorm (- z) 0) as [m e]. cbn [fst snd] in *.
    exists (- m), e. split; [reflexivity|]. split; [reflexivity|]. split; [exact Hb|].
    change (10 ^ 0) with 1 in A. lia.
  - destruct (norm10_value (S (Z.to_nat (Z.log2 (Z.abs z)))) z 0 ltac:(lia)) as (A & Hb). cbn zeta in *.
    fold (fnorm z 0) in A, Hb. destruct (fnorm z 0) as [m e]. cbn [fst snd] in *.
    exists m, e. split; [reflexivity|]. split; [reflexivity|]. split; [exact Hb|].
    change (10 ^ 0) with 1 in A. lia.
Qed.

(* ================================================================== export_od: destination and document type *)
Lemma export_type_explicit dest t : t = s "eds" \/ t = s "dcf" ->
  export_od_type dest (Some t) = Ok (Some (streq t (s "dcf"))).
Proof. intros [->| ->]; reflexivity. Qed.

Lemma export_type_from_name name : export_od_type (Some name) None = Ok (Some (ends_with (s ".dcf") name)).
Proof. unfold export_od_type. destruct (ends_with (s ".dcf") name); reflexivity. Qed.

(* ================================================================== data of the non-vacuity examples in Properties/ *)
Definition ex_var : vdesc :=   (* INTEGER24, limits as 24-bit two's complement, default -5 in hex *)
  mkVd (s "speed = 100%") 0 16 (SpHex false true 4) (s "RW") (Some (true, SpHex false false 0))
       (Some (DInt (-5) (SpHex true false 0))) None
       (Some (-8388608, LTwos false false 0)) (Some (8388607, LTwos false true 0))
       (Some (s "RAM")) (Some ((25, -2), s "2.5e-1")) (Some (s "mm")) None.
Definition ex_cob : vdesc :=   (* UNSIGNED32, $NODEID-relative default in both orders *)
  mkVd (s "COB-ID") 1 7 SpDec (s "rw") None (Some (DRel 384 (SpHex false false 0) true true))
       (Some (DRel 512 SpDec false false)) (Some (0, LPlain SpDec)) None None None None None.
Definition ex_n0 : vdesc :=
  mkVd (s "n") 0 5 (SpHex false false 4) (s "ro") None (Some (DInt 1 SpDec)) None None None None None None None.
Definition ex_doc : ddesc :=
  mkDd true None (Some (Some (5, SpHex false false 0), Some 250)) (Some [s "first"; s "second = line"])
       [ DVar 8192 true None false ex_var;
         DCont KRec 4608 false (s "Rec") (Some (s "ROM")) (SpHex false false 0) true true [ex_n0; ex_cob];
         DCompact 4099 false SpDec ex_var 4 (Some [(1, s "one"); (3, s "three")]) ]
       (false, true, true).


Definition ex_v (sub : Z) (dt : Z) (d : option pyv) (lo hi : option Z) : odvar :=
  mkVar (s "a % b = c") 8192 sub dt (s "rw") true d lo hi d None None false (Some (s "RAM")) (25, -2) (s "mm") (s "text").
Definition ex_rec : odobj :=
  build_cont KRec (s "Rec 1") 8192 (Some (s "ROM"))
    [ ex_v 2 16 (Some (PVInt (-8388608))) (Some (-8388608)) (Some 8388607);      (* INTEGER24 at its range ends *)
      ex_v 0 5 (Some (PVInt 2)) None None;
      ex_v 1 10 (Some (PVBytes [0; 171; 255])) None None;                        (* OCTET_STRING *)
      ex_v 3 8 (Some (PVFloat (-225) (-2))) None None ].                         (* REAL32 -2.25 *)

Ltac solve_value F2 :=
  unfold raw_ok, value_ok; cbn;
  first [ exact I
        | eexists; reflexivity
        | eexists; split; [reflexivity | repeat constructor; unfold byte_ok; lia]
        | eexists _, _; split; [reflexivity | exact F2] ].
Ltac solve_limit :=
  intros z H; first [ discriminate H | injection H as <-; intros _; vm_compute; reflexivity ].
Ltac solve_wf_var F1 F2 :=
  constructor; cbn [ex_v v_dt v_access v_storage v_default_raw v_default v_value_raw v_value v_min v_max v_factor];
  [ lia | split; [discriminate | reflexivity] | discriminate | solve_value F2 | solve_value F2
  | solve_limit | solve_limit | right; exact F1 ].

