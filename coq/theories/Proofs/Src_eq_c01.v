(* Tie (c) for C01 / C07: WritableStream.__init__ / write / close and ReadableStream.__init__ / read as translated from
   the CURRENT source text (Gen/SrcC01.v, state skeletons) determine the model functions of Model/SdoClient.v: which
   branch is taken, byte 0 of every request (command specifier, toggle, n, c, e, s bits), how many payload bytes are
   copied, what _toggle / _done / _error / pos / size are afterwards, and which exception class leaves the call. *)
From Coq Require Import ZArith List Bool Lia.
From CV Require Import Base.Val Base.Bytes Base.Tys Gen.SdoTables Gen.Tables Gen.SrcC01 Model.RefServer Model.SdoClient.
Import ListNotations.
Open Scope Z_scope.

Definition zsome (o : option Z) : bool := match o with Some _ => true | None => false end.
Definition zget (o : option Z) : Z := match o with Some x => x | None => 0 end.
Definition osome {A} (o : option A) : bool := match o with Some _ => true | None => false end.
Definition zget_l (o : option (list Z)) : list Z := match o with Some d => d | None => [] end.

Section Eq.
  Context {S : Type} (peer : S -> frame -> S * list frame).

  (* the stream after a call, from the skeleton's outputs *)
  Definition mkws (size : option Z) (pos toggle : Z) (exp : option (list Z)) (done : bool) (e : option (option Z)) :=
    {| ws_size := size; ws_pos := pos; ws_toggle := toggle; ws_exp := exp; ws_done := done; ws_error := e |}.

  (* ---- WritableStream.__init__ ---- *)
  Definition ws_init_from_src (w : world) (idx sub : Z) (size : option Z) (force : bool) :=
    let sk raised rc := src_ws_init (zsome size) (zget size) force raised rc in
    let '(_, byte0, sized, exp, _, _, pos0, tog0) := sk false RESPONSE_DOWNLOAD in
    let st_of (t : Z * Z * bool * bool * bool * bool * Z * Z) (e : option Z) (hdr : option (list Z)) :=
      let '(_, _, _, _, done, err, pos, tog) := t in
      mkws size pos tog hdr done (if err then Some e else None) in
    let st0 := mkws size pos0 tog0 None false None in
    if exp then
      match pack_sdo byte0 idx sub with
      | Ok hdr => (w, st_of (sk false RESPONSE_DOWNLOAD) None (Some hdr), Ok tt)
      | Err k => (w, st0, Err k)
      | Abort c => (w, st0, Abort c)
      end
    else
      match (if sized then (if (0 <=? zget size) && (zget size <? 2 ^ 32) then Ok (le_encode 4 (zget size)) else Err E_STRUCT)
             else Ok [0; 0; 0; 0]) with
      | Ok sz =>
          match pack_sdo byte0 idx sub with
          | Ok hdr =>
              let '(w1, r) := request_response peer w (hdr ++ sz) in
              match r with
              | Ok resp =>
                  let t := sk false (nth 0 resp 0) in
                  let '(code, _, _, _, _, _, _, _) := t in
                  (w1, st_of t None None, if code =? 1 then Ok tt else Err E_SDOCOMM)
              | Err k => if k =? E_SDOCOMM then (w1, st_of (sk true 0) None None, Err k) else (w1, st0, Err k)
              | Abort c => (w1, st_of (sk true 0) (Some c) None, Abort c)
              end
          | Err k => (w, st0, Err k)
          | Abort c => (w, st0, Abort c)
          end
      | Err k => (w, st0, Err k)
      | Abort c => (w, st0, Abort c)
      end.

  Theorem src_ws_init_eq (w : world) idx sub size force :
    ws_init peer w idx sub size force = ws_init_from_src w idx sub size force.
  Proof.
    unfold ws_init_from_src.
    unfold ws_init, src_ws_init, mkws, ws_new. destruct size as [z|]; cbn [zsome zget negb orb].
    - rewrite Z.gtb_ltb, <- orb_assoc.
      destruct ((z <? 1) || ((4 <? z) || force)).
      + change (negb (RESPONSE_DOWNLOAD =? RESPONSE_DOWNLOAD)) with false. cbv iota beta.
        destruct ((0 <=? z) && (z <? 2 ^ 32)); [|reflexivity].
        destruct (pack_sdo _ idx sub) as [hdr|k|c]; [|reflexivity|reflexivity].
        destruct (request_response peer w _) as [w1 [resp|k|c]];
          [destruct (nth 0 resp 0 =? RESPONSE_DOWNLOAD); reflexivity|destruct (k =? E_SDOCOMM); reflexivity|reflexivity].
      + cbv iota beta. destruct (pack_sdo _ idx sub) as [hdr|k|c]; reflexivity.
    - change (negb (RESPONSE_DOWNLOAD =? RESPONSE_DOWNLOAD)) with false. cbv iota beta.
      destruct (pack_sdo _ idx sub) as [hdr|k|c]; [|reflexivity|reflexivity].
      destruct (request_response peer w _) as [w1 [resp|k|c]];
        [destruct (nth 0 resp 0 =? RESPONSE_DOWNLOAD); reflexivity|destruct (k =? E_SDOCOMM); reflexivity|reflexivity].
  Qed.

  (* ---- WritableStream.write ---- *)
  Definition ws_write_from_src (w : world) (st : wstream) (b : list Z) :=
    let sk raised rc := src_ws_write (ws_done st) (osome (ws_error st)) (osome (ws_exp st)) (zsome (ws_size st))
                                     (zget (ws_size st)) (ws_pos st) (ws_toggle st) (zlen b) raised rc 0 0 false in
    let st_of (t : Z * Z * Z * Z * bool * bool * Z * Z) (e : option Z) :=
      let '(_, _, _, tog, done, err, pos, _) := t in
      mkws (ws_size st) pos tog (if err then None else ws_exp st) done (if err then Some e else ws_error st) in
    let '(c0, byte0, payload, _, _, _, _, _) := sk false 0 in
    if c0 =? 5 then (w, st, match ws_error st with Some (Some c) => Abort c | _ => Err E_SDOCOMM end)
    else if c0 =? 0 then (w, st, Err E_RUNTIME)
    else if c0 =? 2 then (w, st, Ok 0)
    else if c0 =? 3 then (w, st, Err E_OTHER)
    else
      let req := match ws_exp st with
                 | Some hdr => hdr ++ pad_to 4 b
                 | None => byte0 :: pad_to 7 (firstn (Z.to_nat payload) b)
                 end in
      let '(w1, r) := request_response peer w req in
      match r with
      | Ok resp =>
          let t := sk false (nth 0 resp 0) in
          let '(c, _, _, _, _, _, _, ret) := t in
          if c =? 1 then (w1, st_of t None, Ok ret)
          else if c =? 6 then (w1, st_of t None, Err E_SDOCOMM)
          else (w1, st, Err E_SDOCOMM)
      | Err k => if osome (ws_exp st) || negb (k =? E_SDOCOMM) then (w1, st, Err k)
                 else (w1, st_of (sk true 0) None, Err k)
      | Abort c => if osome (ws_exp st) then (w1, st, Abort c) else (w1, st_of (sk true 0) (Some c), Abort c)
      end.

  Theorem src_ws_write_eq (w : world) st b :
    ws_write peer w st b = ws_write_from_src w st b.
  Proof.
    unfold ws_write_from_src.
    unfold ws_write, src_ws_write, mkws. destruct st as [size pos tog exp done err]; cbn [ws_done ws_error ws_exp ws_size ws_pos ws_toggle].
    destruct done.
    { destruct err as [[c|]|]; reflexivity. }
    destruct exp as [hdr|]; cbn [osome].
    - destruct size as [z|]; cbn [zsome zget]; destruct (zlen b <? _); try reflexivity;
        rewrite Z.gtb_ltb; destruct (4 <? zlen b); try reflexivity;
        cbn [Z.land Z.eqb negb RESPONSE_DOWNLOAD];
        destruct (request_response peer w _) as [w1 [resp|k|c]]; try reflexivity;
        destruct (Z.land (nth 0 resp 0) 224 =? RESPONSE_DOWNLOAD); reflexivity.
    - destruct size as [z|]; cbn [zsome zget andb]; rewrite ?Z.geb_leb.
      + destruct (z <=? pos + Z.min (zlen b) 7);
          cbn [Z.land Z.eqb negb RESPONSE_SEGMENT_DOWNLOAD Pos.eqb];
          (destruct (request_response peer w _) as [w1 [resp|k|c]];
           [destruct (Z.land (nth 0 resp 0) 224 =? RESPONSE_SEGMENT_DOWNLOAD); reflexivity
           |destruct (k =? E_SDOCOMM); reflexivity|reflexivity]).
      + cbn [Z.land Z.eqb negb RESPONSE_SEGMENT_DOWNLOAD Pos.eqb].
        destruct (request_response peer w _) as [w1 [resp|k|c]];
           [destruct (Z.land (nth 0 resp 0) 224 =? RESPONSE_SEGMENT_DOWNLOAD); reflexivity
           |destruct (k =? E_SDOCOMM); reflexivity|reflexivity].
  Qed.

  (* ---- WritableStream.close ---- *)
  Definition ws_close_from_src (w : world) (st : wstream) :=
    let '(sent, byte0, done) := src_ws_close (ws_done st) (osome (ws_exp st)) (ws_toggle st) false 0 in
    if sent then
      let '(w1, r) := request_response peer w (byte0 :: [0; 0; 0; 0; 0; 0; 0]) in
      match r with
      | Ok _ => (w1, mkws (ws_size st) (ws_pos st) (ws_toggle st) (ws_exp st) done (ws_error st), Ok tt)
      | Err k => (w1, st, Err k)
      | Abort c => (w1, st, Abort c)
      end
    else (w, st, Ok tt).

  Theorem src_ws_close_eq (w : world) st :
    ws_close peer w st = ws_close_from_src w st.
  Proof.
    unfold ws_close_from_src.
    unfold ws_close, src_ws_close, mkws. destruct (ws_done st), (ws_exp st); reflexivity.
  Qed.

  (* ---- ReadableStream.__init__ (after the initiate exchange returned an 8-byte-or-longer-than-3 response) ---- *)
  Definition rs_init_from_src (w : world) (idx sub : Z) :=
    match pack_sdo REQUEST_UPLOAD idx sub with
    | Ok hdr =>
        let '(w1, r) := request_response peer w (hdr ++ [0; 0; 0; 0]) in
        match r with
        | Ok resp =>
            if (length resp <? 4)%nat then (w1, rs_new, Err E_STRUCT)
            else
              let res_data := firstn 4 (skipn 4 resp) in
              let '(code, size_has, size, exp, pos, tog, done) :=
                src_rs_init idx sub (nth 0 resp 0) (nth 1 resp 0 + 256 * nth 2 resp 0) (nth 3 resp 0)
                            (zlen res_data) (le_decode res_data) false 0 0 in
              if code =? 1 then
                if (exp =? 0) && size_has && negb (length res_data =? 4)%nat then (w1, rs_new, Err E_STRUCT)
                else (w1, {| rs_done := done; rs_toggle := tog;
                             rs_pos := if exp =? 1 then zlen (firstn (Z.to_nat size) res_data) else pos;
                             rs_size := if size_has then Some size else None;
                             rs_exp := if exp =? 1 then Some (firstn (Z.to_nat size) res_data)
                                       else if exp =? 2 then Some res_data else None;
                             rs_pending := [] |}, Ok tt)
              else (w1, rs_new, Err E_SDOCOMM)
        | Err k => (w1, rs_new, Err k)
        | Abort c => (w1, rs_new, Abort c)
        end
    | Err k => (w, rs_new, Err k)
    | Abort c => (w, rs_new, Abort c)
    end.

  Theorem src_rs_init_eq (w : world) idx sub :
    rs_init peer w idx sub = rs_init_from_src w idx sub.
  Proof.
    unfold rs_init_from_src.
    unfold rs_init, src_rs_init, rs_new.
    destruct (pack_sdo REQUEST_UPLOAD idx sub) as [hdr|k|c]; [|reflexivity|reflexivity].
    destruct (request_response peer w _) as [w1 [resp|k|c]]; [|reflexivity|reflexivity].
    destruct (length resp <? 4)%nat; [reflexivity|].
    destruct (negb (Z.land (nth 0 resp 0) 224 =? RESPONSE_UPLOAD)); [reflexivity|].
    rewrite negb_andb.
    destruct (negb (nth 1 resp 0 + 256 * nth 2 resp 0 =? idx) || negb (nth 3 resp 0 =? sub)); [reflexivity|].
    destruct (negb (Z.land (nth 0 resp 0) EXPEDITED =? 0)).
    - destruct (negb (Z.land (nth 0 resp 0) SIZE_SPECIFIED =? 0)); reflexivity.
    - destruct (negb (Z.land (nth 0 resp 0) SIZE_SPECIFIED =? 0)); cbn [Z.eqb andb negb];
        [destruct (length (firstn 4 (skipn 4 resp)) =? 4)%nat|]; reflexivity.
  Qed.

  (* the position the source computes for an expedited upload with size, len(res_data[:size]), is the model's *)
  Lemma src_rs_init_pos (size : Z) (res_data : list Z) :
    zlen (firstn (Z.to_nat size) res_data) = Z.min (Z.max size 0) (zlen res_data).
  Proof. unfold zlen. rewrite firstn_length. lia. Qed.

  (* ---- ReadableStream.read(size) for size >= 0 ---- *)
  Definition rs_read_from_src (rec : world -> rstream -> world * rstream * res (list Z)) (w : world) (st : rstream) (size : Z) :=
    let sk rc := src_rs_read (negb (is_nil (rs_pending st))) false size (rs_done st) (osome (rs_exp st))
                             (rs_toggle st) (rs_pos st) rc 0 0 in
    let '(c0, byte0, _, done0, _, _) := sk 255 in
    if c0 =? 2 then (w, set_pending [] st, Ok (rs_pending st))
    else if c0 =? 3 then (w, st, Ok [])
    else if c0 =? 4 then
      (w, {| rs_done := done0; rs_toggle := rs_toggle st; rs_pos := rs_pos st; rs_size := rs_size st;
             rs_exp := rs_exp st; rs_pending := rs_pending st |}, Ok (zget_l (rs_exp st)))
    else
      let '(w1, r) := request_response peer w (byte0 :: [0; 0; 0; 0; 0; 0; 0]) in
      match r with
      | Ok resp =>
          let '(c, _, tog, done, pos, len) := sk (nth 0 resp 0) in
          let st1 := {| rs_done := done; rs_toggle := tog; rs_pos := pos; rs_size := rs_size st; rs_exp := None;
                        rs_pending := rs_pending st |} in
          if c =? 6 then rec w1 st1
          else if c =? 7 then (w1, st1, Ok (firstn (Z.to_nat len) (skipn 1 resp)))
          else (w1, st, Err E_SDOCOMM)
      | Err k => (w1, st, Err k)
      | Abort c => (w1, st, Abort c)
      end.

  Theorem src_rs_read_eq (f : nat) (w : world) st size :
    0 <= size ->
    rs_read peer (Datatypes.S f) w st = rs_read_from_src (rs_read peer f) w st size.
  Proof.
    unfold rs_read_from_src.
    intros Hsz. cbn [rs_read]. unfold src_rs_read.
    destruct (negb (is_nil (rs_pending st))) eqn:Hp.
    { assert (size <? 0 = false) as -> by lia. reflexivity. }
    destruct (rs_done st); [reflexivity|].
    destruct (rs_exp st) as [d|] eqn:He; cbn [osome]; [reflexivity|].
    assert (size <? 0 = false) as -> by lia. cbn [orb].
    cbv beta zeta. change (Z.land 255 224) with 224. change (negb (224 =? RESPONSE_SEGMENT_UPLOAD)) with true. cbv iota beta.
    destruct (request_response peer w _) as [w1 [resp|k|c]]; [|reflexivity|reflexivity].
    destruct (negb (Z.land (nth 0 resp 0) 224 =? RESPONSE_SEGMENT_UPLOAD)); [reflexivity|].
    destruct (negb (Z.land (nth 0 resp 0) TOGGLE_BIT =? rs_toggle st)); [reflexivity|].
    destruct (negb (Z.land (nth 0 resp 0) NO_MORE_DATA =? 0)); cbn [negb andb];
      [rewrite andb_false_r; reflexivity|].
    rewrite andb_true_r.
    destruct (7 - Z.land (Z.shiftr (nth 0 resp 0) 1) 7 =? 0); reflexivity.
  Qed.
  (* ---- SdoClient.abort and SdoClient.request_response (first pass of its loop; MAX_RETRIES as in the source) ---- *)
  Definition abort_frame_from_src (code : Z) : frame :=
    let '(byte0, code_at_4, _) := src_abort code 0 in byte0 :: [0; 0; 0] ++ le_encode 4 code_at_4.

  Theorem src_abort_eq code : abort_frame code = abort_frame_from_src code.
  Proof. reflexivity. Qed.

  Definition request_response_from_src (w : world) (req : frame) : world * res frame :=
    let sk raised := src_request_response SDO_MAX_RETRIES (is_nil (w_q w)) raised false 0 0 in
    let '(_, flushed, _, _, _) := sk false in
    let w0 := if flushed then set_q [] w else w in
    let w1 := send_request peer w0 req in
    let '(w2, r) := read_response w1 in
    match r with
    | Err k =>
        if k =? E_SDOCOMM then
          let '(code, _, _, abort, _) := sk true in
          if code =? 2 then ((if abort =? 0 then w2 else send_request peer w2 (abort_frame_from_src abort)), r)
          else (w2, Err E_FUEL)        (* the loop would send the request again: not with MAX_RETRIES = 1 *)
        else (w2, r)
    | _ => (w2, r)
    end.

  Theorem src_request_response_eq (w : world) req :
    request_response peer w req = request_response_from_src w req.
  Proof.
    unfold request_response, request_response_from_src, src_request_response.
    destruct (w_q w) as [|r0 q]; cbn [is_nil negb];
      (destruct (read_response _) as [w2 [resp|k|c]]; [reflexivity| |reflexivity]);
      destruct (k =? E_SDOCOMM); reflexivity.
  Qed.
End Eq.

  (* ---- SdoClient.upload: the truncation to the declared size of a numeric entry ----
     odt = data type of od.get_variable(index, subindex) (None = not found); len(var) = 8 * the byte size of its packer *)
  Definition truncate_from_src (odt : option Z) (response_size : option Z) (data : list Z) : list Z :=
    let vs := match odt with Some t => od_var_size t | None => None end in
    let '(tr, n) := src_upload (osome odt) (osome vs) (8 * zget vs) (zsome response_size) (zget response_size) false 0 in
    if tr then firstn (Z.to_nat n) data else data.

  Theorem src_upload_eq odt response_size data :
    truncate odt response_size data = truncate_from_src odt response_size data.
  Proof.
    unfold truncate, truncate_from_src, src_upload. destruct odt as [t|]; [|reflexivity]. cbn [osome].
    destruct (od_var_size t) as [vs|]; [|reflexivity]. cbn [osome zget].
    rewrite (Z.mul_comm 8 vs), Z.div_mul by lia.
    destruct response_size as [rs|]; cbn [zsome zget negb orb]; [destruct (vs <? rs)|]; reflexivity.
  Qed.

(* ---- SdoClient.read_response ---- *)
Definition read_response_from_src {S : Type} (w : @world S) : @world S * res frame :=
  match w_q w with
  | [] => (w, if src_read_response true 0 =? 0 then Err E_SDOCOMM else Err E_FUEL)
  | r :: q' =>
      let w' := set_q q' w in
      match r with
      | [] => (w', Err E_STRUCT)
      | c :: _ =>
          let code := src_read_response false c in
          if code =? 1 then
            if (length r <? 8)%nat then (w', Err E_STRUCT) else (w', Abort (le_decode (firstn 4 (skipn 4 r))))
          else if code =? 2 then (w', Ok r) else (w', Err E_FUEL)
      end
  end.

Theorem src_read_response_eq {S : Type} (w : @world S) : read_response w = read_response_from_src w.
Proof.
  unfold read_response, read_response_from_src, src_read_response.
  destruct (w_q w) as [|r q']; [reflexivity|]. destruct r as [|c r']; [reflexivity|].
  destruct (c =? RESPONSE_ABORTED); reflexivity.
Qed.

(* ---- ReadableStream.readinto(b), cap = len(b) >= 0 ---- *)
Section Eq2.
  Context {S : Type} (peer : S -> frame -> S * list frame).

  Definition rs_readinto_from_src (rf : nat) (cap : Z) (w : world) (st : rstream) : world * rstream * res (list Z) :=
    let sk rl := src_rs_readinto (zlen (rs_pending st)) cap rl false 0 in
    let '(read7, _, _, _) := sk 0 in
    if read7 then
      let '(w1, st1, r) := rs_read peer rf w st in
      match r with
      | Ok d =>
          let '(_, count, copied, _) := sk (zlen d) in
          (w1, set_pending (skipn (Z.to_nat count) d) st1, Ok (firstn (Z.to_nat copied) d))
      | _ => (w1, st1, r)
      end
    else
      let '(_, count, copied, _) := sk 0 in
      (w, set_pending (skipn (Z.to_nat count) (rs_pending st)) st, Ok (firstn (Z.to_nat copied) (rs_pending st))).

  Theorem src_rs_readinto_eq rf cap (w : world) st :
    0 <= cap -> rs_readinto peer rf cap w st = rs_readinto_from_src rf cap w st.
  Proof.
    intros Hc. unfold rs_readinto, rs_readinto_from_src, src_rs_readinto.
    assert (cap <? 0 = false) as -> by lia.
    destruct (rs_pending st) as [|x p] eqn:Hp.
    - change (zlen (@nil Z) =? 0) with true. cbv iota beta.
      destruct (rs_read peer rf w st) as [[w1 st1] [d|k|c]]; reflexivity.
    - assert (zlen (x :: p) =? 0 = false) as -> by (unfold zlen; cbn [length]; lia).
      reflexivity.
  Qed.

  (* the length of _pending the source leaves is the model's *)
  Lemma src_rs_readinto_plen cap (d : list Z) : 0 <= cap ->
    zlen (skipn (Z.to_nat (Z.min cap (zlen d))) d) = zlen d - Z.min cap (zlen d).
  Proof. intros Hc. unfold zlen. rewrite skipn_length. lia. Qed.
End Eq2.
