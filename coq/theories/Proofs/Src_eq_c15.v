(* Tie (c): PdoMap.on_message / remote_request as translated from the CURRENT source text (Gen/SrcC15.v) agree with
   the model functions of Model/PdoLink.v (C15). *)
From Coq Require Import ZArith List Bool Lia.
From CV Require Import Base.Val Base.Tys Base.PyLib Gen.SrcC15 Model.Pdo Model.PdoLink Proofs.PdoLink_proofs.
Import ListNotations.
Open Scope Z_scope.

(* the frame is taken exactly when the model takes it; timestamp and period are updated as in the model
   (an absent timestamp / period is represented by any default d in the translated code) *)
Theorem src_pdo_on_message_eq m can_id data ts dts dper :
  let r := src_pdo_on_message (m_cob m) (m_task m) (match m_ts m with Some _ => true | None => false end)
             (match m_ts m with Some t => t | None => dts end)
             (match m_period m with Some p => p | None => dper end) can_id ts false in
  let m' := fst (on_message m can_id data ts) in
  fst (fst r) = accepts m can_id /\
  (accepts m can_id = true ->
     m_ts m' = Some (snd r) /\
     m_period m' = match m_ts m with Some _ => Some (snd (fst r)) | None => m_period m end) /\
  (accepts m can_id = false -> m' = m).
Proof.
  unfold src_pdo_on_message, on_message, accepts. cbv zeta.
  rewrite (Z.eqb_sym can_id (m_cob m)).
  destruct ((m_cob m =? can_id) && negb (m_task m)) eqn:A; cbn [fst snd].
  - destruct (m_ts m); cbn; repeat split; try reflexivity; intros; discriminate.
  - repeat split; try reflexivity; intros; discriminate.
Qed.

Theorem src_pdo_remote_request_eq w k m : nth_error (w_maps w) k = Some m ->
  w_sent (fst (step w (LRtr k))) =
  if src_pdo_remote_request_sends (m_enabled m) (m_rtr m) false then w_sent w ++ [(m_cob m, [], true)] else w_sent w.
Proof.
  intros Hk. rewrite (rtr_rule w k m Hk). unfold src_pdo_remote_request_sends.
  destruct (m_enabled m && m_rtr m); reflexivity.
Qed.
