(* Tie (c): PdoMap.on_message / remote_request as translated from the CURRENT source text (Gen/SrcC15.v) agree with
   the model functions of Model/PdoLink.v (C15). *)
From Coq Require Import ZArith List Bool Lia.
From CV Require Import Base.Val Base.Tys Base.PyLib Gen.SrcC15 Model.Pdo Model.PdoLink Proofs.PdoLink_proofs.
Import ListNotations.
Open Scope Z_scope.

(* the frame is taken exactly when the model takes it; timestamp and period are updated as in the model
   (an absent timestamp / period is represented by any default d in the translated code) *)
Theorem src_pdo_on_message_eq m can_id data ts dts dper :
  let r := src_pdo_on_message (m_cob m) (m_task m) (match m_ts m with Some _ => true | None => false end)
             (match m_ts m with Some t => t | None => dts end)
             (match m_period m with Some p => p | None => dper end) can_id ts false in
  let m' := fst (on_message m can_id data ts) in
  fst (fst r) = accepts m can_id /\
  (accepts m can_id = true ->
     m_ts m' = Some (snd r) /\
     m_period m' = match m_ts m with Some _ => Some (snd (fst r)) | None => m_period m end) /\
  (accepts m can_id = false -> m' = m).
Proof.
  unfold src_pdo_on_message, on_message, accepts. cbv zeta.
  rewrite (Z.eqb_sym can_id (m_cob m)).
  destruct ((m_cob m =? can_id) && negb (m_task m)) eqn:A; cbn [fst snd].
  - destruct (m_ts m); cbn; repeat split; try reflexivity; intros; discriminate.
  - repeat split; try reflexivity; intros; discriminate.
Qed.

Theorem src_pdo_remote_request_eq w k m : nth_error (w_maps w) k = Some m ->
  w_sent (fst (step w (LRtr k))) =
  if src_pdo_remote_request_sends (m_enabled m) (m_rtr m) false then w_sent w ++ [(m_cob m, [], true)] else w_sent w.
Proof.
  intros Hk. rewrite (rtr_rule w k m Hk). unfold src_pdo_remote_request_sends.
  destruct (m_enabled m && m_rtr m); reflexivity.
Qed.

(* PdoMap.subscribe / Network.subscribe: the subscriber table grows by (COB-ID, this map) exactly when the translated
   code calls Network.subscribe and that call appends; nothing else changes *)
Theorem src_pdo_subscribe_eq w k m : nth_error (w_maps w) k = Some m ->
  fst (step w (LSubscribe k)) =
  if src_pdo_subscribe_calls (m_enabled m) false && src_net_subscribe_adds (has_sub (w_subs w) (m_cob m) k) false
  then {| w_maps := w_maps w; w_subs := w_subs w ++ [(m_cob m, k)]; w_sent := w_sent w; w_cblog := w_cblog w |}
  else w.
Proof.
  intros Hk. unfold step, with_map. rewrite Hk. unfold src_pdo_subscribe_calls, src_net_subscribe_adds.
  destruct (m_enabled m); cbn [andb]; [|reflexivity].
  destruct (has_sub (w_subs w) (m_cob m) k); reflexivity.
Qed.

(* PdoMap.transmit: exactly one data frame (COB-ID, current data) is handed to the bus, which delivers it *)
Theorem src_pdo_transmit_eq w k m ts : nth_error (w_maps w) k = Some m ->
  w_sent (fst (step w (LTransmit k ts))) =
  if src_pdo_transmit_sends false then w_sent w ++ [(m_cob m, m_data m, false)] else w_sent w.
Proof.
  intros Hk. unfold step, with_map. rewrite Hk. unfold src_pdo_transmit_sends, arrive. cbn [fst w_maps w_subs w_sent w_cblog].
  destruct (deliver (w_maps w) (w_subs w) (m_cob m) (m_data m) ts) as [maps' log]. reflexivity.
Qed.
