(* Tie (c) for C14: the decision logic of the export side as translated from the CURRENT source text
   (Gen/SrcC14.v: export_od, _revert_variable, and export_common / export_variable / export_record nested in
   export_eds) equals / determines the model functions of Model/Eds.v: export_od_type, revert_variable, value_text,
   var_entries and the head section of export_object. *)
From Coq Require Import ZArith List Bool Lia.
From Coq Require String.
Import String.StringSyntax.
From CV Require Import Base.Val Base.Tys Base.PyLib Gen.Tables Gen.EdsTables Gen.SrcC14 Model.Eds.
Import ListNotations.
Open Scope Z_scope.

Definition osome {A} (o : option A) : bool := match o with Some _ => true | None => false end.
Definition filled_str (t : str) : bool := match t with [] => false | _ => true end.

(* ---- export_od: which document is written ---- *)
(* the doc_type argument as the translation sees it: 0 None, 1 "eds", 2 "dcf", 3 another non-empty string, 4 "" *)
Definition doc_code (t : option str) : Z :=
  match t with
  | None => 0
  | Some [] => 4
  | Some t => if streq t (s "eds") then 1 else if streq t (s "dcf") then 2 else 3
  end.

Lemma streq_true a b : streq a b = true -> a = b.
Proof.
  unfold streq. revert b. induction a as [|x a IH]; intros [|y b]; cbn; try discriminate; [reflexivity|].
  intros H. apply andb_prop in H as [H1 H2]. apply Z.eqb_eq in H1. f_equal; auto.
Qed.

Theorem src_export_od_eq dest t :
  export_od_type dest t =
  src_export_od (osome dest)
    (match dest with Some n => ends_with (s ".dcf") n | None => false end)
    (match dest with Some n => ends_with (s ".eds") n | None => false end) (doc_code t).
Proof.
  unfold export_od_type, src_export_od, doc_code.
  destruct t as [[|c r]|].
  - destruct dest; reflexivity.
  - destruct (streq (c :: r) (s "eds")) eqn:E1.
    + apply streq_true in E1. rewrite E1. destruct dest; reflexivity.
    + destruct (streq (c :: r) (s "dcf")) eqn:E2; destruct dest; reflexivity.
  - destruct dest as [n|]; [|reflexivity]. cbn [osome].
    destruct (ends_with (s ".dcf") n), (ends_with (s ".eds") n); reflexivity.
Qed.

(* ---- _revert_variable: the dispatch on the data type ---- *)
Theorem src_revert_class dt z :
  src_revert_variable false dt z =
  if is_bytes_type dt then 1 else if is_text_type dt || zmem dt FLOAT_TYPES then 2 else if z <? 0 then 4 else 5.
Proof.
  unfold src_revert_variable, is_bytes_type, is_text_type.
  destruct ((dt =? dt_OCTET_STRING) || (dt =? dt_DOMAIN)); [reflexivity|].
  destruct ((dt =? dt_VISIBLE_STRING) || (dt =? dt_UNICODE_STRING)); [reflexivity|].
  destruct (zmem dt FLOAT_TYPES); reflexivity.
Qed.

Theorem src_revert_variable_eq dt v :
  revert_variable dt v =
  let code := src_revert_variable false dt (match v with PVInt z => z | _ => 0 end) in
  if code =? 1 then match v with PVBytes b => Some (tohex b) | _ => None end
  else if code =? 2 then
    (if is_text_type dt then match v with PVStr t => Some t | _ => None end
     else match v with PVFloat m e => Some (float_print (m, e)) | PVInt z => Some (dec z) | _ => None end)
  else match v with
       | PVInt z => Some (if code =? 4 then 45 :: fmt_0x02X (- z) else fmt_0x02X z)
       | _ => None
       end.
Proof.
  cbv zeta. rewrite src_revert_class. unfold revert_variable.
  destruct (is_bytes_type dt); [reflexivity|].
  destruct (is_text_type dt); [reflexivity|]. cbn [orb].
  destruct (zmem dt FLOAT_TYPES); [reflexivity|].
  destruct v as [z| | |]; try reflexivity. destruct (z <? 0); reflexivity.
Qed.

(* ---- export_variable: the text of the default and of the current value ---- *)
(* mode 0: key not written; 1: the original text kept by the importer; 2: _revert_variable of the value *)
Definition text_by_mode (mode dt : Z) (raw : option str) (val : option pyv) : option (option str) :=
  if mode =? 1 then Some raw
  else if mode =? 2 then match val with Some x => option_map Some (revert_variable dt x) | None => Some None end
  else Some None.

Theorem src_var_default_eq dt raw val :
  value_text dt raw val = text_by_mode (src_var_default (osome raw) (osome val) 0) dt raw val.
Proof.
  unfold value_text, text_by_mode, src_var_default. destruct raw as [t|]; [reflexivity|].
  destruct val as [x|]; [|reflexivity]. cbn. destruct (revert_variable dt x); reflexivity.
Qed.


Theorem src_var_value_eq (dcf : bool) dt raw val pv : value_text dt raw val = Some pv ->
  let mode := src_var_value dcf (osome raw) (osome val) 0 in
  (if dcf then pv else None) = (if mode =? 0 then None else pv) /\
  text_by_mode mode dt raw val = Some (if dcf then pv else None).
Proof.
  unfold value_text, text_by_mode, src_var_value. destruct dcf; [|intros _; split; reflexivity].
  destruct raw as [t|]; [intros H; injection H as <-; split; reflexivity|].
  destruct val as [x|]; [|intros H; injection H as <-; split; reflexivity].
  cbn. destruct (revert_variable dt x); [|discriminate]. intros H; injection H as <-. split; reflexivity.
Qed.

(* ---- export_common + export_variable: which keys are written for one variable ---- *)
Theorem src_var_entries_eq (dcf top : bool) v dv pv :
  let '(top_, named, ot) := src_var_head top false false 0 in
  let '(w_name, w_sto) := src_export_common (match v_storage v with Some t => filled_str t | None => false end) false false in
  let '(w_dt1, w_acc) := src_var_type (v_dt v) (filled_str (v_access v)) false false in
  let '(w_dt, w_pdo) := src_var_fixed w_dt1 false in
  let '(w_low, w_high) := src_var_limits (osome (v_min v)) (osome (v_max v)) false false in
  let '(w_descr, w_factor, w_unit) :=
    src_var_text (filled_str (v_descr v)) (negb ((fst (v_factor v) =? 1) && (snd (v_factor v) =? 0)))
                 (filled_str (v_unit v)) false false false in
  var_section_name top v = (if top_ then fmt_X 4 (v_index v) else fmt_X 4 (v_index v) ++ s "sub" ++ fmt_X 0 (v_sub v)) /\
  named = true /\
  var_entries dcf v dv pv =
  [ (k_PName, if w_name then Some (v_name v) else None);
    (s "StorageLocation", if w_sto then v_storage v else None);
    (s "ObjectType", Some (s "0x" ++ fmt_X 0 ot));
    (s "DataType", if w_dt then Some (s "0x" ++ fmt_X 4 (v_dt v)) else None);
    (s "AccessType", if w_acc then Some (v_access v) else None);
    (s "DefaultValue", dv);
    (k_PValue, if dcf then pv else None);
    (s "PDOMapping", if w_pdo then Some (hex_bool (v_pdo v)) else None);
    (s "LowLimit", if w_low then option_map dec (v_min v) else None);
    (s "HighLimit", if w_high then option_map dec (v_max v) else None);
    (s "Description", if w_descr then Some (v_descr v) else None);
    (s "Factor", if w_factor then Some (float_print (v_factor v)) else None);
    (s "Unit", if w_unit then Some (v_unit v) else None) ].
Proof.
  unfold src_var_head, src_export_common, src_var_type, src_var_fixed, src_var_limits, src_var_text, var_entries, var_section_name.
  destruct top, (v_storage v) as [[|c0 t0]|], (v_access v) as [|c1 t1], (v_min v), (v_max v), (v_descr v) as [|c2 t2],
    (v_unit v) as [|c3 t3], ((fst (v_factor v) =? 1) && (snd (v_factor v) =? 0)), (v_dt v =? 0);
    cbn [filled_str osome negb nonempty option_map]; repeat split; reflexivity.
Qed.

(* ---- export_record / export_array: the head section of a record or an array ---- *)
Theorem src_export_record_eq dcf c secs : export_object dcf (OCont c) = Some secs ->
  let '(ot, subnumber, members) :=
    src_export_record (match c_kind c with KRec => true | KArr => false end) (Z.of_nat (length (c_subs c))) 0 0 false in
  let '(w_name, w_sto) := src_export_common (match c_storage c with Some t => filled_str t | None => false end) false false in
  members = true /\
  hd_error secs = Some (fmt_X 4 (c_index c), kvs_of
    [ (k_PName, if w_name then Some (c_name c) else None);
      (s "StorageLocation", if w_sto then c_storage c else None);
      (s "SubNumber", Some (s "0x" ++ fmt_X 0 subnumber));
      (s "ObjectType", Some (s "0x" ++ fmt_X 0 ot)) ]).
Proof.
  unfold export_object, src_export_record, src_export_common.
  destruct (opt_all _) as [l|]; [|discriminate]. cbn [option_map]. intros H. injection H as <-.
  destruct (c_kind c), (c_storage c) as [[|c0 t0]|]; cbn [filled_str hd_error nonempty]; split; reflexivity.
Qed.
