(* Proofs about Model/PdoCfg.v and Model/StrictDevice.v (C09). *)
From Coq Require Import ZArith List Bool Lia ZifyBool.
From CV Require Import Base.Val Base.Bytes Base.Tys Gen.PdoTables Model.StrictDevice Model.PdoCfg.
Import ListNotations.
Open Scope Z_scope.
Ltac Zify.zify_post_hook ::= Z.to_euclidean_division_equations.

(* ================================================================== hypotheses of the theorems *)
Definition opt_fits (w : Z) (o : option Z) : bool :=
  match o with Some v => fits w v | None => true end.

Definition entry_wfb (e : entry) : bool :=
  let '(i, s, l) := e in
  (0 <? i) && (i <? 65536) && (0 <=? s) && (s <? 256) && (0 <? l) && (l <? 128).

(* forced by the code: anything else is either refused by encode_raw or does not survive read() *)
Definition cfg_wfb (c : cfg) : bool :=
  match c_cob c with Some cob => (0 <=? cob) && (cob <? 2 ^ 29) | None => false end &&
  opt_fits 8 (c_tt c) && opt_fits 16 (c_inhibit c) && opt_fits 16 (c_event c) && opt_fits 8 (c_sync c) &&
  forallb entry_wfb (c_map c) && (zlen (c_map c) <? 256).

(* the dictionary has every sub-entry that save() touches (otherwise KeyError) *)
Definition opt_has (od : oddesc) (k : Z) (o : option Z) : bool :=
  match o with Some _ => com_has od k | None => true end.

Definition od_coversb (od : oddesc) (c : cfg) : bool :=
  com_has od 1 && opt_has od 2 (c_tt c) && opt_has od 3 (c_inhibit c) && opt_has od 5 (c_event c) &&
  opt_has od 6 (c_sync c) && (zlen (c_map c) <=? o_nmap od).

Fixpoint map_total (m : list entry) : Z :=
  match m with [] => 0 | (_, _, l) :: t => l + map_total t end.

(* the device has every register that save() writes, can map the objects, and the PDO fits a frame *)
Definition dev_coversb (d : device) (r0 : regs) (com : Z) (c : cfg) : bool :=
  forallb (fun w : write => rhas r0 (fst (fst w)) (snd (fst w))) (save_writes com (com + 0x200) c) &&
  forallb (fun e => entry_ok (d_objs d) (entry_word e)) (c_map c) &&
  (map_total (c_map c) <=? 64).

(* every mapped object is in the dictionary of the reading node *)
Definition in_odb (objs : list (Z * objdesc)) (e : entry) : bool :=
  let '(i, s, _) := e in match od_lookup objs i s with Some _ => true | None => false end.

(* the CiA 301 encodings *)
Definition cob_word (c : cfg) (cob : Z) : Z :=
  cob + (if c_enabled c then 0 else 2 ^ 31) + (if c_rtr c then 0 else 2 ^ 30).
Definition map_word (e : entry) : Z := let '(i, s, l) := e in i * 65536 + s * 256 + l.

Definition acc (ws : list write) : list (write * option Z) := map (fun w => (w, None)) ws.

(* ================================================================== arithmetic *)
Lemma land_low_high a b n : 0 <= n -> 0 <= a < 2 ^ n -> Z.land a (b * 2 ^ n) = 0.
Proof.
  intros Hn Ha. apply Z.bits_inj'. intros i Hi. rewrite Z.land_spec, Z.bits_0.
  destruct (Z_lt_le_dec i n).
  - rewrite Z.mul_pow2_bits_low by lia. apply andb_false_r.
  - replace a with (a mod 2 ^ n) by (apply Z.mod_small; lia).
    rewrite Z.mod_pow2_bits_high by lia. reflexivity.
Qed.

Lemma lor_low_high a b n : 0 <= n -> 0 <= a < 2 ^ n -> Z.lor a (b * 2 ^ n) = a + b * 2 ^ n.
Proof.
  intros Hn Ha. rewrite Z.add_nocarry_lxor by (apply land_low_high; lia).
  symmetry. apply Z.lxor_lor, land_low_high; lia.
Qed.

Lemma land_pow2 w n : 0 <= n -> Z.land w (2 ^ n) = if Z.testbit w n then 2 ^ n else 0.
Proof.
  intros Hn. apply Z.bits_inj'. intros i Hi. rewrite Z.land_spec, Z.pow2_bits_eqb by lia.
  destruct (n =? i) eqn:E.
  - assert (i = n) by lia. subst i. destruct (Z.testbit w n); cbn [andb].
    + rewrite Z.pow2_bits_eqb by lia. lia.
    + now rewrite Z.bits_0.
  - rewrite andb_false_r. destruct (Z.testbit w n).
    + rewrite Z.pow2_bits_eqb by lia. lia.
    + now rewrite Z.bits_0.
Qed.

Lemma NV_eq : PDO_NOT_VALID = 2 ^ 31. Proof. reflexivity. Qed.
Lemma RTR_eq : RTR_NOT_ALLOWED = 2 ^ 30. Proof. reflexivity. Qed.

Lemma lor_flags cob nv rb : 0 <= cob < 2 ^ 29 -> (nv = 0 \/ nv = 2 ^ 31) -> (rb = 0 \/ rb = 2 ^ 30) ->
  Z.lor (Z.lor cob nv) rb = cob + nv + rb.
Proof.
  intros Hc Hnv Hrb.
  rewrite <- Z.lor_assoc, (Z.lor_comm nv rb), Z.lor_assoc.
  assert (H1 : Z.lor cob rb = cob + rb).
  { destruct Hrb as [->| ->]; [rewrite Z.lor_0_r; lia|].
    replace (2 ^ 30) with (1 * 2 ^ 30) by lia. apply lor_low_high; lia. }
  rewrite H1.
  destruct Hnv as [->| ->]; [rewrite Z.lor_0_r; lia|].
  replace (2 ^ 31) with (1 * 2 ^ 31) at 1 by lia. rewrite lor_low_high; [lia|lia|].
  destruct Hrb as [->| ->]; lia.
Qed.

Lemma rtr_bit_cases c : rtr_bit c = (if c_rtr c then 0 else 2 ^ 30) /\ (rtr_bit c = 0 \/ rtr_bit c = 2 ^ 30).
Proof. unfold rtr_bit. rewrite RTR_eq. destruct (c_rtr c); auto. Qed.

(* first write: cob | PDO_NOT_VALID | rtr *)
Lemma first_word c cob : 0 <= cob < 2 ^ 29 ->
  Z.lor (Z.lor cob PDO_NOT_VALID) (rtr_bit c) = cob + 2 ^ 31 + (if c_rtr c then 0 else 2 ^ 30).
Proof.
  intros H. destruct (rtr_bit_cases c) as [E C]. rewrite NV_eq, lor_flags by auto. now rewrite E.
Qed.

(* last write: cob | rtr *)
Lemma last_word c cob : 0 <= cob < 2 ^ 29 ->
  Z.lor cob (rtr_bit c) = cob + (if c_rtr c then 0 else 2 ^ 30).
Proof.
  intros H. destruct (rtr_bit_cases c) as [E C].
  replace (Z.lor cob (rtr_bit c)) with (Z.lor (Z.lor cob 0) (rtr_bit c)) by (now rewrite Z.lor_0_r).
  rewrite lor_flags by auto. rewrite E. lia.
Qed.

Lemma testbit_arith w n : 0 <= n -> Z.testbit w n = ((w / 2 ^ n) mod 2 =? 1).
Proof. intros. now apply Z.testbit_eqb. Qed.

Lemma cob_word_bits c cob : 0 <= cob < 2 ^ 29 ->
  let w := cob_word c cob in
  0 <= w < 2 ^ 32 /\ Z.testbit w 31 = negb (c_enabled c) /\ Z.testbit w 30 = negb (c_rtr c) /\
  w mod 2 ^ 29 = cob.
Proof.
  intros H w. subst w. unfold cob_word. rewrite !testbit_arith by lia.
  change (2 ^ 32) with 4294967296. change (2 ^ 31) with 2147483648. change (2 ^ 30) with 1073741824.
  change (2 ^ 29) with 536870912 in *.
  destruct (c_enabled c), (c_rtr c); cbn [negb]; repeat split; lia.
Qed.

(* read() decodes the COB-ID word *)
Lemma cob_word_decode c cob : 0 <= cob < 2 ^ 29 ->
  let w := cob_word c cob in
  Z.land w 0x1FFFFFFF = cob /\ (Z.land w PDO_NOT_VALID =? 0) = c_enabled c /\
  (Z.land w RTR_NOT_ALLOWED =? 0) = c_rtr c.
Proof.
  intros H w. destruct (cob_word_bits c cob H) as (Hr & H31 & H30 & Hm). fold w in Hr, H31, H30, Hm.
  repeat split.
  - change 0x1FFFFFFF with (Z.ones 29). rewrite Z.land_ones by lia. exact Hm.
  - rewrite NV_eq, land_pow2, H31 by lia. destruct (c_enabled c); reflexivity.
  - rewrite RTR_eq, land_pow2, H30 by lia. destruct (c_rtr c); reflexivity.
Qed.

Lemma entry_wfb_spec i s l : entry_wfb (i, s, l) = true ->
  0 < i < 65536 /\ 0 <= s < 256 /\ 0 < l < 128.
Proof. unfold entry_wfb. lia. Qed.

Lemma entry_word_eq i s l : 0 <= s < 256 -> 0 <= l < 256 ->
  entry_word (i, s, l) = map_word (i, s, l).
Proof.
  intros Hs Hl. unfold entry_word, map_word. rewrite !Z.shiftl_mul_pow2 by lia.
  rewrite (Z.lor_comm (i * 2 ^ 16)).
  rewrite (lor_low_high (s * 2 ^ 8) i 16) by lia.
  rewrite Z.lor_comm.
  replace (s * 2 ^ 8 + i * 2 ^ 16) with ((s + i * 256) * 2 ^ 8) by lia.
  rewrite lor_low_high by lia. lia.
Qed.

(* read() decodes a mapping word *)
Lemma map_word_decode i s l : 0 <= s < 256 -> 0 <= l < 128 ->
  let w := map_word (i, s, l) in
  Z.shiftr w 16 = i /\ Z.land (Z.shiftr w 8) 0xFF = s /\ Z.land w 0x7F = l /\
  word_index w = i /\ word_sub w = s /\ word_len w = l.
Proof.
  intros Hs Hl w. subst w. unfold word_index, word_sub, word_len, map_word.
  change 0xFF with (Z.ones 8). change 255 with (Z.ones 8). change 0x7F with (Z.ones 7).
  rewrite !Z.land_ones, !Z.shiftr_div_pow2 by lia.
  change (2 ^ 16) with 65536. change (2 ^ 8) with 256. change (2 ^ 7) with 128.
  repeat split; lia.
Qed.

(* ================================================================== registers *)
Definition same_reg (i s i' s' : Z) : bool := (i =? i') && (s =? s').

Lemma rget_rset_eq r i s v : rget (rset r i s v) i s = Some v.
Proof. unfold rset. cbn [rget]. now rewrite !Z.eqb_refl. Qed.

Lemma rget_rset_neq r i s v i' s' : same_reg i' s' i s = false ->
  rget (rset r i s v) i' s' = rget r i' s'.
Proof. unfold rset, same_reg. cbn [rget]. now intros ->. Qed.

Lemma rhas_rset r i s v i' s' : rhas r i' s' = true -> rhas (rset r i s v) i' s' = true.
Proof.
  unfold rhas. destruct (same_reg i' s' i s) eqn:E.
  - unfold same_reg in E. assert (i' = i /\ s' = s) as [-> ->] by lia. now rewrite rget_rset_eq.
  - now rewrite rget_rset_neq.
Qed.

Lemma apply_writes_app r a b : apply_writes r (a ++ b) = apply_writes (apply_writes r a) b.
Proof. revert r. induction a as [|[[i s] v] a IH]; intros r; cbn [apply_writes app]; auto. Qed.

Definition untouched (i s : Z) (w : write) : Prop := same_reg i s (fst (fst w)) (snd (fst w)) = false.

Lemma rget_apply_untouched i s ws : Forall (untouched i s) ws ->
  forall r, rget (apply_writes r ws) i s = rget r i s.
Proof.
  induction 1 as [|[[i' s'] v] ws H _ IH]; intros r; cbn [apply_writes]; [reflexivity|].
  rewrite IH. now apply rget_rset_neq.
Qed.

Lemma rhas_apply ws i s : forall r, rhas r i s = true -> rhas (apply_writes r ws) i s = true.
Proof.
  induction ws as [|[[i' s'] v] ws IH]; intros r H; cbn [apply_writes]; auto using rhas_rset.
Qed.

(* entry_writes mp k m writes (mp, k + j) := word of the j-th entry *)
Lemma entry_writes_targets mp m : forall k,
  Forall (fun w : write => fst (fst w) = mp /\ k <= snd (fst w) < k + zlen m) (entry_writes mp k m).
Proof.
  unfold zlen. induction m as [|e m IH]; intros k; cbn [entry_writes]; constructor.
  - cbn [fst snd length]. lia.
  - eapply Forall_impl; [|apply (IH (k + 1))]. cbn [length]. intros w. lia.
Qed.

Lemma entry_writes_nth mp m : forall k j e, nth_error m j = Some e ->
  nth_error (entry_writes mp k m) j = Some (mp, k + Z.of_nat j, entry_word e).
Proof.
  induction m as [|e0 m IH]; intros k j e H; destruct j; cbn in H; try discriminate.
  - inversion H; subst. cbn. do 3 f_equal. lia.
  - cbn [entry_writes nth_error]. rewrite (IH (k + 1) j e H). do 3 f_equal. lia.
Qed.

Lemma rget_entry_writes mp m : forall k r j e, nth_error m j = Some e ->
  rget (apply_writes r (entry_writes mp k m)) mp (k + Z.of_nat j) = Some (entry_word e).
Proof.
  induction m as [|e0 m IH]; intros k r j e H; destruct j; cbn in H; try discriminate.
  - inversion H; subst. cbn [entry_writes apply_writes].
    rewrite rget_apply_untouched.
    + replace (k + Z.of_nat 0) with k by lia. apply rget_rset_eq.
    + eapply Forall_impl; [|apply (entry_writes_targets mp m (k + 1))].
      intros w [Hi Hs]. unfold untouched, same_reg. lia.
  - cbn [entry_writes apply_writes].
    replace (k + Z.of_nat (S j)) with ((k + 1) + Z.of_nat j) by lia. now apply IH.
Qed.

(* ================================================================== the strict device accepts *)
Fixpoint all_accepted (d : device) (r : regs) (ws : list write) : bool :=
  match ws with
  | [] => true
  | (i, s, v) :: t =>
      match dev_check d r i s v with
      | None => all_accepted d (rset r i s v) t
      | Some _ => false
      end
  end.

Lemma all_accepted_app d a : forall r b,
  all_accepted d r (a ++ b) = all_accepted d r a && all_accepted d (apply_writes r a) b.
Proof.
  induction a as [|[[i s] v] a IH]; intros r b; cbn [all_accepted app apply_writes]; [reflexivity|].
  destruct (dev_check d r i s v); [reflexivity|apply IH].
Qed.

Lemma acc_app a b : acc (a ++ b) = acc a ++ acc b.
Proof. apply map_app. Qed.

Lemma run_writes_accepted d ws : forall r lg, all_accepted d r ws = true ->
  run_writes d (r, lg) ws = ((apply_writes r ws, lg ++ acc ws), None).
Proof.
  induction ws as [|[[i s] v] ws IH]; intros r lg H; cbn [run_writes apply_writes acc map].
  - now rewrite app_nil_r.
  - cbn [all_accepted] in H. unfold log_write, dev_write.
    destruct (dev_check d r i s v) eqn:E; [discriminate|].
    rewrite IH by assumption. rewrite <- app_assoc. reflexivity.
Qed.

(* a phase of writes all accepted under an invariant that they preserve *)
Lemma phase_accepted d (P : regs -> Prop) ws :
  (forall r i s v, In (i, s, v) ws -> P r -> dev_check d r i s v = None /\ P (rset r i s v)) ->
  forall r, P r -> all_accepted d r ws = true /\ P (apply_writes r ws).
Proof.
  induction ws as [|[[i s] v] ws IH]; intros Hstep r HP; cbn [all_accepted apply_writes]; [auto|].
  destruct (Hstep r i s v (or_introl eq_refl) HP) as [Hc HP']. rewrite Hc.
  apply IH; [|assumption]. intros r' i' s' v' Hin. apply Hstep. now right.
Qed.

Section Strict.
  Context (d : device) (com : Z).
  Context (Hmode : d_mode d = MODE_STRICT) (Hcom : is_com com = true).
  Let mp := com + 0x200.

  Lemma idx_facts : is_com mp = false /\ is_map mp = true /\ is_map com = false /\ mp - 0x200 = com.
  Proof. subst mp. unfold is_com, is_map in *. lia. Qed.

  Lemma mode_flags : (d_mode d =? MODE_LENIENT) = false /\ (d_mode d =? MODE_RO_COUNT) = false.
  Proof. rewrite Hmode. split; reflexivity. Qed.

  (* the COB-ID entry may always be written with bit 31 set, and with anything while invalid *)
  Lemma check_com1 r v : rhas r com 1 = true -> fits 32 v = true ->
    (Z.testbit v 31 = true \/ pdo_valid r com = false) -> dev_check d r com 1 v = None.
  Proof.
    intros Hh Hf Hb. unfold dev_check, rhas in *. destruct (rget r com 1) as [old|] eqn:E; [|discriminate].
    unfold reg_width. rewrite Hcom. cbn [Z.eqb Pos.eqb]. rewrite Hf. cbn [negb].
    destruct mode_flags as [-> _]. unfold com_check. cbn [Z.eqb Pos.eqb].
    destruct Hb as [-> | ->]; [rewrite andb_false_r|]; reflexivity.
  Qed.

  Lemma check_param r k v : rhas r com k = true -> In k [2; 3; 5; 6] -> fits (reg_width com k) v = true ->
    pdo_valid r com = false -> dev_check d r com k v = None.
  Proof.
    intros Hh Hk Hf Hv. unfold dev_check, rhas in *. destruct (rget r com k) as [old|] eqn:E; [|discriminate].
    rewrite Hf. cbn [negb]. destruct mode_flags as [-> _]. rewrite Hcom. unfold com_check. rewrite Hv.
    cbn in Hk. destruct Hk as [<-|[<-|[<-|[<-|[]]]]]; reflexivity.
  Qed.

  Lemma check_count0 r : rhas r mp 0 = true -> pdo_valid r com = false -> dev_check d r mp 0 0 = None.
  Proof.
    intros Hh Hv. destruct idx_facts as (H1 & H2 & _ & H4).
    unfold dev_check, rhas in *. destruct (rget r mp 0) as [old|] eqn:E; [|discriminate].
    unfold reg_width. rewrite H1, H2. cbn [Z.eqb fits Z.leb Z.ltb Z.compare Z.pow Z.pow_pos Pos.iter Z.mul Pos.mul andb negb].
    destruct mode_flags as [-> Hro]. unfold map_check. rewrite H4, Hv, Hro. reflexivity.
  Qed.

  Lemma check_entry r k v : rhas r mp k = true -> k <> 0 -> fits 32 v = true ->
    pdo_valid r com = false -> rget r mp 0 = Some 0 -> entry_ok (d_objs d) v = true ->
    dev_check d r mp k v = None.
  Proof.
    intros Hh Hk Hf Hv H0 Hok. destruct idx_facts as (H1 & H2 & _ & H4).
    unfold dev_check, rhas in *. destruct (rget r mp k) as [old|] eqn:E; [|discriminate].
    unfold reg_width. rewrite H1, H2. replace (k =? 0) with false by lia. rewrite Hf. cbn [negb].
    destruct mode_flags as [-> Hro]. unfold map_check. rewrite H4, Hv, Hro, H0, Hok.
    replace (k =? 0) with false by lia. reflexivity.
  Qed.

  Lemma entries_sum_spec r : forall m k,
    (forall j e, nth_error m j = Some e -> rget r mp (k + Z.of_nat j) = Some (entry_word e)) ->
    forallb (fun e => entry_ok (d_objs d) (entry_word e)) m = true ->
    forallb entry_wfb m = true ->
    entries_sum (d_objs d) r mp k (length m) = Some (map_total m).
  Proof.
    induction m as [|[[i s] l] m IH]; intros k Hg Hok Hwf; cbn [entries_sum length map_total]; [reflexivity|].
    cbn [forallb] in Hok, Hwf. apply andb_prop in Hok as [Hok1 Hok2]. apply andb_prop in Hwf as [Hwf1 Hwf2].
    pose proof (Hg 0%nat _ eq_refl) as G0. replace (k + Z.of_nat 0) with k in G0 by lia. rewrite G0, Hok1.
    rewrite (IH (k + 1)); auto.
    - apply entry_wfb_spec in Hwf1. rewrite entry_word_eq by lia.
      destruct (map_word_decode i s l) as (_ & _ & _ & _ & _ & ->); [lia|lia|reflexivity].
    - intros j e Hj. replace (k + 1 + Z.of_nat j) with (k + Z.of_nat (S j)) by lia. now apply Hg.
  Qed.

  Lemma check_count r m : rhas r mp 0 = true -> pdo_valid r com = false ->
    (forall j e, nth_error m j = Some e -> rget r mp (1 + Z.of_nat j) = Some (entry_word e)) ->
    forallb (fun e => entry_ok (d_objs d) (entry_word e)) m = true ->
    forallb entry_wfb m = true -> zlen m < 256 -> map_total m <= 64 ->
    dev_check d r mp 0 (zlen m) = None.
  Proof.
    intros Hh Hv Hg Hok Hwf Hlen Htot. destruct idx_facts as (H1 & H2 & _ & H4).
    unfold dev_check, rhas in *. destruct (rget r mp 0) as [old|] eqn:E; [|discriminate].
    unfold reg_width. rewrite H1, H2. cbn [Z.eqb].
    assert (Hf : fits 8 (zlen m) = true) by (unfold fits, zlen in *; change (2 ^ 8) with 256; lia).
    rewrite Hf. cbn [negb]. destruct mode_flags as [-> Hro]. unfold map_check. rewrite H4, Hv, Hro. cbn [Z.eqb].
    destruct (zlen m =? 0) eqn:Z0; [reflexivity|].
    unfold zlen. rewrite Nat2Z.id. rewrite (entries_sum_spec r m 1 Hg Hok Hwf).
    replace (map_total m <=? 64) with true by lia. reflexivity.
  Qed.

  Lemma pdo_valid_rset_other r i s v : same_reg com 1 i s = false ->
    pdo_valid (rset r i s v) com = pdo_valid r com.
  Proof. intros H. unfold pdo_valid. now rewrite rget_rset_neq. Qed.

  (* ---- the whole save sequence *)
  Context (c : cfg) (r0 : regs).
  Context (Hwf : cfg_wfb c = true) (Hdev : dev_coversb d r0 com c = true).
  Let ws := save_writes com mp c.

  Lemma wf_parts : exists cob, c_cob c = Some cob /\ 0 <= cob < 2 ^ 29 /\
    opt_fits 8 (c_tt c) = true /\ opt_fits 16 (c_inhibit c) = true /\ opt_fits 16 (c_event c) = true /\
    opt_fits 8 (c_sync c) = true /\ forallb entry_wfb (c_map c) = true /\ zlen (c_map c) < 256.
  Proof.
    unfold cfg_wfb in Hwf. destruct (c_cob c) as [cob|]; [|discriminate]. exists cob.
    repeat (apply andb_prop in Hwf as [Hwf ?]). repeat split; auto; lia.
  Qed.

  Lemma dev_parts :
    Forall (fun w : write => rhas r0 (fst (fst w)) (snd (fst w)) = true) ws /\
    forallb (fun e => entry_ok (d_objs d) (entry_word e)) (c_map c) = true /\ map_total (c_map c) <= 64.
  Proof.
    unfold dev_coversb in Hdev. repeat (apply andb_prop in Hdev as [Hdev ?]).
    repeat split; auto; [|lia]. apply Forall_forall. now apply forallb_forall.
  Qed.

  Definition Pres (r : regs) : Prop := Forall (fun w : write => rhas r (fst (fst w)) (snd (fst w)) = true) ws.

  Lemma Pres_rset r i s v : Pres r -> Pres (rset r i s v).
  Proof. unfold Pres. intros H. eapply Forall_impl; [|exact H]. intros w. apply rhas_rset. Qed.

  Lemma Pres_apply r l : Pres r -> Pres (apply_writes r l).
  Proof. unfold Pres. intros H. eapply Forall_impl; [|exact H]. intros w. apply rhas_apply. Qed.

  Lemma Pres_in r i s v : Pres r -> In (i, s, v) ws -> rhas r i s = true.
  Proof. unfold Pres. intros H Hin. rewrite Forall_forall in H. exact (H _ Hin). Qed.

  Lemma opt_write_shape k w o : In k [2; 3; 5; 6] -> reg_width com k = w -> opt_fits w o = true ->
    Forall (fun x : write => fst (fst x) = com /\ In (snd (fst x)) [2; 3; 5; 6] /\
                             fits (reg_width com (snd (fst x))) (snd x) = true) (opt_write com k o).
  Proof.
    intros Hk Hw Hf. destruct o as [v|]; cbn [opt_write]; constructor; [|constructor].
    cbn [fst snd opt_fits] in *. rewrite Hw. auto.
  Qed.

  Lemma param_writes_shape : Forall (fun w : write => fst (fst w) = com /\ In (snd (fst w)) [2; 3; 5; 6] /\
                                        fits (reg_width com (snd (fst w))) (snd w) = true) (param_writes com c).
  Proof.
    destruct wf_parts as (cob & _ & _ & H2 & H3 & H5 & H6 & _).
    assert (W : reg_width com 2 = 8 /\ reg_width com 3 = 16 /\ reg_width com 5 = 16 /\ reg_width com 6 = 8)
      by (unfold reg_width; rewrite Hcom; repeat split; reflexivity).
    destruct W as (W2 & W3 & W5 & W6).
    unfold param_writes. rewrite !Forall_app. repeat split.
    - apply (opt_write_shape 2 8); auto. cbn; auto.
    - apply (opt_write_shape 3 16); auto. cbn; auto.
    - apply (opt_write_shape 5 16); auto. cbn; auto.
    - apply (opt_write_shape 6 8); auto. cbn; auto 6.
  Qed.

  Theorem save_all_accepted : all_accepted d r0 ws = true.
  Proof.
    destruct wf_parts as (cob & Hcob & Hrange & _ & _ & _ & _ & Hmwf & Hmlen).
    destruct dev_parts as (Hpres & Hok & Htot).
    assert (HP0 : Pres r0) by exact Hpres.
    assert (Hws : ws = (com, 1, Z.lor (Z.lor cob PDO_NOT_VALID) (rtr_bit c)) :: param_writes com c ++
                 (mp, 0, 0) :: entry_writes mp 1 (c_map c) ++ (mp, 0, zlen (c_map c)) :: final_writes com c cob).
    { unfold ws, save_writes. now rewrite Hcob. }
    assert (Hin : forall w, In w ((com, 1, Z.lor (Z.lor cob PDO_NOT_VALID) (rtr_bit c)) :: param_writes com c ++
                 (mp, 0, 0) :: entry_writes mp 1 (c_map c) ++ (mp, 0, zlen (c_map c)) :: final_writes com c cob) -> In w ws)
      by (now rewrite Hws).
    rewrite Hws.
    set (v0 := Z.lor (Z.lor cob PDO_NOT_VALID) (rtr_bit c)) in *.
    assert (Hv0 : v0 = cob + 2 ^ 31 + (if c_rtr c then 0 else 2 ^ 30)) by (apply first_word; lia).
    assert (Hv0f : fits 32 v0 = true /\ Z.testbit v0 31 = true).
    { rewrite Hv0, testbit_arith by lia. unfold fits. change (2 ^ 32) with 4294967296.
      change (2 ^ 31) with 2147483648. change (2 ^ 30) with 1073741824. change (2 ^ 29) with 536870912 in *.
      destruct (c_rtr c); lia. }
    destruct Hv0f as [Hf0 Hb0].
    (* 1: invalidate *)
    cbn [all_accepted].
    rewrite (check_com1 r0 v0); [|eapply Pres_in; [exact HP0|apply Hin; now left]|exact Hf0|now left].
    set (r1 := rset r0 com 1 v0).
    assert (HI1 : Pres r1 /\ pdo_valid r1 com = false).
    { split; [now apply Pres_rset|]. unfold pdo_valid, r1. now rewrite rget_rset_eq, Hb0. }
    (* 2: parameters *)
    rewrite all_accepted_app.
    destruct (phase_accepted d (fun r => Pres r /\ pdo_valid r com = false) (param_writes com c)) with (r := r1)
      as [A2 [HP2 HV2]]; [|exact HI1|].
    { intros r i s v Hi [HP HV].
      pose proof param_writes_shape as Sh. rewrite Forall_forall in Sh. destruct (Sh _ Hi) as (Ei & Es & Ef).
      cbn [fst snd] in Ei, Es, Ef. subst i. split.
      - apply check_param; auto. eapply Pres_in; [exact HP|]. apply Hin. right. apply in_or_app. left. exact Hi.
      - split; [now apply Pres_rset|]. rewrite pdo_valid_rset_other; auto.
        unfold same_reg. cbn in Es. lia. }
    rewrite A2. cbn [andb].
    set (r2 := apply_writes r1 (param_writes com c)) in *.
    (* 3: count := 0 *)
    cbn [all_accepted].
    rewrite check_count0; [| |exact HV2].
    2:{ eapply Pres_in; [exact HP2|]. apply Hin. right. apply in_or_app. right. now left. }
    set (r3 := rset r2 mp 0 0).
    assert (HI3 : Pres r3 /\ pdo_valid r3 com = false /\ rget r3 mp 0 = Some 0).
    { repeat split; [now apply Pres_rset| |apply rget_rset_eq].
      unfold r3. rewrite pdo_valid_rset_other; auto. unfold same_reg. unfold mp. lia. }
    (* 4: entries *)
    rewrite all_accepted_app.
    destruct (phase_accepted d (fun r => Pres r /\ pdo_valid r com = false /\ rget r mp 0 = Some 0)
                (entry_writes mp 1 (c_map c))) with (r := r3) as [A4 (HP4 & HV4 & HC4)]; [|exact HI3|].
    { intros r i s v Hi (HP & HV & HC).
      pose proof (entry_writes_targets mp (c_map c) 1) as Tg. rewrite Forall_forall in Tg.
      destruct (Tg _ Hi) as [Ei Es]. cbn [fst snd] in Ei, Es. subst i.
      destruct (In_nth_error _ _ Hi) as [j Hj].
      assert (Hjl : (j < length (c_map c))%nat).
      { apply nth_error_Some. intros Hn.
        assert (L : length (entry_writes mp 1 (c_map c)) = length (c_map c)).
        { clear. generalize 1. induction (c_map c); intros; cbn; auto. }
        assert (H : (j < length (entry_writes mp 1 (c_map c)))%nat).
        { apply nth_error_Some. intros X. unfold write in *. rewrite X in Hj. discriminate. }
        apply nth_error_None in Hn. lia. }
      destruct (nth_error (c_map c) j) as [e|] eqn:Ej; [|apply nth_error_None in Ej; lia].
      pose proof (entry_writes_nth mp (c_map c) 1 j e Ej) as Hk.
      assert (Hjk : Some (mp, s, v) = Some (mp, 1 + Z.of_nat j, entry_word e))
        by (etransitivity; [symmetry; exact Hj|exact Hk]).
      inversion Hjk; subst s v.
      assert (Ein : In e (c_map c)) by (eapply nth_error_In; eauto).
      rewrite forallb_forall in Hok, Hmwf. pose proof (Hok _ Ein) as Oe. pose proof (Hmwf _ Ein) as We.
      destruct e as [[ei es] el]. apply entry_wfb_spec in We.
      assert (Fe : fits 32 (entry_word (ei, es, el)) = true).
      { rewrite entry_word_eq by lia. unfold map_word, fits. change (2 ^ 32) with 4294967296. lia. }
      split.
      - apply check_entry; auto; [|lia]. eapply Pres_in; [exact HP|]. apply Hin. right. apply in_or_app. right.
        right. apply in_or_app. left. exact Hi.
      - repeat split; [now apply Pres_rset| |].
        + rewrite pdo_valid_rset_other; auto. unfold same_reg. unfold mp. lia.
        + rewrite rget_rset_neq; auto. unfold same_reg. lia. }
    rewrite A4. cbn [andb].
    set (r4 := apply_writes r3 (entry_writes mp 1 (c_map c))) in *.
    (* 5: count := n *)
    cbn [all_accepted].
    rewrite (check_count r4 (c_map c)); auto.
    2:{ eapply Pres_in; [exact HP4|]. apply Hin. right. apply in_or_app. right. right. apply in_or_app. right. now left. }
    2:{ intros j e Hj. unfold r4. now apply rget_entry_writes. }
    set (r5 := rset r4 mp 0 (zlen (c_map c))).
    assert (HI5 : Pres r5 /\ pdo_valid r5 com = false).
    { split; [now apply Pres_rset|]. unfold r5. rewrite pdo_valid_rset_other; auto. unfold same_reg. unfold mp. lia. }
    (* 6: validate *)
    unfold final_writes. destruct (c_enabled c) eqn:En; [|reflexivity].
    cbn [all_accepted]. rewrite check_com1; [reflexivity| | |right; apply HI5].
    - eapply Pres_in; [apply HI5|]. apply Hin. now left.
    - rewrite last_word by lia. unfold fits. change (2 ^ 32) with 4294967296.
      change (2 ^ 30) with 1073741824. change (2 ^ 29) with 536870912 in *. destruct (c_rtr c); lia.
  Qed.
End Strict.

(* ================================================================== the code performs exactly the write list *)
Section SaveRuns.
  Context (d : device) (od : oddesc).

  Lemma bind_assoc {S A B C} (m : @M S A) (f : A -> @M S B) (g : B -> @M S C) s :
    bind (bind m f) g s = bind m (fun a => bind (f a) g) s.
  Proof. unfold bind. destruct (m s) as [s1 [a|k|a]]; reflexivity. Qed.

  Lemma sdo_set_acc present w i s v r lg :
    present = true -> fits w v = true -> dev_check d r i s v = None ->
    sdo_set (log_write d) present w i s v (r, lg) = ((rset r i s v, lg ++ acc [(i, s, v)]), Ok tt).
  Proof.
    intros -> Hf Hc. unfold sdo_set. rewrite Hf. cbn [negb]. unfold log_write, dev_write. rewrite Hc. reflexivity.
  Qed.

  Lemma bind_sdo_set_acc {B} present w i s v (K : unit -> @M lstate B) r lg :
    present = true -> fits w v = true -> dev_check d r i s v = None ->
    bind (sdo_set (log_write d) present w i s v) K (r, lg) = K tt (rset r i s v, lg ++ acc [(i, s, v)]).
  Proof. intros. unfold bind. now rewrite sdo_set_acc. Qed.

  Lemma accepted_cons r i s v rest : all_accepted d r ((i, s, v) :: rest) = true ->
    dev_check d r i s v = None /\ all_accepted d (rset r i s v) rest = true.
  Proof. cbn [all_accepted]. destruct (dev_check d r i s v); [discriminate|auto]. Qed.

  Lemma accepted_app_l r a b : all_accepted d r (a ++ b) = true -> all_accepted d r a = true.
  Proof. rewrite all_accepted_app. intros H. now apply andb_prop in H. Qed.

  Lemma accepted_app_r r a b : all_accepted d r (a ++ b) = true -> all_accepted d (apply_writes r a) b = true.
  Proof. rewrite all_accepted_app. intros H. now apply andb_prop in H. Qed.

  Lemma bind_set_opt_acc {B} present w i s o (K : unit -> @M lstate B) r lg :
    (match o with Some _ => present = true | None => True end) -> opt_fits w o = true ->
    all_accepted d r (opt_write i s o) = true ->
    bind (set_opt (log_write d) present w i s o) K (r, lg) =
      K tt (apply_writes r (opt_write i s o), lg ++ acc (opt_write i s o)).
  Proof.
    intros Hp Hf Ha. destruct o as [v|]; cbn [set_opt opt_write app apply_writes opt_fits] in *.
    - apply accepted_cons in Ha as [Hc Hr]. now apply bind_sdo_set_acc.
    - unfold bind, ret. cbn [acc map]. now rewrite app_nil_r.
  Qed.

  Lemma bind_write_entries_acc {B} mp m : forall k (K : unit -> @M lstate B) r lg,
    (forall j, k <= j < k + zlen m -> map_has od j = true) ->
    Forall (fun e => fits 32 (entry_word e) = true) m ->
    all_accepted d r (entry_writes mp k m) = true ->
    bind (write_entries (log_write d) od mp k m) K (r, lg) =
      K tt (apply_writes r (entry_writes mp k m), lg ++ acc (entry_writes mp k m)).
  Proof.
    induction m as [|e m IH]; intros k K r lg Hh Hf Ha; cbn [write_entries entry_writes apply_writes app] in *.
    - unfold bind, ret. cbn [acc map]. now rewrite app_nil_r.
    - apply accepted_cons in Ha as [Hc Hr]. inversion Hf as [|? ? Hf1 Hf2]; subst.
      rewrite bind_assoc. rewrite bind_sdo_set_acc; auto.
      2:{ apply Hh. unfold zlen. cbn [length]. lia. }
      rewrite IH; auto.
      + cbn [acc map]. now rewrite <- app_assoc.
      + intros j Hj. apply Hh. unfold zlen in *. cbn [length]. lia.
  Qed.

  Lemma with_map_same c : with_map c (c_map c) = c.
  Proof. destruct c; reflexivity. Qed.

  Lemma od_parts c : od_coversb od c = true ->
    com_has od 1 = true /\ opt_has od 2 (c_tt c) = true /\ opt_has od 3 (c_inhibit c) = true /\
    opt_has od 5 (c_event c) = true /\ opt_has od 6 (c_sync c) = true /\ zlen (c_map c) <= o_nmap od.
  Proof. unfold od_coversb. intros H. repeat (apply andb_prop in H as [H ?]). repeat split; auto. lia. Qed.

  Lemma opt_has_present k o : opt_has od k o = true ->
    match o with Some _ => com_has od k = true | None => True end.
  Proof. destruct o; auto. Qed.

  Theorem save_io_accepted com c r0 subs :
    cfg_wfb c = true -> od_coversb od c = true ->
    all_accepted d r0 (save_writes com (com + 0x200) c) = true ->
    save_io (log_write d) log_ul od com (com + 0x200) c subs (r0, []) =
      ((apply_writes r0 (save_writes com (com + 0x200) c), acc (save_writes com (com + 0x200) c)),
       Ok (c, if c_enabled c then subscribe c subs else subs)).
  Proof.
    intros Hwf Hod Ha. set (mp := com + 0x200) in *.
    destruct (od_parts c Hod) as (O1 & O2 & O3 & O5 & O6 & On).
    unfold cfg_wfb in Hwf. unfold save_io, save_prefix, save_entries, save_validate, save_writes in *.
    destruct (c_cob c) as [cob|] eqn:Hcob; [|discriminate].
    repeat (apply andb_prop in Hwf as [Hwf ?]).
    assert (Hrange : 0 <= cob < 2 ^ 29) by lia.
    unfold param_writes in Ha. rewrite <- !app_assoc in Ha.
    apply accepted_cons in Ha as [C1 Ha].
    rewrite bind_assoc. cbv beta.
    rewrite bind_sdo_set_acc; auto.
    2:{ rewrite first_word by lia. unfold fits. change (2 ^ 32) with 4294967296.
        change (2 ^ 31) with 2147483648. change (2 ^ 30) with 1073741824. change (2 ^ 29) with 536870912 in *.
        destruct (c_rtr c); lia. }
    set (v0 := Z.lor (Z.lor cob PDO_NOT_VALID) (rtr_bit c)) in *.
    cbv beta. rewrite bind_assoc. cbv beta.
    rewrite (bind_set_opt_acc (com_has od 2) 8 com 2 (c_tt c));
      [|now apply opt_has_present|assumption|exact (accepted_app_l _ _ _ Ha)].
    apply accepted_app_r in Ha.
    set (r2 := apply_writes (rset r0 com 1 v0) (opt_write com 2 (c_tt c))) in *.
    set (l2 := ([] ++ acc [(com, 1, v0)]) ++ acc (opt_write com 2 (c_tt c))) in *.
    cbv beta. rewrite bind_assoc. cbv beta.
    rewrite (bind_set_opt_acc (com_has od 3) 16 com 3 (c_inhibit c));
      [|now apply opt_has_present|assumption|exact (accepted_app_l _ _ _ Ha)].
    apply accepted_app_r in Ha.
    set (r3 := apply_writes r2 (opt_write com 3 (c_inhibit c))) in *.
    set (l3 := l2 ++ acc (opt_write com 3 (c_inhibit c))) in *.
    cbv beta. rewrite bind_assoc. cbv beta.
    rewrite (bind_set_opt_acc (com_has od 5) 16 com 5 (c_event c));
      [|now apply opt_has_present|assumption|exact (accepted_app_l _ _ _ Ha)].
    apply accepted_app_r in Ha.
    set (r5 := apply_writes r3 (opt_write com 5 (c_event c))) in *.
    set (l5 := l3 ++ acc (opt_write com 5 (c_event c))) in *.
    cbv beta. rewrite bind_assoc. cbv beta.
    rewrite (bind_set_opt_acc (com_has od 6) 8 com 6 (c_sync c));
      [|now apply opt_has_present|assumption|exact (accepted_app_l _ _ _ Ha)].
    apply accepted_app_r in Ha. rename Ha into A6.
    set (r6 := apply_writes r5 (opt_write com 6 (c_sync c))) in *.
    set (l6 := l5 ++ acc (opt_write com 6 (c_sync c))) in *.
    (* count := 0 *)
    apply accepted_cons in A6 as [C0 A7].
    assert (Hm0 : map_has od 0 = true) by (unfold map_has, zlen in *; lia).
    cbv beta.
    unfold bind at 1. unfold zero_count.
    rewrite sdo_set_acc; auto.
    (* entries *)
    assert (Hfe : Forall (fun e => fits 32 (entry_word e) = true) (c_map c)).
    { apply Forall_forall. intros [[i s] l] Hi.
      match goal with H : forallb entry_wfb _ = true |- _ => rewrite forallb_forall in H; apply H in Hi end.
      apply entry_wfb_spec in Hi. rewrite entry_word_eq by lia. unfold map_word, fits.
      change (2 ^ 32) with 4294967296. lia. }
    cbv beta. rewrite bind_assoc. cbv beta.
    rewrite (bind_write_entries_acc mp (c_map c) 1); auto;
      [|intros j Hj; unfold map_has; lia|exact (accepted_app_l _ _ _ A7)].
    apply accepted_app_r in A7. rename A7 into A8.
    set (r8 := apply_writes (rset r6 mp 0 0) (entry_writes mp 1 (c_map c))) in *.
    set (l8 := (l6 ++ acc [(mp, 0, 0)]) ++ acc (entry_writes mp 1 (c_map c))) in *.
    (* count := n *)
    apply accepted_cons in A8 as [C9 A9].
    cbv beta.
    unfold bind at 1. unfold set_count.
    rewrite sdo_set_acc; auto.
    2:{ unfold fits. change (2 ^ 8) with 256. unfold zlen in *. lia. }
    rewrite with_map_same.
    (* validate *)
    assert (Hregs : apply_writes r0 ((com, 1, v0) :: (opt_write com 2 (c_tt c) ++ opt_write com 3 (c_inhibit c) ++
                      opt_write com 5 (c_event c) ++ opt_write com 6 (c_sync c)) ++
                      (mp, 0, 0) :: entry_writes mp 1 (c_map c) ++ [(mp, 0, zlen (c_map c))]) =
                    rset r8 mp 0 (zlen (c_map c))).
    { cbn [apply_writes]. rewrite !apply_writes_app. cbn [apply_writes]. rewrite !apply_writes_app.
      cbn [apply_writes]. reflexivity. }
    assert (Hlog : acc ((com, 1, v0) :: (opt_write com 2 (c_tt c) ++ opt_write com 3 (c_inhibit c) ++
                      opt_write com 5 (c_event c) ++ opt_write com 6 (c_sync c)) ++
                      (mp, 0, 0) :: entry_writes mp 1 (c_map c) ++ [(mp, 0, zlen (c_map c))]) =
                    l8 ++ acc [(mp, 0, zlen (c_map c))]).
    { unfold l8, l6, l5, l3, l2, acc.
      repeat first [rewrite map_app | rewrite <- app_assoc | progress cbn [map app]]. reflexivity. }
    assert (Hsplit : forall F, (com, 1, v0) :: (opt_write com 2 (c_tt c) ++ opt_write com 3 (c_inhibit c) ++
                      opt_write com 5 (c_event c) ++ opt_write com 6 (c_sync c)) ++
                      (mp, 0, 0) :: entry_writes mp 1 (c_map c) ++ (mp, 0, zlen (c_map c)) :: F =
                    ((com, 1, v0) :: (opt_write com 2 (c_tt c) ++ opt_write com 3 (c_inhibit c) ++
                      opt_write com 5 (c_event c) ++ opt_write com 6 (c_sync c)) ++
                      (mp, 0, 0) :: entry_writes mp 1 (c_map c) ++ [(mp, 0, zlen (c_map c))]) ++ F).
    { intros F. repeat first [rewrite <- app_assoc | progress cbn [app]]. reflexivity. }
    unfold param_writes. rewrite Hsplit, apply_writes_app, acc_app, Hregs, Hlog.
    unfold final_writes in *. destruct (c_enabled c).
    - apply accepted_cons in A9 as [C10 _].
      assert (Hfl : fits 32 (Z.lor cob (rtr_bit c)) = true).
      { rewrite last_word by lia. unfold fits. change (2 ^ 32) with 4294967296.
        change (2 ^ 30) with 1073741824. change (2 ^ 29) with 536870912 in *. destruct (c_rtr c); lia. }
      rewrite bind_sdo_set_acc by auto.
      unfold ret. cbn [apply_writes]. rewrite <- app_assoc. reflexivity.
    - unfold ret. cbn [apply_writes acc map]. rewrite !app_nil_r. reflexivity.
  Qed.
End SaveRuns.

(* ================================================================== final registers *)
Lemma Forall_app_intro {A} (P : A -> Prop) a b : Forall P a -> Forall P b -> Forall P (a ++ b).
Proof. intros. apply Forall_app. now split. Qed.

Lemma untouched_opt i s i' s' o : same_reg i s i' s' = false -> Forall (untouched i s) (opt_write i' s' o).
Proof. intros H. destruct o; cbn [opt_write]; repeat constructor. exact H. Qed.

Lemma untouched_entries i s mp k m : (i <> mp \/ s < k \/ k + zlen m <= s) ->
  Forall (untouched i s) (entry_writes mp k m).
Proof.
  intros H. eapply Forall_impl; [|apply (entry_writes_targets mp m k)].
  intros w [Hi Hs]. unfold untouched, same_reg. lia.
Qed.

Lemma untouched_final i s com c cob : same_reg i s com 1 = false -> Forall (untouched i s) (final_writes com c cob).
Proof. intros H. unfold final_writes. destruct (c_enabled c); repeat constructor. exact H. Qed.

Lemma rget_split r pre i s v post : Forall (untouched i s) post ->
  rget (apply_writes r (pre ++ (i, s, v) :: post)) i s = Some v.
Proof.
  intros H. rewrite apply_writes_app. cbn [apply_writes]. rewrite rget_apply_untouched by exact H.
  apply rget_rset_eq.
Qed.

Ltac norm_app := repeat first [rewrite <- app_assoc | progress cbn [app opt_write]].
Ltac unt := repeat first [apply Forall_app_intro | apply Forall_cons | apply Forall_nil
                          | apply untouched_opt | apply untouched_entries | apply untouched_final];
            unfold untouched, same_reg; cbn [fst snd]; try lia.

Section Final.
  Context (com : Z) (c : cfg) (r0 : regs) (cob : Z).
  Context (Hwf : cfg_wfb c = true) (Hcob : c_cob c = Some cob).
  Let mp := com + 0x200.
  Let r' := apply_writes r0 (save_writes com mp c).

  Lemma ws_eq : save_writes com mp c =
    (com, 1, Z.lor (Z.lor cob PDO_NOT_VALID) (rtr_bit c)) :: param_writes com c ++
    (mp, 0, 0) :: entry_writes mp 1 (c_map c) ++ (mp, 0, zlen (c_map c)) :: final_writes com c cob.
  Proof. unfold save_writes. now rewrite Hcob. Qed.

  Lemma wf_cob : 0 <= cob < 2 ^ 29 /\ forallb entry_wfb (c_map c) = true.
  Proof.
    unfold cfg_wfb in Hwf. rewrite Hcob in Hwf. repeat (apply andb_prop in Hwf as [Hwf ?]). split; [lia|auto].
  Qed.

  Lemma final_com1 : rget r' com 1 = Some (cob_word c cob).
  Proof.
    destruct wf_cob as [Hr _]. unfold r'. rewrite ws_eq. unfold cob_word, final_writes.
    destruct (c_enabled c).
    - rewrite Z.add_0_r, <- (last_word c cob Hr).
      replace ((com, 1, Z.lor (Z.lor cob PDO_NOT_VALID) (rtr_bit c)) :: param_writes com c ++
               (mp, 0, 0) :: entry_writes mp 1 (c_map c) ++ (mp, 0, zlen (c_map c)) :: [(com, 1, Z.lor cob (rtr_bit c))])
        with (((com, 1, Z.lor (Z.lor cob PDO_NOT_VALID) (rtr_bit c)) :: param_writes com c ++
               (mp, 0, 0) :: entry_writes mp 1 (c_map c) ++ [(mp, 0, zlen (c_map c))]) ++
              (com, 1, Z.lor cob (rtr_bit c)) :: []) by (norm_app; reflexivity).
      apply rget_split. constructor.
    - rewrite <- (first_word c cob Hr).
      change ((com, 1, Z.lor (Z.lor cob PDO_NOT_VALID) (rtr_bit c)) :: param_writes com c ++
               (mp, 0, 0) :: entry_writes mp 1 (c_map c) ++ [(mp, 0, zlen (c_map c))])
        with ([] ++ (com, 1, Z.lor (Z.lor cob PDO_NOT_VALID) (rtr_bit c)) :: param_writes com c ++
               (mp, 0, 0) :: entry_writes mp 1 (c_map c) ++ [(mp, 0, zlen (c_map c))]).
      apply rget_split. unfold param_writes, mp. unt.
  Qed.

  Lemma final_tt v : c_tt c = Some v -> rget r' com 2 = Some v.
  Proof.
    intros H. unfold r'. rewrite ws_eq. unfold param_writes. rewrite H.
    match goal with |- rget (apply_writes _ (?w1 :: (_ ++ ?rest) ++ ?tail)) _ _ = _ =>
      replace (w1 :: (opt_write com 2 (Some v) ++ rest) ++ tail) with ([w1] ++ (com, 2, v) :: rest ++ tail)
        by (norm_app; reflexivity) end.
    apply rget_split. unfold mp. unt.
  Qed.

  Lemma final_inhibit v : c_inhibit c = Some v -> rget r' com 3 = Some v.
  Proof.
    intros H. unfold r'. rewrite ws_eq. unfold param_writes. rewrite H.
    match goal with |- rget (apply_writes _ (?w1 :: (?o2 ++ _ ++ ?rest) ++ ?tail)) _ _ = _ =>
      replace (w1 :: (o2 ++ opt_write com 3 (Some v) ++ rest) ++ tail) with ((w1 :: o2) ++ (com, 3, v) :: rest ++ tail)
        by (norm_app; reflexivity) end.
    apply rget_split. unfold mp. unt.
  Qed.

  Lemma final_event v : c_event c = Some v -> rget r' com 5 = Some v.
  Proof.
    intros H. unfold r'. rewrite ws_eq. unfold param_writes. rewrite H.
    match goal with |- rget (apply_writes _ (?w1 :: (?o2 ++ ?o3 ++ _ ++ ?rest) ++ ?tail)) _ _ = _ =>
      replace (w1 :: (o2 ++ o3 ++ opt_write com 5 (Some v) ++ rest) ++ tail)
        with ((w1 :: o2 ++ o3) ++ (com, 5, v) :: rest ++ tail) by (norm_app; reflexivity) end.
    apply rget_split. unfold mp. unt.
  Qed.

  Lemma final_sync v : c_sync c = Some v -> rget r' com 6 = Some v.
  Proof.
    intros H. unfold r'. rewrite ws_eq. unfold param_writes. rewrite H.
    match goal with |- rget (apply_writes _ (?w1 :: (?o2 ++ ?o3 ++ ?o5 ++ _) ++ ?tail)) _ _ = _ =>
      replace (w1 :: (o2 ++ o3 ++ o5 ++ opt_write com 6 (Some v)) ++ tail)
        with ((w1 :: o2 ++ o3 ++ o5) ++ (com, 6, v) :: tail) by (norm_app; reflexivity) end.
    apply rget_split. unfold mp. unt.
  Qed.

  Lemma final_count : rget r' mp 0 = Some (zlen (c_map c)).
  Proof.
    unfold r'. rewrite ws_eq.
    match goal with |- rget (apply_writes _ (?w1 :: ?P ++ ?z :: ?E ++ ?cnt :: ?F)) _ _ = _ =>
      replace (w1 :: P ++ z :: E ++ cnt :: F) with ((w1 :: P ++ z :: E) ++ cnt :: F) by (norm_app; reflexivity) end.
    apply rget_split. unfold mp. unt.
  Qed.

  Lemma final_entry j e : nth_error (c_map c) j = Some e -> rget r' mp (1 + Z.of_nat j) = Some (map_word e).
  Proof.
    intros H. destruct wf_cob as [_ Hm]. unfold r'. rewrite ws_eq.
    match goal with |- rget (apply_writes _ (?w1 :: ?P ++ ?z :: ?E ++ ?tail)) _ _ = _ =>
      replace (w1 :: P ++ z :: E ++ tail) with ((w1 :: P ++ [z]) ++ E ++ tail) by (norm_app; reflexivity) end.
    rewrite !apply_writes_app. rewrite rget_apply_untouched.
    - rewrite (rget_entry_writes mp (c_map c) 1 _ j e H). f_equal.
      rewrite forallb_forall in Hm. pose proof (Hm e (nth_error_In _ _ H)) as We.
      destruct e as [[i s] l]. apply entry_wfb_spec in We. apply entry_word_eq; lia.
    - unfold mp. unt.
  Qed.

  Lemma final_frame i s : i <> com -> i <> mp -> rget r' i s = rget r0 i s.
  Proof.
    intros H1 H2. unfold r'. apply rget_apply_untouched. rewrite ws_eq. unfold param_writes. unt.
  Qed.
End Final.

(* ================================================================== read decodes the encodings *)
Definition benign (r : res (option Z)) : Prop := match r with Err k => k = E_KEY | _ => True end.

Lemma read_opt_ok get com k prev : benign (get com k) ->
  exists o, read_opt get com k prev = Ok o /\ (forall v, get com k = Ok (Some v) -> o = Some v).
Proof.
  unfold read_opt, benign. destruct (get com k) as [o|e|a]; intros H.
  - exists o. split; [reflexivity|]. intros v Hv. now inversion Hv.
  - subst e. exists prev. split; [reflexivity|discriminate].
  - exists prev. split; [reflexivity|discriminate].
Qed.

Lemma read_entries_spec get objs mp : forall rest k done,
  (forall j e, nth_error rest j = Some e -> get mp (k + Z.of_nat j) = Ok (Some (map_word e))) ->
  forallb entry_wfb rest = true -> forallb (in_odb objs) rest = true ->
  read_entries get objs mp k (length rest) done = Ok (done ++ rest).
Proof.
  induction rest as [|[[i s] l] rest IH]; intros k done Hg Hwf Hod; cbn [read_entries length].
  - now rewrite app_nil_r.
  - cbn [forallb] in Hwf, Hod. apply andb_prop in Hwf as [W1 W2]. apply andb_prop in Hod as [O1 O2].
    pose proof (Hg 0%nat _ eq_refl) as G0. replace (k + Z.of_nat 0) with k in G0 by lia.
    rewrite G0. cbn [rbind need_int]. apply entry_wfb_spec in W1.
    destruct (map_word_decode i s l) as (D1 & D2 & D3 & _); [lia|lia|]. rewrite D1, D2, D3.
    replace ((i =? 0) || (l =? 0)) with false by lia.
    unfold add_variable. unfold in_odb in O1. destruct (od_lookup objs i s); [|discriminate].
    rewrite (IH (k + 1)); auto.
    + now rewrite <- app_assoc.
    + intros j e Hj. replace (k + 1 + Z.of_nat j) with (k + Z.of_nat (S j)) by lia. now apply Hg.
Qed.

Section ReadDecodes.
  Context (get : Z -> Z -> res (option Z)) (objs : list (Z * objdesc)) (com mp : Z) (c : cfg) (cob tt : Z).
  Context (Hwf : cfg_wfb c = true) (Hcob : c_cob c = Some cob) (Htt : c_tt c = Some tt).
  Context (Hod : forallb (in_odb objs) (c_map c) = true).
  Context (G1 : get com 1 = Ok (Some (cob_word c cob))) (G2 : get com 2 = Ok (Some tt)).
  Context (B3 : benign (get com 3)) (B5 : benign (get com 5)) (B6 : benign (get com 6)).
  Context (G3 : forall v, c_inhibit c = Some v -> get com 3 = Ok (Some v)).
  Context (G5 : forall v, c_event c = Some v -> get com 5 = Ok (Some v)).
  Context (G6 : forall v, c_sync c = Some v -> get com 6 = Ok (Some v)).
  Context (G0 : get mp 0 = Ok (Some (zlen (c_map c)))).
  Context (GE : forall j e, nth_error (c_map c) j = Some e -> get mp (1 + Z.of_nat j) = Ok (Some (map_word e))).

  Theorem read_decodes : exists c',
    read_cfg get objs com mp fresh_cfg [] = Ok (c', subscribe c' []) /\
    c_cob c' = Some cob /\ c_enabled c' = c_enabled c /\ c_rtr c' = c_rtr c /\ c_tt c' = Some tt /\
    c_map c' = c_map c /\
    (254 <= tt -> (forall v, c_inhibit c = Some v -> c_inhibit c' = Some v) /\
                  (forall v, c_event c = Some v -> c_event c' = Some v) /\
                  (forall v, c_sync c = Some v -> c_sync c' = Some v)) /\
    (tt < 254 -> c_inhibit c' = None /\ c_event c' = None /\ c_sync c' = None).
  Proof.
    destruct (wf_cob 0 c cob Hwf Hcob) as [Hr Hm].
    destruct (cob_word_decode c cob Hr) as (D1 & D2 & D3).
    unfold read_cfg. rewrite G1. cbn [rbind need_int]. rewrite G2. cbn [rbind need_int].
    assert (Hent : read_entries get objs mp 1 (Z.to_nat (zlen (c_map c))) [] = Ok (c_map c)).
    { unfold zlen. rewrite Nat2Z.id. now rewrite (read_entries_spec get objs mp (c_map c) 1 []). }
    destruct (tt >=? 254) eqn:T.
    - destruct (read_opt_ok get com 3 (c_inhibit fresh_cfg) B3) as (o3 & E3 & S3).
      destruct (read_opt_ok get com 5 (c_event fresh_cfg) B5) as (o5 & E5 & S5).
      destruct (read_opt_ok get com 6 (c_sync fresh_cfg) B6) as (o6 & E6 & S6).
      rewrite E3. cbn [rbind]. rewrite E5. cbn [rbind]. rewrite E6. cbn [rbind].
      rewrite G0. cbn [rbind need_int]. rewrite Hent. cbn [rbind].
      eexists. split; [reflexivity|]. cbn [c_cob c_enabled c_rtr c_tt c_map c_inhibit c_event c_sync].
      rewrite D1, D2, D3. repeat split; auto; try lia.
      all: intros; auto.
    - cbn [rbind]. rewrite G0. cbn [rbind need_int]. rewrite Hent. cbn [rbind].
      eexists. split; [reflexivity|]. cbn [c_cob c_enabled c_rtr c_tt c_map c_inhibit c_event c_sync fresh_cfg].
      rewrite D1, D2, D3. repeat split; auto; lia.
  Qed.
End ReadDecodes.

(* ================================================================== main statements *)
(* T1: the strict device, from any prior state, accepts every write of save() in the order given; the
   code (save_io) performs exactly the list save_writes against it and ends without error *)
Theorem save_accepted_in_order : forall d od com c r0 subs,
  d_mode d = MODE_STRICT -> is_com com = true ->
  cfg_wfb c = true -> od_coversb od c = true -> dev_coversb d r0 com c = true ->
  let mp := com + 0x200 in
  let ws := save_writes com mp c in
  run_writes d (r0, []) ws = ((apply_writes r0 ws, acc ws), None) /\
  save_io (log_write d) log_ul od com mp c subs (r0, []) =
    ((apply_writes r0 ws, acc ws), Ok (c, if c_enabled c then subscribe c subs else subs)).
Proof.
  intros d od com c r0 subs Hm Hc Hwf Hod Hdev mp ws.
  pose proof (save_all_accepted d com Hm Hc c r0 Hwf Hdev) as Ha. split.
  - now rewrite (run_writes_accepted d ws r0 [] Ha).
  - now apply save_io_accepted.
Qed.

(* T2: the order of the writes *)
Definition is_param_write (com : Z) (w : write) : Prop := fst (fst w) = com /\ In (snd (fst w)) [2; 3; 5; 6].

Theorem save_order : forall com mp c, cfg_wfb c = true ->
  exists cob params,
    c_cob c = Some cob /\
    let first := cob + 2 ^ 31 + (if c_rtr c then 0 else 2 ^ 30) in
    let last := cob + (if c_rtr c then 0 else 2 ^ 30) in
    save_writes com mp c =
      (com, 1, first) :: params ++ (mp, 0, 0) :: entry_writes mp 1 (c_map c) ++
      (mp, 0, zlen (c_map c)) :: (if c_enabled c then [(com, 1, last)] else []) /\
    Forall (is_param_write com) params /\
    Z.testbit first 31 = true /\ Z.testbit last 31 = false /\
    (forall j e, nth_error (c_map c) j = Some e ->
       nth_error (entry_writes mp 1 (c_map c)) j = Some (mp, 1 + Z.of_nat j, map_word e)).
Proof.
  intros com mp c Hwf.
  destruct (c_cob c) as [cob|] eqn:Hcob; [|unfold cfg_wfb in Hwf; rewrite Hcob in Hwf; discriminate].
  destruct (wf_cob 0 c cob Hwf Hcob) as [Hr Hm].
  exists cob, (param_writes com c). split; [reflexivity|]. cbn zeta. repeat split.
  - unfold save_writes. rewrite Hcob, first_word by lia. unfold final_writes.
    destruct (c_enabled c); [rewrite last_word by lia|]; reflexivity.
  - unfold param_writes, is_param_write. repeat apply Forall_app_intro;
      match goal with |- Forall _ (opt_write _ _ ?o) => destruct o; cbn [opt_write]; [apply Forall_cons; [|apply Forall_nil]|apply Forall_nil] end;
      cbn; intuition auto.
  - rewrite testbit_arith by lia. change (2 ^ 31) with 2147483648. change (2 ^ 30) with 1073741824.
    change (2 ^ 29) with 536870912 in *. destruct (c_rtr c); lia.
  - rewrite testbit_arith by lia. change (2 ^ 31) with 2147483648. change (2 ^ 30) with 1073741824.
    change (2 ^ 29) with 536870912 in *. destruct (c_rtr c); lia.
  - intros j e Hj. rewrite (entry_writes_nth mp (c_map c) 1 j e Hj). do 2 f_equal.
    rewrite forallb_forall in Hm. pose proof (Hm e (nth_error_In _ _ Hj)) as We.
    destruct e as [[i s] l]. apply entry_wfb_spec in We. apply entry_word_eq; lia.
Qed.

(* T3: the registers afterwards hold the CiA 301 encodings; nothing else changed *)
Theorem save_encodes : forall com c r0 cob, cfg_wfb c = true -> c_cob c = Some cob ->
  let mp := com + 0x200 in
  let r' := apply_writes r0 (save_writes com mp c) in
  let w := cob_word c cob in
  rget r' com 1 = Some w /\
  0 <= w < 2 ^ 32 /\ Z.testbit w 31 = negb (c_enabled c) /\ Z.testbit w 30 = negb (c_rtr c) /\ w mod 2 ^ 29 = cob /\
  (forall v, c_tt c = Some v -> rget r' com 2 = Some v) /\
  (forall v, c_inhibit c = Some v -> rget r' com 3 = Some v) /\
  (forall v, c_event c = Some v -> rget r' com 5 = Some v) /\
  (forall v, c_sync c = Some v -> rget r' com 6 = Some v) /\
  rget r' mp 0 = Some (zlen (c_map c)) /\
  (forall j e, nth_error (c_map c) j = Some e -> rget r' mp (1 + Z.of_nat j) = Some (map_word e)) /\
  (forall i s, i <> com -> i <> mp -> rget r' i s = rget r0 i s).
Proof.
  intros com c r0 cob Hwf Hcob mp r' w.
  destruct (wf_cob 0 c cob Hwf Hcob) as [Hr _].
  destruct (cob_word_bits c cob Hr) as (B0 & B1 & B2 & B3).
  split; [apply final_com1; auto|]. repeat split; try apply B0; auto.
  - intros. eapply final_tt; eauto.
  - intros. eapply final_inhibit; eauto.
  - intros. eapply final_event; eauto.
  - intros. eapply final_sync; eauto.
  - eapply final_count; eauto.
  - intros. eapply final_entry; eauto.
  - intros. eapply final_frame; eauto.
Qed.

(* T4: a fresh node reads the same configuration back from those registers *)
Definition same_config (c c' : cfg) (cob tt : Z) : Prop :=
  c_cob c' = Some cob /\ c_enabled c' = c_enabled c /\ c_rtr c' = c_rtr c /\ c_tt c' = Some tt /\
  c_map c' = c_map c /\
  (254 <= tt -> (forall v, c_inhibit c = Some v -> c_inhibit c' = Some v) /\
                (forall v, c_event c = Some v -> c_event c' = Some v) /\
                (forall v, c_sync c = Some v -> c_sync c' = Some v)) /\
  (tt < 254 -> c_inhibit c' = None /\ c_event c' = None /\ c_sync c' = None).

Lemma sdo_get_benign od com mp r i s : benign (sdo_get od com mp r i s).
Proof.
  unfold sdo_get, benign.
  destruct (if i =? com then com_has od s else if i =? mp then map_has od s else false); [|reflexivity].
  destruct (dev_read r i s); exact I.
Qed.

Lemma od_get_benign od com mp vals i s : benign (od_get od com mp vals i s).
Proof.
  unfold od_get, benign.
  destruct (if i =? com then com_has od s else if i =? mp then map_has od s else false); [|reflexivity].
  destruct (odv_find vals i s) as [[v dflt]|]; exact I.
Qed.

Lemma opt_has_some od k o v : opt_has od k o = true -> o = Some v -> com_has od k = true.
Proof. intros H ->. exact H. Qed.

Theorem read_after_save : forall od com c r0 cob tt,
  cfg_wfb c = true -> od_coversb od c = true ->
  c_cob c = Some cob -> c_tt c = Some tt -> forallb (in_odb (o_objs od)) (c_map c) = true ->
  let mp := com + 0x200 in
  let r' := apply_writes r0 (save_writes com mp c) in
  exists c', read_cfg (sdo_get od com mp r') (o_objs od) com mp fresh_cfg [] = Ok (c', subscribe c' []) /\
             same_config c c' cob tt.
Proof.
  intros od com c r0 cob tt Hwf Hod Hcob Htt Hin mp r'.
  destruct (od_parts od c Hod) as (O1 & O2 & O3 & O5 & O6 & On).
  destruct (save_encodes com c r0 cob Hwf Hcob) as (R1 & _ & _ & _ & _ & R2 & R3 & R5 & R6 & R0 & RE & _).
  fold mp in R1, R2, R3, R5, R6, R0, RE. fold r' in R1, R2, R3, R5, R6, R0, RE.
  assert (Hne : (mp =? com) = false) by (unfold mp; lia).
  assert (C2 : com_has od 2 = true) by (eapply opt_has_some; eauto).
  apply read_decodes; auto using sdo_get_benign.
  - unfold sdo_get, dev_read. now rewrite Z.eqb_refl, O1, R1.
  - unfold sdo_get, dev_read. now rewrite Z.eqb_refl, C2, (R2 tt Htt).
  - intros v Hv. unfold sdo_get, dev_read. now rewrite Z.eqb_refl, (opt_has_some od 3 _ v O3 Hv), (R3 v Hv).
  - intros v Hv. unfold sdo_get, dev_read. now rewrite Z.eqb_refl, (opt_has_some od 5 _ v O5 Hv), (R5 v Hv).
  - intros v Hv. unfold sdo_get, dev_read. now rewrite Z.eqb_refl, (opt_has_some od 6 _ v O6 Hv), (R6 v Hv).
  - unfold sdo_get, dev_read. rewrite Hne, Z.eqb_refl, R0.
    replace (map_has od 0) with true by (unfold map_has, zlen in *; lia). reflexivity.
  - intros j e Hj. unfold sdo_get, dev_read. rewrite Hne, Z.eqb_refl, (RE j e Hj).
    assert (Hjl : (j < length (c_map c))%nat) by (apply nth_error_Some; congruence).
    replace (map_has od (1 + Z.of_nat j)) with true by (unfold map_has, zlen in *; lia). reflexivity.
Qed.

(* T5: subscription *)
Theorem subscribe_iff_enabled : forall c cob subs x, c_cob c = Some cob ->
  (In x (subscribe c subs) <-> In x subs \/ (c_enabled c = true /\ x = cob)).
Proof.
  intros c cob subs x Hcob. unfold subscribe. rewrite Hcob. destruct (c_enabled c).
  - destruct (zmem cob subs) eqn:Z.
    + split; [auto|]. intros [H|[_ ->]]; [exact H|].
      clear -Z. induction subs as [|y subs IH]; cbn in *; [discriminate|].
      destruct (cob =? y) eqn:E; [left; lia|right; auto].
    + rewrite in_app_iff. cbn [In]. split.
      * intros [H|[H|[]]]; [now left|right; auto].
      * intros [H|[_ H]]; [now left|right; left; auto].
  - split; [auto|]. intros [H|[H _]]; [exact H|discriminate].
Qed.

(* T6: configuration taken from the dictionary (DCF value, else default) *)
Definition dict (vals : odvals) (i s : Z) : option Z :=
  match odv_find vals i s with Some (v, dflt) => od_pick v dflt | None => None end.

Theorem dcf_before_default : forall v dflt, od_pick (Some v) dflt = Some v /\ od_pick None dflt = dflt.
Proof. intros. split; reflexivity. Qed.

Theorem read_from_od : forall od com mp vals c cob tt,
  mp <> com -> cfg_wfb c = true -> od_coversb od c = true ->
  c_cob c = Some cob -> c_tt c = Some tt -> forallb (in_odb (o_objs od)) (c_map c) = true ->
  dict vals com 1 = Some (cob_word c cob) -> dict vals com 2 = Some tt ->
  (forall v, c_inhibit c = Some v -> dict vals com 3 = Some v) ->
  (forall v, c_event c = Some v -> dict vals com 5 = Some v) ->
  (forall v, c_sync c = Some v -> dict vals com 6 = Some v) ->
  dict vals mp 0 = Some (zlen (c_map c)) ->
  (forall j e, nth_error (c_map c) j = Some e -> dict vals mp (1 + Z.of_nat j) = Some (map_word e)) ->
  exists c', read_cfg (od_get od com mp vals) (o_objs od) com mp fresh_cfg [] = Ok (c', subscribe c' []) /\
             same_config c c' cob tt.
Proof.
  intros od com mp vals c cob tt Hne Hwf Hod Hcob Htt Hin D1 D2 D3 D5 D6 D0 DE.
  destruct (od_parts od c Hod) as (O1 & O2 & O3 & O5 & O6 & On).
  assert (Hne' : (mp =? com) = false) by lia.
  assert (C2 : com_has od 2 = true) by (eapply opt_has_some; eauto).
  assert (G : forall i s, (if i =? com then com_has od s else if i =? mp then map_has od s else false) = true ->
              od_get od com mp vals i s = Ok (dict vals i s)).
  { intros i s H. unfold od_get, dict. rewrite H. destruct (odv_find vals i s) as [[v dflt]|]; reflexivity. }
  apply read_decodes; auto using od_get_benign.
  - rewrite G, D1; [reflexivity|now rewrite Z.eqb_refl].
  - rewrite G, D2; [reflexivity|now rewrite Z.eqb_refl].
  - intros v Hv. rewrite G, (D3 v Hv); [reflexivity|]. rewrite Z.eqb_refl. eapply opt_has_some; eauto.
  - intros v Hv. rewrite G, (D5 v Hv); [reflexivity|]. rewrite Z.eqb_refl. eapply opt_has_some; eauto.
  - intros v Hv. rewrite G, (D6 v Hv); [reflexivity|]. rewrite Z.eqb_refl. eapply opt_has_some; eauto.
  - rewrite G, D0; [reflexivity|]. rewrite Hne', Z.eqb_refl. unfold map_has, zlen in *. lia.
  - intros j e Hj. rewrite G, (DE j e Hj); [reflexivity|]. rewrite Hne', Z.eqb_refl.
    assert (Hjl : (j < length (c_map c))%nat) by (apply nth_error_Some; congruence).
    unfold map_has, zlen in *. lia.
Qed.

(* T7: every PDO number 1..512 of RPDO and TPDO names a communication / mapping object pair of CiA 301
   (proved against the regenerated offsets) *)
Theorem pdo_indices : forall tpdo n, pdo_number_ok n = true ->
  com_index tpdo n = (if tpdo : bool then 0x1800 else 0x1400) + (n - 1) /\
  map_index tpdo n = com_index tpdo n + 0x200 /\
  is_com (com_index tpdo n) = true /\ is_map (map_index tpdo n) = true.
Proof.
  intros tpdo n H. unfold pdo_number_ok, com_index, map_index, is_com, is_map in *.
  change PDO_MAPS_MAX with 512 in H.
  change TPDO_COM_OFFSET with 6144. change RPDO_COM_OFFSET with 5120.
  change TPDO_MAP_OFFSET with 6656. change RPDO_MAP_OFFSET with 5632.
  destruct tpdo; lia.
Qed.
