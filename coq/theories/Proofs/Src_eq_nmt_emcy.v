(* Tie (c): NmtMaster.on_heartbeat (C11) and the error-reset test of EmcyConsumer.on_emcy (C16) as translated
   from the CURRENT source text (Gen/Src.v) equal the model functions. *)
From Coq Require Import ZArith List Bool Lia.
From CV Require Import Base.Val Base.Tys Base.PyLib Gen.Src Model.Nmt Model.Emcy.
Import ListNotations.
Open Scope Z_scope.

Theorem src_nmt_heartbeat_eq m b rest :
  on_heartbeat m (b :: rest) =
  Ok ((fst (src_nmt_heartbeat b), Some (snd (src_nmt_heartbeat b))), snd (src_nmt_heartbeat b)).
Proof.
  unfold on_heartbeat, src_nmt_heartbeat, hb_state. cbv zeta.
  destruct (Z.land b 127 =? 0); reflexivity.
Qed.

Theorem src_emcy_is_reset_eq code : src_emcy_is_reset code = is_reset_code code.
Proof. unfold src_emcy_is_reset, is_reset_code. cbv zeta. destruct (Z.land code 65280 =? 0); reflexivity. Qed.
