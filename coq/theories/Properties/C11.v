(* C11 - NMT commands, states and heartbeats follow the CiA 301 state machine.
   Statements only; every proof is [exact] of a lemma in Proofs/Nmt_proofs.v.
   Model: Model/Nmt.v (NmtBase / NmtMaster / NmtSlave of canopen/nmt.py as wired by RemoteNode and
   LocalNode on one synchronous bus), reference: Model/RefNmt.v (CiA 301 NMT machine, hand-written),
   tables: Gen/NmtTables.v (NMT_STATES, NMT_COMMANDS, COMMAND_TO_STATE) regenerated from /repo on every run.
   System: slave = LocalNode own, master = RemoteNode own, a RemoteNode oth, the broadcast master (id 0).
   [lp] = whether the bus hands a sent frame back to the subscribers of the sending Network: [true] is
   the simulated synchronous bus of the property (master and slave objects on one bus), [false] is a
   master whose own frames only leave (python-can default). *)
From Coq Require Import ZArith List Bool String.
From CV Require Import Base.Val Base.Tys Gen.NmtTables Model.RefNmt Model.Nmt Proofs.Nmt_proofs Gen.SrcC11 Proofs.Src_eq_c11.
Import ListNotations.
Open Scope string_scope.
Open Scope list_scope.
Open Scope Z_scope.

(* A master sends exactly the frame [command specifier; node id] on CAN id 0, nothing else, and
   raises nothing: for every code 0..255, every master object (own node, other node, broadcast),
   in every state of the system (in particular after any history of heartbeats). *)
Theorem C11_master_frame : forall lp own oth w m code, 0 <= code < 256 ->
  snd (step lp own oth w (ECmd m code)) = ([(0, [code; mid own oth m])], [], None).
Proof. exact master_frame. Qed.

(* the same through the state setter, for each of the eight documented names *)
Theorem C11_master_frame_by_name : forall lp own oth w m n cs, In (n, cs) ref_names ->
  0 <= cs < 256 /\
  snd (step lp own oth w (EName m (str_codes n))) = ([(0, [cs; mid own oth m])], [], None).
Proof. exact master_frame_name. Qed.

(* an invalid state name is rejected with ValueError; nothing is sent, nothing changes
   (master objects and slave) *)
Theorem C11_invalid_name_rejected : forall lp own oth w name,
  (forall n cs, In (n, cs) ref_names -> name <> str_codes n) ->
  (forall m, step lp own oth w (EName m name) = (w, ([], [], Some E_VALUE))) /\
  step lp own oth w (ESName name) = (w, ([], [], Some E_VALUE)).
Proof. exact invalid_name_rejected. Qed.

(* For every list of received frames on CAN id 0 (any length, any content, any addressee) the
   state of the slave is the fold of the hand-written CiA 301 transition function over the
   commands addressed to its own id or to 0; a malformed frame changes nothing. *)
Theorem C11_slave_follows_spec : forall own frames s,
  rx_fold own (st_code s) frames = st_code (fold_left (ref_frame own) frames s).
Proof. exact slave_follows_spec. Qed.

(* [rx_fold] is what the slave inside the simulated system does with a frame *)
Theorem C11_slave_in_system : forall own oth w data,
  w_s (fst (deliver0 own oth w data)) = rx_fold own (w_s w) [data].
Proof. exact deliver0_is_on_command. Qed.

(* commands for other nodes change nothing (any node object, any state number) *)
Theorem C11_other_ids_noop : forall own frames st,
  Forall (fun d => match d with _ :: nid :: _ => nid <> own /\ nid <> 0 | _ => True end) frames ->
  rx_fold own st frames = st.
Proof. exact other_ids_noop. Qed.

(* The whole system, for every history of events (commands through the three master objects by
   code or by name, foreign frames, heartbeats, local state assignments of the slave by code or
   by name, 0x1017 writes, heartbeat ticks): the slave's state, and the name it reports, are
   those of the CiA 301 machine. *)
Theorem C11_system_follows_spec : forall own oth evs w s, w_s w = st_code s ->
  w_s (run true own oth w evs) = st_code (ref_slave_run own oth s evs) /\
  state_name (w_s (run true own oth w evs)) = str_codes (st_name (ref_slave_run own oth s evs)).
Proof. exact system_follows_spec. Qed.

(* After every prefix of every history of commands (sent by any master object, by code or by
   name, or by a foreign master) the master's view of the node equals the slave's state. *)
Theorem C11_master_slave_agree : forall own oth evs w k, Forall master_driven evs -> w_m w = w_s w ->
  let w' := run true own oth w (firstn k evs) in
  w_m w' = w_s w' /\ state_name (w_m w') = state_name (w_s w').
Proof. exact master_slave_agree. Qed.

(* The sender's own view after a command is the state the CiA 301 machine assigns to that command,
   with or without loop-back, whatever the view was before (in particular an undefined state
   number taken from a heartbeat). *)
Theorem C11_master_assumes_commanded : forall lp own oth w code, 0 <= code < 256 ->
  w_m (fst (step lp own oth w (ECmd MOwn code))) = tbl (w_m w) code /\
  (forall s, w_m w = st_code s -> w_m (fst (step lp own oth w (ECmd MOwn code))) = st_code (cs_step s code)) /\
  (forall st, zassoc code COMMAND_TO_STATE = Some st -> w_m (fst (step lp own oth w (ECmd MOwn code))) = st).
Proof. exact master_assumes_commanded. Qed.

(* Heartbeat decoding, all 256 bytes (complete evaluation): the state is the low seven bits, the
   toggle bit is ignored (same result, same callback argument for b xor 0x80), a boot-up message
   (state field 0) is reported as PRE-OPERATIONAL, the defined state bytes get their names, and
   the slave is not touched. *)
Theorem C11_heartbeat_decoding : forall lp own oth w b rest, 0 <= b < 256 ->
  let w' := fst (step lp own oth w (EHb (b :: rest))) in
  w_m w' = ref_hb_code b /\
  w_m w' = (if b mod 128 =? 0 then 127 else b mod 128) /\
  step lp own oth w (EHb (Z.lxor b 128 :: rest)) = step lp own oth w (EHb (b :: rest)) /\
  w_s w' = w_s w /\
  (b mod 128 = 0 -> state_name (w_m w') = str_codes "PRE-OPERATIONAL") /\
  (forall s, b mod 128 = st_code s -> s <> Initialising -> state_name (w_m w') = str_codes (st_name s)).
Proof. exact heartbeat_decoding. Qed.

(* What the slave reports: after any history from the initial system, if the heartbeat service
   runs, a tick puts exactly [state byte of the CiA 301 machine] on 0x700 + id and the master then
   reports that state (INITIALISING has state byte 0 = boot-up: reported as PRE-OPERATIONAL). *)
Theorem C11_heartbeat_reports_slave : forall own oth od0 evs p d,
  let w := run true own oth (init_world od0) evs in
  let s := ref_slave_run own oth Initialising evs in
  w_task w = Some (d, p) ->
  snd (step true own oth w ETick) = ([(1792 + own, [st_code s])], [st_code s], None) /\
  state_name (w_m (fst (step true own oth w ETick))) =
    str_codes (st_name (match s with Initialising => PreOperational | _ => s end)).
Proof. exact heartbeat_reports_slave. Qed.

(* FULL STATEMENT (property text): "Waiting for a heartbeat or boot-up returns on the matching
   message and fails with the NMT error when none arrives."  Proved below for the SCAN MODEL only:
   what arrives during each Condition.wait() call, and whether the deadline has passed when a loop
   iteration of wait_for_bootup starts, are inputs.  Missing: that threading.Condition wakes the
   waiter exactly when on_heartbeat notifies, and the relation between time.time() and the
   timeout (runtime; exercised with real threads by the harness, oracle only). *)
Theorem C11_wait_heartbeat_partial : forall m arrivals,
  (arrivals = [] -> wait_for_heartbeat m arrivals = ((fst m, None), Err E_NMT)) /\
  (forall l b, arrivals = l ++ [b] ->
     wait_for_heartbeat m arrivals =
       ((ref_hb_code b, Some (b mod 128)), Ok (state_name (ref_hb_code b)))).
Proof. exact wait_heartbeat_spec. Qed.

(* wait_for_bootup over loop iterations (late?, messages received during the wait): it returns
   on the first wake-up whose last message is a boot-up message, provided no earlier iteration
   started after the deadline, and then the master reports PRE-OPERATIONAL (127); it fails with
   NmtError in the first iteration that starts after the deadline; it never returns otherwise. *)
Theorem C11_wait_bootup_partial : forall pre m,
  Forall quiet pre ->
  (forall arr post, woken_by_bootup arr = true ->
     snd (wait_for_bootup m (pre ++ (false, arr) :: post)) = Ok tt /\
     fst (fst (wait_for_bootup m (pre ++ (false, arr) :: post))) = 127) /\
  (forall arr post, snd (wait_for_bootup m (pre ++ (true, arr) :: post)) = Err E_NMT) /\
  snd (wait_for_bootup m pre) = Err E_FUEL.
Proof. exact wait_bootup_spec. Qed.

(* ---- non-vacuity ---- *)
(* a history with a broadcast, a command for another node, a reset by name, local assignments,
   a running heartbeat and an undefined heartbeat state before a command *)
Definition nv_history : list event :=
  [ECmd MOwn 1; ECmd MOth 2; ECmd MBc 128; EHb [203]; EName MOwn (str_codes "RESET");
   ESName (str_codes "INITIALISING"); ESetHb 100; ESName (str_codes "PRE-OPERATIONAL"); ERaw [1; 5; 9]; ERaw [2; 6]].

Example C11_nv_system :
  ref_slave_run 5 6 Initialising nv_history = Operational /\
  w_s (run true 5 6 (init_world 0) nv_history) = 5 /\
  w_task (run true 5 6 (init_world 0) nv_history) = Some ([5], 100) /\
  snd (step true 5 6 (run true 5 6 (init_world 0) [EHb [203]]) (ECmd MOwn 129)) = ([(0, [129; 5])], [], None) /\
  w_m (run false 5 6 (init_world 0) [EHb [203]]) = 75 /\
  w_m (run false 5 6 (init_world 0) [EHb [203]; ECmd MOwn 1]) = 5 /\
  In ("RESET COMMUNICATION", 130) ref_names /\
  (forall n cs, In (n, cs) ref_names -> str_codes "PRE_OPERATIONAL" <> str_codes n).
Proof.
  vm_compute. repeat split; try reflexivity; auto 10.
  intros n cs H. repeat (destruct H as [H | H]; [inversion H; subst; discriminate | ]). contradiction.
Qed.

Example C11_nv_agree :
  Forall master_driven [ECmd MOwn 1; ECmd MBc 2; EName MOwn (str_codes "RESET"); ERaw [128; 0]; ECmd MOth 1] /\
  w_m (run true 5 6 (init_world 0) [ECmd MOwn 1; ECmd MBc 2]) = 4 /\
  Forall (fun d => match d with _ :: nid :: _ => nid <> 5 /\ nid <> 0 | _ => True end) [[1; 6]; [129; 7; 0]; [2]].
Proof. repeat constructor; try discriminate. Qed.

Example C11_nv_waits :
  Forall quiet [(false, []); (false, [5]); (false, [0; 127])] /\
  woken_by_bootup [5; 128] = true /\
  snd (wait_for_bootup (0, None) [(false, [5]); (false, [0; 127]); (false, [5; 128]); (true, [])]) = Ok tt /\
  snd (wait_for_bootup (0, None) [(false, [5]); (true, [0])]) = Err E_NMT.
Proof. vm_compute. repeat split; repeat constructor. Qed.

(* Tie to the source text: NmtMaster.on_heartbeat as translated from the CURRENT source by tools/py2coq.py
   (Gen/SrcC11.v, regenerated on every run) computes the model's new (_state, _state_received) and callback argument. *)
Theorem C11_source_heartbeat_is_model : forall m b rest,
  on_heartbeat m (b :: rest) =
  Ok ((fst (src_nmt_heartbeat b), Some (snd (src_nmt_heartbeat b))), snd (src_nmt_heartbeat b)).
Proof. exact src_nmt_heartbeat_eq. Qed.

Print Assumptions C11_master_frame.
Print Assumptions C11_master_frame_by_name.
Print Assumptions C11_invalid_name_rejected.
Print Assumptions C11_slave_follows_spec.
Print Assumptions C11_slave_in_system.
Print Assumptions C11_other_ids_noop.
Print Assumptions C11_system_follows_spec.
Print Assumptions C11_master_slave_agree.
Print Assumptions C11_master_assumes_commanded.
Print Assumptions C11_heartbeat_decoding.
Print Assumptions C11_heartbeat_reports_slave.
Print Assumptions C11_wait_heartbeat_partial.
Print Assumptions C11_wait_bootup_partial.
Print Assumptions C11_source_heartbeat_is_model.
