(* C18 - LSS fast scan finds the one unconfigured device's identity, bit for bit; LSS request frames;
   inquire / configure / store results and errors; selective switch.
   Statements only; every proof is [exact] of a lemma in Proofs/Lss_proofs.v.
   Model: Model/Lss.v (canopen/lss.py LssMaster + the bus side of network.py), reference slave written from
   CiA 305: Model/RefLssSlave.v; tables: Gen/LssTables.v regenerated from lss.py on every run.
   Definitions used in the statements (Proofs/Lss_proofs.v): u8/u16/u32 ranges; [sent b] the frames the library put
   on the bus; [answer peer st msg] the first frame the peer sends on the slave's COB-ID in reaction to msg;
   [std_requests op] the frames CiA 305 prescribes for a call; [fs_wf] a well-formed fast-scan request;
   [extends st st'] "st' has sent some more frames than st, all of them well-formed fast-scan requests". *)
From Coq Require Import ZArith List Bool.
From CV Require Import Base.Val Base.Bytes Base.Tys Gen.LssTables Gen.SrcC18 Model.RefLssSlave Model.Lss Proofs.Lss_proofs
  Proofs.Src_eq_c18.
Import ListNotations.
Open Scope Z_scope.

(* ---- tie to the current source: lss.py's constants are the standard's ---- *)
Theorem C18_tables_are_cia305 :
  LSS_TX_COBID = STD_MASTER_COBID /\ LSS_RX_COBID = STD_SLAVE_COBID /\
  [CS_SWITCH_STATE_GLOBAL; CS_CONFIGURE_NODE_ID; CS_CONFIGURE_BIT_TIMING; CS_ACTIVATE_BIT_TIMING; CS_STORE_CONFIGURATION] =
  [STD_SWITCH_GLOBAL; STD_CFG_NODE_ID; STD_CFG_BIT_TIMING; STD_ACTIVATE_BIT_TIMING; STD_STORE] /\
  [CS_SWITCH_STATE_SELECTIVE_VENDOR_ID; CS_SWITCH_STATE_SELECTIVE_PRODUCT_CODE; CS_SWITCH_STATE_SELECTIVE_REVISION_NUMBER;
   CS_SWITCH_STATE_SELECTIVE_SERIAL_NUMBER; CS_SWITCH_STATE_SELECTIVE_RESPONSE] =
  [STD_SEL_VENDOR; STD_SEL_PRODUCT; STD_SEL_REVISION; STD_SEL_SERIAL; STD_SEL_RESPONSE] /\
  [CS_IDENTIFY_REMOTE_SLAVE_VENDOR_ID; CS_IDENTIFY_REMOTE_SLAVE_PRODUCT_CODE; CS_IDENTIFY_REMOTE_SLAVE_REVISION_NUMBER_LOW;
   CS_IDENTIFY_REMOTE_SLAVE_REVISION_NUMBER_HIGH; CS_IDENTIFY_REMOTE_SLAVE_SERIAL_NUMBER_LOW;
   CS_IDENTIFY_REMOTE_SLAVE_SERIAL_NUMBER_HIGH; CS_IDENTIFY_NON_CONFIGURED_REMOTE_SLAVE; CS_IDENTIFY_SLAVE;
   CS_IDENTIFY_NON_CONFIGURED_SLAVE; CS_FAST_SCAN] =
  [STD_IDENT_VENDOR; STD_IDENT_PRODUCT; STD_IDENT_REV_LOW; STD_IDENT_REV_HIGH; STD_IDENT_SER_LOW; STD_IDENT_SER_HIGH;
   STD_IDENT_NON_CONFIGURED; STD_IDENTIFY_SLAVE; STD_IDENTIFY_NON_CONFIGURED_SLAVE; STD_FAST_SCAN] /\
  [CS_INQUIRE_VENDOR_ID; CS_INQUIRE_PRODUCT_CODE; CS_INQUIRE_REVISION_NUMBER; CS_INQUIRE_SERIAL_NUMBER; CS_INQUIRE_NODE_ID] =
  [STD_INQ_VENDOR; STD_INQ_VENDOR + 1; STD_INQ_VENDOR + 2; STD_INQ_SERIAL; STD_INQ_NODE_ID] /\
  ERROR_NONE = 0 /\ WAITING_STATE = ST_WAITING /\ CONFIGURATION_STATE = ST_CONFIGURATION.
Proof. exact tables_are_cia305. Qed.

(* the requests the master waits on (ListMessageNeedResponse) are exactly the confirmed services; all 256 specifiers *)
Theorem C18_need_response_table : forall cs, 0 <= cs < 256 ->
  zmem cs ListMessageNeedResponse = confirmed_service cs.
Proof. exact need_response_table. Qed.

(* ---- fast scan: for ALL four 32-bit parts (all 2^128 identities), every state of the rest of the slave,
        whatever is left in the master's queue: success, exactly that identity, slave in configuration state ---- *)
Theorem C18_fast_scan_finds_identity : forall v p r s q b pos sel idn0 bt dl sn sb se,
  u32 v -> u32 p -> u32 r -> u32 s ->
  exists b',
  fast_scan slave_step (mkM q (mkSlave [v; p; r; s] ST_WAITING NODE_UNCONFIGURED pos sel idn0 bt dl sn sb se) b) =
  (mkM [] (mkSlave [v; p; r; s] ST_CONFIGURATION NODE_UNCONFIGURED 0 sel idn0 bt dl sn sb se) b',
   Ok (true, Some [v; p; r; s])).
Proof. exact fast_scan_finds_identity. Qed.

(* the loop invariant behind it: the inner loop started at bit n with an id that agrees with the slave's number
   on bits 31..n (and is 0 below) ends with the slave's number *)
Theorem C18_scan_bits_invariant : forall ids sel idn0 bt dl sn sb se sub,
  0 <= sub < 4 -> u32 (nth (Z.to_nat sub) ids 0) ->
  forall n q b, (n <= 32)%nat ->
  exists q' b',
  scan_bits slave_step n (mkM q (SL ids sel idn0 bt dl sn sb se ST_WAITING sub) b)
            (hi (nth (Z.to_nat sub) ids 0) (Z.of_nat n)) sub sub =
  (mkM q' (SL ids sel idn0 bt dl sn sb se ST_WAITING sub) b', Ok (nth (Z.to_nat sub) ids 0)).
Proof. exact scan_bits_ok. Qed.

(* no slave: nobody answers the first frame on the slave's COB-ID -> (False, None) after exactly one request *)
Theorem C18_fast_scan_no_slave : forall (P : Type) (peer : P -> Z -> list Z -> P * list (Z * list Z)) (st : mstate P),
  rxq (snd (peer (pst st) LSS_TX_COBID fs_first)) = [] ->
  snd (fast_scan peer st) = Ok (false, None) /\
  sent (bus (fst (fast_scan peer st))) = sent (bus st) ++ [(STD_MASTER_COBID, fs_first)].
Proof. exact @fast_scan_no_answer. Qed.

Theorem C18_fast_scan_slave_not_taking_part : forall s q b,
  (sl_mode s =? ST_WAITING) && (sl_node s =? NODE_UNCONFIGURED) = false ->
  snd (fast_scan slave_step (mkM q s b)) = Ok (false, None).
Proof. exact fast_scan_slave_not_taking_part. Qed.

(* ---- request frames, against ANY peer ---- *)
(* every call with arguments inside the protocol's ranges puts exactly the prescribed frames on the master's COB-ID *)
Theorem C18_requests_wellformed : forall (P : Type) (peer : P -> Z -> list Z -> P * list (Z * list Z)) (st : mstate P) o,
  op_in_range o ->
  sent (bus (fst (run_op peer st o))) = sent (bus st) ++ map (fun f => (STD_MASTER_COBID, f)) (std_requests o).
Proof. exact @requests_exact. Qed.

(* ... and those are full 8-byte frames (specifier, little-endian fields, reserved bytes zero: see std_requests) *)
Theorem C18_requests_are_8_bytes : forall o, op_in_range o ->
  Forall (fun f => length f = 8%nat /\ bytes_ok f) (std_requests o).
Proof. exact std_requests_shape. Qed.

(* every frame of a fast scan, whatever the peer answers, is a well-formed fast-scan request *)
Theorem C18_fast_scan_requests_wellformed : forall (P : Type) (peer : P -> Z -> list Z -> P * list (Z * list Z)) (st : mstate P),
  exists l, sent (bus (fst (fast_scan peer st))) = sent (bus st) ++ l /\ Forall fs_wf l.
Proof. exact @fast_scan_requests_wellformed. Qed.

(* ---- service results, against ANY peer: the slave's answer, LssError on silence / wrong specifier / error code ---- *)
Theorem C18_configure_results : forall (P : Type) (peer : P -> Z -> list Z -> P * list (Z * list Z)) (st : mstate P) n,
  u8 n ->
  snd (configure_node_id peer st n) = cfg_result STD_CFG_NODE_ID (answer peer st (pad8 [STD_CFG_NODE_ID; n])) /\
  snd (configure_bit_timing peer st n) = cfg_result STD_CFG_BIT_TIMING (answer peer st (pad8 [STD_CFG_BIT_TIMING; 0; n])) /\
  snd (store_configuration peer st) = cfg_result STD_STORE (answer peer st (pad8 [STD_STORE])).
Proof. exact @configure_results. Qed.

Theorem C18_inquire_node_id_result : forall (P : Type) (peer : P -> Z -> list Z -> P * list (Z * list Z)) (st : mstate P),
  snd (inquire_node_id peer st) = inq_node_result (answer peer st (pad8 [STD_INQ_NODE_ID])).
Proof. exact @inquire_node_id_result. Qed.

Theorem C18_inquire_lss_address_result : forall (P : Type) (peer : P -> Z -> list Z -> P * list (Z * list Z)) (st : mstate P) cs,
  STD_INQ_VENDOR <= cs <= STD_INQ_SERIAL ->
  snd (inquire_lss_address peer st cs) = inq_addr_result cs (answer peer st (pad8 [cs])).
Proof. exact @inquire_lss_address_result. Qed.

Theorem C18_switch_selective_result : forall (P : Type) (peer : P -> Z -> list Z -> P * list (Z * list Z)) (st : mstate P) v p r s,
  u32 v -> u32 p -> u32 r -> u32 s ->
  exists st3, sent (bus st3) = sent (bus st) ++ map (fun f => (STD_MASTER_COBID, f))
                 [pad8 (STD_SEL_VENDOR :: le_encode 4 v); pad8 (STD_SEL_PRODUCT :: le_encode 4 p);
                  pad8 (STD_SEL_REVISION :: le_encode 4 r)] /\
  snd (switch_state_selective peer st v p r s) =
  match answer peer st3 (pad8 (STD_SEL_SERIAL :: le_encode 4 s)) with
  | None => Err E_LSS
  | Some [] => Err E_STRUCT
  | Some (c :: _) => Ok (c =? STD_SEL_RESPONSE)
  end.
Proof. exact @switch_selective_result. Qed.

(* ---- against the reference slave ---- *)
Theorem C18_switch_selective_confirmed : forall v p r s, u32 v -> u32 p -> u32 r -> u32 s ->
  forall pos idn0 bt dl sn sb se q b node sel, exists b',
  switch_state_selective slave_step (mkM q (mkSlave [v; p; r; s] ST_WAITING node pos sel idn0 bt dl sn sb se) b) v p r s =
  (mkM [] (mkSlave [v; p; r; s] ST_CONFIGURATION node pos 0 idn0 bt dl sn sb se) b', Ok true).
Proof. exact switch_selective_confirmed. Qed.

Theorem C18_inquire_against_slave : forall v p r s, u32 v -> u32 p -> u32 r -> u32 s ->
  forall pos idn0 bt dl sn sb se q b node sel,
  (exists b', inquire_node_id slave_step (mkM q (mkSlave [v; p; r; s] ST_CONFIGURATION node pos sel idn0 bt dl sn sb se) b) =
              (mkM [] (mkSlave [v; p; r; s] ST_CONFIGURATION node pos sel idn0 bt dl sn sb se) b', Ok node)) /\
  (forall i, 0 <= i < 4 -> exists b',
     inquire_lss_address slave_step (mkM q (mkSlave [v; p; r; s] ST_CONFIGURATION node pos sel idn0 bt dl sn sb se) b)
                         (STD_INQ_VENDOR + i) =
     (mkM [] (mkSlave [v; p; r; s] ST_CONFIGURATION node pos sel idn0 bt dl sn sb se) b', Ok (nth (Z.to_nat i) [v; p; r; s] 0))).
Proof. exact inquire_against_slave. Qed.

(* node ids 0..255: accepted exactly when CiA 305 allows them (1..127, 255); otherwise LssError and nothing changes *)
Theorem C18_configure_node_id_against_slave : forall v p r s pos idn0 bt dl sn sb se q b node sel n, u8 n -> exists b',
  configure_node_id slave_step (mkM q (mkSlave [v; p; r; s] ST_CONFIGURATION node pos sel idn0 bt dl sn sb se) b) n =
  (mkM [] (mkSlave [v; p; r; s] ST_CONFIGURATION (if node_id_valid n then n else node) pos sel idn0 bt dl sn sb se) b',
   if node_id_valid n then Ok tt else Err E_LSS).
Proof. exact configure_node_id_slave. Qed.

Theorem C18_configure_bit_timing_against_slave : forall v p r s pos idn0 bt dl sn sb se q b node sel n, u8 n -> exists b',
  configure_bit_timing slave_step (mkM q (mkSlave [v; p; r; s] ST_CONFIGURATION node pos sel idn0 bt dl sn sb se) b) n =
  (mkM [] (mkSlave [v; p; r; s] ST_CONFIGURATION node pos sel idn0 (if bit_timing_valid 0 n then n else bt) dl sn sb se) b',
   if bit_timing_valid 0 n then Ok tt else Err E_LSS).
Proof. exact configure_bit_timing_slave. Qed.

Theorem C18_store_against_slave : forall v p r s pos idn0 bt dl sn sb se q b node sel, exists b',
  store_configuration slave_step (mkM q (mkSlave [v; p; r; s] ST_CONFIGURATION node pos sel idn0 bt dl sn sb se) b) =
  (mkM [] (mkSlave [v; p; r; s] ST_CONFIGURATION node pos sel idn0 bt dl (if se =? 0 then node else sn)
                   (if se =? 0 then bt else sb) se) b',
   if se =? 0 then Ok tt else Err E_LSS).
Proof. exact store_configuration_slave. Qed.

(* ---- non-vacuity: concrete non-trivial inputs meet the hypotheses, and the model really computes the claims ---- *)
Example C18_nv_fast_scan :
  u32 305419896 /\ u32 4294967295 /\ u32 0 /\ u32 2147483649 /\
  snd (fast_scan slave_step (mkM [[1; 2]] (mkSlave [305419896; 4294967295; 0; 2147483649] ST_WAITING NODE_UNCONFIGURED 2 1 0 0 0 0 0 0) [])) =
    Ok (true, Some [305419896; 4294967295; 0; 2147483649]) /\
  length (sent (bus (fst (fast_scan slave_step (mkM [] (mkSlave [305419896; 4294967295; 0; 2147483649] ST_WAITING NODE_UNCONFIGURED 0 0 0 0 0 0 0 0) []))))) = 133%nat.
Proof. vm_compute. repeat split; try reflexivity; discriminate. Qed.

Example C18_nv_no_slave :
  rxq (snd (peer_step (PScript []) LSS_TX_COBID fs_first)) = [] /\
  (sl_mode (mkSlave [1; 2; 3; 4] ST_WAITING 5 0 0 0 0 0 0 0 0) =? ST_WAITING) && (5 =? NODE_UNCONFIGURED) = false.
Proof. vm_compute. split; reflexivity. Qed.

Example C18_nv_requests :
  op_in_range (OSelective 1 2 3 4294967295) /\ op_in_range (OCfgNode 127) /\ op_in_range (OActivate 65535) /\
  std_requests (OActivate 513) = [[21; 1; 2; 0; 0; 0; 0; 0]] /\
  std_requests (OSelective 1 2 3 67305985) = [[64; 1; 0; 0; 0; 0; 0; 0]; [65; 2; 0; 0; 0; 0; 0; 0]; [66; 3; 0; 0; 0; 0; 0; 0]; [67; 1; 2; 3; 4; 0; 0; 0]].
Proof. vm_compute. repeat split; try reflexivity; discriminate. Qed.

Example C18_nv_results :
  cfg_result 17 (Some [17; 0; 0; 0; 0; 0; 0; 0]) = Ok tt /\ cfg_result 17 (Some [17; 1; 0; 0; 0; 0; 0; 0]) = Err E_LSS /\
  cfg_result 17 (Some [19; 0; 0; 0; 0; 0; 0; 0]) = Err E_LSS /\ cfg_result 17 None = Err E_LSS /\
  inq_node_result (Some [94; 42; 0; 0; 0; 0; 0; 0]) = Ok 42 /\
  inq_addr_result 93 (Some [93; 4; 3; 2; 1; 0; 0; 0]) = Ok 16909060 /\
  node_id_valid 127 = true /\ node_id_valid 128 = false /\ node_id_valid 0 = false /\ u8 200 /\
  snd (configure_node_id slave_step (mkM [[17; 0]] (mkSlave [1; 2; 3; 4] ST_CONFIGURATION 255 0 0 0 0 0 0 0 0) []) 200) = Err E_LSS.
Proof. vm_compute. repeat split; try reflexivity; discriminate. Qed.

(* ---- tie (c): the decision logic translated from the CURRENT source text of canopen/lss.py (Gen/SrcC18.v, regenerated
        on every run by tools/tables/src_c18.py) determines the model functions the theorems above speak about ---- *)
(* __send_fast_scan_message: frame = '<BIBBB' of (0x51, id number, bit_check, lss_sub, lss_next); silence = no,
   otherwise yes iff byte 0 of the reply is CS_IDENTIFY_SLAVE *)
Theorem C18_src_send_fast_scan_message : forall (P : Type) (peer : P -> Z -> list Z -> P * list (Z * list Z)) (st : mstate P) idn bc sub nxt,
  u32 idn -> u8 bc -> u8 sub -> u8 nxt ->
  let '(p0, p1, p2, p3, p4, _) := src_send_fast_scan_message idn bc sub nxt true 0 in
  send_fast_scan_message peer st idn bc sub nxt =
  match send_command peer st (p0 :: le_encode 4 p1 ++ [p2; p3; p4]) with
  | (st1, Err k) =>
      if k =? E_LSS then (st1, Ok (snd (src_send_fast_scan_message idn bc sub nxt true 0))) else (st1, Err k)
  | (st1, Abort c) => (st1, Abort c)
  | (st1, Ok None) => (st1, Err E_TYPE)
  | (st1, Ok (Some [])) => (st1, Err E_STRUCT)
  | (st1, Ok (Some (r0 :: _))) => (st1, Ok (snd (src_send_fast_scan_message idn bc sub nxt false r0)))
  end.
Proof. exact @src_send_fast_scan_message_eq. Qed.

(* fast_scan: the inner loop runs while lss_bit_check > 0 ... *)
Theorem C18_src_scan_bits_continue : forall n,
  src_scan_bits_continue (Z.of_nat n) = match n with O => false | S _ => true end.
Proof. exact src_scan_bits_continue_eq. Qed.

(* ... and one unfolding of the model's inner loop is the translated loop body *)
Theorem C18_src_scan_bit : forall (P : Type) (peer : P -> Z -> list Z -> P * list (Z * list Z)) (st : mstate P) k idn sub nxt,
  fst (src_scan_bit idn (Z.of_nat (S k)) sub nxt true) = Z.of_nat k /\
  scan_bits peer (S k) st idn sub nxt =
  sbind (send_fast_scan_message peer st idn (fst (src_scan_bit idn (Z.of_nat (S k)) sub nxt true)) sub nxt)
        (fun st found => scan_bits peer k st (snd (src_scan_bit idn (Z.of_nat (S k)) sub nxt found)) sub nxt).
Proof. exact (fun P peer st k => @src_scan_bit_eq P peer k st). Qed.

(* the outer loop runs while lss_sub < 4 (n parts left = lss_sub is 4 - n) ... *)
Theorem C18_src_scan_parts_continue : forall n, (n <= 4)%nat ->
  src_scan_parts_continue (4 - Z.of_nat n) = match n with O => false | S _ => true end.
Proof. exact src_scan_parts_continue_eq. Qed.

(* ... and one unfolding of the model's outer loop is the translated body around the inner loop *)
Theorem C18_src_scan_part : forall (P : Type) (peer : P -> Z -> list Z -> P * list (Z * list Z)) (st : mstate P) k l sub nxt,
  src_scan_bits_continue 0 = false /\
  scan_parts peer (S k) st l sub nxt =
  sbind (scan_bits peer (Z.to_nat src_scan_part_pre) st (nth (Z.to_nat sub) l 0) sub nxt) (fun st idn =>
  sbind (send_fast_scan_message peer st idn 0 sub (snd (src_scan_part_post sub nxt true))) (fun st ok =>
  let '(go, sub', nxt') := src_scan_part_post sub nxt ok in
  if go then scan_parts peer k st (upd l sub idn) sub' nxt' else (st, Ok (false, None)))).
Proof. exact (fun P peer st k => @src_scan_part_eq P peer k st). Qed.

Theorem C18_src_fast_scan_init : forall (P : Type) (peer : P -> Z -> list Z -> P * list (Z * list Z)) (st : mstate P),
  let '(id0, bc, sub, nxt) := src_fast_scan_init in
  fast_scan peer st =
  sbind (send_fast_scan_message peer st id0 bc sub nxt) (fun st ok =>
  if ok then scan_parts peer 4 st [id0; id0; id0; id0] sub nxt else (st, Ok (false, None))).
Proof. exact @src_fast_scan_init_eq. Qed.

Theorem C18_src_send_inquire_node_id : forall (P : Type) (peer : P -> Z -> list Z -> P * list (Z * list Z)) (st : mstate P),
  inquire_node_id peer st =
  match send_command peer st [fst (fst (src_send_inquire_node_id 0 0 0)); 0; 0; 0; 0; 0; 0; 0] with
  | (st1, Ok (Some (r0 :: r1 :: _))) =>
      let '(_, code, v) := src_send_inquire_node_id r0 r1 0 in
      if code =? 1 then (st1, Ok v) else (st1, Err E_LSS)
  | (st1, Ok (Some _)) => (st1, Err E_STRUCT)
  | (st1, Ok None) => (st1, Err E_TYPE)
  | (st1, Err k) => (st1, Err k)
  | (st1, Abort c) => (st1, Abort c)
  end.
Proof. exact @src_send_inquire_node_id_eq. Qed.

Theorem C18_src_send_inquire_lss_address : forall (P : Type) (peer : P -> Z -> list Z -> P * list (Z * list Z)) (st : mstate P) cs, u8 cs ->
  (forall r0 r1 b, fst (fst (src_send_inquire_lss_address cs r0 r1 b)) = cs) /\
  inquire_lss_address peer st cs =
  match send_command peer st [cs; 0; 0; 0; 0; 0; 0; 0] with
  | (st1, Ok (Some l)) =>
      if 5 <=? zlen l then
        let '(_, code, v) := src_send_inquire_lss_address cs (nth 0 l 0) (le_decode (firstn 4 (skipn 1 l))) 0 in
        if code =? 1 then (st1, Ok v) else (st1, Err E_LSS)
      else (st1, Err E_STRUCT)
  | (st1, Ok None) => (st1, Err E_TYPE)
  | (st1, Err k) => (st1, Err k)
  | (st1, Abort c) => (st1, Abort c)
  end.
Proof. exact @src_send_inquire_lss_address_eq. Qed.

Theorem C18_src_send_configure : forall (P : Type) (peer : P -> Z -> list Z -> P * list (Z * list Z)) (st : mstate P) cs v1 v2, u8 cs -> u8 v1 -> u8 v2 ->
  (forall r0 r1 x y z, let '(b0, b1, b2, _) := src_send_configure cs v1 v2 r0 r1 x y z in (b0, b1, b2) = (cs, v1, v2)) /\
  send_configure peer st cs v1 v2 =
  match send_command peer st [cs; v1; v2; 0; 0; 0; 0; 0] with
  | (st1, Ok (Some (r0 :: r1 :: _))) =>
      let '(_, _, _, code) := src_send_configure cs v1 v2 r0 r1 0 0 0 in
      if code =? 1 then (st1, Ok tt) else (st1, Err E_LSS)
  | (st1, Ok (Some _)) => (st1, Err E_STRUCT)
  | (st1, Ok None) => (st1, Err E_TYPE)
  | (st1, Err k) => (st1, Err k)
  | (st1, Abort c) => (st1, Abort c)
  end.
Proof. exact @src_send_configure_eq. Qed.

Theorem C18_src_configure_services : forall (P : Type) (peer : P -> Z -> list Z -> P * list (Z * list Z)) (st : mstate P) n,
  (let '(a0, a1, a2) := src_configure_node_id n in configure_node_id peer st n = send_configure peer st a0 a1 a2) /\
  (let '(a0, a1, a2) := src_configure_bit_timing n in configure_bit_timing peer st n = send_configure peer st a0 a1 a2) /\
  (let '(a0, a1, a2) := src_store_configuration in store_configuration peer st = send_configure peer st a0 a1 a2).
Proof. exact @src_configure_services_eq. Qed.

(* __send_command: queue replaced (before the frame goes out) iff not empty; frame on LSS_TX_COBID; no answer awaited
   unless message[0] is in ListMessageNeedResponse; empty queue at the time-out = LssError; else head of the queue *)
Theorem C18_src_send_command : forall (P : Type) (peer : P -> Z -> list Z -> P * list (Z * list Z)) (st : mstate P) msg,
  let q_empty := match responses st with [] => true | _ => false end in
  let '(flushed, _, cob, _) := src_send_command q_empty (nth 0 msg 0) true false false 0 in
  let st0 := if flushed then mkM [] (pst st) (bus st) else st in
  let st1 := send_message peer st0 cob msg in
  let timed_out := match responses st1 with [] => true | _ => false end in
  let '(_, sent, _, code) := src_send_command q_empty (nth 0 msg 0) timed_out false false 0 in
  sent = true /\
  send_command peer st msg =
  if code =? 1 then (st1, Ok None)
  else if code =? 2 then (mkM (tl (responses st1)) (pst st1) (bus st1), Ok (hd_error (responses st1)))
  else (st1, Err E_LSS).
Proof. exact @src_send_command_eq. Qed.

Print Assumptions C18_tables_are_cia305.
Print Assumptions C18_need_response_table.
Print Assumptions C18_fast_scan_finds_identity.
Print Assumptions C18_scan_bits_invariant.
Print Assumptions C18_fast_scan_no_slave.
Print Assumptions C18_fast_scan_slave_not_taking_part.
Print Assumptions C18_requests_wellformed.
Print Assumptions C18_requests_are_8_bytes.
Print Assumptions C18_fast_scan_requests_wellformed.
Print Assumptions C18_configure_results.
Print Assumptions C18_inquire_node_id_result.
Print Assumptions C18_inquire_lss_address_result.
Print Assumptions C18_switch_selective_result.
Print Assumptions C18_switch_selective_confirmed.
Print Assumptions C18_inquire_against_slave.
Print Assumptions C18_configure_node_id_against_slave.
Print Assumptions C18_configure_bit_timing_against_slave.
Print Assumptions C18_store_against_slave.
Print Assumptions C18_src_send_fast_scan_message.
Print Assumptions C18_src_scan_bits_continue.
Print Assumptions C18_src_scan_bit.
Print Assumptions C18_src_scan_parts_continue.
Print Assumptions C18_src_scan_part.
Print Assumptions C18_src_fast_scan_init.
Print Assumptions C18_src_send_inquire_node_id.
Print Assumptions C18_src_send_inquire_lss_address.
Print Assumptions C18_src_send_configure.
Print Assumptions C18_src_configure_services.
Print Assumptions C18_src_send_command.
