(* C09 - Saving a PDO configuration follows the safe procedure and reads back identically.
   Statements only; every proof is [exact] of a lemma in Proofs/PdoCfg_proofs.v.
   Model: Model/PdoCfg.v (PdoMap.save = save_io / save_writes, PdoMap.read = read_cfg with the SDO source
   sdo_get and the dictionary source od_get, PdoMap.subscribe, add_variable, PdoMaps indices),
   reference peer: Model/StrictDevice.v (strict CiA 301 device, any prior register state),
   tables: Gen/PdoTables.v (PDO_NOT_VALID, RTR_NOT_ALLOWED, RPDO/TPDO offsets) regenerated on every run.

   Hypotheses (all decidable, defined in Proofs/PdoCfg_proofs.v):
     cfg_wfb c      forced by the code: cob_id set and < 2^29 (read() masks with 0x1FFFFFFF), transmission
                    type / timers within their CiA 301 types (else encode_raw raises), every mapped entry
                    0 < index < 2^16, sub < 2^8, 0 < length < 128 (read() masks the length with 0x7F and
                    drops entries with index 0 or length 0), fewer than 256 entries;
     od_coversb     the dictionary has every sub-entry save() touches (else KeyError);
     dev_coversb    the device has every register save() writes, can map the objects, total <= 64 bits;
     in_odb         the mapped objects are in the reading node's dictionary (else add_variable drops them).
   The prior register state r0 of the device is universally quantified: enabled or not, any mapping. *)
From Coq Require Import ZArith List Bool.
From CV Require Import Base.Val Base.Bytes Base.Tys Gen.PdoTables Model.StrictDevice Model.PdoCfg Proofs.PdoCfg_proofs
  Gen.SrcC09 Proofs.Src_eq_c09.
Import ListNotations.
Open Scope Z_scope.

(* For every well-formed configuration and EVERY prior device state the strict device accepts every write
   of save(), in the order of save_writes: the device's log is exactly that list with every verdict
   "accepted", and the code (save_io, which stops at the first error) runs to the end, leaves the map
   object unchanged and subscribes iff enabled. *)
Theorem C09_save_accepted_in_order : forall d od com c r0 subs,
  d_mode d = MODE_STRICT -> is_com com = true ->
  cfg_wfb c = true -> od_coversb od c = true -> dev_coversb d r0 com c = true ->
  let mp := com + 0x200 in
  let ws := save_writes com mp c in
  run_writes d (r0, []) ws = ((apply_writes r0 ws, acc ws), None) /\
  save_io (log_write d) log_ul od com mp c subs (r0, []) =
    ((apply_writes r0 ws, acc ws), Ok (c, if c_enabled c then subscribe c subs else subs)).
Proof. exact save_accepted_in_order. Qed.

(* The order: first write = COB-ID entry with bit 31 set (PDO invalidated), then only communication
   parameters 2/3/5/6, then count := 0, then the entries 1..n in order, then count := n, then - last, and
   only if enabled - the COB-ID entry with bit 31 clear. *)
Theorem C09_save_order : forall com mp c, cfg_wfb c = true ->
  exists cob params,
    c_cob c = Some cob /\
    let first := cob + 2 ^ 31 + (if c_rtr c then 0 else 2 ^ 30) in
    let last := cob + (if c_rtr c then 0 else 2 ^ 30) in
    save_writes com mp c =
      (com, 1, first) :: params ++ (mp, 0, 0) :: entry_writes mp 1 (c_map c) ++
      (mp, 0, zlen (c_map c)) :: (if c_enabled c then [(com, 1, last)] else []) /\
    Forall (is_param_write com) params /\
    Z.testbit first 31 = true /\ Z.testbit last 31 = false /\
    (forall j e, nth_error (c_map c) j = Some e ->
       nth_error (entry_writes mp 1 (c_map c)) j = Some (mp, 1 + Z.of_nat j, map_word e)).
Proof. exact save_order. Qed.

(* Final registers = CiA 301 encodings: COB-ID word = cob + (bit 31 iff not enabled) + (bit 30 iff RTR
   not allowed); parameters as set; count; entry j = index * 2^16 + sub * 2^8 + length; every register of
   another object is untouched. *)
Theorem C09_save_encodes : forall com c r0 cob, cfg_wfb c = true -> c_cob c = Some cob ->
  let mp := com + 0x200 in
  let r' := apply_writes r0 (save_writes com mp c) in
  let w := cob_word c cob in
  rget r' com 1 = Some w /\
  0 <= w < 2 ^ 32 /\ Z.testbit w 31 = negb (c_enabled c) /\ Z.testbit w 30 = negb (c_rtr c) /\ w mod 2 ^ 29 = cob /\
  (forall v, c_tt c = Some v -> rget r' com 2 = Some v) /\
  (forall v, c_inhibit c = Some v -> rget r' com 3 = Some v) /\
  (forall v, c_event c = Some v -> rget r' com 5 = Some v) /\
  (forall v, c_sync c = Some v -> rget r' com 6 = Some v) /\
  rget r' mp 0 = Some (zlen (c_map c)) /\
  (forall j e, nth_error (c_map c) j = Some e -> rget r' mp (1 + Z.of_nat j) = Some (map_word e)) /\
  (forall i s, i <> com -> i <> mp -> rget r' i s = rget r0 i s).
Proof. exact save_encodes. Qed.

(* read() by SDO into a fresh map object gives the same COB-ID, flags, transmission type and mapping, for
   transmission types 254/255 the timers that were set, and subscribes iff enabled (subscribe c' []). *)
Theorem C09_read_after_save : forall od com c r0 cob tt,
  cfg_wfb c = true -> od_coversb od c = true ->
  c_cob c = Some cob -> c_tt c = Some tt -> forallb (in_odb (o_objs od)) (c_map c) = true ->
  let mp := com + 0x200 in
  let r' := apply_writes r0 (save_writes com mp c) in
  exists c', read_cfg (sdo_get od com mp r') (o_objs od) com mp fresh_cfg [] = Ok (c', subscribe c' []) /\
             same_config c c' cob tt.
Proof. exact read_after_save. Qed.

(* the map's callback is registered for x exactly when it already was, or the map is enabled and x is its COB-ID *)
Theorem C09_subscribe_iff_enabled : forall c cob subs x, c_cob c = Some cob ->
  (In x (subscribe c subs) <-> In x subs \/ (c_enabled c = true /\ x = cob)).
Proof. exact subscribe_iff_enabled. Qed.

(* read(from_od=True): the DCF value wins over the default ... *)
Theorem C09_dcf_before_default : forall v dflt, od_pick (Some v) dflt = Some v /\ od_pick None dflt = dflt.
Proof. exact dcf_before_default. Qed.

(* ... and a dictionary that holds the encodings yields the configuration *)
Theorem C09_read_from_od : forall od com mp vals c cob tt,
  mp <> com -> cfg_wfb c = true -> od_coversb od c = true ->
  c_cob c = Some cob -> c_tt c = Some tt -> forallb (in_odb (o_objs od)) (c_map c) = true ->
  dict vals com 1 = Some (cob_word c cob) -> dict vals com 2 = Some tt ->
  (forall v, c_inhibit c = Some v -> dict vals com 3 = Some v) ->
  (forall v, c_event c = Some v -> dict vals com 5 = Some v) ->
  (forall v, c_sync c = Some v -> dict vals com 6 = Some v) ->
  dict vals mp 0 = Some (zlen (c_map c)) ->
  (forall j e, nth_error (c_map c) j = Some e -> dict vals mp (1 + Z.of_nat j) = Some (map_word e)) ->
  exists c', read_cfg (od_get od com mp vals) (o_objs od) com mp fresh_cfg [] = Ok (c', subscribe c' []) /\
             same_config c c' cob tt.
Proof. exact read_from_od. Qed.

(* RPDO and TPDO, PDO numbers 1..512: the objects used are the CiA 301 ones, so the theorems above apply
   with com := com_index tpdo n, com + 0x200 = map_index tpdo n. *)
Theorem C09_pdo_indices : forall tpdo n, pdo_number_ok n = true ->
  com_index tpdo n = (if tpdo : bool then 0x1800 else 0x1400) + (n - 1) /\
  map_index tpdo n = com_index tpdo n + 0x200 /\
  is_com (com_index tpdo n) = true /\ is_map (map_index tpdo n) = true.
Proof. exact pdo_indices. Qed.

(* ---- non-vacuity: a TPDO 512, 29-bit COB-ID, RTR not allowed, event driven with all timers, three mapped
   objects (one a record member, one unaligned 3-bit piece), on a device that starts ENABLED with another
   mapping of two objects *)
Definition ex_od : oddesc :=
  mkOd [1; 2; 3; 5; 6] 8 [(0x2000, OVar 8); (0x2001, OVar 16); (0x2100, ORec [(0, 8); (1, 8); (2, 32)])].
Definition ex_dev : device := mkDev [(0x2000, 0, 8); (0x2001, 0, 16); (0x2100, 2, 32)] MODE_STRICT.
Definition ex_cfg : cfg :=
  mkCfg (Some 0x1ABCDEF0) true false (Some 255) (Some 100) (Some 65535) (Some 0)
        [(0x2100, 2, 32); (0x2000, 0, 3); (0x2001, 0, 16)].
Definition ex_com : Z := com_index true 512.
Definition ex_r0 : regs :=
  [((ex_com, 1), 0x000003FF); ((ex_com, 2), 1); ((ex_com, 3), 7); ((ex_com, 5), 9); ((ex_com, 6), 3);
   ((ex_com + 0x200, 0), 2); ((ex_com + 0x200, 1), 0x20010010); ((ex_com + 0x200, 2), 0x20000008);
   ((ex_com + 0x200, 3), 0); ((ex_com + 0x200, 4), 0)].

Example C09_nv_hypotheses :
  pdo_number_ok 512 = true /\ is_com ex_com = true /\ cfg_wfb ex_cfg = true /\ od_coversb ex_od ex_cfg = true /\
  dev_coversb ex_dev ex_r0 ex_com ex_cfg = true /\ forallb (in_odb (o_objs ex_od)) (c_map ex_cfg) = true /\
  pdo_valid ex_r0 ex_com = true /\ rget ex_r0 (ex_com + 0x200) 0 = Some 2.
Proof. vm_compute. repeat split; reflexivity. Qed.

(* what the closed system does on it: 10 writes, all accepted, and the read-back *)
Example C09_nv_run :
  snd (fst (save_io (log_write ex_dev) log_ul ex_od ex_com (ex_com + 0x200) ex_cfg [] (ex_r0, []))) =
    acc [(6655, 1, 3669810928); (6655, 2, 255); (6655, 3, 100); (6655, 5, 65535); (6655, 6, 0);
         (7167, 0, 0); (7167, 1, 553648672); (7167, 2, 536870915); (7167, 3, 536936464); (7167, 0, 3);
         (6655, 1, 1522327280)] /\
  read_cfg (sdo_get ex_od ex_com (ex_com + 0x200)
              (apply_writes ex_r0 (save_writes ex_com (ex_com + 0x200) ex_cfg)))
           (o_objs ex_od) ex_com (ex_com + 0x200) fresh_cfg [] = Ok (ex_cfg, [0x1ABCDEF0]).
Proof. vm_compute. split; reflexivity. Qed.

(* the dictionary-sourced variant: DCF values where present, defaults elsewhere *)
Example C09_nv_from_od :
  read_cfg (od_get ex_od ex_com (ex_com + 0x200)
              [((ex_com, 1), (Some 0x5ABCDEF0, Some 0x80000000)); ((ex_com, 2), (None, Some 255));
               ((ex_com, 3), (Some 100, None)); ((ex_com, 5), (None, Some 65535)); ((ex_com, 6), (Some 0, Some 9));
               ((ex_com + 0x200, 0), (Some 3, Some 0)); ((ex_com + 0x200, 1), (Some 0x21000220, None));
               ((ex_com + 0x200, 2), (None, Some 0x20000003)); ((ex_com + 0x200, 3), (Some 0x20010010, Some 0))])
           (o_objs ex_od) ex_com (ex_com + 0x200) fresh_cfg [] = Ok (ex_cfg, [0x1ABCDEF0]).
Proof. vm_compute. reflexivity. Qed.

(* ---- source-text tie: PdoMap.save / PdoMap.read as translated from the CURRENT source (Gen/SrcC09.v, regenerated
   by tools/tables/src_c09.py on every run) determine the model functions the theorems above are about. *)

(* save(): every value written, expression by expression: the COB-ID word written first (cob | PDO_NOT_VALID | RTR
   bit) and last (cob | RTR bit, only if enabled), each parameter written iff it is not None, the mapping word
   index << 16 | subindex << 8 | length (entry_word) of the entries with sub-indices 1, 2, ... *)
Theorem C09_src_save_values : forall c cob w1 w2 w3 w5 w6 we wl,
  c_cob c = Some cob ->
  src_save_values false cob (c_rtr c) (c_enabled c)
    (osome (c_tt c)) (oget (c_tt c)) (osome (c_inhibit c)) (oget (c_inhibit c))
    (osome (c_event c)) (oget (c_event c)) (osome (c_sync c)) (oget (c_sync c))
    false (c_map c) w1 w2 w3 w5 w6 we wl =
  (Z.lor (Z.lor cob PDO_NOT_VALID) (rtr_bit c),
   oelse (c_tt c) w2, oelse (c_inhibit c) w3, oelse (c_event c) w5, oelse (c_sync c) w6,
   last_entry_word (c_map c) we, 1 + zlen (c_map c),
   if c_enabled c then Z.lor cob (rtr_bit c) else wl).
Proof. exact src_save_values_eq. Qed.

Theorem C09_src_last_entry_word : forall m e d, last_entry_word (m ++ [e]) d = entry_word e.
Proof. exact last_entry_word_app. Qed.

(* save(): the ORDER of the write statements (trace of (index, sub, value)), nothing at all when cob_id is None,
   subscribe() exactly when enabled: the trace is save_writes. *)
Theorem C09_src_save_trace : forall com mp c cw,
  src_save_trace (negb (osome (c_cob c))) com mp
    (Z.lor (Z.lor (oget (c_cob c)) PDO_NOT_VALID) (rtr_bit c)) (oget (c_cob c)) (c_rtr c) (c_enabled c)
    (osome (c_tt c)) (oget (c_tt c)) (osome (c_inhibit c)) (oget (c_inhibit c))
    (osome (c_event c)) (oget (c_event c)) (osome (c_sync c)) (oget (c_sync c))
    false (c_map c) entry_word cw [] false =
  (save_writes com mp c, osome (c_cob c) && c_enabled c).
Proof. exact src_save_trace_eq. Qed.

(* read(): COB-ID & 0x1FFFFFFF, enabled = bit 31 clear, rtr_allowed = bit 30 clear, the timers are read exactly for
   transmission types >= 254 (a failing attempt keeps the old value), subscribe() at the end. *)
Theorem C09_src_read_decode : forall get objs com mp old subs raw1 raw2 c' s',
  get com 1 = Ok (Some raw1) -> get com 2 = Ok (Some raw2) ->
  read_cfg get objs com mp old subs = Ok (c', s') ->
  let '(cob, en, rtr, ty, inh, ev, sy, sub) :=
    src_read_decode raw1 raw2 0
      (after_try (get com 3) (c_inhibit old)) (after_try (get com 5) (c_event old)) (after_try (get com 6) (c_sync old))
      (c_inhibit old) (c_event old) (c_sync old) false in
  c_cob c' = Some cob /\ c_enabled c' = en /\ c_rtr c' = rtr /\ c_tt c' = Some ty /\
  c_inhibit c' = inh /\ c_event c' = ev /\ c_sync c' = sy /\
  s' = (if sub then subscribe c' subs else subs).
Proof. exact src_read_decode_eq. Qed.

(* read(): one pass of the entry loop = one step of read_entries: index = word >> 16, subindex = (word >> 8) & 0xFF,
   size = word & 0x7F, add_variable iff index and size are non-zero. *)
Theorem C09_src_read_entry : forall get objs mp k f m v,
  get mp k = Ok (Some v) ->
  read_entries get objs mp k (S f) m =
  read_entries get objs mp (k + 1) f
    (match src_read_entry v false None with
     | Some (index, subindex, size) => add_variable objs m index subindex (Some size)
     | None => m
     end).
Proof. exact src_read_entry_eq. Qed.

(* read(): _raw_from = DCF value, else default (from_od) / the SDO value *)
Theorem C09_src_raw_from : forall v d raw,
  src_raw_from true v d raw = od_pick v d /\ src_raw_from false v d raw = raw.
Proof. exact src_raw_from_eq. Qed.

Print Assumptions C09_save_accepted_in_order.
Print Assumptions C09_save_order.
Print Assumptions C09_save_encodes.
Print Assumptions C09_read_after_save.
Print Assumptions C09_subscribe_iff_enabled.
Print Assumptions C09_dcf_before_default.
Print Assumptions C09_read_from_od.
Print Assumptions C09_pdo_indices.
Print Assumptions C09_src_save_values.
Print Assumptions C09_src_last_entry_word.
Print Assumptions C09_src_save_trace.
Print Assumptions C09_src_read_decode.
Print Assumptions C09_src_read_entry.
Print Assumptions C09_src_raw_from.
