(* C01 - SDO client transfers exactly the caller's bytes in conformant CiA 301 frames
   (expedited + segmented transfer).
   Statements only; every proof is [exact] of a lemma in Proofs/SdoClient_proofs.v.
   Model: Model/SdoClient.v (request_response, WritableStream, ReadableStream, upload, download,
   the file-like interface driven by a write schedule / the buffer sizes of the raw reads),
   reference peer: Model/RefServer.v (CiA 301 server that flags every illegal request in s_viol),
   constants: Gen/SdoTables.v, STRUCT_TYPES: Gen/Tables.v, regenerated from /repo on every run.

   Reading guide.  [w : cworld] is client + medium + reference server; [n_fault (w_s w) = None] = no
   disturbance pending; [net_wf] is an invariant of every reachable state (the multiplexer of the
   server's running transfer has 3 bytes), it holds initially (C01_nv_init) and is kept by every
   transfer.  The response queue [w_q w] and the server's transfer state [s_x] are ARBITRARY in every
   statement: left-overs of earlier transfers do not matter.  "Every request frame legal" is
   [s_viol] unchanged: the reference server records a violation code for a request that is not 8
   bytes, has a wrong specifier / reserved bit, a toggle bit not alternating from 0, n <> 7 - bytes,
   non-zero padding, an announced size different from the bytes sent, or a segment without transfer. *)
From Coq Require Import ZArith List Bool Lia.
From CV Require Import Base.Val Base.Bytes Base.Tys Gen.Tables Model.RefServer Model.SdoClient Proofs.SdoClient_proofs Gen.SrcC01 Proofs.Src_eq_c01.
Import ListNotations.
Open Scope Z_scope.

(* Every multiplexer, every payload, size absent or |data|, forced segmentation or not, every valid
   write schedule (what BufferedWriter / a write-all loop offers to the raw stream): the transfer
   completes, the server's store holds exactly the payload under that multiplexer and nothing else
   changed, no request was illegal, the server's transfer is closed.
   Hypotheses forced by the code: payload below 2^32 bytes (struct "<L"); an expedited raw stream
   (1 <= size <= 4, not forced) must be offered its `size` bytes at once ([valid_sched true]),
   a smaller offer makes write() return 0 for ever. *)
Theorem C01_download_delivers : forall (w : cworld) idx sub data size force sched,
  net_wf (w_s w) -> n_fault (w_s w) = None ->
  mux_ok idx sub -> zlen data < 2 ^ 32 -> (size = None \/ size = Some (zlen data)) ->
  valid_sched (expedited size force) sched (zlen data) ->
  exists w', with_write net_step w idx sub size force data sched = (w', Ok tt) /\
    store_get idx sub (n_srv (w_s w')) = Some data /\
    (forall i j, mux_key i j <> mux_key idx sub -> store_get i j (n_srv (w_s w')) = store_get i j (n_srv (w_s w))) /\
    s_viol (n_srv (w_s w')) = s_viol (n_srv (w_s w)) /\
    s_x (n_srv (w_s w')) = XNone /\ net_wf (w_s w') /\ n_fault (w_s w') = None.
Proof. exact download_delivers. Qed.

(* SdoClient.download(index, subindex, data, force_segment) itself *)
Theorem C01_download_api : forall (w : cworld) idx sub data force sched,
  net_wf (w_s w) -> n_fault (w_s w) = None -> mux_ok idx sub -> zlen data < 2 ^ 32 ->
  valid_sched (expedited (Some (zlen data)) force) sched (zlen data) ->
  exists w', sdo_download net_step w idx sub data force sched = (w', Ok tt) /\
    store_get idx sub (n_srv (w_s w')) = Some data /\
    s_viol (n_srv (w_s w')) = s_viol (n_srv (w_s w)).
Proof. exact download_api. Qed.

(* SdoClient.upload: every held value, every response style of the server (size indicated or not,
   expedited with or without size, any sequence of segment lengths 0..7 including empty non-final
   segments, last flag on a separate empty segment): the result is [expected_upload], no request
   illegal.  FUEL bounds the model's loops (3000 segments); the two fuel hypotheses say the value
   and the style's list of segment lengths fit into it. *)
Theorem C01_upload_returns : forall (w : cworld) idx sub odt v,
  net_wf (w_s w) -> n_fault (w_s w) = None -> mux_ok idx sub ->
  store_get idx sub (n_srv (w_s w)) = Some v -> zlen v < 2 ^ 32 ->
  (length (st_segs (s_style (n_srv (w_s w)))) < FUEL)%nat -> (length v + 2 <= FUEL)%nat ->
  exists w', sdo_upload net_step FUEL w idx sub odt = (w', Ok (expected_upload (s_style (n_srv (w_s w))) odt v)) /\
    s_store (n_srv (w_s w')) = s_store (n_srv (w_s w)) /\ s_viol (n_srv (w_s w')) = s_viol (n_srv (w_s w)) /\
    s_x (n_srv (w_s w')) = XNone /\ net_wf (w_s w') /\ n_fault (w_s w') = None.
Proof. exact upload_returns. Qed.

(* ... where [expected_upload] is: for an entry the dictionary declares with a fixed-size numeric type
   (a key of STRUCT_TYPES, declared size k bytes) exactly the k leading bytes of the value ... *)
Theorem C01_upload_numeric : forall st t k v, od_var_size t = Some k -> 0 <= k <= zlen v ->
  expected_upload st (Some t) v = firstn (Z.to_nat k) v.
Proof. exact expected_upload_numeric. Qed.

(* ... and otherwise (no dictionary entry, string / domain / TIME_OF_DAY ... types) exactly what the
   server sent: the value, or the four data bytes of an expedited response without size indication *)
Theorem C01_upload_plain : forall st odt v,
  (odt = None \/ exists t, odt = Some t /\ od_var_size t = None) -> expected_upload st odt v = wire_value st v.
Proof. exact expected_upload_plain. Qed.

(* ObjectDictionary.get_variable as upload uses it: every element 1..255 of an ARRAY has the declared type of
   the array's elements, whether the dictionary lists it or synthesises it from the member at sub-index 1 *)
Theorem C01_array_member_declared : forall ms t sub,
  zassoc 1 ms = Some (Some t) -> 0 < sub < 256 -> zassoc sub ms = None ->
  od_get_type (OArrT ms) sub = Some t.
Proof. exact array_member_declared. Qed.

(* open(index, subindex, "rb", buffering=0).read() *)
Theorem C01_raw_read_returns : forall (w : cworld) idx sub v,
  net_wf (w_s w) -> n_fault (w_s w) = None -> mux_ok idx sub ->
  store_get idx sub (n_srv (w_s w)) = Some v -> zlen v < 2 ^ 32 ->
  (length (st_segs (s_style (n_srv (w_s w)))) < FUEL)%nat -> (length v + 2 <= FUEL)%nat ->
  exists w' size, read_whole net_step FUEL w idx sub = (w', size, Ok (wire_value (s_style (n_srv (w_s w))) v)) /\
    s_viol (n_srv (w_s w')) = s_viol (n_srv (w_s w)) /\ n_fault (w_s w') = None.
Proof. exact raw_read_returns. Qed.

(* Buffered reading: ANY sequence of raw reads (readinto with a buffer of any size >= 0, or read(n)
   for a negative entry) hands out a prefix of the value, never loses or reorders a byte, and has
   handed out everything once enough non-empty reads were made. *)
Theorem C01_buffered_read_returns : forall (w : cworld) idx sub v caps,
  net_wf (w_s w) -> n_fault (w_s w) = None -> mux_ok idx sub ->
  store_get idx sub (n_srv (w_s w)) = Some v -> zlen v < 2 ^ 32 ->
  (length (st_segs (s_style (n_srv (w_s w)))) < FUEL)%nat ->
  exists w' out rest, open_read net_step FUEL caps w idx sub = (w', Ok out) /\
    wire_value (s_style (n_srv (w_s w))) v = out ++ rest /\
    (Nat.min (length (wire_value (s_style (n_srv (w_s w))) v)) (active_caps caps) <= length out)%nat /\
    s_viol (n_srv (w_s w')) = s_viol (n_srv (w_s w)) /\ n_fault (w_s w') = None.
Proof. exact buffered_read_returns. Qed.

(* Any list of transfers on one client (downloads, uploads in every mode, changes of the object by
   the server's application, stale frames left in the response queue between them, a different
   server style for each) behaves as the list of single transfers: the results and the final store
   are those of [spec_seq], which speaks about the store only; no request was illegal. *)
Theorem C01_back_to_back : forall full store ts, seq_ok store ts ->
  exists w' os, run_tcases full (init_world store) ts = (w', os) /\
    map obs_result os = snd (spec_seq store ts) /\
    s_store (n_srv (w_s w')) = fst (spec_seq store ts) /\ s_viol (n_srv (w_s w')) = [].
Proof. exact back_to_back. Qed.

(* ---- non-vacuity: concrete non-trivial inputs meet the hypotheses ---- *)
Example C01_nv_init : net_wf (w_s (init_world [(8192, [1; 2; 3])])) /\ n_fault (w_s (init_world [])) = None.
Proof. vm_compute. auto. Qed.

(* a 20-byte segmented download of unknown size offered as 10, 3, 7, 3 bytes; a 3-byte expedited one *)
Example C01_nv_download :
  mux_ok 8192 1 /\ valid_sched (expedited None false) [10; 3; 7; 3] 20 /\
  valid_sched (expedited (Some 3) false) [3] 3 /\ expedited (Some 3) false = true /\
  (let data := [1; 2; 3; 4; 5; 6; 7; 8; 9; 10; 11; 12; 13; 14; 15; 16; 17; 18; 19; 20] in
   let '(w', r) := with_write net_step (init_world []) 8192 1 None false data [10; 3; 7; 3] in
   r = Ok tt /\ store_get 8192 1 (n_srv (w_s w')) = Some data /\ length (w_log w') = 12%nat).
Proof. vm_compute. repeat split; try reflexivity; discriminate. Qed.

(* an UNSIGNED16 entry whose server answers with four bytes and no size; a 9-byte value sent in
   segments of 3, 0, 7 bytes *)
Example C01_nv_upload :
  od_var_size 6 = Some 2 /\ od_var_size 9 = None /\
  (let sty := {| st_size_ind := false; st_expedite := true; st_exp_size := false; st_lazy_end := true; st_segs := [3; 0; 7] |} in
   expected_upload sty (Some 6) [52; 18; 0; 0] = [52; 18] /\
   let w := init_world [(8192, [1; 2; 3; 4; 5; 6; 7; 8; 9])] in
   let w := {| w_s := with_srv (set_style sty) (w_s w); w_q := [[96; 0; 0; 0; 0; 0; 0; 0]]; w_log := [] |} in
   Nat.ltb (length (st_segs (s_style (n_srv (w_s w))))) FUEL = true /\
   snd (sdo_upload net_step FUEL w 8192 0 None) = Ok [1; 2; 3; 4; 5; 6; 7; 8; 9] /\
   snd (open_read net_step FUEL [7; 2; 1; -1; 4; 4] w 8192 0) = Ok [1; 2; 3; 4; 5; 6; 7; 8; 9]).
Proof. vm_compute. repeat split; reflexivity. Qed.

Example C01_nv_back_to_back :
  let sty := {| st_size_ind := true; st_expedite := true; st_exp_size := true; st_lazy_end := false; st_segs := [2; 0] |} in
  let ts := [ {| t_style := sty; t_fault := None; t_pre := []; t_x := TDl 8192 5 [9; 8; 7; 6; 5; 4; 3; 2; 1] (Some 9) false [9; 2] |};
              {| t_style := sty; t_fault := None; t_pre := [[0; 1; 2; 3; 4; 5; 6; 7]]; t_x := TUl 8192 5 (OArrT [(0, Some 5); (1, Some 7)]) UUpload |};
              {| t_style := sty; t_fault := None; t_pre := []; t_x := TUl 4096 0 ONone URaw |} ] in
  seq_ok [(4096, [1; 2])] ts /\
  snd (spec_seq [(4096, [1; 2])] ts) = [VNone; VB [9; 8; 7; 6]; VB [1; 2]].
Proof.
  cbv zeta. split; [|vm_compute; reflexivity].
  cbn [seq_ok xfer_ok spec_xfer t_fault t_style t_x fst snd].
  repeat match goal with |- _ /\ _ => split end; try reflexivity; try exact I;
    try (unfold mux_ok; lia); try (vm_compute; reflexivity).
  - right. reflexivity.
  - vm_compute. repeat split; discriminate.
  - replace (zassoc (mux_key 8192 5) _) with (Some [9; 8; 7; 6; 5; 4; 3; 2; 1]) by reflexivity.
    repeat split; try exact I; try (unfold FUEL; cbn [length st_segs]; lia); vm_compute; reflexivity.
  - replace (zassoc (mux_key 4096 0) _) with (Some [1; 2]) by reflexivity.
    repeat split; try exact I; try (unfold FUEL; cbn [length st_segs]; lia); vm_compute; reflexivity.
Qed.

(* ---- Tie (c): source text -> model.  Gen/SrcC01.v is regenerated from the text of canopen/sdo/client.py on every run
   (tools/tables/src_c01.py): WritableStream.__init__ / write / close and ReadableStream.__init__ / read as state
   skeletons (which branch, byte 0 of the request, payload bytes copied, _toggle / _done / _error / pos / size
   afterwards, which exception).  The *_from_src functions (Proofs/Src_eq_c01.v) are the model functions rebuilt around
   those skeletons: the only decisions left outside the translated text are struct packing, the request/response
   exchange and slicing.  The model the theorems above speak about IS what the current source text says. ---- *)
Theorem C01_src_ws_init : forall (S : Type) (peer : S -> frame -> S * list frame) (w : world) idx sub size force,
  ws_init peer w idx sub size force = ws_init_from_src peer w idx sub size force.
Proof. exact @src_ws_init_eq. Qed.

Theorem C01_src_ws_write : forall (S : Type) (peer : S -> frame -> S * list frame) (w : world) st b,
  ws_write peer w st b = ws_write_from_src peer w st b.
Proof. exact @src_ws_write_eq. Qed.

Theorem C01_src_ws_close : forall (S : Type) (peer : S -> frame -> S * list frame) (w : world) st,
  ws_close peer w st = ws_close_from_src peer w st.
Proof. exact @src_ws_close_eq. Qed.

Theorem C01_src_rs_init : forall (S : Type) (peer : S -> frame -> S * list frame) (w : world) idx sub,
  rs_init peer w idx sub = rs_init_from_src peer w idx sub.
Proof. exact @src_rs_init_eq. Qed.

Theorem C01_src_rs_read : forall (S : Type) (peer : S -> frame -> S * list frame) (f : nat) (w : world) st size,
  0 <= size ->
  rs_read peer (Datatypes.S f) w st = rs_read_from_src peer (rs_read peer f) w st size.
Proof. exact @src_rs_read_eq. Qed.

(* readinto(b) with a buffer of cap bytes: read(7) only when nothing is pending, min(cap, pending) bytes handed out,
   the rest kept *)
Theorem C01_src_rs_readinto : forall (S : Type) (peer : S -> frame -> S * list (frame)) rf cap (w : world) st,
  0 <= cap -> rs_readinto peer rf cap w st = rs_readinto_from_src peer rf cap w st.
Proof. exact @src_rs_readinto_eq. Qed.

(* the exchange itself: which frame is awaited, when the queue is replaced, that ONE request is sent, and that a missing
   response is answered by the abort frame [0x80, 0, 0, 0, code little-endian] with the code in the source text (0x05040000)
   after MAX_RETRIES (regenerated: SDO_MAX_RETRIES) attempts *)
Theorem C01_src_request_response : forall (S : Type) (peer : S -> frame -> S * list (frame)) (w : world) req,
  request_response peer w req = request_response_from_src peer w req.
Proof. exact @src_request_response_eq. Qed.

Theorem C01_src_read_response : forall (S : Type) (w : @world S), read_response w = read_response_from_src w.
Proof. exact @src_read_response_eq. Qed.

Theorem C01_src_abort_frame : forall code, abort_frame code = abort_frame_from_src code.
Proof. exact src_abort_eq. Qed.

Theorem C01_src_upload_truncation : forall odt response_size data,
  truncate odt response_size data = truncate_from_src odt response_size data.
Proof. exact src_upload_eq. Qed.

(* non-vacuity of the tie: the skeletons on concrete states.  A 10-byte download of declared size: initiate byte 0x21;
   second segment (3 bytes at pos 7, toggle 0x10) has byte 0 = 0x10 | (7-3)<<1 | 1 = 0x19 and completes the stream;
   close() of an unfinished stream of unknown size sends 0x0F | toggle; an expedited upload response 0x4B (e, s, n=2)
   gives size 2; a final 2-byte upload segment 0x1B with toggle 0x10. *)
Example C01_nv_src :
  src_ws_init true 10 false false 96 = (1, 33, true, false, false, false, 0, 0) /\
  src_ws_init true 3 false false 96 = (1, 39, false, true, false, false, 0, 0) /\
  src_ws_write false false false true 10 7 16 3 false 48 0 0 false = (1, 25, 3, 0, true, false, 10, 3) /\
  src_ws_write false false false true 10 7 16 3 true 0 0 0 false = (6, 25, 3, 16, true, true, 7, 0) /\
  src_ws_close false false 16 false 0 = (true, 31, true) /\
  src_rs_init 8192 1 75 8192 1 4 0 false 0 0 = (1, true, 2, 1, 2, 0, false) /\
  src_rs_read false false 7 false false 16 7 27 0 0 = (7, 112, 0, true, 9, 2).
Proof. vm_compute. repeat split; reflexivity. Qed.

(* a lost response with an empty queue: one request sent, then the abort 0x05040000; a stale frame in the queue is
   dropped first; an abort frame from the server (0x80) raises SdoAbortedError *)
Example C01_nv_src_exchange :
  src_request_response SDO_MAX_RETRIES true true false 0 0 = (2, false, 1, 84148224, 0) /\
  src_request_response SDO_MAX_RETRIES false false false 0 0 = (1, true, 1, 0, 1) /\
  src_read_response false 128 = 1 /\ src_read_response false 96 = 2 /\ src_read_response true 0 = 0 /\
  abort_frame_from_src 84148224 = [128; 0; 0; 0; 0; 0; 4; 5].
Proof. vm_compute. repeat split; reflexivity. Qed.

Print Assumptions C01_download_delivers.
Print Assumptions C01_download_api.
Print Assumptions C01_upload_returns.
Print Assumptions C01_upload_numeric.
Print Assumptions C01_upload_plain.
Print Assumptions C01_array_member_declared.
Print Assumptions C01_raw_read_returns.
Print Assumptions C01_buffered_read_returns.
Print Assumptions C01_back_to_back.
Print Assumptions C01_src_ws_init.
Print Assumptions C01_src_ws_write.
Print Assumptions C01_src_ws_close.
Print Assumptions C01_src_rs_init.
Print Assumptions C01_src_rs_read.
Print Assumptions C01_src_upload_truncation.
Print Assumptions C01_src_request_response.
Print Assumptions C01_src_read_response.
Print Assumptions C01_src_abort_frame.
Print Assumptions C01_src_rs_readinto.
