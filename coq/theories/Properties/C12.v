(* C12 - SDO block download delivers exactly the payload or fails visibly.
   Statements only; every proof is [exact] of a lemma in Proofs/Block_proofs.v / Proofs/Crc_proofs.v.
   Model:  Model/BlockDl.v  (SdoClient transport, BlockDownloadStream.__init__/write/send/_block_ack/_retransmit/close,
           the with-block around one write call),  Model/Crc.v (CRC-16/XMODEM),
   peer:   Model/RefBlockServer.v (reference block download server from CiA 301 + fault injector),
   tables: Gen/SdoTables.v regenerated from /repo on every run.

   Closed system:  dl_transfer (faulty dl_srv) depth w0 index sub (Some size) crc_client payload
     w0 = the idle reference server announcing the block sizes [blks] (last one repeated), able to check a CRC
          iff [crc_server], behind the fault list; [depth] bounds the nesting write -> _block_ack -> _retransmit -> write.
   Result (Ok tt, w): the with-block returned normally; ds_store = the value the server committed;
   ds_bad = 0: the server saw no protocol violation (every segment in sequence with the expected number,
   c bit only on the last one, 8-byte frames). *)
From Coq Require Import ZArith List Bool.
From CV Require Import Base.Val Base.Bytes Model.Crc Model.RefBlockServer Model.BlockDl Proofs.Crc_proofs Proofs.Block_proofs.
Import ListNotations.
Open Scope Z_scope.

(* Undisturbed: every payload of declared size >= 1 (< 2^32: the size field), every sequence of block sizes 1..127,
   CRC capability of client and server in all four combinations: normal return, the server holds exactly the
   payload and accepted every frame (sequence numbers 1..blksize, last flag, unused-byte count, CRC when both
   sides support it - a wrong CRC or size would have made the server abort instead of commit). *)
Theorem C12_block_download_exact :
  forall (P blks : list Z) (index sub : Z) (crc_client crc_server : bool) (depth : nat),
  1 <= zlen P < 4294967296 -> blks <> [] -> Forall (fun b => 1 <= b <= 127) blks -> (1 <= depth)%nat ->
  exists w,
    dl_transfer (faulty dl_srv) depth (mknet (fs_init (ds_init blks crc_server) []) [] [])
                index sub (Some (zlen P)) crc_client P = (Ok tt, w) /\
    ds_store (f_inner (n_srv w)) = Some P /\ ds_bad (f_inner (n_srv w)) = 0.
Proof. exact block_download_exact. Qed.

(* One lost segment (the k-th segment = the (k+1)-th client frame) in a sub-block other than the final one:
   retransmission repairs it, the call returns normally and the server holds exactly the payload.
   [nonfinal_segment blks nseg k]: walking the announced block sizes, segment k falls into a sub-block
   that does not contain the last segment nseg. *)
Theorem C12_single_loss_repaired :
  forall (P blks : list Z) (index sub : Z) (crc_client crc_server : bool) (depth : nat) (k : Z),
  1 <= zlen P < 4294967296 -> blks <> [] -> Forall (fun b => 1 <= b <= 127) blks -> (2 <= depth)%nat ->
  1 <= k -> nonfinal_segment blks ((zlen P + 6) / 7) k = true ->
  exists w,
    dl_transfer (faulty dl_srv) depth (mknet (fs_init (ds_init blks crc_server) [FDropC (k + 1)]) [] [])
                index sub (Some (zlen P)) crc_client P = (Ok tt, w) /\
    ds_store (f_inner (n_srv w)) = Some P /\ ds_bad (f_inner (n_srv w)) = 0.
Proof. exact single_loss_repaired. Qed.

(* Any pattern of lost client frames (segments, also the initiate and the end request; [drops] lists the ordinals
   of the client frames that do not reach the server, arbitrary, also repeated or never reached): whatever happens -
   retransmissions, nested retransmissions, time-outs - a call that returns normally has committed exactly the
   payload.  Holds for every nesting bound [depth] (running out of it is an error, not a normal return). *)
Theorem C12_normal_return_means_committed :
  forall (P blks : list Z) (index sub : Z) (crc_client crc_server : bool) (depth : nat) (drops : list Z) w,
  1 <= zlen P < 4294967296 -> blks <> [] -> Forall (fun b => 1 <= b <= 127) blks ->
  dl_transfer (faulty dl_srv) depth (mknet (fs_init (ds_init blks crc_server) (map FDropC drops)) [] [])
              index sub (Some (zlen P)) crc_client P = (Ok tt, w) ->
  ds_store (f_inner (n_srv w)) = Some P.
Proof. exact normal_return_means_committed. Qed.

(* The chunk-wise CrcXmodem.process calls of the stream give the CRC of the whole payload. *)
Theorem C12_crc_chunkwise : forall c chunks, fold_left crc_from chunks c = crc_from c (concat chunks).
Proof. exact crc_from_concat. Qed.

(* ---- non-vacuity ---- *)
Example C12_nv_exact :
  let P := gen_bytes 20 1 in
  1 <= zlen P < 4294967296 /\ Forall (fun b => 1 <= b <= 127) [2; 1] /\
  nonfinal_segment [2; 1] ((zlen P + 6) / 7) 2 = true /\ nonfinal_segment [2; 1] ((zlen P + 6) / 7) 3 = false /\
  (let '(r, w) := dl_transfer (faulty dl_srv) 2 (mknet (fs_init (ds_init [2; 1] true) [FDropC 3]) [] []) 8192 0 (Some (zlen P)) true P in
   r = Ok tt /\ ds_store (f_inner (n_srv w)) = Some P /\ length (n_log w) = 11%nat).
Proof. vm_compute. repeat split; try reflexivity; try discriminate. repeat constructor; discriminate. Qed.

(* two lost segments in different non-final sub-blocks: the call still returns normally (hypothesis of
   C12_normal_return_means_committed met non-trivially); a loss in the final sub-block: the call fails *)
Example C12_nv_multi_loss :
  let P := gen_bytes 40 7 in
  (let '(r, w) := dl_transfer (faulty dl_srv) 4 (mknet (fs_init (ds_init [2] false) (map FDropC [2; 6])) [] []) 8192 0 (Some (zlen P)) true P in
   r = Ok tt /\ ds_store (f_inner (n_srv w)) = Some P) /\
  (let '(r, w) := dl_transfer (faulty dl_srv) 4 (mknet (fs_init (ds_init [2] false) (map FDropC [7])) [] []) 8192 0 (Some (zlen P)) true P in
   r <> Ok tt /\ ds_store (f_inner (n_srv w)) = None).
Proof. vm_compute. repeat split; try reflexivity; discriminate. Qed.

Print Assumptions C12_block_download_exact.
Print Assumptions C12_single_loss_repaired.
Print Assumptions C12_normal_return_means_committed.
Print Assumptions C12_crc_chunkwise.
