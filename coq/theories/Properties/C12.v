(* C12 - SDO block download delivers exactly the payload or fails visibly.
   Statements only; every proof is [exact] of a lemma in Proofs/Block_proofs.v / Proofs/Crc_proofs.v.
   Model:  Model/BlockDl.v  (SdoClient transport, BlockDownloadStream.__init__/write/send/_block_ack/_retransmit/close,
           the with-block around one write call),  Model/Crc.v (CRC-16/XMODEM),
   peer:   Model/RefBlockServer.v (reference block download server from CiA 301 + fault injector),
   tables: Gen/SdoTables.v regenerated from /repo on every run.

   Closed system:  dl_transfer (faulty dl_srv) depth w0 index sub (Some size) crc_client payload
     w0 = the idle reference server announcing the block sizes [blks] (last one repeated), able to check a CRC
          iff [crc_server], behind the fault list; [depth] bounds the nesting write -> _block_ack -> _retransmit -> write.
   Result (Ok tt, w): the with-block returned normally; ds_store = the value the server committed;
   ds_bad = 0: the server saw no protocol violation (every segment in sequence with the expected number,
   c bit only on the last one, 8-byte frames). *)
From Coq Require Import ZArith List Bool.
From CV Require Import Base.Val Base.Bytes Model.Crc Model.RefBlockServer Model.BlockDl Proofs.Crc_proofs Proofs.Block_proofs Gen.SdoTables Gen.SrcC12 Proofs.Src_eq_c12.
Import ListNotations.
Open Scope Z_scope.

(* Undisturbed: every payload of declared size >= 1 (< 2^32: the size field), every sequence of block sizes 1..127,
   CRC capability of client and server in all four combinations: normal return, the server holds exactly the
   payload and accepted every frame (sequence numbers 1..blksize, last flag, unused-byte count, CRC when both
   sides support it - a wrong CRC or size would have made the server abort instead of commit). *)
Theorem C12_block_download_exact :
  forall (P blks : list Z) (index sub : Z) (crc_client crc_server : bool) (depth : nat),
  1 <= zlen P < 4294967296 -> blks <> [] -> Forall (fun b => 1 <= b <= 127) blks -> (1 <= depth)%nat ->
  exists w,
    dl_transfer (faulty dl_srv) depth (mknet (fs_init (ds_init blks crc_server) []) [] [])
                index sub (Some (zlen P)) crc_client P = (Ok tt, w) /\
    ds_store (f_inner (n_srv w)) = Some P /\ ds_bad (f_inner (n_srv w)) = 0.
Proof. exact block_download_exact. Qed.

(* One lost segment (the k-th segment = the (k+1)-th client frame) in a sub-block other than the final one:
   retransmission repairs it, the call returns normally and the server holds exactly the payload.
   [nonfinal_segment blks nseg k]: walking the announced block sizes, segment k falls into a sub-block
   that does not contain the last segment nseg. *)
Theorem C12_single_loss_repaired :
  forall (P blks : list Z) (index sub : Z) (crc_client crc_server : bool) (depth : nat) (k : Z),
  1 <= zlen P < 4294967296 -> blks <> [] -> Forall (fun b => 1 <= b <= 127) blks -> (2 <= depth)%nat ->
  1 <= k -> nonfinal_segment blks ((zlen P + 6) / 7) k = true ->
  exists w,
    dl_transfer (faulty dl_srv) depth (mknet (fs_init (ds_init blks crc_server) [FDropC (k + 1)]) [] [])
                index sub (Some (zlen P)) crc_client P = (Ok tt, w) /\
    ds_store (f_inner (n_srv w)) = Some P /\ ds_bad (f_inner (n_srv w)) = 0.
Proof. exact single_loss_repaired. Qed.

(* Any pattern of lost client frames (segments, also the initiate and the end request; [drops] lists the ordinals
   of the client frames that do not reach the server, arbitrary, also repeated or never reached): whatever happens -
   retransmissions, nested retransmissions, time-outs - a call that returns normally has committed exactly the
   payload.  Holds for every nesting bound [depth] (running out of it is an error, not a normal return). *)
Theorem C12_normal_return_means_committed :
  forall (P blks : list Z) (index sub : Z) (crc_client crc_server : bool) (depth : nat) (drops : list Z) w,
  1 <= zlen P < 4294967296 -> blks <> [] -> Forall (fun b => 1 <= b <= 127) blks ->
  dl_transfer (faulty dl_srv) depth (mknet (fs_init (ds_init blks crc_server) (map FDropC drops)) [] [])
              index sub (Some (zlen P)) crc_client P = (Ok tt, w) ->
  ds_store (f_inner (n_srv w)) = Some P.
Proof. exact normal_return_means_committed. Qed.

(* The chunk-wise CrcXmodem.process calls of the stream give the CRC of the whole payload. *)
Theorem C12_crc_chunkwise : forall c chunks, fold_left crc_from chunks c = crc_from c (concat chunks).
Proof. exact crc_from_concat. Qed.

(* ---- Tie (c): source text -> model.  Gen/SrcC12.v is regenerated from the text of canopen/sdo/client.py on every run
   (tools/tables/src_c12.py, state skeletons: attributes read = parameters, attributes written and ghost flags = result
   tuple).  The equations say that the model functions the theorems above speak about are determined by the translated
   functions: branch taken, byte 0 on the bus (sequence number, c bit 0x80, end request with the unused-byte count and
   CRC field), when the CRC is fed, when the acknowledge is awaited, retransmit decision, new _blksize / _seqno. ---- *)
Theorem C12_src_write : forall (S : Type) (srv : S -> frame -> S * list frame)
    (rec_write : dl -> @net S -> list Z -> @R S (option Z)) c w b,
  write_body srv rec_write c w b =
  let data := firstn 7 b in
  let act := src_dl_write (d_done c) (zsome (d_size c)) (zget (d_size c)) (d_pos c) (zlen data) 0 in
  if act =? 0 then (Err E_RUNTIME, c, w)
  else if act =? 1 then lift_send (zlen data) (send srv rec_write c w data true)
  else if act =? 2 then (Ok None, c, w)
  else lift_send (zlen data) (send srv rec_write c w data false).
Proof. exact @src_dl_write_eq. Qed.

Theorem C12_src_send : forall (S : Type) (srv : S -> frame -> S * list frame)
    (rec_write : dl -> @net S -> list Z -> @R S (option Z)) c w b e,
  send srv rec_write c w b e =
  let '(byte0, seqno, done, blksize, last, pos, crcp, ack) :=
    src_dl_send e (d_seqno c) (d_blksize c) (zlen b) (d_last c) (d_pos c) (d_done c) (d_crcsup c) (d_retx c) 0 false false in
  let w1 := send_request srv w (pad8 (byte0 :: b)) in
  let c1 := mkdl (d_size c) pos done seqno (if crcp then crc_from (d_crc c) b else d_crc c) last (d_cur c ++ [b])
                 (d_retx c) blksize (d_crcsup c) (d_closed c) in
  if ack then block_ack srv rec_write c1 w1 else (Ok tt, c1, w1).
Proof. exact @src_dl_send_eq. Qed.

Theorem C12_src_block_ack : forall (S : Type) (srv : S -> frame -> S * list frame)
    (rec_write : dl -> @net S -> list Z -> @R S (option Z)) c w,
  block_ack srv rec_write c w =
  match read_response w with
  | (Err k, w1) => (Err k, c, w1)
  | (Abort a, w1) => (Abort a, c, w1)
  | (Ok r, w1) =>
      let '(code, abort, blksize, seqno, cleared) :=
        src_dl_block_ack (fb r 0) (fb r 1) (fb r 2) (d_blksize c) (d_seqno c) 0 0 false in
      if code =? 0 then (Err E_SDOCOMM, c, client_abort srv w1 abort)
      else if code =? 2 then retransmit rec_write c w1 (fb r 1) (fb r 2)
      else (Ok tt, mkdl (d_size c) (d_pos c) (d_done c) seqno (d_crc c) (d_last c) (if cleared then [] else d_cur c)
                        (d_retx c) blksize (d_crcsup c) (d_closed c), w1)
  end.
Proof. exact @src_dl_block_ack_eq. Qed.

Theorem C12_src_close : forall (S : Type) (srv : S -> frame -> S * list frame) c (w : @net S),
  dl_close srv c w =
  let sk rc := src_dl_close (d_closed c) (d_done c) (d_last c) (d_crcsup c) (d_crc c) rc 0 0 false 0 in
  let '(code0, byte0, crch, crcf) := sk 1 in
  if code0 =? 0 then (Ok tt, w)
  else
    match request_response srv w (byte0 :: (if crch then [crcf mod 256; crcf / 256] else [0; 0]) ++ [0; 0; 0; 0; 0]) with
    | (Err k, w1) => (Err k, w1)
    | (Abort a, w1) => (Abort a, w1)
    | (Ok r, w1) => let '(code, _, _, _) := sk (fb r 0) in
                    if code =? 1 then (Ok tt, w1) else (Err E_SDOCOMM, w1)
    end.
Proof. exact @src_dl_close_eq. Qed.

(* ---- non-vacuity ---- *)
Example C12_nv_exact :
  let P := gen_bytes 20 1 in
  1 <= zlen P < 4294967296 /\ Forall (fun b => 1 <= b <= 127) [2; 1] /\
  nonfinal_segment [2; 1] ((zlen P + 6) / 7) 2 = true /\ nonfinal_segment [2; 1] ((zlen P + 6) / 7) 3 = false /\
  (let '(r, w) := dl_transfer (faulty dl_srv) 2 (mknet (fs_init (ds_init [2; 1] true) [FDropC 3]) [] []) 8192 0 (Some (zlen P)) true P in
   r = Ok tt /\ ds_store (f_inner (n_srv w)) = Some P /\ length (n_log w) = 11%nat).
Proof. vm_compute. repeat split; try reflexivity; try discriminate. repeat constructor; discriminate. Qed.

(* two lost segments in different non-final sub-blocks: the call still returns normally (hypothesis of
   C12_normal_return_means_committed met non-trivially); a loss in the final sub-block: the call fails *)
Example C12_nv_multi_loss :
  let P := gen_bytes 40 7 in
  (let '(r, w) := dl_transfer (faulty dl_srv) 4 (mknet (fs_init (ds_init [2] false) (map FDropC [2; 6])) [] []) 8192 0 (Some (zlen P)) true P in
   r = Ok tt /\ ds_store (f_inner (n_srv w)) = Some P) /\
  (let '(r, w) := dl_transfer (faulty dl_srv) 4 (mknet (fs_init (ds_init [2] false) (map FDropC [7])) [] []) 8192 0 (Some (zlen P)) true P in
   r <> Ok tt /\ ds_store (f_inner (n_srv w)) = None).
Proof. vm_compute. repeat split; try reflexivity; discriminate. Qed.

Print Assumptions C12_block_download_exact.
Print Assumptions C12_single_loss_repaired.
Print Assumptions C12_normal_return_means_committed.
Print Assumptions C12_crc_chunkwise.
Print Assumptions C12_src_write.
Print Assumptions C12_src_send.
Print Assumptions C12_src_block_ack.
Print Assumptions C12_src_close.
