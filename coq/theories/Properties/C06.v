(* C06 - Refused SDO accesses report the standard abort code and change nothing.
   Statements only; every proof is [exact] of a lemma in Proofs/SdoServer_proofs.v.
   Model: Model/SdoServer.v (server, node, dictionary look-ups, SdoClient.read_response),
   reference client: Model/RefClient.v; abort-code table: Gen/SdoTables.v (regenerated).

   [refused_upload d rcb st idx sub fuel code]: the conformant client's upload of idx:sub from ANY
   server state ends with the single frame  80 idx sub code  (abort, multiplexer of the transfer)
   and data_store and callback log are as before.
   [refused_download d rcb st idx sub data mode fuel code]: the conformant client's download of
   [data] in [mode] (0 expedited with size, 1 expedited without, 2 segmented with size,
   3 segmented without) ends with the frame  80 idx sub code  as the last response, data_store is
   unchanged and no callback was invoked.  For segmented transfers the code being modelled answers
   the initiate request and the non-final segments normally and refuses on the final segment;
   the standard lets a server abort at any point of a transfer, the property does not say when. *)
From Coq Require Import ZArith List Bool.
From CV Require Import Base.Val Base.Bytes Base.Tys Gen.Tables Gen.SdoTables Model.Codec Model.RefClient
  Model.SdoServer Proofs.SdoServer_proofs Gen.SrcC06 Proofs.Src_eq_c06.
Import ListNotations.
Open Scope Z_scope.

(* reading a write-only entry: 0x06010001 *)
Theorem C06_read_write_only : forall d rcb st idx sub v fuel,
  0 <= idx < 65536 -> 0 <= sub < 256 ->
  find_object d idx sub = Ok v -> readable v = false ->
  refused_upload d rcb st idx sub fuel 0x06010001.
Proof. exact read_write_only'. Qed.

(* writing a read-only or constant entry (anything whose access type has no "w"): 0x06010002,
   expedited and segmented, whatever the payload *)
Theorem C06_write_read_only : forall d rcb st idx sub v data mode req fuel,
  0 <= idx < 65536 -> 0 <= sub < 256 ->
  download_request idx sub data mode = Some req ->
  find_object d idx sub = Ok v -> writable v = false ->
  (length data <= 7 * fuel)%nat -> (1 <= fuel)%nat ->
  refused_download d rcb st idx sub data mode fuel 0x06010002.
Proof. exact write_read_only. Qed.

(* missing index: 0x06020000 for reads and writes *)
Theorem C06_missing_index : forall d rcb st idx sub fuel,
  0 <= idx < 65536 -> 0 <= sub < 256 -> zassoc idx d = None ->
  refused_upload d rcb st idx sub fuel 0x06020000 /\
  forall data mode req, download_request idx sub data mode = Some req ->
    (length data <= 7 * fuel)%nat -> (1 <= fuel)%nat -> refused_download d rcb st idx sub data mode fuel 0x06020000.
Proof. exact missing_index. Qed.

(* missing sub-index ([sub_missing]: sub-index <> 0 of a plain variable, a sub-index a record does
   not have, a sub-index an array neither has nor can answer from its first member): 0x06090011 *)
Theorem C06_missing_subindex : forall d rcb st idx sub fuel,
  0 <= idx < 65536 -> 0 <= sub < 256 -> sub_missing d idx sub ->
  refused_upload d rcb st idx sub fuel 0x06090011 /\
  forall data mode req, download_request idx sub data mode = Some req ->
    (length data <= 7 * fuel)%nat -> (1 <= fuel)%nat -> refused_download d rcb st idx sub data mode fuel 0x06090011.
Proof. exact missing_subindex. Qed.

(* writing an integer or floating-point entry (data type in NUMBER_TYPES) with a payload whose
   length is not the type's: 0x06070010 *)
Theorem C06_wrong_length : forall d rcb st idx sub v data mode req fuel,
  0 <= idx < 65536 -> 0 <= sub < 256 ->
  download_request idx sub data mode = Some req ->
  find_object d idx sub = Ok v -> writable v = true -> is_number v = true -> 8 * zlen data <> len_bits (v_dt v) ->
  (length data <= 7 * fuel)%nat -> (1 <= fuel)%nat ->
  refused_download d rcb st idx sub data mode fuel 0x06070010.
Proof. exact write_wrong_length. Qed.

(* reading an entry that has no value (no callback result, nothing stored, no parameter value, no
   default): 0x060A0023; the read callback has been asked, nothing else happened *)
Theorem C06_no_value : forall d rcb st idx sub v fuel,
  0 <= idx < 65536 -> 0 <= sub < 256 ->
  find_object d idx sub = Ok v -> readable v = true -> no_value rcb st idx sub v ->
  exists st', ref_upload (on_request d rcb) fuel st idx sub =
                (st', Abort 0x060A0023, [abort_frame_of idx sub 0x060A0023]) /\
              s_store st' = s_store st /\ s_log st' = s_log st ++ [EvR idx sub].
Proof. exact read_no_value. Qed.

(* a segment request (upload or download, any other bits, any length) whose toggle bit is not the
   expected one: exactly one abort 0x05030000 naming the multiplexer of the running transfer; the
   whole state (buffer, toggle, store, log) is unchanged *)
Theorem C06_wrong_toggle : forall d rcb st c rest,
  0 <= c < 256 -> 0 <= s_index st < 65536 -> 0 <= s_sub st < 256 ->
  (c / 32 = 0 \/ c / 32 = 3) -> 16 * ((c / 16) mod 2) <> s_toggle st ->
  on_request d rcb st (c :: rest) = (st, [abort_frame_of (s_index st) (s_sub st) 0x05030000], false).
Proof. exact wrong_toggle. Qed.

(* block download (not supported) and the unassigned command specifier 7: exactly one abort
   0x05040001 naming the multiplexer of the running transfer (zero before any); state unchanged *)
Theorem C06_unknown_command : forall d rcb st c rest,
  0 <= c < 256 -> 0 <= s_index st < 65536 -> 0 <= s_sub st < 256 ->
  (c / 32 = 6 \/ c / 32 = 7) ->
  on_request d rcb st (c :: rest) = (st, [abort_frame_of (s_index st) (s_sub st) 0x05040001], false).
Proof. exact unknown_command. Qed.

(* the hypotheses on s_index / s_sub hold in every state reachable from a fresh server
   (C02_step_invariant); here for histories *)
Theorem C06_reachable_states_in_range : forall d rcb st req,
  mux_inv st -> frame_ok req -> mux_inv (fst (fst (on_request d rcb st req))).
Proof. exact reachable_in_range. Qed.

(* client side: for every code below 2^32 the abort frame makes SdoClient.read_response raise
   SdoAbortedError with exactly that code *)
Theorem C06_client_abort_decoding : forall idx sub code, 0 <= code < 2 ^ 32 ->
  client_read_response (Some (abort_frame_of idx sub code)) = Abort code.
Proof. exact client_abort_decoding. Qed.

(* the codes the server uses are entries of SdoAbortedError.CODES (regenerated table) *)
Theorem C06_codes_in_table : forallb (fun c => zmem c ABORT_CODES) codes_used = true.
Proof. exact codes_in_table. Qed.

(* ---- Tie to the source text (Gen/SrcC06.v is regenerated from /repo by tools/tables/src_c06.py on every run):
   the translated functions determine the model functions the theorems above are about. ---- *)
(* _find_object: missing index -> 0x06020000, then missing sub-index -> 0x06090011 (records/arrays by membership, plain variables by sub-index <> 0) *)
Theorem C06_src_find_object : forall d idx sub,
  code_of (find_object d idx sub) = src_find_object (has_index d idx) (is_var d idx) (has_sub d idx sub) sub /\
  (forall k, find_object d idx sub <> Err k).
Proof. exact src_find_object_eq. Qed.

(* get_data: _find_object first, then not readable -> 0x06010001 BEFORE any callback, then read callback / data_store / value / default in this order, else 0x060A0023 *)
Theorem C06_src_get_data : forall d rcb st idx sub chk,
  match find_object d idx sub with
  | Ok v =>
      let '(code, src, cbrun) :=
        src_get_data 0 chk (readable v) (osome6 (rcb idx sub)) (osome6 (store_get (s_store st) idx sub))
                     (osome6 (v_value v)) (osome6 (v_default v)) false in
      get_data d rcb st idx sub chk =
        (if cbrun then log_ev st (EvR idx sub) else st,
         if code =? 0 then value_from rcb st idx sub v src else Abort code)
  | Abort c =>
      get_data d rcb st idx sub chk = (st, Abort c) /\
      forall r h s a b, src_get_data c chk r h s a b false = (c, 0, false)
  | Err _ => False
  end.
Proof. exact src_get_data_eq. Qed.

(* set_data: _find_object, then not writable -> 0x06010002, then the numeric length check -> 0x06070010, and only then the write callbacks followed by the store; a refusal stores nothing and runs no callback *)
Theorem C06_src_set_data : forall d st idx sub data chk,
  match find_object d idx sub with
  | Ok v =>
      let '(code, stored, cbrun, cbfirst) :=
        src_set_data 0 chk (writable v) (dt_or v) (zlen data) (len_bits (v_dt v)) 0 false false false in
      set_data d st idx sub data chk =
        (if code =? 0 then (store_put (log_ev st (EvW idx sub data)) idx sub data, Ok tt) else (st, Abort code)) /\
      (if code =? 0 then stored = true /\ cbrun = true /\ cbfirst = true else stored = false /\ cbrun = false)
  | Abort c =>
      set_data d st idx sub data chk = (st, Abort c) /\
      forall w t n l, src_set_data c chk w t n l 0 false false false = (c, false, false, false)
  | Err _ => False
  end.
Proof. exact src_set_data_eq. Qed.

(* on_request: the handler selected by command & 0xE0; SdoAbortedError(code) -> abort(code), KeyError -> abort(0x06020000), anything else -> abort() with the default code; block download and unknown specifiers -> 0x05040001 *)
Theorem C06_src_dispatch : forall d rcb st c rest,
  on_request d rcb st (c :: rest) =
  let h := src_dispatch c 0 in
  let '(st1, r) :=
    if h =? 1 then init_upload d rcb st (c :: rest)
    else if h =? 2 then segmented_upload st c
    else if h =? 3 then init_download d st (c :: rest)
    else if h =? 4 then segmented_download d st c (c :: rest)
    else if h =? 5 then (if src_block_upload 0 =? 1 then init_upload d rcb st (c :: rest) else (st, Err E_FUEL))
    else if h =? 6 then (st, Abort (src_block_download 0))
    else if h =? 7 then request_aborted st (c :: rest)
    else (st, Abort 0x05040001) in
  match r with
  | Ok rs => (st1, rs, false)
  | Abort code => do_abort st1 code
  | Err k => do_abort st1 (if k =? E_KEY then 0x06020000 else src_abort_default)
  end.
Proof. exact src_dispatch_eq. Qed.

(* segmented_download: toggle mismatch -> 0x05030000 BEFORE any state change; buffer extended by request[1:last_byte], set_data only on the last segment, toggle and response only when it succeeded *)
Theorem C06_src_segmented_download : forall d st command req buf,
  s_buf st = Some buf ->
  let lb := 8 - Z.land (Z.shiftr command 1) 7 in
  let buf1 := buf ++ firstn (Z.to_nat (lb - 1)) (skipn 1 req) in
  let st1 := set_buf st (Some buf1) (s_toggle st) in
  let sd := set_data d st1 (s_index st) (s_sub st) buf1 true in
  let '(code, extended, last_byte, setcalled, resc, tg) :=
    src_segmented_download command (s_toggle st) (code_of (snd sd)) false false in
  if negb extended then code = 0x05030000 /\ segmented_download d st command req = (st, Abort code)
  else last_byte = lb /\
       if code =? 0 then
         let st2 := if setcalled then fst sd else st1 in
         segmented_download d st command req = (set_buf st2 (s_buf st2) tg, Ok [[resc; 0; 0; 0; 0; 0; 0; 0]])
       else setcalled = true /\ segmented_download d st command req = (fst sd, Abort code).
Proof. exact src_segmented_download_eq. Qed.

(* abort(): 0x80, multiplexer of the running transfer, code *)
Theorem C06_src_abort_frame : forall st code,
  0 <= s_index st < 65536 -> 0 <= s_sub st < 256 -> 0 <= code < 2 ^ 32 ->
  let '(b0, i, s, c, sent) := src_abort_frame (s_index st) (s_sub st) code false in
  abort_frame st code = Some (b0 :: le_encode 2 i ++ [s] ++ le_encode 4 c) /\ sent = true /\
  do_abort st code = (st, [abort_frame_of (s_index st) (s_sub st) code], false).
Proof. exact src_abort_frame_eq. Qed.

(* ---- non-vacuity ---- *)
Example C06_nv_read_write_only :
  let d := [(0x2003, OVar (mkVar (Some dt_UNSIGNED16) [119; 111] None None))] in
  find_object d 0x2003 0 = Ok (mkVar (Some dt_UNSIGNED16) [119; 111] None None) /\
  readable (mkVar (Some dt_UNSIGNED16) [119; 111] None None) = false /\
  snd (fst (ref_upload (on_request d nv_rcb) 2 (fresh_state []) 0x2003 0)) = Abort 0x06010001.
Proof. repeat split; vm_compute; reflexivity. Qed.

Example C06_nv_write_read_only :
  let ro := mkVar (Some dt_DOMAIN) [99; 111; 110; 115; 116] (Some (PBytes [1])) None in
  let d := [(0x2002, ORec [(0, ro); (3, ro)])] in
  writable ro = false /\
  snd (fst (ref_download (on_request d nv_rcb) 4 (fresh_state []) 0x2002 3 nv_data 2)) = Abort 0x06010002 /\
  snd (fst (ref_download (on_request d nv_rcb) 4 (fresh_state []) 0x2002 3 [1; 2] 0)) = Abort 0x06010002 /\
  s_store (fst (fst (ref_download (on_request d nv_rcb) 4 (fresh_state []) 0x2002 3 nv_data 2))) = [].
Proof. repeat split; vm_compute; reflexivity. Qed.

Example C06_nv_missing :
  let a := mkVar (Some dt_UNSIGNED8) [114; 119] (Some (PInt 1)) None in
  let d := [(0x2000, OVar a); (0x2001, OArr [(0, a)]); (0x2002, OArr [(0, a); (1, a)])] in
  zassoc 0x3000 d = None /\ sub_missing d 0x2000 5 /\ sub_missing d 0x2001 4 /\ ~ sub_missing d 0x2002 4 /\
  snd (fst (ref_upload (on_request d nv_rcb) 2 (fresh_state []) 0x3000 0)) = Abort 0x06020000 /\
  snd (fst (ref_upload (on_request d nv_rcb) 2 (fresh_state []) 0x2001 4)) = Abort 0x06090011 /\
  snd (fst (ref_upload (on_request d nv_rcb) 2 (fresh_state []) 0x2002 4)) = Ok [1].
Proof.
  cbv zeta. split; [reflexivity|]. split; [vm_compute; discriminate|].
  split; [vm_compute; split; [reflexivity|right; reflexivity]|].
  split; [vm_compute; intros (_ & [H | H]); [apply H; split; reflexivity|discriminate]|].
  repeat split; vm_compute; reflexivity.
Qed.

Example C06_nv_wrong_length :
  let u16 := mkVar (Some dt_UNSIGNED16) [114; 119] None None in
  let d := [(0x2001, OVar u16)] in
  is_number u16 = true /\ 8 * zlen [1; 2; 3] <> len_bits (v_dt u16) /\
  snd (fst (ref_download (on_request d nv_rcb) 4 (fresh_state []) 0x2001 0 [1; 2; 3] 0)) = Abort 0x06070010 /\
  snd (fst (ref_download (on_request d nv_rcb) 4 (fresh_state []) 0x2001 0 [1; 2; 3; 4; 5; 6; 7; 8; 9] 3)) = Abort 0x06070010.
Proof. cbv zeta. split; [reflexivity|]. split; [vm_compute; discriminate|]. split; vm_compute; reflexivity. Qed.

Example C06_nv_no_value :
  let e := mkVar (Some dt_DOMAIN) [114; 111] None None in
  no_value nv_rcb (fresh_state []) 0x2000 0 e /\
  snd (fst (ref_upload (on_request [(0x2000, OVar e)] nv_rcb) 2 (fresh_state []) 0x2000 0)) = Abort 0x060A0023.
Proof. cbv zeta. split; [repeat split|vm_compute; reflexivity]. Qed.

(* a running 20-byte upload; the second segment request repeats toggle 0 *)
Example C06_nv_wrong_toggle :
  let st1 := fst (fst (on_request nv_dict nv_rcb (fresh_state []) [0x40; 0; 0x20; 0; 0; 0; 0; 0])) in
  let st2 := fst (fst (on_request nv_dict nv_rcb st1 [0x60; 0; 0; 0; 0; 0; 0; 0])) in
  16 * ((0x60 / 16) mod 2) <> s_toggle st2 /\
  snd (fst (on_request nv_dict nv_rcb st2 [0x60; 0; 0; 0; 0; 0; 0; 0])) = [[0x80; 0; 0x20; 0; 0; 0; 3; 5]].
Proof. cbv zeta. split; [vm_compute; discriminate|vm_compute; reflexivity]. Qed.

Example C06_nv_client_abort_decoding :
  client_read_response (Some (abort_frame_of 0x1018 2 0xFFFFFFFF)) = Abort 0xFFFFFFFF /\
  client_read_response (Some [0x80; 0; 0x20; 0; 0x11; 0; 9; 6]) = Abort 0x06090011.
Proof. split; vm_compute; reflexivity. Qed.

Print Assumptions C06_read_write_only.
Print Assumptions C06_write_read_only.
Print Assumptions C06_missing_index.
Print Assumptions C06_missing_subindex.
Print Assumptions C06_wrong_length.
Print Assumptions C06_no_value.
Print Assumptions C06_wrong_toggle.
Print Assumptions C06_unknown_command.
Print Assumptions C06_reachable_states_in_range.
Print Assumptions C06_client_abort_decoding.
Print Assumptions C06_codes_in_table.
Print Assumptions C06_src_find_object.
Print Assumptions C06_src_get_data.
Print Assumptions C06_src_set_data.
Print Assumptions C06_src_dispatch.
Print Assumptions C06_src_segmented_download.
Print Assumptions C06_src_abort_frame.
