(* C19 - CiA 402 state decoding and commanded transitions follow the drive state machine.
   Statements only; every proof is [exact] of a lemma in Proofs/P402_proofs.v.
   Model: Model/P402.v (State402 tables, BaseNode402.state getter / setter, _next_state,
   _change_state, next_state_indirect, is_op_mode_supported, op_mode) run against the reference
   CiA 402 drive Model/RefDrive.v (written from the standard); tables: Gen/P402Tables.v,
   regenerated from /repo on every run.
   Not modelled: the wall-clock time-outs of the setters (a loop left by time-out is out of fuel). *)
From Coq Require Import ZArith List Bool String.
From CV Require Import Base.Val Base.Tys Gen.P402Tables Model.RefDrive Model.P402 Proofs.P402_proofs Gen.SrcC19 Proofs.Src_eq_c19.
Import ListNotations.
Open Scope Z_scope.

(* Every 16-bit statusword is reported as the CiA 402 state whose hand-written pattern
   (RefDrive.sw_pattern) matches, as UNKNOWN when none matches, and never two patterns match
   (cia_decode returns "AMBIGUOUS" only when List.length (cia_states_of sw) > 1).
   Bound 65536 = all statuswords; proved through the 128 values of the pattern bits. *)
Theorem C19_statusword_decoding : forall sw : Z, 0 <= sw < 65536 ->
  decode_state sw = cia_decode sw /\ (List.length (cia_states_of sw) <= 1)%nat.
Proof. exact statusword_decoding. Qed.

(* the same for every Python int *)
Theorem C19_statusword_decoding_any : forall sw : Z,
  decode_state sw = cia_decode sw /\ (List.length (cia_states_of sw) <= 1)%nat.
Proof. exact statusword_decoding_any. Qed.

(* bits outside the patterns (0x6F) are ignored, for arbitrary integers *)
Theorem C19_decode_ignores_extra_bits : forall sw extra : Z,
  Z.land extra 111 = 0 -> decode_state (Z.lor sw extra) = decode_state sw.
Proof. exact decode_ignores_extra_bits. Qed.

(* whatever a drive in state s reports in the don't-care bits, the state is reported as s *)
Theorem C19_drive_statusword_decodes : forall (s : dstate) (extra : Z),
  decode_state (sw_of s extra) = dstate_name s.
Proof. exact decode_sw_of. Qed.

(* For each of the 8 start states x, each of the 5 commandable targets t, EVERY schedule s of the
   automatic transitions (no bound on its length), every choice of the don't-care status bits and
   both transports of the statusword: `node.state = t` returns (PDone) within K + |s| status reads
   (K = 40; more reads would give PFail E_FUEL), the drive is then in t, and no controlword with the
   enable-operation command (0xxx 1111) was sent unless t is OPERATION ENABLED or QUICK STOP ACTIVE. *)
Theorem C19_commanded_transitions : forall (by_pdo : bool) (x t : dstate) (s : list bool) (extra : Z),
  commandable t = true ->
  let '(p, d) := run_setter by_pdo (K + List.length s) (dstate_name t) (drive_init x s extra) in
  p = PDone /\ d_st d = t /\
  (may_enable t = false -> forall c, In c (d_cws d) -> is_enable_operation c = false).
Proof. exact commanded_transitions. Qed.

(* NOT READY TO SWITCH ON, FAULT, FAULT REACTION ACTIVE: refused (ValueError) after one status read and
   before any controlword, unless that first read already shows the target (then a no-op). *)
Theorem C19_uncommandable_refused : forall (by_pdo : bool) (x t : dstate) (s : list bool) (extra : Z) (n : nat),
  commandable t = false ->
  let first := if hd true s then auto x else x in
  let '(p, d) := run_setter by_pdo (S n) (dstate_name t) (drive_init x s extra) in
  p = (if dstate_eqb first t then PDone else PFail E_VALUE) /\ d_cws d = [] /\ d_reads d = 1 /\ d_st d = first.
Proof. exact uncommandable_refused. Qed.

(* operation modes: hand-written CiA 402 table (RefDrive.cia402_modes: name, code of 0x6060, bit in 0x6502)
   against the regenerated OperationMode tables, for every supported-modes value *)
Theorem C19_op_mode_supported : forall name code bit support, In (name, (code, bit)) cia402_modes ->
  is_op_mode_supported name support = Ok (mode_advertised support bit).
Proof. exact supported_spec. Qed.

(* assignment of a mode: refused (TypeError, nothing written) iff the mask lacks the mode's bit; otherwise
   exactly the CiA 402 code is written, and the assignment returns once the drive displays it (lag reads) *)
Theorem C19_op_mode_rules : forall name code bit support display lag,
  In (name, (code, bit)) cia402_modes ->
  let '(r, d) := set_op_mode (S lag) name (mdrive_init support display lag) in
  if mode_advertised support bit
  then m_writes d = [code] /\ (display_known display -> r = Ok tt)
  else r = Err E_TYPE /\ m_writes d = [].
Proof. exact op_mode_rules. Qed.

(* ---- non-vacuity ---- *)
Example C19_nv_decoding : cia_decode 4663 = "OPERATION ENABLED"%string /\ cia_states_of 4663 = [OperationEnabled] /\
  cia_decode 13 = "UNKNOWN"%string /\ decode_state 65471 = "FAULT REACTION ACTIVE"%string /\
  sw_of Fault 65535 = 65464.
Proof. vm_compute. repeat split; reflexivity. Qed.

(* a racy run: the automatic transition fires at the third read; the target needs four commanded transitions *)
Example C19_nv_transitions : commandable OperationEnabled = true /\ commandable SwitchedOn = true /\
  (let '(p, d) := run_setter false (K + 3) "SWITCHED ON" (drive_init NotReady [false; false; true] 33808) in
   (p, d_st d, rev (d_cws d), d_reads d)) = (PDone, SwitchedOn, [6; 7], 12) /\
  (let '(p, d) := run_setter true (K + 3) "QUICK STOP ACTIVE" (drive_init FaultReaction [false; false; false] 0) in
   (p, d_st d, rev (d_cws d))) = (PDone, QuickStopActive, [0; 128; 6; 7; 15; 2]) /\
  is_enable_operation 15 = true /\ may_enable SwitchedOn = false.
Proof. vm_compute. repeat split; reflexivity. Qed.

Example C19_nv_uncommandable : commandable Fault = false /\
  fst (run_setter false 5 "FAULT" (drive_init FaultReaction [false; true] 0)) = PFail E_VALUE /\
  fst (run_setter false 5 "FAULT" (drive_init FaultReaction [true] 0)) = PDone.
Proof. vm_compute. repeat split; reflexivity. Qed.

Example C19_nv_modes : In ("HOMING"%string, (6, Some 5)) cia402_modes /\
  mode_advertised 32 (Some 5) = true /\ mode_advertised 991 (Some 5) = false /\ display_known 1 /\
  fst (set_op_mode 3 "HOMING" (mdrive_init 32 1 2)) = Ok tt.
Proof.
  split; [cbn; tauto|]. split; [reflexivity|]. split; [reflexivity|]. split; [|reflexivity].
  eexists. vm_compute. reflexivity.
Qed.

(* Tie to the source text: the BaseNode402.state getter as translated from the CURRENT source by
   tools/py2coq.py (Gen/SrcC19.v, regenerated on every run), applied to the regenerated SW_MASK, is the
   model's decode_state. *)
Theorem C19_source_state_getter_is_model : forall sw, src_p402_state SW_MASK sw = decode_state sw.
Proof. exact src_p402_state_eq. Qed.

Print Assumptions C19_statusword_decoding.
Print Assumptions C19_statusword_decoding_any.
Print Assumptions C19_decode_ignores_extra_bits.
Print Assumptions C19_drive_statusword_decodes.
Print Assumptions C19_commanded_transitions.
Print Assumptions C19_uncommandable_refused.
Print Assumptions C19_op_mode_supported.
Print Assumptions C19_op_mode_rules.
Print Assumptions C19_source_state_getter_is_model.
