(* C08 - Importing an EDS/DCF yields exactly the described object dictionary.
   Statements only; every proof is [exact] of a lemma in Proofs/Eds_proofs.v.
   Model: Model/Eds.v (import_eds, build_variable, copy_variable, _convert_variable, _signed_int_from_hex,
   ObjectDictionary / ODRecord / ODArray look-ups), reference writer: Model/RefEds.v, tables: Gen/EdsTables.v
   and Gen/Tables.v regenerated from /repo on every run.
   PARTIAL: proved from the token level up (a document is a list of sections of key/value strings); the text
   layer (configparser, re, float(), files) is modelled, not verified, and tied only by the correspondence. *)
From Coq Require Import ZArith List Bool Lia.
From Coq Require String.
Import String.StringSyntax.
From CV Require Import Base.Val Base.Bytes Base.Tys Gen.Tables Gen.EdsTables Gen.SrcC08 Model.Eds Model.RefEds Proofs.Eds_proofs Proofs.Src_eq_eds.
Import ListNotations.
Open Scope Z_scope.

(* ---- value level: every spelling of every integer ---- *)
(* int(text, 0) reads decimal, 0x/0X hexadecimal (either case, any zero padding) and signed spellings of ALL integers *)
Theorem C08_int0_spell : forall sp v, int0 (spell sp v) = Some v.
Proof. exact int0_spell. Qed.

(* the code knows the CiA 301 width of each of the eight signed integer types (regenerated from _calc_bit_length) *)
Theorem C08_signed_widths : forallb signed_table_row SIGNED_TYPES = true /\ length SIGNED_TYPES = 8%nat.
Proof. exact signed_table_ok. Qed.

(* signed_limit_roundtrip: a limit of a signed type, written plainly (decimal / hex / with a sign) or as the
   two's-complement bit pattern of the type's width, is imported as the (possibly negative) number it means *)
Theorem C08_signed_limit_roundtrip : forall dt ls v, zmem dt SIGNED_TYPES = true ->
  - 2 ^ (signed_width dt - 1) <= v < 2 ^ (signed_width dt - 1) ->
  parse_limit dt (spell_limit (signed_width dt) ls v) = Some v.
Proof. exact signed_limit_written. Qed.

Theorem C08_other_limit : forall dt sp v, zmem dt SIGNED_TYPES = false -> parse_limit dt (spell sp v) = Some v.
Proof. exact other_limit_written. Qed.

(* default / parameter values: numbers in every spelling, $NODEID+x / x+$NODEID (with or without blanks) resolved
   against the node id in force, text, byte strings in either case, REAL texts *)
Theorem C08_convert_written : forall nid dt x, dvalue_ok nid dt x ->
  convert_variable nid dt (dvalue_text x) = dvalue_sem nid x.
Proof. exact convert_written. Qed.

(* ---- object level: a written variable section is imported as the described variable ---- *)
Theorem C08_import_written_var : forall d nid index sub name ot (v : vdesc), wf_vdesc nid v ->
  build_variable d (kvs_of ((k_PName, Some name) :: (s "ObjectType", ot) :: var_keys v)) nid index sub
  = Ok (described_var nid index sub name v).
Proof. exact import_written_var. Qed.

(* ---- whole documents ----
   FULL STATEMENT (C08 import_of_written): for every well-formed description d and every spelling choice,
     import_ini (write d) nid = Ok (described d nid).
   PROVED (partial): for descriptions without a [DeviceInfo] section and whose written document has no duplicate
   section or key (doc_ok, the model's form of configparser's Duplicate*Error).  Covered: VAR / DOMAIN / ARRAY /
   RECORD / CompactSubObj objects (name lists sorted, possibly sparse), all attributes of [described_var],
   'sub'/'Sub' and upper/lower-case section names, missing ObjectType, comments, node id explicit / from file /
   absent, bit rate, the extra sections (FileInfo, DummyUsage), and [DeviceInfo] / [DeviceComissioning] / [Comments]
   written before OR after the object sections (dd_tail).  Left to the correspondence: DeviceInfo
   (see C08_devinfo_table), CANFestival data type > 0x1B indirection, DummyUsage entries equal to 1. *)
Theorem C08_import_of_written_partial : forall d nid,
  dd_devinfo d = None -> Forall (odesc_ok (node_id_in_force d nid)) (dd_objects d) -> doc_ok (write d) = true ->
  import_ini (write d) nid = Ok (described d nid).
Proof. exact import_of_written_partial. Qed.

(* the DeviceInfo table of the code (regenerated) is the CiA 306 table of the reference (kinds: text / number / flag;
   in particular Granularity is a number) and the baud-rate list is the standard one *)
Theorem C08_devinfo_table : DEVINFO_IMPORT = DEVINFO_ROWS /\ BAUD_RATES = STD_RATES.
Proof. exact devinfo_table_ok. Qed.

(* compact arrays are expanded: a sub-index 1..255 without an entry of its own is made from element 1 and has its
   data type, access type, PDO mappability, default, limits, storage location, factor, unit, description *)
Theorem C08_compact_expanded : forall c t sub, c_kind c = KArr -> zassoc 1 (c_subs c) = Some t -> 0 < sub < 256 ->
  zassoc sub (c_subs c) = None ->
  exists v, cont_get_int c sub = Ok v /\ v_index v = c_index c /\ v_sub v = sub /\
    v_dt v = v_dt t /\ v_access v = v_access t /\ v_pdo v = v_pdo t /\ v_default v = v_default t /\
    v_min v = v_min t /\ v_max v = v_max t /\ v_storage v = v_storage t /\ v_factor v = v_factor t /\
    v_unit v = v_unit t /\ v_descr v = v_descr t.
Proof. exact compact_expanded. Qed.

(* lookup_consistent: in a dictionary whose objects have distinct indices and distinct names (dots allowed, e.g.
   'Max. current'), look-up by index and by name reach the same object (same identity p), and for a container with
   distinct member sub-indices and names, [sub] and [name] reach the same member; 'Parent.Child' does too when the
   top-level names are dot-free (the code splits a qualified name at its FIRST dot) *)
Theorem C08_lookup_consistent : forall base objs, blank base ->
  NoDup (map obj_index objs) -> NoDup (map obj_name objs) ->
  forall p o, nth_error objs p = Some o ->
  od_get_int (built objs base) (obj_index o) = Ok (p, o) /\
  od_get (built objs base) (KI (obj_index o)) = Ok (LObj p o) /\
  (obj_truthy o = true -> od_get (built objs base) (KS (obj_name o)) = Ok (LObj p o)) /\
  (forall c0 vars v, o = OCont (filled c0 vars) -> c_subs c0 = [] -> c_names c0 = [] ->
     NoDup (map v_sub vars) -> NoDup (map v_name vars) -> In v vars ->
     obj_get o (KI (v_sub v)) = Ok v /\ obj_get o (KS (v_name v)) = Ok v /\
     (Forall (fun o => no_dot (obj_name o)) objs ->
      od_get (built objs base) (KS (obj_name o ++ 46 :: v_name v)) = Ok (LVar p v))).
Proof. exact lookup_consistent. Qed.

(* ---- non-vacuity: a concrete non-trivial description meets the hypotheses ---- *)
Example C08_nv_document :
  dd_devinfo ex_doc = None /\ Forall (odesc_ok (node_id_in_force ex_doc None)) (dd_objects ex_doc) /\
  doc_ok (write ex_doc) = true /\ length (write ex_doc) = 10%nat /\
  node_id_in_force ex_doc None = Some 5.
Proof.
  split; [reflexivity|]. split; [|vm_compute; repeat split; reflexivity].
  repeat (first [ apply Forall_cons | apply Forall_nil ]); cbn [odesc_ok].
  - split; [lia|]. constructor; vm_compute; repeat split; try reflexivity; try discriminate; try lia.
  - split; [lia|]. repeat (first [ apply Forall_cons | apply Forall_nil ]);
      (split; [constructor; vm_compute; repeat split; try reflexivity; try discriminate; try lia
              | cbn; lia]).
    all: try (eexists; reflexivity).
  - split; [lia|]. split; [constructor; vm_compute; repeat split; try reflexivity; try discriminate; try lia|].
    vm_compute. repeat split; discriminate || reflexivity.
Qed.

Example C08_nv_values :
  parse_limit 16 (s "0x800000") = Some (-8388608) /\ parse_limit 16 (s "0x7FFFFF") = Some 8388607 /\
  convert_variable (Some 5) 7 (s "0x180 + $NODEID") = Some (PVInt 389) /\ int0 (s "012") = None /\
  int0 (s "-0X1f") = Some (-31).
Proof. vm_compute. repeat split; reflexivity. Qed.

(* Tie to the source text: eds._signed_int_from_hex and eds._calc_bit_length as translated from the CURRENT
   source by tools/py2coq.py (Gen/SrcC08.v, regenerated on every run) are the model's conversion and the
   regenerated CALC_BIT_LENGTH table (evaluated from the running code) on every data type 0..255. *)
Theorem C08_source_signed_int_is_model : forall t bits n, 1 <= bits -> int0 t = Some n ->
  signed_int_from_hex t bits = Some (src_signed_int_from_hex n bits).
Proof. exact src_signed_int_from_hex_eq. Qed.

Theorem C08_source_calc_bit_length_is_table : forall dt, 0 <= dt < 256 ->
  src_calc_bit_length dt = zassoc dt CALC_BIT_LENGTH.
Proof. exact src_calc_bit_length_eq. Qed.

Print Assumptions C08_int0_spell.
Print Assumptions C08_signed_widths.
Print Assumptions C08_signed_limit_roundtrip.
Print Assumptions C08_other_limit.
Print Assumptions C08_convert_written.
Print Assumptions C08_import_written_var.
Print Assumptions C08_import_of_written_partial.
Print Assumptions C08_devinfo_table.
Print Assumptions C08_compact_expanded.
Print Assumptions C08_lookup_consistent.
Print Assumptions C08_source_signed_int_is_model.
Print Assumptions C08_source_calc_bit_length_is_table.
