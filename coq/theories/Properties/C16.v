(* C16 - The EMCY consumer's log and active list mirror the received history.
   Statements only; every proof is [exact] of a lemma in Proofs/Emcy_proofs.v.
   Model: Model/Emcy.v (EMCY_STRUCT unpack/pack, EmcyConsumer.on_emcy/add_callback/reset/wait,
   EmcyProducer.send/reset, EmcyError.get_desc); tables: Gen/EmcyTables.v (frame layout and
   EmcyError.DESCRIPTIONS) regenerated from /repo on every run.

   Vocabulary:  [feed s frames]  = the consumer state after the (frame, timestamp) list, starting in s
                                   (a frame whose unpack raises leaves the state untouched);
                [decoded frames] = the entries of the frames that decode, in arrival order;
                [frame_entry f ts] = code f[0] + 256 f[1], register f[2], data f[3..7], timestamp ts;
                [init n]         = a fresh consumer with n registered callbacks (ids 0 .. n-1);
                [invocations n es] = for each entry of es in order, one invocation of each of the
                                   callbacks 0 .. n-1 in registration order. *)
From Coq Require Import ZArith List Bool.
From Coq Require String.
From CV Require Import Base.Val Base.Bytes Base.Tys Gen.EmcyTables Model.Emcy Proofs.Emcy_proofs Gen.SrcC16 Proofs.Src_eq_c16.
Import ListNotations.
Open Scope Z_scope.

(* ---- frame layout "<HB5s" ---- *)
Theorem C16_decode_layout : forall f ts, zlen f = 8 -> decode_emcy f ts = Ok (frame_entry f ts).
Proof. exact decode_spec. Qed.

(* a frame that is not 8 bytes long raises struct.error and changes nothing *)
Theorem C16_malformed_ignored : forall s f ts, zlen f <> 8 ->
  on_emcy s f ts = Err E_STRUCT /\ feed s [(f, ts)] = s.
Proof. exact malformed_ignored. Qed.

(* ---- log: one entry per frame, in arrival order, for every frame list and every start state ---- *)
Theorem C16_log_mirrors : forall s frames, s_log (feed s frames) = s_log s ++ decoded frames.
Proof. exact log_mirrors. Qed.

(* ... and on 8-byte frames each entry carries the frame's code, register, five data bytes and timestamp *)
Theorem C16_log_is_frames : forall n frames, Forall (fun ft => zlen (fst ft) = 8) frames ->
  s_log (feed (init n) frames) = map (fun ft => frame_entry (fst ft) (snd ft)) frames.
Proof. exact log_is_frames. Qed.

(* ---- active: exactly the entries received since the last error-reset frame.
   What the code treats as a reset frame is "code & 0xFF00 == 0", which on 16-bit codes is the
   CiA 301 error class 00xx ("error reset or no error"): *)
Theorem C16_reset_is_class_00 : forall c, 0 <= c < 65536 -> is_reset_code c = (c <? 256).
Proof. exact reset_is_class_00. Qed.

(* no reset frame in the history: everything received is still active *)
Theorem C16_active_no_reset : forall s frames,
  Forall (fun e => is_reset e = false) (decoded frames) ->
  s_active (feed s frames) = s_active s ++ decoded frames.
Proof. exact active_no_reset. Qed.

(* r is the last reset frame: the active list is exactly what came after it (r itself is logged, not active) *)
Theorem C16_active_since_reset : forall s frames pre r post,
  decoded frames = pre ++ r :: post -> is_reset r = true -> Forall (fun e => is_reset e = false) post ->
  s_active (feed s frames) = post.
Proof. exact active_since_reset. Qed.

(* ---- callbacks: invoked once per frame, in frame order, each callback in registration order ---- *)
Theorem C16_callbacks_in_order : forall s frames,
  s_cblog (feed s frames) = s_cblog s ++ invocations (s_ncb s) (decoded frames).
Proof. exact callbacks_in_order. Qed.

(* seen from one registered callback i: it received exactly the decoded frames, once each, in order *)
Theorem C16_callbacks_once_each : forall n frames i, 0 <= i < Z.of_nat n ->
  map snd (filter (fun p => fst p =? i) (s_cblog (feed (init n) frames))) = decoded frames.
Proof. exact callbacks_once_each. Qed.

(* ---- producer -> consumer ---- *)
Theorem C16_producer_consumer_roundtrip : forall code reg data ts,
  0 <= code < 65536 -> 0 <= reg < 256 -> (length data <= 5)%nat ->
  exists f, producer_send code reg data = Ok f /\ zlen f = 8 /\
            decode_emcy f ts = Ok (mkE code reg (data ++ repeat 0 (5 - length data)) ts).
Proof. exact producer_consumer_roundtrip. Qed.

Theorem C16_producer_into_consumer : forall s code reg data ts,
  0 <= code < 65536 -> 0 <= reg < 256 -> (length data <= 5)%nat ->
  exists f, producer_send code reg data = Ok f /\
    let e := mkE code reg (data ++ repeat 0 (5 - length data)) ts in
    on_emcy s f ts = Ok (record_entry s e) /\
    s_log (feed s [(f, ts)]) = s_log s ++ [e] /\
    s_active (feed s [(f, ts)]) = if code <? 256 then [] else s_active s ++ [e].
Proof. exact producer_into_consumer. Qed.

(* EmcyProducer.reset sends code 0, which every consumer treats as an error reset *)
Theorem C16_producer_reset : forall reg data ts, 0 <= reg < 256 ->
  producer_reset reg data = producer_send 0 reg data /\
  exists f e, producer_reset reg data = Ok f /\ decode_emcy f ts = Ok e /\ is_reset e = true /\
              e_reg e = reg /\ e_data e = pad_data data.
Proof. exact producer_reset_is_reset. Qed.

(* a code or register outside its field is refused (struct.error), nothing is sent *)
Theorem C16_producer_rejects : forall code reg data, ~ (0 <= code < 65536 /\ 0 <= reg < 256) ->
  producer_send code reg data = Err E_STRUCT.
Proof. exact encode_rejects. Qed.

(* any sequence of messages from one producer into a consumer: message i (sent at ts + i) is logged with its
   own code, register and zero-padded data, whatever was sent before it *)
Theorem C16_producer_sequence : forall msgs s ts, Forall msg_ok msgs ->
  s_log (produce_all s ts msgs) = s_log s ++ msg_entries ts msgs.
Proof. exact producer_sequence. Qed.

(* ---- descriptions: all 65536 codes (finite domain, complete evaluation in the kernel) ---- *)
Theorem C16_desc_table_is_cia301 : forall c, 0 <= c < 65536 -> get_desc c = str_codes (cia301_class c).
Proof. exact desc_table_is_cia301. Qed.

(* ---- wait ----
   Over the wake-up schedule model of Model/Emcy.v (WNew batch late, WTimeout); [arrivals ws] = every
   entry that arrives while the caller waits, before the time-out (a wake-up with an unchanged log,
   a wake-up past the deadline, or no further wake-up).  For EVERY schedule - any number of frames
   per wake-up, any older log, any number of wake-ups - the caller is handed the first matching entry
   that arrives before the time-out, or nothing.
   Not modelled (this is why the property is claimed as partial): the condition variable, thread
   scheduling and the clock, i.e. what decides the schedule; the model takes the schedule as input. *)
Theorem C16_wait_next_match : forall filt ws log, wait_scan filt log ws = find (matchb filt) (arrivals ws).
Proof. exact wait_next_match. Qed.

(* the same spelled out: what is handed over matches, and nothing that arrived before it does *)
Theorem C16_wait_handed_first_match : forall filt log ws e, wait_scan filt log ws = Some e ->
  exists pre post, arrivals ws = pre ++ e :: post /\ matchb filt e = true /\
                   Forall (fun x => matchb filt x = false) pre.
Proof. exact wait_handed_first_match. Qed.

(* nothing is handed over only if nothing that arrived in time matches *)
Theorem C16_wait_nothing : forall filt log ws, wait_scan filt log ws = None ->
  Forall (fun x => matchb filt x = false) (arrivals ws).
Proof. exact wait_nothing. Qed.

(* the result depends only on the sequence of arrivals, not on how they are spread over wake-ups
   nor on what was in the log before *)
Theorem C16_wait_schedule_independent : forall filt log1 log2 ws1 ws2, arrivals ws1 = arrivals ws2 ->
  wait_scan filt log1 ws1 = wait_scan filt log2 ws2.
Proof. exact wait_schedule_independent. Qed.

(* the deadline: once a wake-up finds the clock past end_time, nothing logged at or after it is handed
   out, whatever still arrives (the call as a whole has one deadline, not one per wake-up) *)
Theorem C16_wait_deadline : forall filt log pre b r,
  wait_scan filt log (pre ++ WNew b true :: r) = wait_scan filt log pre.
Proof. exact wait_deadline. Qed.

(* ---- non-vacuity ---- *)
Definition nv_frames : list (list Z * Z) :=
  [([1; 32; 2; 0; 1; 2; 3; 4], 1000); ([0; 0; 0; 0; 0; 0; 0; 0], 1001); ([0; 48; 129; 9; 8; 7; 6; 5], 1002);
   ([255; 0; 1; 0; 0; 0; 0; 1], 1003); ([1; 2; 3], 1004); ([0; 129; 17; 1; 0; 0; 0; 0], 1005);
   ([0; 255; 128; 255; 255; 255; 255; 255], 1006)].

(* a history with two resets and a malformed frame: the hypotheses of C16_active_since_reset are met *)
Example C16_nv_history :
  let pre := [mkE 8193 2 [0; 1; 2; 3; 4] 1000; mkE 0 0 [0; 0; 0; 0; 0] 1001; mkE 12288 129 [9; 8; 7; 6; 5] 1002] in
  let r := mkE 255 1 [0; 0; 0; 0; 1] 1003 in
  let post := [mkE 33024 17 [1; 0; 0; 0; 0] 1005; mkE 65280 128 [255; 255; 255; 255; 255] 1006] in
  decoded nv_frames = pre ++ r :: post /\ is_reset r = true /\ forallb is_reset post = false /\
  s_active (feed (init 2) nv_frames) = post /\ length (s_log (feed (init 2) nv_frames)) = 6%nat /\
  length (s_cblog (feed (init 2) nv_frames)) = 12%nat.
Proof. vm_compute. repeat split; reflexivity. Qed.

Example C16_nv_roundtrip :
  producer_send 65535 255 [1; 2; 3] = Ok [255; 255; 255; 1; 2; 3; 0; 0] /\
  decode_emcy [255; 255; 255; 1; 2; 3; 0; 0] 7 = Ok (mkE 65535 255 [1; 2; 3; 0; 0] 7) /\
  producer_send 65536 0 [] = Err E_STRUCT.
Proof. vm_compute. repeat split; reflexivity. Qed.

(* "Current", no class, "Device Specific" as code points *)
Example C16_nv_desc : get_desc 8448 = [67; 117; 114; 114; 101; 110; 116] /\ get_desc 4352 = [] /\
  get_desc 65535 = [68; 101; 118; 105; 99; 101; 32; 83; 112; 101; 99; 105; 102; 105; 99] /\ length DESCRIPTIONS = 12%nat.
Proof. vm_compute. repeat split; reflexivity. Qed.

(* a filtered wait: a burst of two frames seen by one wake-up, then a single frame, then a time-out;
   two schedules with the same arrivals *)
Example C16_nv_wait :
  let e1 := mkE 8193 0 [0; 0; 0; 0; 0] 1 in let e2 := mkE 12288 0 [0; 0; 0; 0; 0] 2 in
  let e3 := mkE 8193 0 [0; 0; 0; 0; 0] 3 in
  let ws := [WNew [e1; e2] false; WNew [e3] false; WTimeout] in
  let ws' := [WNew [e1] false; WNew [e2; e3] false; WNew [e1] true] in
  arrivals ws = [e1; e2; e3] /\ arrivals ws' = arrivals ws /\
  wait_scan (Some 8193) [e2] ws = Some e1 /\ wait_scan (Some 12288) [] ws = Some e2 /\
  wait_scan None [] ws = Some e1 /\ wait_scan (Some 20480) [] ws = None.
Proof. vm_compute. repeat split; reflexivity. Qed.

(* Tie to the source text: the error-reset test of EmcyConsumer.on_emcy as translated from the CURRENT source
   by tools/py2coq.py (Gen/SrcC16.v, regenerated on every run) is the model's is_reset_code. *)
Theorem C16_source_reset_test_is_model : forall code, src_emcy_is_reset code = is_reset_code code.
Proof. exact src_emcy_is_reset_eq. Qed.

Print Assumptions C16_decode_layout.
Print Assumptions C16_malformed_ignored.
Print Assumptions C16_log_mirrors.
Print Assumptions C16_log_is_frames.
Print Assumptions C16_reset_is_class_00.
Print Assumptions C16_active_no_reset.
Print Assumptions C16_active_since_reset.
Print Assumptions C16_callbacks_in_order.
Print Assumptions C16_callbacks_once_each.
Print Assumptions C16_producer_consumer_roundtrip.
Print Assumptions C16_producer_into_consumer.
Print Assumptions C16_producer_reset.
Print Assumptions C16_producer_rejects.
Print Assumptions C16_producer_sequence.
Print Assumptions C16_desc_table_is_cia301.
Print Assumptions C16_wait_next_match.
Print Assumptions C16_wait_handed_first_match.
Print Assumptions C16_wait_nothing.
Print Assumptions C16_wait_schedule_independent.
Print Assumptions C16_wait_deadline.
Print Assumptions C16_source_reset_test_is_model.
