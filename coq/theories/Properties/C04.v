From CV Require Import Model.Codec.
