(* C04 - Data type codec is the exact CiA 301 representation and never silently wraps.
   Statements only; every proof is [exact] of a lemma in Proofs/Codec_proofs.v.
   Model: Model/Codec.v (ODVariable.encode_raw/decode_raw, struct packers, IntegerN/UnsignedN),
   tables: Gen/Tables.v regenerated from /repo on every run. *)
From Coq Require Import ZArith List Bool.
From CV Require Import Base.Val Base.Bytes Base.Tys Gen.Tables Gen.SrcC04 Model.Codec Proofs.Codec_proofs Proofs.Src_eq_codec.
Import ListNotations.
Open Scope Z_scope.

(* The regenerated STRUCT_TYPES table assigns every CiA 301 integer type number its
   signedness and width. *)
Theorem C04_types_are_cia301 : forall t s w, In (t, (s, w)) cia301_int_types ->
  exists p, zassoc t STRUCT_TYPES = Some p /\ int_packer p = Some (s, w).
Proof. exact types_are_cia301. Qed.

(* In-range value: exactly width/8 bytes, the little-endian two's-complement representation
   (le_encode n v lists the n low-order bytes of v; for negative v that is two's complement). *)
Theorem C04_encode_exact : forall t p s w v,
  zassoc t STRUCT_TYPES = Some p -> int_packer p = Some (s, w) -> in_range s w v = true ->
  encode_raw (Some t) (PInt v) = Ok (le_encode (Z.to_nat (w / 8)) v).
Proof. exact encode_exact. Qed.

Theorem C04_encoded_shape : forall t p s w v bs,
  zassoc t STRUCT_TYPES = Some p -> int_packer p = Some (s, w) ->
  encode_raw (Some t) (PInt v) = Ok bs ->
  zlen bs = w / 8 /\ bytes_ok bs /\ le_decode bs = v mod 2 ^ w /\ in_range s w v = true.
Proof. exact encode_length. Qed.

(* decoding those bytes returns the value *)
Theorem C04_decode_encode : forall t p s w v,
  zassoc t STRUCT_TYPES = Some p -> int_packer p = Some (s, w) -> in_range s w v = true ->
  decode_raw (Some t) (le_encode (Z.to_nat (w / 8)) v) = Ok (PInt v).
Proof. exact decode_encode. Qed.

(* any byte pattern of the right length decodes to an in-range value that re-encodes to the pattern *)
Theorem C04_encode_decode : forall t p s w bs,
  zassoc t STRUCT_TYPES = Some p -> int_packer p = Some (s, w) -> bytes_ok bs -> zlen bs = w / 8 ->
  exists v, decode_raw (Some t) bs = Ok (PInt v) /\ in_range s w v = true /\
            encode_raw (Some t) (PInt v) = Ok bs.
Proof. exact encode_decode. Qed.

(* out of range: rejected, never wrapped *)
Theorem C04_encode_rejects : forall t p s w v,
  zassoc t STRUCT_TYPES = Some p -> int_packer p = Some (s, w) -> in_range s w v = false ->
  encode_raw (Some t) (PInt v) = Err E_VALUE.
Proof. exact encode_rejects. Qed.

(* wrong length: never a number *)
Theorem C04_decode_rejects : forall t p s w bs,
  zassoc t STRUCT_TYPES = Some p -> int_packer p = Some (s, w) -> zlen bs <> w / 8 ->
  exists k, decode_raw (Some t) bs = Err k.
Proof. exact decode_rejects. Qed.

Theorem C04_bool_codec : forall b : bool,
  zassoc dt_BOOLEAN STRUCT_TYPES = Some PBool ->
  encode_raw (Some dt_BOOLEAN) (PInt (if b then 1 else 0)) = Ok [if b then 1 else 0] /\
  decode_raw (Some dt_BOOLEAN) [if b then 1 else 0] = Ok (PInt (if b then 1 else 0)).
Proof. exact bool_codec. Qed.

Theorem C04_bool_decode_rejects : forall bs,
  zassoc dt_BOOLEAN STRUCT_TYPES = Some PBool -> zlen bs <> 1 ->
  decode_raw (Some dt_BOOLEAN) bs = Err E_OD.
Proof. exact bool_decode_rejects. Qed.

(* REAL32 / REAL64 on IEEE-754 bit patterns *)
Theorem C04_real_codec : forall t w bits,
  zassoc t STRUCT_TYPES = Some (PReal w) -> 0 <= bits < 2 ^ w ->
  encode_raw (Some t) (PFloat bits) = Ok (le_encode (Z.to_nat (w / 8)) bits) /\
  decode_raw (Some t) (le_encode (Z.to_nat (w / 8)) bits) = Ok (PFloat bits).
Proof. exact real_codec. Qed.

Theorem C04_real_decode_rejects : forall t w bs,
  zassoc t STRUCT_TYPES = Some (PReal w) -> zlen bs <> w / 8 ->
  decode_raw (Some t) bs = Err E_OD.
Proof. exact real_decode_rejects. Qed.

(* text: the NUL hypothesis is forced by rstrip("\x00") in decode_raw *)
Theorem C04_ascii_roundtrip : forall s, forallb is_ascii s = true -> last s 1 <> 0 ->
  encode_raw (Some dt_VISIBLE_STRING) (PStr s) = Ok s /\
  decode_raw (Some dt_VISIBLE_STRING) s = Ok (PStr s).
Proof. exact ascii_roundtrip. Qed.

Theorem C04_ascii_rejects : forall s, forallb is_ascii s = false ->
  encode_raw (Some dt_VISIBLE_STRING) (PStr s) = Err E_VALUE.
Proof. exact ascii_rejects. Qed.

Theorem C04_utf16_roundtrip : forall s, forallb is_scalar s = true -> last s 1 <> 0 ->
  exists bs, encode_raw (Some dt_UNICODE_STRING) (PStr s) = Ok bs /\
             decode_raw (Some dt_UNICODE_STRING) bs = Ok (PStr s).
Proof. exact utf16_roundtrip. Qed.

(* Tie to the source text: the range tests of IntegerN.pack / UnsignedN.pack as translated from the CURRENT source
   by tools/py2coq.py (Gen/SrcC04.v, regenerated on every run) are the model's in_range. *)
Theorem C04_source_integerN_range_is_model : forall v w, 1 <= w -> src_integerN_accepts v w = in_range true w v.
Proof. exact src_integerN_accepts_eq. Qed.

Theorem C04_source_unsignedN_range_is_model : forall v w, 0 <= w -> src_unsignedN_accepts v w = in_range false w v.
Proof. exact src_unsignedN_accepts_eq. Qed.

(* ---- non-vacuity: the hypotheses are met by concrete non-trivial inputs ---- *)
Example C04_nv_int24 : zassoc 16 STRUCT_TYPES = Some (PIntN 24) /\ int_packer (PIntN 24) = Some (true, 24) /\
  in_range true 24 (-8388608) = true /\ in_range true 24 8388608 = false /\
  encode_raw (Some 16) (PInt (-2)) = Ok [254; 255; 255].
Proof. vm_compute. repeat split; reflexivity. Qed.

Example C04_nv_tables : zassoc dt_BOOLEAN STRUCT_TYPES = Some PBool /\
  zassoc dt_REAL32 STRUCT_TYPES = Some (PReal 32) /\ zassoc dt_REAL64 STRUCT_TYPES = Some (PReal 64) /\
  length cia301_int_types = 16%nat.
Proof. vm_compute. repeat split; reflexivity. Qed.

Example C04_nv_text : forallb is_scalar [72; 233; 8364; 128512] = true /\ last [72; 233; 8364; 128512] 1 <> 0 /\
  encode_raw (Some dt_UNICODE_STRING) (PStr [72; 128512]) = Ok [72; 0; 61; 216; 0; 222].
Proof. vm_compute. repeat split; try reflexivity. discriminate. Qed.

Print Assumptions C04_types_are_cia301.
Print Assumptions C04_encode_exact.
Print Assumptions C04_encoded_shape.
Print Assumptions C04_decode_encode.
Print Assumptions C04_encode_decode.
Print Assumptions C04_encode_rejects.
Print Assumptions C04_decode_rejects.
Print Assumptions C04_bool_codec.
Print Assumptions C04_bool_decode_rejects.
Print Assumptions C04_real_codec.
Print Assumptions C04_real_decode_rejects.
Print Assumptions C04_ascii_roundtrip.
Print Assumptions C04_ascii_rejects.
Print Assumptions C04_utf16_roundtrip.
Print Assumptions C04_source_integerN_range_is_model.
Print Assumptions C04_source_unsignedN_range_is_model.
