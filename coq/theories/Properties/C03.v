(* C03 - typed values survive the client -> bus -> server -> client round trip.
   Statements only; every proof is [exact] of a lemma in Proofs/SdoLink_proofs.v.
   Model: Model/SdoLink.v = the library's SDO CLIENT model (Model/SdoClient.v, as verified against the
   reference server in C01) run against the library's SDO SERVER model (Model/SdoServer.v: on_request,
   LocalNode.get_data / set_data, as verified against the reference client in C02) - no reference peer
   in between, so symmetric errors of client and server cannot cancel - plus the typed layer
   (variable.raw (class of variable.py) = ODvariable.encode_raw / decode_raw of Model/Codec.v around Sdovariable.set_data /
   get_data; accessor look-up by index, name, "Record.Member", record member) and Network.notify.
   [roundtrip nd w a value sched] = write value through remote.sdo[a].raw, read it back through
   remote.sdo[a].raw, read it through local.sdo[a].raw, look at LocalNode.data_store; the observation
   is VL [remote read-back; local read-back; VB stored bytes].  [w] is ANY state of client and
   server (arbitrary response queue, arbitrary earlier transfers, arbitrary store).
   [registered nd a idx sub dt]: the spelling [a] resolves to a read-write variable of data type dt
   whose own index/subindex attributes are idx:sub and which the dictionary registers there.
   [sched] = the chunk sizes io.BufferedWriter(7) offers to the raw stream (any valid schedule). *)
From Coq Require Import ZArith List Bool Lia.
From CV Require Import Base.Val Base.Bytes Base.Tys Gen.Tables Model.Codec Model.SdoClient Model.SdoServer Model.SdoLink
  Proofs.Codec_proofs Proofs.SdoLink_proofs Gen.SrcC01 Proofs.Src_eq_c01.
Import ListNotations.
Open Scope Z_scope.

(* Every integer type of the regenerated STRUCT_TYPES table (signedness s, width wd), every in-range
   value: the server stores exactly le_encode (wd/8) v - the CiA 301 little-endian (two's complement)
   encoding by C04_encode_exact - and both read-backs yield v. *)
Theorem C03_typed_roundtrip : forall nd (w : lworld) a idx sub t p s wd v sched,
  registered nd a idx sub t -> mux_ok idx sub ->
  zassoc t STRUCT_TYPES = Some p -> int_packer p = Some (s, wd) -> in_range s wd v = true ->
  valid_sched (expedited (Some (wd / 8)) (t =? dt_DOMAIN)) sched (wd / 8) ->
  exists w', roundtrip nd w a (PInt v) sched =
               (w', VL [VZ v; VZ v; VB (le_encode (Z.to_nat (wd / 8)) v)]) /\
             store_get (s_store (w_s w')) idx sub = Some (le_encode (Z.to_nat (wd / 8)) v).
Proof. exact typed_roundtrip. Qed.

Theorem C03_bool_roundtrip : forall nd (w : lworld) a idx sub (b : bool),
  registered nd a idx sub dt_BOOLEAN -> mux_ok idx sub -> zassoc dt_BOOLEAN STRUCT_TYPES = Some PBool ->
  exists w', roundtrip nd w a (PInt (if b then 1 else 0)) [1] =
               (w', VL [VZ (if b then 1 else 0); VZ (if b then 1 else 0); VB [if b then 1 else 0]]) /\
             store_get (s_store (w_s w')) idx sub = Some [if b then 1 else 0].
Proof. exact bool_roundtrip. Qed.

(* REAL32 / REAL64 on IEEE-754 bit patterns *)
Theorem C03_real_roundtrip : forall nd (w : lworld) a idx sub t wd bits sched,
  registered nd a idx sub t -> mux_ok idx sub -> zassoc t STRUCT_TYPES = Some (PReal wd) -> 0 <= bits < 2 ^ wd ->
  valid_sched (expedited (Some (wd / 8)) (t =? dt_DOMAIN)) sched (wd / 8) ->
  exists w', roundtrip nd w a (PFloat bits) sched =
               (w', VL [VL [VZ bits]; VL [VZ bits]; VB (le_encode (Z.to_nat (wd / 8)) bits)]) /\
             store_get (s_store (w_s w')) idx sub = Some (le_encode (Z.to_nat (wd / 8)) bits).
Proof. exact real_roundtrip. Qed.

(* DOMAIN (forces segmented transfer) and OCTET_STRING: payloads of ANY length the model's fuel covers
   (7 * FUEL - 14 = 20986 bytes; FUEL bounds the model's read loop): induction over the write schedule
   against the server's segmented_download and over the server's buffer against the client's read loop *)
Theorem C03_bytes_roundtrip : forall nd (w : lworld) a idx sub dt data sched,
  registered nd a idx sub dt -> dt = dt_DOMAIN \/ dt = dt_OCTET_STRING -> mux_ok idx sub ->
  zlen data < 2 ^ 32 -> (length data + 14 <= 7 * FUEL)%nat ->
  valid_sched (expedited (Some (zlen data)) (dt =? dt_DOMAIN)) sched (zlen data) ->
  exists w', roundtrip nd w a (PBytes data) sched = (w', VL [VB data; VB data; VB data]) /\
             store_get (s_store (w_s w')) idx sub = Some data.
Proof. exact bytes_roundtrip. Qed.

(* VISIBLE_STRING (hypotheses of C04_ascii_roundtrip: ASCII, no trailing NUL) *)
Theorem C03_ascii_roundtrip : forall nd (w : lworld) a idx sub s sched,
  registered nd a idx sub dt_VISIBLE_STRING -> mux_ok idx sub ->
  forallb is_ascii s = true -> last s 1 <> 0 -> (length s + 14 <= 7 * FUEL)%nat ->
  valid_sched (expedited (Some (zlen s)) false) sched (zlen s) ->
  exists w', roundtrip nd w a (PStr s) sched = (w', VL [VS s; VS s; VB s]) /\
             store_get (s_store (w_s w')) idx sub = Some s.
Proof. exact ascii_text_roundtrip. Qed.

(* Any data type: whatever bytes the codec makes of the value are what the server holds, and what the
   codec makes of those bytes is what both sides read (UNICODE_STRING follows with C04_utf16_roundtrip) *)
Theorem C03_codec_roundtrip : forall nd (w : lworld) a idx sub dt value data back sched,
  registered nd a idx sub dt -> mux_ok idx sub ->
  encode_raw (Some dt) value = Ok data -> decode_raw (Some dt) data = Ok back ->
  length_ok (rw_var dt) data = true -> zlen data < 2 ^ 32 -> (length data + 14 <= 7 * FUEL)%nat ->
  trunc_ok (Some dt) data ->
  valid_sched (expedited (Some (zlen data)) (dt =? dt_DOMAIN)) sched (zlen data) ->
  exists w', roundtrip nd w a value sched = (w', VL [pyval_val back; pyval_val back; VB data]) /\
             store_get (s_store (w_s w')) idx sub = Some data.
Proof. exact codec_roundtrip. Qed.

(* a variable registered directly (sub-index 0) or as a record member is reachable *)
Theorem C03_registered_reachable : forall nd idx sub dt name, holds_var nd idx sub dt name ->
  entry_rw (to_dict nd) idx sub (rw_var dt) /\ od_type nd idx sub = Some dt /\
  exists a, resolve nd a = Ok {| nv_name := name; nv_index := idx; nv_sub := sub; nv_var := rw_var dt |}.
Proof. exact holds_var_facts. Qed.

(* Channel isolation (Network.subscribe / notify): whatever the bus trace, every subscribed client's
   response queue grows by exactly the frames on its own COB-ID, in order ... *)
Theorem C03_channel_isolation : forall subs queues trace c q, In (c, q) queues -> zmem c subs = true ->
  In (c, q ++ delivered c trace) (notify_all subs queues trace).
Proof. exact channel_isolation. Qed.

(* ... so two traces that agree on every subscribed COB-ID leave identical queues: frames of other
   nodes' transfers and unrelated traffic, however interleaved, are invisible to a transfer
   (whose result is a function of the frames entering its queue: send_request appends exactly them) *)
Theorem C03_other_traffic_invisible : forall subs queues tr1 tr2,
  (forall c, zmem c subs = true -> delivered c tr1 = delivered c tr2) ->
  notify_all subs queues tr1 = notify_all subs queues tr2.
Proof. exact other_traffic_invisible. Qed.

Theorem C03_interleaving : forall cob cid fr t1 t2, cid <> cob ->
  delivered cob (t1 ++ (cid, fr) :: t2) = delivered cob (t1 ++ t2).
Proof. exact delivered_other. Qed.

(* ---- non-vacuity ---- *)
Example C03_nv_registered :
  registered nv_dict (AName [118; 52]) 8196 0 4 /\ registered nv_dict (AName [82; 46; 109]) 12288 3 21 /\
  registered nv_dict (ARec 12288 3) 12288 3 21 /\ registered nv_dict (AIndex 8207) 8207 0 15 /\
  holds_var nv_dict 12288 3 21 [109] /\
  zassoc 21 STRUCT_TYPES = Some (PStruct true 64) /\ in_range true 64 (-2) = true /\
  valid_sched (expedited (Some 8) false) [8; 1] 8.
Proof.
  unfold registered, entry_rw. cbn [resolve]. vm_compute.
  repeat split; eauto; try discriminate; try reflexivity.
Qed.

(* INTEGER64 record member written by "R.m" as -2 (two segments: 7 + 1 bytes); a 20-byte DOMAIN *)
Example C03_nv_roundtrip :
  let w0 : lworld := {| w_s := fresh_state []; w_q := [[96; 0; 0; 0; 0; 0; 0; 0]]; w_log := [] |} in
  snd (roundtrip nv_dict w0 (AName [82; 46; 109]) (PInt (-2)) [8; 1]) =
    VL [VZ (-2); VZ (-2); VB [254; 255; 255; 255; 255; 255; 255; 255]] /\
  snd (roundtrip nv_dict w0 (AIndex 8207) (PBytes [1; 2; 3; 4; 5; 6; 7; 8; 9; 10; 11; 12; 13; 14; 15; 16; 17; 18; 19; 20]) [20; 13; 6]) =
    VL [VB [1; 2; 3; 4; 5; 6; 7; 8; 9; 10; 11; 12; 13; 14; 15; 16; 17; 18; 19; 20];
        VB [1; 2; 3; 4; 5; 6; 7; 8; 9; 10; 11; 12; 13; 14; 15; 16; 17; 18; 19; 20];
        VB [1; 2; 3; 4; 5; 6; 7; 8; 9; 10; 11; 12; 13; 14; 15; 16; 17; 18; 19; 20]] /\
  notify_all [1413; 1414] [(1413, []); (1414, [])]
     [(1413, [1]); (385, [9]); (1414, [2]); (1413, [3]); (1792, [5])] = [(1413, [[1]; [3]]); (1414, [[2]])].
Proof. vm_compute. repeat split; reflexivity. Qed.

(* ---- Tie (c): source text -> model.  Gen/SrcC01.v is regenerated from the text of canopen/sdo/client.py on every run
   (tools/tables/src_c01.py): WritableStream.__init__ / write / close and ReadableStream.__init__ / read as state
   skeletons (which branch, byte 0 of the request, payload bytes copied, _toggle / _done / _error / pos / size
   afterwards, which exception).  The *_from_src functions (Proofs/Src_eq_c01.v) are the model functions rebuilt around
   those skeletons: the only decisions left outside the translated text are struct packing, the request/response
   exchange and slicing.  The client half of the composition the theorems above speak about IS what the current source text says. ---- *)
Theorem C03_src_ws_init : forall (S : Type) (peer : S -> list Z -> S * list (list Z)) (w : world) idx sub size force,
  ws_init peer w idx sub size force = ws_init_from_src peer w idx sub size force.
Proof. exact @src_ws_init_eq. Qed.

Theorem C03_src_ws_write : forall (S : Type) (peer : S -> list Z -> S * list (list Z)) (w : world) st b,
  ws_write peer w st b = ws_write_from_src peer w st b.
Proof. exact @src_ws_write_eq. Qed.

Theorem C03_src_ws_close : forall (S : Type) (peer : S -> list Z -> S * list (list Z)) (w : world) st,
  ws_close peer w st = ws_close_from_src peer w st.
Proof. exact @src_ws_close_eq. Qed.

Theorem C03_src_rs_init : forall (S : Type) (peer : S -> list Z -> S * list (list Z)) (w : world) idx sub,
  rs_init peer w idx sub = rs_init_from_src peer w idx sub.
Proof. exact @src_rs_init_eq. Qed.

Theorem C03_src_rs_read : forall (S : Type) (peer : S -> list Z -> S * list (list Z)) (f : nat) (w : world) st size,
  0 <= size ->
  rs_read peer (Datatypes.S f) w st = rs_read_from_src peer (rs_read peer f) w st size.
Proof. exact @src_rs_read_eq. Qed.

(* non-vacuity of the tie: the skeletons on concrete states.  A 10-byte download of declared size: initiate byte 0x21;
   second segment (3 bytes at pos 7, toggle 0x10) has byte 0 = 0x10 | (7-3)<<1 | 1 = 0x19 and completes the stream;
   close() of an unfinished stream of unknown size sends 0x0F | toggle; an expedited upload response 0x4B (e, s, n=2)
   gives size 2; a final 2-byte upload segment 0x1B with toggle 0x10. *)
(* readinto(b) with a buffer of cap bytes: read(7) only when nothing is pending, min(cap, pending) bytes handed out,
   the rest kept *)
Theorem C03_src_rs_readinto : forall (S : Type) (peer : S -> list Z -> S * list (list Z)) rf cap (w : world) st,
  0 <= cap -> rs_readinto peer rf cap w st = rs_readinto_from_src peer rf cap w st.
Proof. exact @src_rs_readinto_eq. Qed.

(* the exchange itself: which frame is awaited, when the queue is replaced, that ONE request is sent, and that a missing
   response is answered by the abort frame [0x80, 0, 0, 0, code little-endian] with the code in the source text (0x05040000)
   after MAX_RETRIES (regenerated: SDO_MAX_RETRIES) attempts *)
Theorem C03_src_request_response : forall (S : Type) (peer : S -> list Z -> S * list (list Z)) (w : world) req,
  request_response peer w req = request_response_from_src peer w req.
Proof. exact @src_request_response_eq. Qed.

Theorem C03_src_read_response : forall (S : Type) (w : @world S), read_response w = read_response_from_src w.
Proof. exact @src_read_response_eq. Qed.

Theorem C03_src_abort_frame : forall code, SdoClient.abort_frame code = abort_frame_from_src code.
Proof. exact src_abort_eq. Qed.

Theorem C03_src_upload_truncation : forall odt response_size data,
  truncate odt response_size data = truncate_from_src odt response_size data.
Proof. exact src_upload_eq. Qed.

Print Assumptions C03_typed_roundtrip.
Print Assumptions C03_bool_roundtrip.
Print Assumptions C03_real_roundtrip.
Print Assumptions C03_bytes_roundtrip.
Print Assumptions C03_ascii_roundtrip.
Print Assumptions C03_codec_roundtrip.
Print Assumptions C03_registered_reachable.
Print Assumptions C03_channel_isolation.
Print Assumptions C03_other_traffic_invisible.
Print Assumptions C03_interleaving.
Print Assumptions C03_src_ws_init.
Print Assumptions C03_src_ws_write.
Print Assumptions C03_src_ws_close.
Print Assumptions C03_src_rs_init.
Print Assumptions C03_src_rs_read.
Print Assumptions C03_src_upload_truncation.
Print Assumptions C03_src_request_response.
Print Assumptions C03_src_read_response.
Print Assumptions C03_src_abort_frame.
Print Assumptions C03_src_rs_readinto.
