(* C14 - Exporting a dictionary to EDS/DCF and importing it again loses nothing.
   Statements only; every proof is [exact] of a lemma in Proofs/Eds_proofs.v.
   Model: Model/Eds.v (export_eds / export_dcf: export_variable, export_record, add_list, _revert_variable; import_eds).
   PARTIAL: proved from the token level up; the destination kinds (file name, stream, stdout), configparser's
   writer/reader and repr(float)/float() are modelled, not verified, and tied by the correspondence. *)
From Coq Require Import ZArith List Bool Lia.
From Coq Require String.
Import String.StringSyntax.
From CV Require Import Base.Val Base.Bytes Base.Tys Gen.Tables Gen.EdsTables Gen.SrcC14 Model.Eds Model.RefEds Proofs.Eds_proofs Proofs.Src_eq_c14.
Import ListNotations.
Open Scope Z_scope.

(* ---- value level ---- *)
(* convert_revert for ALL integers: what _revert_variable prints ('0x%02X', '-0x..' for negative values) is read
   back by _convert_variable as the same number, for every data type of the integer class and any node id *)
Theorem C14_convert_revert_int : forall nid dt z, int_class dt = true ->
  exists t, revert_variable dt (PVInt z) = Some t /\ convert_variable nid dt t = Some (PVInt z).
Proof. exact convert_revert_int. Qed.

(* convert_revert for every kind of value: numbers, byte strings (bytes.hex / bytes.fromhex), text, and REAL
   values whose repr() is read back by float() (float_rt: the text layer of floats is modelled, see notes) *)
Theorem C14_convert_revert : forall dt v nid, value_ok dt v ->
  exists t, revert_variable dt v = Some t /\ convert_variable nid dt t = Some v.
Proof. exact convert_revert. Qed.

(* a whole number assigned as a Python int to a REAL32/REAL64 object (var.default = -40) is written as str(int) and
   read back by float() as the real number of that value (m * 10^e = z), not lost *)
Theorem C14_real_int_roundtrip : forall nid dt z,
  is_bytes_type dt = false -> is_text_type dt = false -> zmem dt FLOAT_TYPES = true ->
  exists m e, revert_variable dt (PVInt z) = Some (dec z) /\
              convert_variable nid dt (dec z) = Some (PVFloat m e) /\ 0 <= e /\ m * 10 ^ e = z.
Proof. exact real_int_roundtrip. Qed.

(* limits are written as str(v): read back for every data type; for a signed type the limit must not exceed the
   type's maximum (hypothesis forced by the code: a larger number is taken for a two's-complement pattern) *)
Theorem C14_limit_roundtrip : forall dt v, (zmem dt SIGNED_TYPES = true -> v < 2 ^ (signed_width dt - 1)) ->
  parse_limit dt (dec v) = Some v.
Proof. exact limit_roundtrip. Qed.

(* str(v) is read back by int(text) (bit rate, node id) *)
Theorem C14_int10_dec : forall v, int10 (dec v) = Some v.
Proof. exact int10_dec. Qed.

(* ---- object level: one variable through export_variable and build_variable ---- *)
Theorem C14_export_import_var : forall d dcf top nid v, wf_var nid v ->
  exists kv, export_variable dcf top v = Some (var_section_name top v, kv) /\
             build_variable d kv nid (v_index v) (v_sub v) = Ok (reimported' dcf v) /\
             (top = true -> read_head kv = mkHead (Some (v_name v)) (Some (s "0x7")) (v_storage v) None).
Proof. exact export_import_var'. Qed.

(* every listed attribute is kept: name, index, sub-index, data type, access type, PDO mappability, default
   (negative ones included), limits, storage location, factor, unit, description; for DCF also the parameter value *)
Theorem C14_attributes_kept : forall dcf nid v, wf_var nid v -> same_attrs dcf v (reimported' dcf v).
Proof. exact reimported'_same. Qed.

(* ---- object lists ----
   FULL STATEMENT (C14 export_import_id): for every well-formed dictionary od with indexes >= 0x1000,
     import_ini (export_ini od t) nid equals od on all listed attributes (DCF: parameter values, bit rate, node id).
   PROVED (partial): the object sections that export_eds writes for any list of well-formed objects (variables,
   records and arrays of any number of members; what add_list emits after each of the three object lists) are
   imported as exactly those objects with every listed attribute kept (C14_attributes_kept, C14_containers_kept),
   in any surrounding document; bit rate and node id of a DCF (C14_export_import_commissioning).
   Left to the correspondence: the frame of the exported document (DeviceInfo, Comments, DummyUsage, the three
   object lists and their order), i.e. that export_ini assembles these parts, and that its document has no
   duplicate section. *)
Theorem C14_export_import_objects_partial : forall D dcf nid objs, Forall (wf_obj nid) objs ->
  exists secss, opt_all (map (export_object dcf) objs) = Some secss /\ forall rest od,
    import_sections D nid (concat secss ++ rest) od =
    import_sections D nid rest (fold_left (fun od o => add_object (reimported_obj dcf o) od) objs od).
Proof. exact export_import_objects_partial. Qed.

Theorem C14_containers_kept : forall dcf o,
  match o, reimported_obj dcf o with
  | OVar v, OVar v' => v' = reimported' dcf v
  | OCont c, OCont c' =>
      c_kind c' = c_kind c /\ c_name c' = c_name c /\ c_index c' = c_index c /\ c_storage c' = c_storage c /\
      c' = filled (mkCont (c_kind c) (c_name c) (c_index c) (c_storage c) [] [])
                  (map (fun p => reimported' dcf (snd p)) (zsort (c_subs c)))
  | _, _ => False
  end.
Proof. exact reimported_obj_shape. Qed.

(* DCF: bit rate (a multiple of 1000 bit/s) and node id come back; 0 means "not set" and comes back as None *)
Theorem C14_export_import_commissioning : forall D od nid,
  (match od_bitrate od with Some b => 0 <= b /\ b mod 1000 = 0 | None => True end) ->
  find_section D (s "DeviceComissioning") =
    Some (kvs_of [ (s "Baudrate", match od_bitrate od with Some b => if b =? 0 then None else Some (dec (b / 1000)) | None => None end);
                   (s "NodeID", match od_node_id od with Some n => if n =? 0 then None else Some (dec n) | None => None end) ]) ->
  exists od' eff, import_commissioning D nid empty_od = Ok (od', eff) /\
    od_bitrate od' = (match od_bitrate od with Some 0 => None | x => x end) /\
    (nid = None -> od_node_id od' = (match od_node_id od with Some 0 => None | x => x end)).
Proof. exact export_import_commissioning. Qed.

(* the destination does not change the document: an explicitly requested document type is honoured for every
   destination (stream, stdout, any file name, also one whose suffix names the other format); without an explicit
   type a file name selects DCF exactly when it ends in ".dcf" *)
Theorem C14_destination_type_explicit : forall dest t, t = s "eds" \/ t = s "dcf" ->
  export_od_type dest (Some t) = Ok (Some (streq t (s "dcf"))).
Proof. exact export_type_explicit. Qed.

Theorem C14_destination_type_from_name : forall name,
  export_od_type (Some name) None = Ok (Some (ends_with (s ".dcf") name)).
Proof. exact export_type_from_name. Qed.

(* ---- source-text tie (tie (c)): the decision logic of the export side, translated from the CURRENT source text by
   tools/py2coq.py through tools/tables/src_c14.py (Gen/SrcC14.v, regenerated on every run), is the model's ---- *)
(* export_od: explicit document type / file-name suffix / default, validation, "nothing written" *)
Theorem C14_src_export_od : forall dest t,
  export_od_type dest t =
  src_export_od (osome dest)
    (match dest with Some n => ends_with (s ".dcf") n | None => false end)
    (match dest with Some n => ends_with (s ".eds") n | None => false end) (doc_code t).
Proof. exact src_export_od_eq. Qed.

(* _revert_variable dispatches on the DATA TYPE: byte strings as hex digits, text and REAL types as they are,
   everything else as 0x.. with the sign in front *)
Theorem C14_src_revert_class : forall dt z,
  src_revert_variable false dt z =
  if is_bytes_type dt then 1 else if is_text_type dt || zmem dt FLOAT_TYPES then 2 else if z <? 0 then 4 else 5.
Proof. exact src_revert_class. Qed.

Theorem C14_src_revert_variable : forall dt v,
  revert_variable dt v =
  let code := src_revert_variable false dt (match v with PVInt z => z | _ => 0 end) in
  if code =? 1 then match v with PVBytes b => Some (tohex b) | _ => None end
  else if code =? 2 then
    (if is_text_type dt then match v with PVStr t => Some t | _ => None end
     else match v with PVFloat m e => Some (float_print (m, e)) | PVInt z => Some (dec z) | _ => None end)
  else match v with
       | PVInt z => Some (if code =? 4 then 45 :: fmt_0x02X (- z) else fmt_0x02X z)
       | _ => None
       end.
Proof. exact src_revert_variable_eq. Qed.

(* export_variable: DefaultValue is the original text if there is one, else _revert_variable of the default, else absent *)
Theorem C14_src_default_text : forall dt raw val,
  value_text dt raw val = text_by_mode (src_var_default (osome raw) (osome val) 0) dt raw val.
Proof. exact src_var_default_eq. Qed.

(* ... and the parameter value by the same rule, for a DCF only *)
Theorem C14_src_value_text : forall (dcf : bool) dt raw val pv, value_text dt raw val = Some pv ->
  let mode := src_var_value dcf (osome raw) (osome val) 0 in
  (if dcf then pv else None) = (if mode =? 0 then None else pv) /\
  text_by_mode mode dt raw val = Some (if dcf then pv else None).
Proof. exact src_var_value_eq. Qed.

(* export_common + export_variable: the section name and exactly which keys are written for one variable *)
Theorem C14_src_var_entries : forall (dcf top : bool) v dv pv,
  let '(top_, named, ot) := src_var_head top false false 0 in
  let '(w_name, w_sto) := src_export_common (match v_storage v with Some t => filled_str t | None => false end) false false in
  let '(w_dt1, w_acc) := src_var_type (v_dt v) (filled_str (v_access v)) false false in
  let '(w_dt, w_pdo) := src_var_fixed w_dt1 false in
  let '(w_low, w_high) := src_var_limits (osome (v_min v)) (osome (v_max v)) false false in
  let '(w_descr, w_factor, w_unit) :=
    src_var_text (filled_str (v_descr v)) (negb ((fst (v_factor v) =? 1) && (snd (v_factor v) =? 0)))
                 (filled_str (v_unit v)) false false false in
  var_section_name top v = (if top_ then fmt_X 4 (v_index v) else fmt_X 4 (v_index v) ++ s "sub" ++ fmt_X 0 (v_sub v)) /\
  named = true /\
  var_entries dcf v dv pv =
  [ (k_PName, if w_name then Some (v_name v) else None);
    (s "StorageLocation", if w_sto then v_storage v else None);
    (s "ObjectType", Some (s "0x" ++ fmt_X 0 ot));
    (s "DataType", if w_dt then Some (s "0x" ++ fmt_X 4 (v_dt v)) else None);
    (s "AccessType", if w_acc then Some (v_access v) else None);
    (s "DefaultValue", dv);
    (k_PValue, if dcf then pv else None);
    (s "PDOMapping", if w_pdo then Some (hex_bool (v_pdo v)) else None);
    (s "LowLimit", if w_low then option_map dec (v_min v) else None);
    (s "HighLimit", if w_high then option_map dec (v_max v) else None);
    (s "Description", if w_descr then Some (v_descr v) else None);
    (s "Factor", if w_factor then Some (float_print (v_factor v)) else None);
    (s "Unit", if w_unit then Some (v_unit v) else None) ].
Proof. exact src_var_entries_eq. Qed.

(* export_record = export_array: ObjectType 0x9 for a record, 0x8 for every array, SubNumber = number of members *)
Theorem C14_src_export_record : forall dcf c secs, export_object dcf (OCont c) = Some secs ->
  let '(ot, subnumber, members) :=
    src_export_record (match c_kind c with KRec => true | KArr => false end) (Z.of_nat (length (c_subs c))) 0 0 false in
  let '(w_name, w_sto) := src_export_common (match c_storage c with Some t => filled_str t | None => false end) false false in
  members = true /\
  hd_error secs = Some (fmt_X 4 (c_index c), kvs_of
    [ (k_PName, if w_name then Some (c_name c) else None);
      (s "StorageLocation", if w_sto then c_storage c else None);
      (s "SubNumber", Some (s "0x" ++ fmt_X 0 subnumber));
      (s "ObjectType", Some (s "0x" ++ fmt_X 0 ot)) ]).
Proof. exact src_export_record_eq. Qed.

(* ---- non-vacuity ---- *)
Example C14_nv_objects :
  Forall (wf_obj (Some 5)) [ex_rec; OVar (ex_v 0 21 (Some (PVInt (-1))) None (Some 9223372036854775807))] /\
  float_rt (25, -2) /\ float_rt (-225, -2) /\ float_rt (1, 10) /\ float_rt (1, 16) /\ float_rt (6103515625, -14) /\
  (exists d, export_ini (build_od [ex_rec] (s "a") (Some 250000) (Some 5) [] [] [125000]) true = Some d /\
             length d = 12%nat /\ doc_ok d = true).
Proof.
  assert (F1 : float_rt (25, -2)) by (vm_compute; reflexivity).
  assert (F2 : float_rt (-225, -2)) by (vm_compute; reflexivity).
  split; [|split; [exact F1|split; [exact F2|]]].
  - apply Forall_cons; [|apply Forall_cons; [|apply Forall_nil]].
    + cbn [wf_obj]. split; [vm_compute; split; discriminate || reflexivity|]. split; [discriminate|].
      change (c_subs match ex_rec with OCont c => c | OVar _ => mkCont KRec [] 0 None [] [] end)
        with [ (2, ex_v 2 16 (Some (PVInt (-8388608))) (Some (-8388608)) (Some 8388607));
               (0, ex_v 0 5 (Some (PVInt 2)) None None);
               (1, ex_v 1 10 (Some (PVBytes [0; 171; 255])) None None);
               (3, ex_v 3 8 (Some (PVFloat (-225) (-2))) None None) ].
      repeat (first [ apply Forall_cons | apply Forall_nil ]); cbn [snd];
        (split; [solve_wf_var F1 F2 | split; [reflexivity | cbn; lia]]).
    + cbn [wf_obj]. split; [solve_wf_var F1 F2|]. split; [cbn; lia|reflexivity].
  - repeat split; try (vm_compute; reflexivity). eexists. vm_compute. repeat split; reflexivity.
Qed.

Print Assumptions C14_convert_revert_int.
Print Assumptions C14_convert_revert.
Print Assumptions C14_real_int_roundtrip.
Print Assumptions C14_limit_roundtrip.
Print Assumptions C14_int10_dec.
Print Assumptions C14_export_import_var.
Print Assumptions C14_attributes_kept.
Print Assumptions C14_export_import_objects_partial.
Print Assumptions C14_containers_kept.
Print Assumptions C14_export_import_commissioning.
Print Assumptions C14_destination_type_explicit.
Print Assumptions C14_destination_type_from_name.
Print Assumptions C14_src_export_od.
Print Assumptions C14_src_revert_class.
Print Assumptions C14_src_revert_variable.
Print Assumptions C14_src_default_text.
Print Assumptions C14_src_value_text.
Print Assumptions C14_src_var_entries.
Print Assumptions C14_src_export_record.
