(* C15 - A PDO value set by the producer is the value the consumer reads.
   Statements only; proofs in Proofs/PdoLink_proofs.v.  Model: Model/PdoLink.v (PdoMap.transmit,
   on_message, add_callback, remote_request, subscribe; Network.subscribe / notify for PDO handlers)
   over Model/Pdo.v (C05).  wf_world = "the subscriber table holds no handler twice", an invariant of
   every operation sequence (C15_wf_invariant). The wake-up of wait_for_reception (condition variable)
   is not modelled: it is exercised with a real second thread by the harness only. *)
From Coq Require Import ZArith List Bool.
From CV Require Import Base.Val Base.Bytes Base.Bits Base.Tys Gen.Tables Gen.SrcC15 Model.Codec Model.Pdo Model.PdoLink
  Proofs.Codec_proofs Proofs.Pdo_proofs Proofs.PdoLink_proofs Proofs.Src_eq_c15.
Import ListNotations.
Open Scope Z_scope.

Theorem C15_wf_invariant : forall ops w, wf_world w -> wf_world (fst (run_steps w ops)).
Proof. exact wf_preserved. Qed.

(* producer writes a mapped variable and transmits; a consumer map with the same layout that is
   subscribed to the COB-ID reads the same value and carries the frame's timestamp *)
Theorem C15_end_to_end : forall w kp kc var v ts mp mc e off ft,
  wf_world w -> kp <> kc ->
  nth_error (w_maps w) kp = Some mp -> nth_error (w_maps w) kc = Some mc ->
  m_layout mc = m_layout mp ->
  nth_error (m_layout mp) var = Some e -> nth_error (offsets (m_layout mp)) var = Some off ->
  entry_is (e_dt e) (e_len e) ft -> fits ft v ->
  bytes_ok (m_data mp) -> 0 <= off -> off + e_len e <= 8 * zlen (m_data mp) ->
  has_sub (w_subs w) (m_cob mp) kc = true -> accepts mc (m_cob mp) = true ->
  let '(w1, r1) := step w (LWrite kp var (write_value ft v)) in
  let '(w2, r2) := step w1 (LTransmit kp ts) in
  let '(w3, r3) := step w2 (LRead kc var) in
  r1 = VNone /\ r2 = VNone /\
  r3 = pyval_val (field_value ft (e_len e) (v mod 2 ^ e_len e)) /\
  exists mc', nth_error (w_maps w3) kc = Some mc' /\ m_ts mc' = Some ts /\ m_received mc' = true.
Proof. exact pdo_end_to_end. Qed.

(* a received frame updates exactly the maps subscribed to (and configured for) its COB-ID *)
Theorem C15_reception_updates_exactly_subscribers : forall w c d ts j m, wf_world w ->
  nth_error (w_maps w) j = Some m ->
  let w' := arrive w c d ts in
  (has_sub (w_subs w) c j && accepts m c = false -> nth_error (w_maps w') j = Some m) /\
  (has_sub (w_subs w) c j && accepts m c = true ->
     exists m', nth_error (w_maps w') j = Some m' /\ m_data m' = d /\ m_ts m' = Some ts /\
                m_received m' = true /\ m_layout m' = m_layout m /\ m_cob m' = m_cob m).
Proof. exact reception_updates_exactly_subscribers. Qed.

(* ... and invokes each callback of each updated map once, in order *)
Theorem C15_reception_callbacks : forall w c d ts, wf_world w ->
  w_cblog (arrive w c d ts) = w_cblog w ++ flat_map (sub_log (w_maps w) c d ts) (w_subs w).
Proof. exact reception_callbacks. Qed.

Theorem C15_transmit_sends : forall w k ts m, nth_error (w_maps w) k = Some m -> wf_world w ->
  w_sent (fst (step w (LTransmit k ts))) = w_sent w ++ [(m_cob m, m_data m, false)].
Proof. exact transmit_sends. Qed.

Theorem C15_rtr_rule : forall w k m, nth_error (w_maps w) k = Some m ->
  w_sent (fst (step w (LRtr k))) =
  if m_enabled m && m_rtr m then w_sent w ++ [(m_cob m, [], true)] else w_sent w.
Proof. exact rtr_rule. Qed.

(* Tie to the source text: PdoMap.on_message and remote_request as translated from the CURRENT source by
   tools/py2coq.py (Gen/SrcC15.v, regenerated on every run) take a frame exactly when the model does, update
   timestamp and period as the model does, and send the remote frame under the model's condition. *)
Theorem C15_source_on_message_is_model : forall m can_id data ts dts dper,
  let r := src_pdo_on_message (m_cob m) (m_task m) (match m_ts m with Some _ => true | None => false end)
             (match m_ts m with Some t => t | None => dts end)
             (match m_period m with Some p => p | None => dper end) can_id ts false in
  let m' := fst (on_message m can_id data ts) in
  fst (fst r) = accepts m can_id /\
  (accepts m can_id = true ->
     m_ts m' = Some (snd r) /\
     m_period m' = match m_ts m with Some _ => Some (snd (fst r)) | None => m_period m end) /\
  (accepts m can_id = false -> m' = m).
Proof. exact src_pdo_on_message_eq. Qed.

Theorem C15_source_remote_request_is_model : forall w k m, nth_error (w_maps w) k = Some m ->
  w_sent (fst (step w (LRtr k))) =
  if src_pdo_remote_request_sends (m_enabled m) (m_rtr m) false then w_sent w ++ [(m_cob m, [], true)] else w_sent w.
Proof. exact src_pdo_remote_request_eq. Qed.

Theorem C15_source_subscribe_is_model : forall w k m, nth_error (w_maps w) k = Some m ->
  fst (step w (LSubscribe k)) =
  if src_pdo_subscribe_calls (m_enabled m) false && src_net_subscribe_adds (has_sub (w_subs w) (m_cob m) k) false
  then {| w_maps := w_maps w; w_subs := w_subs w ++ [(m_cob m, k)]; w_sent := w_sent w; w_cblog := w_cblog w |}
  else w.
Proof. exact src_pdo_subscribe_eq. Qed.

Theorem C15_source_transmit_is_model : forall w k m ts, nth_error (w_maps w) k = Some m ->
  w_sent (fst (step w (LTransmit k ts))) =
  if src_pdo_transmit_sends false then w_sent w ++ [(m_cob m, m_data m, false)] else w_sent w.
Proof. exact src_pdo_transmit_eq. Qed.

(* ---- non-vacuity: producer map 0 and consumer map 1, layout [BOOLEAN:1, INTEGER16:16], consumer
   subscribed with two callbacks; the hypotheses of C15_end_to_end hold and the run gives -300 ---- *)
Example C15_nv :
  let lay := [{| e_dt := 1; e_len := 1 |}; {| e_dt := 3; e_len := 16 |}] in
  let w0 := {| w_maps := [fresh_map 389 true true lay; fresh_map 389 true true lay];
               w_subs := []; w_sent := []; w_cblog := [] |} in
  let w := fst (run_steps w0 [LAddCb 1 7; LAddCb 1 8; LSubscribe 1]) in
  wf_world w /\ has_sub (w_subs w) 389 1 = true /\
  (exists mc, nth_error (w_maps w) 1 = Some mc /\ accepts mc 389 = true) /\
  entry_is 3 16 (FInt true 16) /\ fits (FInt true 16) (-300) /\
  snd (run_steps w [LWrite 0 1 (PInt (-300)); LTransmit 0 1234; LRead 1 1; LState 1]) =
    [VNone; VNone; VZ (-300); VL [VBool true; VZ 1234; VNone; VB [168; 253; 1]]] /\
  w_cblog (fst (run_steps w [LWrite 0 1 (PInt (-300)); LTransmit 0 1234])) = [(1%nat, 7); (1%nat, 8)].
Proof.
  cbn zeta. split; [|split; [|split; [|split; [|split; [|split]]]]].
  - apply wf_preserved. constructor.
  - vm_compute. reflexivity.
  - eexists. split; vm_compute; reflexivity.
  - exists (PStruct true 16). vm_compute. auto.
  - vm_compute. reflexivity.
  - vm_compute. reflexivity.
  - vm_compute. reflexivity.
Qed.

Print Assumptions C15_wf_invariant.
Print Assumptions C15_end_to_end.
Print Assumptions C15_reception_updates_exactly_subscribers.
Print Assumptions C15_reception_callbacks.
Print Assumptions C15_transmit_sends.
Print Assumptions C15_rtr_rule.
Print Assumptions C15_source_on_message_is_model.
Print Assumptions C15_source_remote_request_is_model.
Print Assumptions C15_source_subscribe_is_model.
Print Assumptions C15_source_transmit_is_model.
