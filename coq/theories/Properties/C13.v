(* C13 - SDO block upload returns exactly the server's data or fails visibly.
   Statements only; every proof is [exact] of a lemma in Proofs/Block_proofs.v.
   Model:  Model/BlockUl.v (BlockUploadStream.__init__/read/_retransmit/_ack_block/_end_upload/close, the with-block
           around f.read()), transport in Model/BlockDl.v, Model/Crc.v,
   peer:   Model/RefBlockServer.v (reference block upload server from CiA 301 + fault injector).

   ul_transfer srv fuel w0 index sub blksize crc_client = (result, final stream state u, final network w);
   u_done u = true <-> the stream saw the segment with the c bit and the end frame, i.e. close() sends the
   end response (when no error was flagged). *)
From Coq Require Import ZArith List Bool.
From CV Require Import Base.Val Base.Bytes Model.Crc Model.RefBlockServer Model.BlockDl Model.BlockUl Proofs.Crc_proofs Proofs.Block_proofs Gen.SdoTables Gen.SrcC13 Proofs.Src_eq_c13.
Import ListNotations.
Open Scope Z_scope.

(* Undisturbed: every value of length >= 1 (< 2^32), every client block size 1..127, all four CRC capability
   combinations, server announcing the size in its initiate response or not (size_ind, the s bit): the call returns exactly the value; every acknowledge carried the number of segments the server
   had sent (us_acks_exact), the final segment was trimmed by the announced count of unused bytes (the result is V),
   the transfer was closed (us_ended) and the server saw no protocol violation. *)
Theorem C13_block_upload_exact :
  forall (V : list Z) (B index sub : Z) (crc_client crc_server size_ind : bool) (fuel : nat),
  1 <= zlen V < 4294967296 -> 1 <= B <= 127 -> (length V + 1 < fuel)%nat ->
  exists u w,
    ul_transfer (faulty ul_srv) fuel (mknet (fs_init (us_init V crc_server size_ind) []) [] []) index sub B crc_client = (Ok V, u, w) /\
    u_done u = true /\ u_error u = false /\
    us_ended (f_inner (n_srv w)) = true /\ us_acks_exact (f_inner (n_srv w)) = true /\ us_bad (f_inner (n_srv w)) = 0.
Proof. exact block_upload_exact. Qed.

(* crc_guard / size_guard, against ANY peer (any state type, any behaviour, any loss / corruption / reordering of
   what it sends): a completed transfer (u_done) that returns normally returned data whose CRC-16 is the CRC
   announced in the end frame whenever the CRC was negotiated, and whose length is the size announced in the
   initiate response whenever one was announced.  Hence: honest announcements + data that differ in CRC or in
   length can only end in an error. *)
Theorem C13_crc_guard :
  forall (S : Type) (srv : S -> frame -> S * list frame) (fuel : nat) (w : net) (index sub blksize : Z) (crc : bool)
         (data : list Z) (u : ul) (w' : net),
  ul_transfer srv fuel w index sub blksize crc = (Ok data, u, w') ->
  u_done u = true ->
  (u_crcsup u = true -> u_scrc u = Some (crc16 data)) /\
  (forall s, u_size u = Some s -> zlen data = s).
Proof. exact @crc_size_guard. Qed.

(* For the reference server behind ANY fault list (lost / corrupted / replaced / duplicated frames in both directions)
   the hypothesis u_done is redundant: only 8-byte frames are ever delivered, so a normal return is a completed
   transfer; its data have the announced CRC (when negotiated) and the announced length. *)
Theorem C13_crc_guard_ref :
  forall (V : list Z) (crc_server size_ind : bool) (faults : list fault) fuel index sub blksize crc data u w',
  ul_transfer (faulty ul_srv) fuel (mknet (fs_init (us_init V crc_server size_ind) faults) [] []) index sub blksize crc = (Ok data, u, w') ->
  u_done u = true /\
  (u_crcsup u = true -> u_scrc u = Some (crc16 data)) /\
  (forall s, u_size u = Some s -> zlen data = s).
Proof. exact crc_guard_ref. Qed.

(* One lost segment, whichever (the j-th frame of the server, 2 <= j <= 1 + number of segments; frame 1 is the
   initiate response), any value, any client block size, any CRC configuration: the loss is noticed (sequence gap or
   time-out), the sub-block is acknowledged up to the last good segment, the stale frames are skipped, and the call
   returns exactly the value; the transfer is closed and the server saw no protocol violation.
   (This is the behaviour after the fixes e896b3b and fc751a5; before them the statement was false, see notes/C13.md.) *)
Theorem C13_single_loss_repaired :
  forall (V : list Z) (B index sub : Z) (crc_client crc_server size_ind : bool) (fuel : nat) (j : Z),
  1 <= zlen V < 4294967296 -> 1 <= B <= 127 -> (length V + 1 < fuel)%nat ->
  2 <= j <= 1 + (zlen V + 6) / 7 ->
  exists u w,
    ul_transfer (faulty ul_srv) fuel (mknet (fs_init (us_init V crc_server size_ind) [FDropS j]) [] []) index sub B crc_client = (Ok V, u, w) /\
    u_done u = true /\ u_error u = false /\ us_ended (f_inner (n_srv w)) = true /\ us_bad (f_inner (n_srv w)) = 0.
Proof. exact upload_single_loss_repaired. Qed.

(* Other callers of the same stream: readinto() with arbitrary buffer sizes ks (smaller than a segment or not) on the raw
   stream, then read().  The part of a segment that does not fit is kept in _pending and handed out first.
   For ANY peer that only delivers 8-byte frames the result (data or error, final stream state, final network state) is the
   one of f.read() alone (with n more units of loop fuel): nothing is lost or duplicated at the seams. *)
Theorem C13_readinto_same_stream :
  forall (S : Type) (srv : S -> frame -> S * list frame),
  (forall s fr, Forall len8 (snd (srv s fr))) ->
  forall (fuel : nat) (w : net) (index sub blksize : Z) (crc : bool) (ks : list Z),
  exists n, ul_transfer_ri srv (Datatypes.S fuel) w index sub blksize crc ks =
            ul_transfer srv (n + Datatypes.S fuel) w index sub blksize crc.
Proof. exact @transfer_ri_equiv. Qed.

(* ... hence the undisturbed transfer read that way returns exactly the value, for every list of buffer sizes. *)
Theorem C13_readinto_exact :
  forall (V : list Z) (B index sub : Z) (crc_client crc_server size_ind : bool) (fuel : nat) (ks : list Z),
  1 <= zlen V < 4294967296 -> 1 <= B <= 127 -> (length V + 1 < fuel)%nat ->
  exists u w,
    ul_transfer_ri (faulty ul_srv) fuel (mknet (fs_init (us_init V crc_server size_ind) []) [] []) index sub B crc_client ks = (Ok V, u, w) /\
    u_done u = true /\ u_error u = false /\
    us_ended (f_inner (n_srv w)) = true /\ us_acks_exact (f_inner (n_srv w)) = true /\ us_bad (f_inner (n_srv w)) = 0.
Proof. exact readinto_exact. Qed.

(* CRC-16/XMODEM detects every single-bit corruption of a byte string of any length, from any register value
   (linearity over xor + the generator polynomial has constant term 1): flipping bit k of byte i changes the CRC. *)
Theorem C13_crc_single_bit : forall (data : list Z) (c : Z) (i : nat) (k : Z),
  (i < length data)%nat -> 0 <= k < 8 ->
  crc_from c (xor_at data i (2 ^ k)) <> crc_from c data.
Proof. exact crc_single_bit. Qed.

Theorem C13_crc_chunkwise : forall c chunks, fold_left crc_from chunks c = crc_from c (concat chunks).
Proof. exact crc_from_concat. Qed.

(* ---- Tie (c): source text -> model.  Gen/SrcC13.v is regenerated from the text of canopen/sdo/client.py on every run
   (tools/tables/src_c13.py).  SK u timed_out cmd_d cmd_r ack_r n cm dl = the translated read() on the stream state u
   (no _pending, size >= 0): timed_out = read_response() raised, cmd_d = command byte of the frame it returned,
   cmd_r / ack_r = command byte of the frame _retransmit() returned and the _ackseq it left, n = result of _end_upload(),
   cm = "announced CRC = CRC of the data", dl = len(data).  rd_* are the components of its result. ---- *)
Theorem C13_src_read_dispatch : forall (S : Type) (srv : S -> frame -> S * list frame) u (w : @net S),
  ul_read srv u w =
  if rd_code (SK u false 0 0 0 0 true 0) =? 12 then (Ok [], u, w)
  else
    let via_retransmit w1 :=
      match ul_retransmit srv u w1 with
      | (Ok response', u2, w2) => read_tail srv u2 w2 response'
      | (Err k, u2, w2) => (Err k, u2, w2)
      | (Abort a, u2, w2) => (Abort a, u2, w2)
      end in
    match read_response w with
    | (Abort a, w1) => (Abort a, u, w1)
    | (Err _, w1) => via_retransmit w1
    | (Ok response, w1) =>
        let t := SK u false (fb response 0) 0 0 0 true 0 in
        if rd_nretx t =? 0 then read_tail srv (set_ackseq u (rd_ackseq t)) w1 response else via_retransmit w1
    end.
Proof. exact @src_ul_read_dispatch_eq. Qed.

Theorem C13_src_read_tail : forall (S : Type) (srv : S -> frame -> S * list frame) u (w : @net S) resp,
  u_done u = false ->
  read_tail srv u w resp =
  let sk := SK u true 0 (fb resp 0) (u_ackseq u) in
  let t0 := sk 0 true 0 in
  let '(u1, w1) := if rd_acked t0 then ack_block srv u w else (u, w) in
  let fin n (u2 : ul) (w2 : @net S) : @RU S (list Z) :=
    let data := skipn 1 (firstn (Z.to_nat (rd_hi (sk n true 0))) resp) in
    let crc' := if u_crcsup u then crc_from (u_crc u) data else u_crc u in
    let cm := match u_scrc u2 with Some sc => sc =? crc' | None => false end in
    let t := sk n cm (zlen data) in
    let u3 := mkul (rd_done t) (rd_pos t) (if rd_crcp t then crc_from (u_crc u) data else u_crc u) (u_scrc u2)
                   (u_ackseq u2) (rd_err t) (u_size u) (u_crcsup u) (u_blksize u) in
    if rd_code t =? 0 then (Err E_SDOCOMM, u3, client_abort srv w2 (rd_abort t)) else (Ok data, u3, w2) in
  if negb (Z.land (rd_rc t0) NO_MORE_BLOCKS =? 0) then
    match end_upload srv u1 w1 with
    | (Ok n, u2, w2) => fin n u2 w2
    | (Err k, u2, w2) => (Err k, u2, w2)
    | (Abort a, u2, w2) => (Abort a, u2, w2)
    end
  else fin 0 u1 w1.
Proof. exact @src_ul_read_tail_eq. Qed.

Theorem C13_src_ack_block : forall (S : Type) (srv : S -> frame -> S * list frame) u (w : @net S),
  ack_block srv u w =
  let '(b0, b1, b2, sent, a') := src_ul_ack_block (u_ackseq u) (u_blksize u) 0 0 0 false in
  (set_ackseq u a', if sent then send_request srv w [b0; b1; b2; 0; 0; 0; 0; 0] else w).
Proof. exact @src_ul_ack_block_eq. Qed.

Theorem C13_src_end_upload : forall (S : Type) (srv : S -> frame -> S * list frame) u (w : @net S),
  end_upload srv u w =
  match read_response w with
  | (Err k, w1) => (Err k, u, w1)
  | (Abort a, w1) => (Abort a, u, w1)
  | (Ok r, w1) =>
      let u1 := mkul (u_done u) (u_pos u) (u_crc u) (Some (fb r 1 + 256 * fb r 2)) (u_ackseq u)
                     (u_error u) (u_size u) (u_crcsup u) (u_blksize u) in
      let '(ok, v) := src_ul_end_upload (fb r 0) 0 in
      if ok =? 1 then (Ok v, u1, w1) else (Err E_SDOCOMM, set_error u1, client_abort srv w1 v)
  end.
Proof. exact @src_ul_end_upload_eq. Qed.

Theorem C13_src_readinto : forall (S : Type) (srv : S -> frame -> S * list frame) k u pend (w : @net S), 0 <= k ->
  match pend with
  | [] =>
      forall d u1 w1, ul_read srv u w = (Ok d, u1, w1) ->
      ul_readinto srv k u [] w = ((Ok (firstn (Z.to_nat k) d), u1, w1), skipn (Z.to_nat k) d) /\
      src_ul_readinto k 0 (zlen d) false = (true, zlen (firstn (Z.to_nat k) d), zlen (skipn (Z.to_nat k) d))
  | _ =>
      ul_readinto srv k u pend w = ((Ok (firstn (Z.to_nat k) pend), u, w), skipn (Z.to_nat k) pend) /\
      forall rlen, src_ul_readinto k (zlen pend) rlen false =
                   (false, zlen (firstn (Z.to_nat k) pend), zlen (skipn (Z.to_nat k) pend))
  end.
Proof. exact @src_ul_readinto_eq. Qed.

Theorem C13_src_close : forall (S : Type) (srv : S -> frame -> S * list frame) u (w : @net S),
  ul_close srv u w =
  (let '(b0, sent) := src_ul_close false (u_done u) (u_error u) 0 false in
   if sent then send_request srv w [b0; 0; 0; 0; 0; 0; 0; 0] else w) /\
  forall d e b s, src_ul_close true d e b s = (b, s).
Proof. exact @src_ul_close_eq. Qed.

(* ---- non-vacuity ---- *)
Example C13_nv_exact :
  let V := gen_bytes 20 1 in
  1 <= zlen V < 4294967296 /\
  (let '(r, u, w) := ul_transfer (faulty ul_srv) 30 (mknet (fs_init (us_init V true true) []) [] []) 8192 0 2 true in
   r = Ok V /\ u_done u = true /\ u_crcsup u = true /\ u_scrc u = Some (crc16 V) /\ u_size u = Some 20 /\ length (n_log w) = 10%nat) /\
  (* a disturbed transfer that still completes: one lost segment, repaired *)
  (let '(r, u, w) := ul_transfer (faulty ul_srv) 30 (mknet (fs_init (us_init V true false) [FDropS 3]) [] []) 8192 0 2 true in
   r = Ok V /\ u_done u = true).
Proof. vm_compute. repeat split; try reflexivity; try discriminate. Qed.

Print Assumptions C13_block_upload_exact.
Print Assumptions C13_crc_guard.
Print Assumptions C13_crc_guard_ref.
Print Assumptions C13_single_loss_repaired.
Print Assumptions C13_readinto_same_stream.
Print Assumptions C13_readinto_exact.
Print Assumptions C13_crc_single_bit.
Print Assumptions C13_crc_chunkwise.
Print Assumptions C13_src_read_dispatch.
Print Assumptions C13_src_read_tail.
Print Assumptions C13_src_ack_block.
Print Assumptions C13_src_end_upload.
Print Assumptions C13_src_readinto.
Print Assumptions C13_src_close.
