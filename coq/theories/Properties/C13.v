(* C13 - SDO block upload returns exactly the server's data or fails visibly.
   Statements only; every proof is [exact] of a lemma in Proofs/Block_proofs.v.
   Model:  Model/BlockUl.v (BlockUploadStream.__init__/read/_retransmit/_ack_block/_end_upload/close, the with-block
           around f.read()), transport in Model/BlockDl.v, Model/Crc.v,
   peer:   Model/RefBlockServer.v (reference block upload server from CiA 301 + fault injector).

   ul_transfer srv fuel w0 index sub blksize crc_client = (result, final stream state u, final network w);
   u_done u = true <-> the stream saw the segment with the c bit and the end frame, i.e. close() sends the
   end response (when no error was flagged). *)
From Coq Require Import ZArith List Bool.
From CV Require Import Base.Val Base.Bytes Model.Crc Model.RefBlockServer Model.BlockDl Model.BlockUl Proofs.Crc_proofs Proofs.Block_proofs.
Import ListNotations.
Open Scope Z_scope.

(* Undisturbed: every value of length >= 1 (< 2^32), every client block size 1..127, all four CRC capability
   combinations, server announcing the size in its initiate response or not (size_ind, the s bit): the call returns exactly the value; every acknowledge carried the number of segments the server
   had sent (us_acks_exact), the final segment was trimmed by the announced count of unused bytes (the result is V),
   the transfer was closed (us_ended) and the server saw no protocol violation. *)
Theorem C13_block_upload_exact :
  forall (V : list Z) (B index sub : Z) (crc_client crc_server size_ind : bool) (fuel : nat),
  1 <= zlen V < 4294967296 -> 1 <= B <= 127 -> (length V + 1 < fuel)%nat ->
  exists u w,
    ul_transfer (faulty ul_srv) fuel (mknet (fs_init (us_init V crc_server size_ind) []) [] []) index sub B crc_client = (Ok V, u, w) /\
    u_done u = true /\ u_error u = false /\
    us_ended (f_inner (n_srv w)) = true /\ us_acks_exact (f_inner (n_srv w)) = true /\ us_bad (f_inner (n_srv w)) = 0.
Proof. exact block_upload_exact. Qed.

(* crc_guard / size_guard, against ANY peer (any state type, any behaviour, any loss / corruption / reordering of
   what it sends): a completed transfer (u_done) that returns normally returned data whose CRC-16 is the CRC
   announced in the end frame whenever the CRC was negotiated, and whose length is the size announced in the
   initiate response whenever one was announced.  Hence: honest announcements + data that differ in CRC or in
   length can only end in an error. *)
Theorem C13_crc_guard :
  forall (S : Type) (srv : S -> frame -> S * list frame) (fuel : nat) (w : net) (index sub blksize : Z) (crc : bool)
         (data : list Z) (u : ul) (w' : net),
  ul_transfer srv fuel w index sub blksize crc = (Ok data, u, w') ->
  u_done u = true ->
  (u_crcsup u = true -> u_scrc u = Some (crc16 data)) /\
  (forall s, u_size u = Some s -> zlen data = s).
Proof. exact @crc_size_guard. Qed.

(* For the reference server behind ANY fault list (lost / corrupted / replaced / duplicated frames in both directions)
   the hypothesis u_done is redundant: only 8-byte frames are ever delivered, so a normal return is a completed
   transfer; its data have the announced CRC (when negotiated) and the announced length. *)
Theorem C13_crc_guard_ref :
  forall (V : list Z) (crc_server size_ind : bool) (faults : list fault) fuel index sub blksize crc data u w',
  ul_transfer (faulty ul_srv) fuel (mknet (fs_init (us_init V crc_server size_ind) faults) [] []) index sub blksize crc = (Ok data, u, w') ->
  u_done u = true /\
  (u_crcsup u = true -> u_scrc u = Some (crc16 data)) /\
  (forall s, u_size u = Some s -> zlen data = s).
Proof. exact crc_guard_ref. Qed.

(* One lost segment, whichever (the j-th frame of the server, 2 <= j <= 1 + number of segments; frame 1 is the
   initiate response), any value, any client block size, any CRC configuration: the loss is noticed (sequence gap or
   time-out), the sub-block is acknowledged up to the last good segment, the stale frames are skipped, and the call
   returns exactly the value; the transfer is closed and the server saw no protocol violation.
   (This is the behaviour after the fixes e896b3b and fc751a5; before them the statement was false, see notes/C13.md.) *)
Theorem C13_single_loss_repaired :
  forall (V : list Z) (B index sub : Z) (crc_client crc_server size_ind : bool) (fuel : nat) (j : Z),
  1 <= zlen V < 4294967296 -> 1 <= B <= 127 -> (length V + 1 < fuel)%nat ->
  2 <= j <= 1 + (zlen V + 6) / 7 ->
  exists u w,
    ul_transfer (faulty ul_srv) fuel (mknet (fs_init (us_init V crc_server size_ind) [FDropS j]) [] []) index sub B crc_client = (Ok V, u, w) /\
    u_done u = true /\ u_error u = false /\ us_ended (f_inner (n_srv w)) = true /\ us_bad (f_inner (n_srv w)) = 0.
Proof. exact upload_single_loss_repaired. Qed.

(* Other callers of the same stream: readinto() with arbitrary buffer sizes ks (smaller than a segment or not) on the raw
   stream, then read().  The part of a segment that does not fit is kept in _pending and handed out first.
   For ANY peer that only delivers 8-byte frames the result (data or error, final stream state, final network state) is the
   one of f.read() alone (with n more units of loop fuel): nothing is lost or duplicated at the seams. *)
Theorem C13_readinto_same_stream :
  forall (S : Type) (srv : S -> frame -> S * list frame),
  (forall s fr, Forall len8 (snd (srv s fr))) ->
  forall (fuel : nat) (w : net) (index sub blksize : Z) (crc : bool) (ks : list Z),
  exists n, ul_transfer_ri srv (Datatypes.S fuel) w index sub blksize crc ks =
            ul_transfer srv (n + Datatypes.S fuel) w index sub blksize crc.
Proof. exact @transfer_ri_equiv. Qed.

(* ... hence the undisturbed transfer read that way returns exactly the value, for every list of buffer sizes. *)
Theorem C13_readinto_exact :
  forall (V : list Z) (B index sub : Z) (crc_client crc_server size_ind : bool) (fuel : nat) (ks : list Z),
  1 <= zlen V < 4294967296 -> 1 <= B <= 127 -> (length V + 1 < fuel)%nat ->
  exists u w,
    ul_transfer_ri (faulty ul_srv) fuel (mknet (fs_init (us_init V crc_server size_ind) []) [] []) index sub B crc_client ks = (Ok V, u, w) /\
    u_done u = true /\ u_error u = false /\
    us_ended (f_inner (n_srv w)) = true /\ us_acks_exact (f_inner (n_srv w)) = true /\ us_bad (f_inner (n_srv w)) = 0.
Proof. exact readinto_exact. Qed.

(* CRC-16/XMODEM detects every single-bit corruption of a byte string of any length, from any register value
   (linearity over xor + the generator polynomial has constant term 1): flipping bit k of byte i changes the CRC. *)
Theorem C13_crc_single_bit : forall (data : list Z) (c : Z) (i : nat) (k : Z),
  (i < length data)%nat -> 0 <= k < 8 ->
  crc_from c (xor_at data i (2 ^ k)) <> crc_from c data.
Proof. exact crc_single_bit. Qed.

Theorem C13_crc_chunkwise : forall c chunks, fold_left crc_from chunks c = crc_from c (concat chunks).
Proof. exact crc_from_concat. Qed.

(* ---- non-vacuity ---- *)
Example C13_nv_exact :
  let V := gen_bytes 20 1 in
  1 <= zlen V < 4294967296 /\
  (let '(r, u, w) := ul_transfer (faulty ul_srv) 30 (mknet (fs_init (us_init V true true) []) [] []) 8192 0 2 true in
   r = Ok V /\ u_done u = true /\ u_crcsup u = true /\ u_scrc u = Some (crc16 V) /\ u_size u = Some 20 /\ length (n_log w) = 10%nat) /\
  (* a disturbed transfer that still completes: one lost segment, repaired *)
  (let '(r, u, w) := ul_transfer (faulty ul_srv) 30 (mknet (fs_init (us_init V true false) [FDropS 3]) [] []) 8192 0 2 true in
   r = Ok V /\ u_done u = true).
Proof. vm_compute. repeat split; try reflexivity; try discriminate. Qed.

Print Assumptions C13_block_upload_exact.
Print Assumptions C13_crc_guard.
Print Assumptions C13_crc_guard_ref.
Print Assumptions C13_single_loss_repaired.
Print Assumptions C13_readinto_same_stream.
Print Assumptions C13_readinto_exact.
Print Assumptions C13_crc_single_bit.
Print Assumptions C13_crc_chunkwise.
