(* C10 - Frames reach exactly the handlers subscribed at that moment; outgoing frame format;
   listener filter; node scanner.
   Statements only; every proof is [exact] of a lemma in Proofs/Net_proofs.v.
   Model: Model/Net.v (Network.subscribe/unsubscribe/notify/__setitem__/__delitem__/send_message/
   send_periodic, PeriodicMessageTask, MessageListener, NodeScanner, RemoteNode/LocalNode
   associate_network/remove_network, RemoteNode.add_sdo with any number of additional SDO channels); reference: Model/RefNet.v (total multimap, predefined
   connection set, arithmetic scanner); table: Gen/NetTables.v (NodeScanner.SERVICES, LSS_RX_COBID)
   regenerated from /repo on every run. *)
From Coq Require Import ZArith List Bool.
From CV Require Import Base.Val Base.Tys Gen.NetTables Gen.SrcC10 Model.Net Model.RefNet Proofs.Net_proofs Proofs.Src_eq_net.
Import ListNotations.
Open Scope Z_scope.

(* For EVERY operation list (subscribe, unsubscribe one / all, node add / replace / remove, add_sdo
   on any node object at any time, a second associate_network of an attached node, connect /
   disconnect of the bus, notify, listener frames, scanner reset) started from a fresh Network: the deliveries of every step are
   those of the reference multimap run on the same list; the subscribers dict stands for the
   reference multimap; no reference list has a duplicate (so: exactly the subscribed callbacks,
   once each, in subscription order - the reference appends on subscription and deletes on
   unsubscription). *)
Theorem C10_dispatch_refines : forall ops : list op,
  map log_of (snd (run_ops ops init_net)) = snd (ref_run ops ref_init) /\
  (forall c, abs (subs (fst (run_ops ops init_net))) c = r_map (fst (ref_run ops ref_init)) c) /\
  (forall c, NoDup (r_map (fst (ref_run ops ref_init)) c)).
Proof. exact dispatch_refines. Qed.

(* ... and one notify in a state reached by any history invokes exactly the reference list of that
   id, in order, each with the frame's id, data and timestamp *)
Theorem C10_notify_delivers : forall ops c data ts,
  snd (notify c data ts (fst (run_ops ops init_net))) =
  map (fun h => (h, c, data, ts)) (r_map (fst (ref_run ops ref_init)) c).
Proof. exact notify_delivers. Qed.

Theorem C10_subscribe_idempotent : forall c h m, subscribe c h (subscribe c h m) = subscribe c h m.
Proof. exact subscribe_idempotent. Qed.

Theorem C10_double_subscribe_once : forall ops c u data ts,
  let s := fst (run_ops (ops ++ [OSub c u; OSub c u]) init_net) in
  s = fst (run_ops (ops ++ [OSub c u]) init_net) /\
  exists l, snd (notify c data ts s) = map (fun h => (h, c, data, ts)) l /\ NoDup l /\ In (HUser u) l.
Proof. exact double_subscribe_once. Qed.

(* invariant over arbitrary histories: a node object that is not the one registered under its
   node id (never added, removed, or replaced) has none of its callbacks in any list *)
Theorem C10_unregistered_not_subscribed : forall ops old,
  let s := fst (run_ops ops init_net) in
  lookup_node (o_nid old) (nodes s) <> Some old ->
  forall c k, ~ In (HNode old k) (abs (subs s) c).
Proof. exact unregistered_not_subscribed. Qed.

(* after a remove / replace of [old] that did not raise, no callback of [old] (SDO of the default
   and of every added channel, heartbeat, EMCY, NMT) is invoked by any continuation that does not add the very same object again *)
Theorem C10_removed_node_silent : forall ops1 old o ops2,
  let s := fst (run_ops ops1 init_net) in
  lookup_node (o_nid old) (nodes s) = Some old ->
  removes_or_replaces o old ->
  res_ok (snd (step o s)) = true ->
  Forall (fun o2 => o2 <> OAdd old) ops2 ->
  forall k c d t,
    ~ In (HNode old k, c, d, t) (concat (map log_of (snd (run_ops ops2 (fst (step o s)))))).
Proof. exact removed_node_silent. Qed.

(* outgoing frames, for every id in Z: id, remote flag as given, extended format iff id > 0x7FF,
   never an error frame, data as given (python-can drops the payload of a remote frame);
   exactly one frame is handed to the bus; no bus -> RuntimeError; same frame for periodic tasks *)
Theorem C10_frame_format : forall (c : Z) (data : list Z) (remote : bool),
  let f := mk_frame c data remote in
  (f_id f = c /\ f_remote f = remote /\ (f_ext f = true <-> c > 2047) /\ f_err f = false /\
   f_data f = (if remote then [] else data)) /\
  send_message true c data remote = Ok [f] /\
  send_message false c data remote = Err E_RUNTIME /\
  (forall p, periodic_task c data p remote = (f, [(f, p)])).
Proof. exact frame_format. Qed.

(* a periodic task after ANY sequence of update(data) calls, for both flavours of bus task (with /
   without modify_data): the stored message and every message handed to the bus keep the id, the
   remote flag, the frame format (extended iff id > 0x7FF) and carry the data of that update with
   dlc = its length (call_ok) *)
Theorem C10_periodic_update_format : forall modify period c data remote ds,
  Forall2 (fun d sc => frame_ok c remote (fst (fst sc)) /\ f_data (fst (fst sc)) = d /\
                       snd (fst sc) = Z.of_nat (length d) /\
                       Forall (call_ok c remote d) (snd sc))
          ds (periodic_updates modify period (periodic_start c data remote) ds).
Proof. exact periodic_update_format. Qed.

(* re-entrant callbacks (callbacks that subscribe / unsubscribe / add / remove nodes while a frame is
   being dispatched): the callbacks invoked for a frame are exactly the list of its id when the frame
   arrived, once each, in order, with the frame's arguments - independent of what the callbacks do
   (the same deliveries as without scripts); and a history without scripts is a plain history *)
Theorem C10_reentrant_dispatch_snapshot : forall scripts c data ts s,
  snd (notify_re scripts c data ts s) = Ok (snd (notify c data ts s)) /\
  snd (notify c data ts s) = map (fun h => (h, c, data, ts)) (abs (subs s) c).
Proof. exact reentrant_dispatch_snapshot. Qed.

Theorem C10_reentrant_no_scripts : forall ops s, run_ops_re [] ops s = run_ops ops s.
Proof. exact run_ops_re_nil. Qed.

Theorem C10_listener_filters : forall (f : frame) (s : net),
  (f_err f = true \/ f_remote f = true -> listener f s = (s, [])) /\
  (f_err f = false -> f_remote f = false -> listener f s = notify (f_id f) (f_data f) (f_ts f) s).
Proof. exact listener_filters. Qed.

(* the scanner, for every list of ids in Z (11-bit, 29-bit, anything): no duplicates; n is listed
   iff some received id is service + n with service in the regenerated SERVICES and 1 <= n <= 127;
   nodes are listed in order of first appearance (n sits right after everything discovered before
   the first id naming it) *)
Theorem C10_scanner_spec : forall ids : list Z,
  NoDup (scan ids) /\
  (forall n, In n (scan ids) <-> exists id, In id ids /\ names_node id n) /\
  (forall pre id post n, ids = pre ++ id :: post -> names_node id n ->
     (forall id', In id' pre -> ~ names_node id' n) ->
     exists rest, scan ids = scan pre ++ n :: rest).
Proof. exact scanner_spec. Qed.

(* the scanner is the arithmetic reference (no bit operations) *)
Theorem C10_scanner_is_reference : forall ids, scan ids = ref_scan ids.
Proof. exact scan_ref. Qed.

(* ---- non-vacuity ---- *)
Definition nv_r5 : nobj := {| o_uid := 1; o_nid := 5; o_local := false |}.
Definition nv_l5 : nobj := {| o_uid := 2; o_nid := 5; o_local := true |}.

(* a history with two callbacks on one id, a duplicate subscription, a node, and an unsubscription:
   deliveries are non-empty and ordered *)
Example C10_nv_dispatch :
  map log_of (snd (run_ops [OSub 389 1; OSub 389 2; OSub 389 1; OAdd nv_r5; ONotify 389 [7] 10;
                            OUnsub 389 (Some (HUser 1)); ONotify 389 [8] 11; ONotify 0 [1; 5] 12] init_net))
  = [[]; []; []; []; [(HUser 1, 389, [7], 10); (HUser 2, 389, [7], 10)]; [];
     [(HUser 2, 389, [8], 11)]; [(HNode nv_r5 KNmt, 0, [1; 5], 12)]].
Proof. vm_compute. reflexivity. Qed.

(* the hypotheses of C10_removed_node_silent are met by a replacement remote -> local on id 5, and
   the replaced node did receive frames before *)
Example C10_nv_removed :
  let ops1 := [OAdd nv_r5; ONotify 1797 [5] 1] in
  let s := fst (run_ops ops1 init_net) in
  lookup_node (o_nid nv_r5) (nodes s) = Some nv_r5 /\
  removes_or_replaces (OAdd nv_l5) nv_r5 /\
  res_ok (snd (step (OAdd nv_l5) s)) = true /\
  Forall (fun o2 => o2 <> OAdd nv_r5) [ONotify 1797 [5] 2; ONotify 0 [1; 5] 3] /\
  map log_of (snd (run_ops ops1 init_net)) = [[]; [(HNode nv_r5 KHeartbeat, 1797, [5], 1)]] /\
  map log_of (snd (run_ops [ONotify 1797 [5] 2; ONotify 0 [1; 5] 3] (fst (step (OAdd nv_l5) s))))
    = [[]; [(HNode nv_l5 KNmt, 0, [1; 5], 3)]].
Proof.
  vm_compute. repeat split; try reflexivity.
  - right. exists nv_l5. repeat split; try reflexivity. discriminate.
  - repeat constructor; discriminate.
Qed.

(* the same with an additional SDO channel (add_sdo while on the network): the extra client saw
   a frame on its tx id 0x5C5 before the replacement and sees none afterwards, nor after re-creating
   channels on the removed object *)
Definition nv_r5' : nobj := {| o_uid := 3; o_nid := 5; o_local := false |}.
Example C10_nv_removed_extra_sdo :
  let ops1 := [OAdd nv_r5; OAddSdo nv_r5 1605 1477; ONotify 1477 [96] 1] in
  let s := fst (run_ops ops1 init_net) in
  let ops2 := [ONotify 1477 [128] 2; ONotify 1413 [128] 3; OAddSdo nv_r5 1606 1478; ONotify 1478 [1] 4] in
  lookup_node (o_nid nv_r5) (nodes s) = Some nv_r5 /\
  removes_or_replaces (OAdd nv_r5') nv_r5 /\
  res_ok (snd (step (OAdd nv_r5') s)) = true /\
  Forall (fun o2 => o2 <> OAdd nv_r5) ops2 /\
  map log_of (snd (run_ops ops1 init_net)) = [[]; []; [(HNode nv_r5 (KSdoExtra 1), 1477, [96], 1)]] /\
  map log_of (snd (run_ops ops2 (fst (step (OAdd nv_r5') s))))
    = [[]; [(HNode nv_r5' KSdoResp, 1413, [128], 3)]; []; []].
Proof.
  vm_compute. repeat split; try reflexivity.
  - right. exists nv_r5'. repeat split; try reflexivity. discriminate.
  - repeat constructor; discriminate.
Qed.

(* re-association of an attached node and a disconnect / connect cycle change nothing: one delivery
   per callback before and after, and removal still silences the node *)
Example C10_nv_reassoc_reconnect :
  map log_of (snd (run_ops [OAdd nv_r5; OSub 133 1; OReassoc nv_r5; ONotify 133 [1] 1; ODisconnect; OConnect;
                            ONotify 133 [2] 2; ONotify 2020 [3] 3; ODel 5; ONotify 133 [4] 4] init_net))
  = [[]; []; []; [(HNode nv_r5 KEmcy, 133, [1], 1); (HUser 1, 133, [1], 1)]; []; [];
     [(HNode nv_r5 KEmcy, 133, [2], 2); (HUser 1, 133, [2], 2)]; [(HLss, 2020, [3], 3)]; [];
     [(HUser 1, 133, [4], 4)]].
Proof. vm_compute. reflexivity. Qed.

Example C10_nv_periodic_update :
  map (fun sc => (f_ext (fst (fst sc)), f_data (fst (fst sc)), snd (fst sc), length (snd sc)))
      (periodic_updates false 10 (periodic_start 291 [1; 2; 3] false) [[4; 5; 6; 7]; [4; 5; 6; 7]])
  = [(false, [4; 5; 6; 7], 4, 2%nat); (false, [4; 5; 6; 7], 4, 0%nat)].
Proof. vm_compute. reflexivity. Qed.

(* a one-shot callback (u0 unsubscribes itself when invoked) between two others: all three get the
   first frame, the other two the second *)
Example C10_nv_reentrant :
  map log_of (snd (run_ops_re [(0, OUnsub 291 (Some (HUser 0)))]
                     [OSub 291 0; OSub 291 1; OSub 291 2; ONotify 291 [1] 1; ONotify 291 [2] 2] init_net))
  = [[]; []; []; [(HUser 0, 291, [1], 1); (HUser 1, 291, [1], 1); (HUser 2, 291, [1], 1)];
     [(HUser 1, 291, [2], 2); (HUser 2, 291, [2], 2)]].
Proof. vm_compute. reflexivity. Qed.

Example C10_nv_scanner :
  scan [1797; 2433; 386; 1797; 128; 1539; 536872707; 1409; (-123)] = [5; 2; 1] /\
  names_node 1797 5 /\ ~ names_node 2433 1.
Proof.
  split; [vm_compute; reflexivity|]. split.
  - split; [split; discriminate|]. exists 1792. split; [vm_compute; tauto | reflexivity].
  - intros [_ [svc [Hin Heq]]]. vm_compute in Hin.
    repeat (destruct Hin as [Hin|Hin]; [subst svc; discriminate Heq|]). destruct Hin.
Qed.

Example C10_nv_frame :
  f_ext (mk_frame 2047 [1; 2] false) = false /\ f_ext (mk_frame 2048 [1; 2] false) = true /\
  f_data (mk_frame 2048 [1; 2] false) = [1; 2] /\
  listener {| f_id := 389; f_data := [1]; f_remote := true; f_ext := false; f_err := false; f_ts := 4 |}
           (fst (run_ops [OSub 389 1] init_net)) = (fst (run_ops [OSub 389 1] init_net), []) /\
  snd (listener {| f_id := 389; f_data := [1]; f_remote := false; f_ext := false; f_err := false; f_ts := 4 |}
           (fst (run_ops [OSub 389 1] init_net))) = [(HUser 1, 389, [1], 4)].
Proof. vm_compute. repeat split; reflexivity. Qed.

(* Tie to the source text: NodeScanner.on_message_received as translated from the CURRENT source by
   tools/py2coq.py (Gen/SrcC10.v, regenerated on every run) is the model's scan_step. *)
Theorem C10_source_scanner_is_model : forall found can_id,
  src_scanner_step SERVICES found can_id = scan_step found can_id.
Proof. exact src_scanner_step_eq. Qed.

Print Assumptions C10_dispatch_refines.
Print Assumptions C10_notify_delivers.
Print Assumptions C10_subscribe_idempotent.
Print Assumptions C10_double_subscribe_once.
Print Assumptions C10_unregistered_not_subscribed.
Print Assumptions C10_removed_node_silent.
Print Assumptions C10_frame_format.
Print Assumptions C10_periodic_update_format.
Print Assumptions C10_reentrant_dispatch_snapshot.
Print Assumptions C10_reentrant_no_scripts.
Print Assumptions C10_listener_filters.
Print Assumptions C10_scanner_spec.
Print Assumptions C10_scanner_is_reference.
Print Assumptions C10_source_scanner_is_model.
