(* C20 - Physical, described and bit-field views agree with the raw value.
   Statements only; every proof is [exact] of a lemma in Proofs/Views_proofs.v.
   Model: Model/Views.v (objectdictionary encode/decode_phys, _desc, _bits; variable.py phys /
   desc / bits accessors and class Bits), tables: Gen/Tables.v regenerated from /repo on every run.
   Python int = Z; float = Q: binary64 rounding of value/factor and value*factor is NOT modelled,
   therefore the scaling theorems carry the suffix _partial. *)
From Coq Require Import ZArith QArith Qabs List Bool.
From CV Require Import Base.Val Base.Bytes Base.Bits Base.Tys Gen.Tables Model.Codec Model.Views
  Proofs.Codec_proofs Proofs.Views_proofs Gen.SrcC20 Proofs.Src_eq_c20.
Import ListNotations.
Open Scope Z_scope.

(* ---- bit fields ----
   [spells defs key lo hi]: the subscript key names the contiguous range lo..hi as a bit number
   (lo = hi), a list whose members are exactly lo..hi (any order, repeats allowed), a slice
   [lo:hi+1] with the start omitted when lo = 0 and the step omitted or 1, or a name defined
   in bit_definitions as such a list.
   Assignment changes exactly the bits lo..hi of the raw value (any Python int, also negative),
   bit i of the result is bit i-lo of the value; non-negative raw values stay non-negative and
   a raw value of n bits stays within n bits when the range lies inside them. *)
Theorem C20_bits_set_exact : forall defs key lo hi raw v,
  spells defs key lo hi -> 0 <= lo <= hi -> 0 <= v < 2 ^ (hi - lo + 1) ->
  exists r, bits_write defs raw key v = Ok r /\
    r = set_field raw lo (hi - lo + 1) v /\
    (forall i, 0 <= i ->
       Z.testbit r i = if (lo <=? i) && (i <=? hi) then Z.testbit v (i - lo) else Z.testbit raw i) /\
    (0 <= raw -> 0 <= r) /\
    (forall n, 0 <= raw < 2 ^ n -> hi < n -> 0 <= r < 2 ^ n).
Proof. exact bits_set_exact. Qed.

Theorem C20_bits_get_after_set : forall defs key lo hi raw v,
  spells defs key lo hi -> 0 <= lo <= hi -> 0 <= v < 2 ^ (hi - lo + 1) ->
  exists r, bits_write defs raw key v = Ok r /\ bits_read defs r key = Ok v.
Proof. exact bits_get_after_set. Qed.

(* reading returns exactly the bits lo..hi of the current raw value *)
Theorem C20_bits_get_exact : forall defs key lo hi raw,
  spells defs key lo hi -> 0 <= lo <= hi ->
  bits_read defs raw key = Ok (get_field raw lo (hi - lo + 1)).
Proof. exact bits_get_exact. Qed.

(* Any list of non-negative bit numbers, contiguous or not.  The code does not spread the value
   over the listed bits: it clears the listed bits and ORs in the value shifted by the smallest
   listed bit.  "Exactly the listed bits change, and read-back returns the value" holds iff the
   value has the shape of the list ([fits]); otherwise the value leaks into unlisted bits
   (bits_leak_example: list [0;2], value 2 sets bit 1). *)
Theorem C20_bits_set_general : forall raw l v, nonneg_bits l -> l <> [] ->
  exists m r, list_min l = Ok m /\ encode_bits_list raw l v = Ok r /\
    (forall i, 0 <= i -> Z.testbit r i = (Z.testbit raw i && negb (zmem i l)) || Z.testbit v (i - m)) /\
    (fits l m v ->
       (forall i, 0 <= i -> Z.testbit r i = if zmem i l then Z.testbit v (i - m) else Z.testbit raw i) /\
       decode_bits_list r l = Ok v).
Proof. exact bits_set_general. Qed.

(* ---- descriptions ----
   A table never holds a value twice (it is a dict filled by add_value_description). *)
Theorem C20_desc_table_keys_distinct : forall adds, NoDup (map fst (build_descs adds)).
Proof. exact build_descs_nodup. Qed.

(* encode then decode is the identity; with pairwise distinct descriptions decode then encode is
   too, and every entry is reached both ways *)
Theorem C20_desc_roundtrip : forall t, NoDup (map fst t) ->
  (forall d v, encode_desc t d = Ok v -> decode_desc t v = Ok d) /\
  (NoDup (map snd t) -> forall v d, decode_desc t v = Ok d -> encode_desc t d = Ok v) /\
  (forall v d, In (v, d) t ->
     decode_desc t v = Ok d /\ (NoDup (map snd t) -> encode_desc t d = Ok v)).
Proof. exact desc_roundtrip. Qed.

(* without distinctness: the first entry in insertion order that carries the text *)
Theorem C20_desc_encode_first : forall t d v,
  encode_desc t d = Ok v <->
  exists t1 t2, t = t1 ++ (v, d) :: t2 /\ forall e, In e t1 -> snd e <> d.
Proof. exact desc_encode_first. Qed.

Theorem C20_desc_errors : forall t,
  (forall d, encode_desc [] d = Err E_OD) /\ (forall v, decode_desc [] v = Err E_OD) /\
  (t <> [] -> forall d, ~ In d (map snd t) -> encode_desc t d = Err E_VALUE) /\
  (forall v, ~ In v (map fst t) -> decode_desc t v = Err E_OD).
Proof. exact desc_errors. Qed.

(* ---- scaling ----
   Full statement of the property: with binary64 arithmetic, raw = the integer nearest to
   value/factor and |value - raw*factor| <= |factor|/2.  Proved here over Q (exact rationals);
   what is missing is the rounding of the two float operations value/factor and raw*factor.
   raw is the integer nearest to value/factor (no integer is nearer), ties go to the even
   integer, and the physical value read back is within half a scaling step. *)
Theorem C20_phys_half_step_partial : forall od v, int_od od -> ~ (od_factor od == 0)%Q ->
  let f := od_factor od in
  exists raw, encode_phys od v = Ok raw /\
    raw = round_half_even (v / f) /\
    (forall k, Qabs (v / f - inject_Z raw) <= Qabs (v / f - inject_Z k))%Q /\
    ((Qabs (v / f - inject_Z raw) == 1 # 2)%Q -> Z.even raw = true) /\
    decode_phys od raw = Ok (inject_Z raw * f)%Q /\
    (Qabs (v - inject_Z raw * f) <= Qabs f * (1 # 2))%Q.
Proof. exact phys_half_step. Qed.

(* the physical value of any raw value scales back to that raw value *)
Theorem C20_phys_raw_roundtrip_partial : forall od raw, int_od od -> ~ (od_factor od == 0)%Q ->
  exists p, decode_phys od raw = Ok p /\ encode_phys od p = Ok raw.
Proof. exact phys_raw_roundtrip. Qed.

(* int_od covers every CiA 301 integer type (regenerated INTEGER_TYPES) *)
Theorem C20_integer_types_scaled : forall t s w,
  In (t, (s, w)) cia301_int_types -> zmem t INTEGER_TYPES = true.
Proof. exact integer_types_scaled. Qed.

(* ---- the accessor layer over any store ----
   The accessors of variable.py reach the stored value only through get_raw / set_raw.  For every
   store in which a successful write is read back (the one law), whatever else it does: *)
Theorem C20_views_over_store_bits : forall (S : Type) (get_raw : S -> res Z) (set_raw : S -> Z -> res S),
  (forall s v s', set_raw s v = Ok s' -> get_raw s' = Ok v) ->
  forall od s raw key lo hi v,
    get_raw s = Ok raw -> spells (od_bitdefs od) key lo hi -> 0 <= lo <= hi -> 0 <= v < 2 ^ (hi - lo + 1) ->
    let r := set_field raw lo (hi - lo + 1) v in
    bits_get get_raw od s key = Ok (get_field raw lo (hi - lo + 1)) /\
    bits_set get_raw set_raw od s key v = set_raw s r /\
    (forall i, 0 <= i ->
       Z.testbit r i = if (lo <=? i) && (i <=? hi) then Z.testbit v (i - lo) else Z.testbit raw i) /\
    forall s', set_raw s r = Ok s' -> get_raw s' = Ok r /\ bits_get get_raw od s' key = Ok v.
Proof. exact @store_bits. Qed.

(* a Bits object kept by the caller: read after assignment returns the value without asking the store *)
Theorem C20_views_over_store_bits_held : forall (S : Type) (get_raw : S -> res Z) (set_raw : S -> Z -> res S)
    od s raw key lo hi v,
    get_raw s = Ok raw -> spells (od_bitdefs od) key lo hi -> 0 <= lo <= hi -> 0 <= v < 2 ^ (hi - lo + 1) ->
    bits_held get_raw set_raw od s key v =
    rbind (set_raw s (set_field raw lo (hi - lo + 1) v)) (fun s' => Ok (s', Ok v)).
Proof. exact @store_bits_held. Qed.

(* a store whose READ fails (write-only object, SDO abort on upload) while writes would succeed: the failure comes out
   of every getter and out of the read-modify-write assignment to a bit field unchanged; no raw value is computed and
   nothing is written (the result carries no new store) *)
Theorem C20_views_over_store_read_fails : forall (S : Type) (get_raw : S -> res Z) (set_raw : S -> Z -> res S) od s,
    (forall a, get_raw s = Abort a ->
       (forall key, bits_get get_raw od s key = Abort a) /\
       (forall key v, bits_set get_raw set_raw od s key v = Abort a) /\
       (forall key v, bits_held get_raw set_raw od s key v = Abort a) /\
       phys_get get_raw od s = Abort a /\ desc_get get_raw od s = Abort a) /\
    (forall k, get_raw s = Err k ->
       (forall key, bits_get get_raw od s key = Err k) /\
       (forall key v, bits_set get_raw set_raw od s key v = Err k) /\
       (forall key v, bits_held get_raw set_raw od s key v = Err k) /\
       phys_get get_raw od s = Err k /\ desc_get get_raw od s = Err k).
Proof. exact @store_read_fails. Qed.

Theorem C20_views_over_store_desc : forall (S : Type) (get_raw : S -> res Z) (set_raw : S -> Z -> res S),
  (forall s v s', set_raw s v = Ok s' -> get_raw s' = Ok v) ->
  forall od s raw, get_raw s = Ok raw -> NoDup (map fst (od_descs od)) ->
    desc_get get_raw od s = decode_desc (od_descs od) raw /\
    (forall d k, encode_desc (od_descs od) d = Err k -> desc_set set_raw od s d = Err k) /\
    forall d v, encode_desc (od_descs od) d = Ok v ->
      desc_set set_raw od s d = set_raw s v /\
      forall s', set_raw s v = Ok s' -> get_raw s' = Ok v /\ desc_get get_raw od s' = Ok d.
Proof. exact @store_desc. Qed.

Theorem C20_views_over_store_phys_partial : forall (S : Type) (get_raw : S -> res Z) (set_raw : S -> Z -> res S),
  (forall s v s', set_raw s v = Ok s' -> get_raw s' = Ok v) ->
  forall od s v, int_od od -> ~ (od_factor od == 0)%Q ->
    let f := od_factor od in
    let raw := round_half_even (v / f) in
    phys_set set_raw od s v = set_raw s raw /\
    forall s', set_raw s raw = Ok s' ->
      get_raw s' = Ok raw /\
      phys_get get_raw od s' = Ok (inject_Z raw * f)%Q /\
      (Qabs (v - inject_Z raw * f) <= Qabs f * (1 # 2))%Q.
Proof. exact @store_phys. Qed.

(* ---- SDO and PDO objects are such stores ----
   An integer object kept as bytes inside a buffer (the SDO server's stored value; a PDO
   variable mapped byte-aligned with its full length): writing a value that fits replaces exactly
   the object's bytes by the little-endian encoding, anything else is refused (ValueError), and
   what was written is read back. *)
Theorem C20_cell_set_spec : forall t p s w c v,
  zassoc t STRUCT_TYPES = Some p -> int_packer p = Some (s, w) ->
  if in_range s w v
  then cell_set t c v = Ok {| c_pre := c_pre c; c_cur := le_encode (Z.to_nat (w / 8)) v; c_post := c_post c |}
  else cell_set t c v = Err E_VALUE.
Proof. exact cell_set_spec. Qed.

Theorem C20_cell_is_store : forall t p s w,
  zassoc t STRUCT_TYPES = Some p -> int_packer p = Some (s, w) ->
  forall c v c', cell_set t c v = Ok c' -> cell_get t c' = Ok v.
Proof. exact cell_law. Qed.

(* end to end on an unsigned object of width w inside a buffer *)
Theorem C20_bits_on_cell : forall od t p w pre post raw key lo hi v,
  zassoc t STRUCT_TYPES = Some p -> int_packer p = Some (false, w) ->
  0 <= raw < 2 ^ w -> spells (od_bitdefs od) key lo hi -> 0 <= lo <= hi -> hi < w -> 0 <= v < 2 ^ (hi - lo + 1) ->
  let n := Z.to_nat (w / 8) in
  let c := {| c_pre := pre; c_cur := le_encode n raw; c_post := post |} in
  let r := set_field raw lo (hi - lo + 1) v in
  let c' := {| c_pre := pre; c_cur := le_encode n r; c_post := post |} in
  bits_set (cell_get t) (cell_set t) od c key v = Ok c' /\
  bits_get (cell_get t) od c' key = Ok v /\
  cell_get t c' = Ok r /\ 0 <= r < 2 ^ w.
Proof. exact bits_on_cell. Qed.

(* ---- non-vacuity: concrete non-trivial inputs meet the hypotheses ---- *)
Example C20_nv_spellings :
  let defs := build_bitdefs [([102; 111; 111], [5; 3; 4])] in      (* "foo" -> [5,3,4] *)
  sassoc [102; 111; 111] defs = Some [5; 3; 4] /\
  bits_write defs 255 (KInt 4) 0 = Ok 239 /\
  bits_write defs 255 (KList [4; 3; 5]) 2 = Ok 215 /\
  bits_write defs 255 (KSlice (Some 3) (Some 6) None) 2 = Ok 215 /\
  bits_write defs 255 (KSlice None (Some 3) (Some 1)) 5 = Ok 253 /\
  bits_write defs 255 (KName [102; 111; 111]) 2 = Ok 215 /\
  bits_read defs 215 (KName [102; 111; 111]) = Ok 2 /\
  bits_write defs (-1) (KSlice (Some 3) (Some 6) None) 2 = Ok (-41).
Proof. vm_compute. repeat split; reflexivity. Qed.

Example C20_nv_desc :
  let t := build_descs [(0, [111; 102; 102]); (1, [111; 110]); (3, [111; 110]); (1, [117; 112])] in
  t = [(0, [111; 102; 102]); (1, [117; 112]); (3, [111; 110])] /\
  encode_desc t [111; 110] = Ok 3 /\ decode_desc t 1 = Ok [117; 112] /\
  encode_desc t [120] = Err E_VALUE /\ decode_desc t 2 = Err E_OD /\
  encode_desc [(1, [111; 110]); (3, [111; 110])] [111; 110] = Ok 1.
Proof. vm_compute. repeat split; reflexivity. Qed.

Example C20_nv_phys :
  let od := mkod dt_INTEGER16 1 10 [] [] in                          (* factor 0.1 *)
  zmem (od_dt od) INTEGER_TYPES = true /\ Qeq_bool (od_factor od) 0 = false /\
  encode_phys od (mkq 1234 100) = Ok 123 /\                         (* 12.34 -> 123 *)
  encode_phys od (mkq 25 100) = Ok 2 /\ encode_phys od (mkq 35 100) = Ok 4 /\   (* ties to even *)
  encode_phys od (mkq (-25) 100) = Ok (-2) /\
  encode_phys (mkod dt_INTEGER16 (-4) 1 [] []) (mkq 10 1) = Ok (-2) /\
  round_half_even (mkq (-7) 2) = -4.
Proof. vm_compute. repeat split; reflexivity. Qed.

Example C20_nv_cell :
  zassoc dt_UNSIGNED16 STRUCT_TYPES = Some (PStruct false 16) /\
  int_packer (PStruct false 16) = Some (false, 16) /\
  run_views (VOps dt_UNSIGNED16 1 1 [] [] [170] [0; 0] [85]
              [OSetRaw 4660; OSetBits (KSlice (Some 4) (Some 12) None) 255; OGetBits (KInt 15); OGetRaw]) =
  VL [VL [VNone; VB [170; 52; 18; 85]]; VL [VNone; VB [170; 244; 31; 85]];
      VL [VZ 0; VB [170; 244; 31; 85]]; VL [VZ 8180; VB [170; 244; 31; 85]]].
Proof. vm_compute. repeat split; reflexivity. Qed.

(* Tie to the source text: ODVariable.decode_bits / encode_bits as translated from the CURRENT source by
   tools/py2coq.py (Gen/SrcC20.v, regenerated on every run) are the model's functions on every non-empty
   list of non-negative bit numbers (the bit-definition lookup by name is resolved before, see resolve). *)
Theorem C20_source_decode_bits_is_model : forall value bits, bits <> [] -> Forall (fun b => 0 <= b) bits ->
  decode_bits_list value bits = Ok (src_decode_bits value bits).
Proof. exact src_decode_bits_eq. Qed.

Theorem C20_source_encode_bits_is_model : forall original bits bit_value, bits <> [] -> Forall (fun b => 0 <= b) bits ->
  encode_bits_list original bits bit_value = Ok (src_encode_bits original bits bit_value).
Proof. exact src_encode_bits_eq. Qed.

(* ---- the second public route: var.read(fmt) / var.write(value, fmt) ----
   The dispatch on fmt, translated from the CURRENT source text of the two methods (they must consist of nothing but
   the dispatch: any conversion done in place does not translate), is the model's rw_route ... *)
Theorem C20_source_read_route_is_model : forall fmt, src_read_route fmt = rw_route fmt.
Proof. exact src_read_route_eq. Qed.

Theorem C20_source_write_route_is_model : forall fmt, src_write_route fmt 0 = rw_route fmt.
Proof. exact src_write_route_eq. Qed.

(* ... and going through the method is going through the attribute: same result, same store afterwards, so every
   theorem above about .raw / .phys / .desc holds for read / write; an unknown format reads None and writes nothing. *)
Theorem C20_read_write_agree : forall od c,
  (forall v, step_op od c (OWrite FMT_RAW (OSetRaw v)) = step_op od c (OSetRaw v)) /\
  (forall n d, step_op od c (OWrite FMT_PHYS (OSetPhys n d)) = step_op od c (OSetPhys n d)) /\
  (forall d, step_op od c (OWrite FMT_DESC (OSetDesc d)) = step_op od c (OSetDesc d)) /\
  step_op od c (ORead FMT_RAW) = step_op od c OGetRaw /\
  step_op od c (ORead FMT_PHYS) = step_op od c OGetPhys /\
  step_op od c (ORead FMT_DESC) = step_op od c OGetDesc /\
  (forall fmt o, rw_route fmt = 0 -> step_op od c (OWrite fmt o) = (VNone, c) /\ step_op od c (ORead fmt) = (VNone, c)).
Proof. exact rw_agrees. Qed.

Print Assumptions C20_bits_set_exact.
Print Assumptions C20_bits_get_after_set.
Print Assumptions C20_bits_get_exact.
Print Assumptions C20_bits_set_general.
Print Assumptions C20_desc_table_keys_distinct.
Print Assumptions C20_desc_roundtrip.
Print Assumptions C20_desc_encode_first.
Print Assumptions C20_desc_errors.
Print Assumptions C20_phys_half_step_partial.
Print Assumptions C20_phys_raw_roundtrip_partial.
Print Assumptions C20_integer_types_scaled.
Print Assumptions C20_views_over_store_bits.
Print Assumptions C20_views_over_store_bits_held.
Print Assumptions C20_views_over_store_desc.
Print Assumptions C20_views_over_store_phys_partial.
Print Assumptions C20_cell_set_spec.
Print Assumptions C20_cell_is_store.
Print Assumptions C20_bits_on_cell.
Print Assumptions C20_source_decode_bits_is_model.
Print Assumptions C20_source_encode_bits_is_model.
Print Assumptions C20_source_read_route_is_model.
Print Assumptions C20_source_write_route_is_model.
Print Assumptions C20_read_write_agree.
Print Assumptions C20_views_over_store_read_fails.
