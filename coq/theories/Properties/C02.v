(* C02 - SDO server serves and stores object values exactly, in conformant CiA 301 frames.
   Statements only; every proof is [exact] of a lemma in Proofs/SdoServer_proofs.v.
   Model: Model/SdoServer.v (SdoServer.on_request and its handlers, LocalNode.get_data / set_data /
   _find_object, the object dictionary look-ups), encode_raw of OD variables = Model/Codec.v (C04);
   reference peer: Model/RefClient.v (conformant CiA 301 client written from the standard, and the
   rules for one well-formed response per request); constants: Gen/SdoTables.v, Gen/Tables.v,
   regenerated from /repo on every run.
   [d] is any object dictionary, [rcb] any application read callback, [st] ANY server/node state
   (any running transfer, any store, any callback log) unless stated otherwise. *)
From Coq Require Import ZArith List Bool.
From CV Require Import Base.Val Base.Bytes Base.Tys Gen.Tables Gen.SdoTables Model.Codec Model.RefClient
  Model.SdoServer Proofs.SdoServer_proofs Gen.SrcC02 Proofs.Src_eq_sdo Gen.SrcC06 Proofs.Src_eq_c06.
Import ListNotations.
Open Scope Z_scope.

(* For every readable entry and whatever supplies its value - read callback, stored (downloaded)
   data, parameter value, default, in that precedence ([supplies]) - of ANY length below 2^32
   (the size field has 32 bits), the conformant reference client obtains exactly those bytes, the
   empty value included.  The frames the server sends are exactly [upload_frames idx sub data]:
   an expedited response with n = 4 - length for 1..4 bytes; otherwise the initiate response
   announcing the true size followed by segments whose toggle alternates from 0, which carry the
   data in 7-byte chunks and flag c = 1 exactly on the segment that exhausts the data.
   Nothing is stored, the read callback is asked once, no write callback is invoked. *)
Theorem C02_upload_exact : forall d rcb st idx sub v data fuel,
  0 <= idx < 65536 ->
  find_object d idx sub = Ok v -> readable v = true -> supplies rcb st idx sub v data ->
  zlen data < 2 ^ 32 -> (length data <= 7 * fuel)%nat -> (1 <= fuel)%nat ->
  exists st', ref_upload (on_request d rcb) fuel st idx sub = (st', Ok data, upload_frames idx sub data) /\
              s_store st' = s_store st /\ s_log st' = s_log st ++ [EvR idx sub] /\
              s_index st' = idx /\ s_sub st' = sub /\ s_lasterr st' = s_lasterr st.
Proof. exact upload_exact. Qed.

(* Every accepted download - expedited with size (mode 0, 1..4 bytes), expedited without size
   (mode 1, 4 bytes), segmented with size (mode 2) and without (mode 3), of any length - to a
   writable entry (numeric entries: of the entry's length) stores exactly the transferred bytes
   and shows exactly them to the write callback, once. *)
Theorem C02_download_exact : forall d rcb st idx sub v data mode req fuel,
  0 <= idx < 65536 -> 0 <= sub < 256 ->
  download_request idx sub data mode = Some req ->
  find_object d idx sub = Ok v -> writable v = true -> length_ok v data = true ->
  (length data <= 7 * fuel)%nat -> (1 <= fuel)%nat ->
  exists st' tr, ref_download (on_request d rcb) fuel st idx sub data mode = (st', Ok [], tr) /\
                 s_store st' = ((idx, sub), data) :: s_store st /\
                 s_log st' = s_log st ++ [EvW idx sub data].
Proof. exact download_exact. Qed.

(* ... and a later upload (no read callback answering for the entry) returns exactly those bytes *)
Theorem C02_download_then_upload : forall d rcb st idx sub v data mode req fuel,
  0 <= idx < 65536 -> 0 <= sub < 256 ->
  download_request idx sub data mode = Some req ->
  find_object d idx sub = Ok v -> writable v = true -> length_ok v data = true ->
  readable v = true -> rcb idx sub = None -> zlen data < 2 ^ 32 ->
  (length data <= 7 * fuel)%nat -> (1 <= fuel)%nat ->
  exists st1 tr1 st2,
    ref_download (on_request d rcb) fuel st idx sub data mode = (st1, Ok [], tr1) /\
    s_log st1 = s_log st ++ [EvW idx sub data] /\
    ref_upload (on_request d rcb) fuel st1 idx sub = (st2, Ok data, upload_frames idx sub data).
Proof. exact download_then_upload. Qed.

(* For every history of frames of 1..8 bytes (any bytes: restarts, out-of-sequence segments,
   unknown commands, truncated frames) fed to a freshly created server (any initial data_store),
   on_request never raises, every frame other than a client abort draws exactly one 8-byte
   response that is well formed for the request and echoes the multiplexer as [resp_wf] demands
   (Model/RefClient.v; permissive where the standard is silent), a full client abort draws none. *)
Theorem C02_one_response_per_request : forall d rcb st0 frames,
  Forall frame_ok frames ->
  check_hist (0, 0) frames (snd (run_frames d rcb (fresh_state st0) frames)) = true.
Proof. exact one_response_per_request. Qed.

(* the same as a step invariant: from any state satisfying [mux_inv] (kept by every step) *)
Theorem C02_step_invariant : forall d rcb st req,
  mux_inv st -> frame_ok req -> step_ok st req (on_request d rcb st req).
Proof. exact on_request_ok. Qed.


(* a 20-byte parameter value shadowing a default: three segments *)
Example C02_nv_upload_exact :
  find_object nv_dict 0x2000 0 = Ok nv_var /\ readable nv_var = true /\
  supplies nv_rcb (fresh_state []) 0x2000 0 nv_var nv_data /\
  snd (fst (ref_upload (on_request nv_dict nv_rcb) 4 (fresh_state []) 0x2000 0)) = Ok nv_data /\
  length (upload_frames 0x2000 0 nv_data) = 4%nat.
Proof.
  split; [vm_compute; reflexivity|]. split; [vm_compute; reflexivity|]. split.
  - right. right. left. split; [reflexivity|]. split; [reflexivity|]. exists (PBytes nv_data). split; vm_compute; reflexivity.
  - split; vm_compute; reflexivity.
Qed.

(* a 20-byte segmented download without size indication, and a 2-byte expedited one to a numeric entry *)
Example C02_nv_download_exact :
  download_request 0x2000 0 nv_data 3 <> None /\ writable nv_var = true /\ length_ok nv_var nv_data = true /\
  snd (fst (ref_download (on_request nv_dict nv_rcb) 4 (fresh_state []) 0x2000 0 nv_data 3)) = Ok [] /\
  snd (fst (ref_download (on_request nv_dict nv_rcb) 4 (fresh_state []) 0x2001 0 [7; 8] 0)) = Ok [] /\
  length_ok (mkVar (Some dt_UNSIGNED16) [114; 119] None None) [7; 8] = true.
Proof. repeat split; try (vm_compute; reflexivity). vm_compute. discriminate. Qed.

Example C02_nv_download_then_upload :
  snd (fst (ref_upload (on_request nv_dict nv_rcb) 4
             (fst (fst (ref_download (on_request nv_dict nv_rcb) 4 (fresh_state []) 0x2000 0 [5; 6; 7; 8; 9] 2))) 0x2000 0))
  = Ok [5; 6; 7; 8; 9].
Proof. vm_compute. reflexivity. Qed.

(* a history on a fresh server: segment request out of sequence, unknown command, truncated frame,
   upload, wrong toggle, block download, client abort, truncated client abort *)

Example C02_nv_one_response_per_request :
  forallb (fun f => bytes_okb f && (1 <=? zlen f) && (zlen f <=? 8)) nv_hist = true /\
  map (fun o => length (fst o)) (snd (run_frames nv_dict nv_rcb (fresh_state []) nv_hist)) = [1; 1; 1; 1; 1; 1; 1; 0; 1; 1; 1]%nat /\
  s_store (fst (run_frames nv_dict nv_rcb (fresh_state []) nv_hist)) = [((0x2001, 0), [9; 1])].
Proof. repeat split; vm_compute; reflexivity. Qed.

(* Tie to the source text: SdoServer.segmented_upload as translated from the CURRENT source by tools/py2coq.py
   (Gen/SrcC02.v, regenerated on every run) computes the command byte (toggle, unused-byte count, last-segment flag)
   and the next toggle of the model's segmented_upload; a toggle mismatch is the abort 0x05030000 in both. *)
Theorem C02_source_segmented_upload_is_model : forall st command buf, s_buf st = Some buf ->
  match src_server_segmented_upload command (s_toggle st) (zlen buf) with
  | None => segmented_upload st command = (st, Abort AB_TOGGLE)
  | Some (c, t) => exists data st', segmented_upload st command = (st', Ok [c :: data]) /\ s_toggle st' = t
  end.
Proof. exact src_server_segmented_upload_eq. Qed.

(* the same tie for the two translated functions that belong to C02's statement (Gen/SrcC06.v, tools/tables/src_c06.py) *)
(* on_request dispatches on the client command specifier and turns every exception into exactly one abort *)
Theorem C02_src_dispatch : forall d rcb st c rest,
  on_request d rcb st (c :: rest) =
  let h := src_dispatch c 0 in
  let '(st1, r) :=
    if h =? 1 then init_upload d rcb st (c :: rest)
    else if h =? 2 then segmented_upload st c
    else if h =? 3 then init_download d st (c :: rest)
    else if h =? 4 then segmented_download d st c (c :: rest)
    else if h =? 5 then (if src_block_upload 0 =? 1 then init_upload d rcb st (c :: rest) else (st, Err E_FUEL))
    else if h =? 6 then (st, Abort (src_block_download 0))
    else if h =? 7 then request_aborted st (c :: rest)
    else (st, Abort 0x05040001) in
  match r with
  | Ok rs => (st1, rs, false)
  | Abort code => do_abort st1 code
  | Err k => do_abort st1 (if k =? E_KEY then 0x06020000 else src_abort_default)
  end.
Proof. exact src_dispatch_eq. Qed.

(* segmented_download appends request[1:last_byte] (n honoured in every segment) and stores through set_data on the last segment *)
Theorem C02_src_segmented_download : forall d st command req buf,
  s_buf st = Some buf ->
  let lb := 8 - Z.land (Z.shiftr command 1) 7 in
  let buf1 := buf ++ firstn (Z.to_nat (lb - 1)) (skipn 1 req) in
  let st1 := set_buf st (Some buf1) (s_toggle st) in
  let sd := set_data d st1 (s_index st) (s_sub st) buf1 true in
  let '(code, extended, last_byte, setcalled, resc, tg) :=
    src_segmented_download command (s_toggle st) (code_of (snd sd)) false false in
  if negb extended then code = 0x05030000 /\ segmented_download d st command req = (st, Abort code)
  else last_byte = lb /\
       if code =? 0 then
         let st2 := if setcalled then fst sd else st1 in
         segmented_download d st command req = (set_buf st2 (s_buf st2) tg, Ok [[resc; 0; 0; 0; 0; 0; 0; 0]])
       else setcalled = true /\ segmented_download d st command req = (fst sd, Abort code).
Proof. exact src_segmented_download_eq. Qed.

Print Assumptions C02_upload_exact.
Print Assumptions C02_download_exact.
Print Assumptions C02_download_then_upload.
Print Assumptions C02_one_response_per_request.
Print Assumptions C02_step_invariant.
Print Assumptions C02_source_segmented_upload_is_model.
Print Assumptions C02_src_dispatch.
Print Assumptions C02_src_segmented_download.
