(* C17 - Periodic transmissions run exactly when and with what the API state says.
   Statements only; every proof is [exact] of a lemma in Proofs/Periodic_proofs.v.
   Model: Model/Periodic.v (SyncProducer, PdoMap, NmtSlave heartbeat incl. object 0x1017 and NMT
   state changes, NmtMaster node guarding, PeriodicMessageTask with both branches of update,
   Network.disconnect); tables: Gen/NmtTables.v (COMMAND_TO_STATE), Gen/PeriodicTables.v (SYNC COB-ID),
   regenerated from /repo on every run.

   Vocabulary (Model/Periodic.v): [run (init c) ops] is the state after an ARBITRARY list of calls
   [ops] on a fresh network of configuration [c] (either bus flavour, any node ids, any PDO maps);
   [task_of s p] the handle producer p holds; [bus_alive b t] task t of the bus is transmitting;
   [carries bt pt] bus task bt repeats exactly the frame/period of PeriodicMessageTask pt;
   [frame_current s p pt] pt holds what the API state of p says as far as only calls can change it
   (SYNC / heartbeat / guarding: id, payload, remote flag; heartbeat: period and state byte);
   [attrs_current s p pt] pt agrees with the ASSIGNABLE attributes SyncProducer.period, PdoMap.cob_id,
   PdoMap.period (ops SyncSetPeriod / PdoSetCob / PdoSetPeriod model the assignments). *)
From Coq Require Import ZArith List Bool.
From CV Require Import Base.Val Base.Tys Gen.NmtTables Gen.PeriodicTables Model.Periodic Proofs.Periodic_proofs Gen.SrcC17 Proofs.Src_eq_c17.
Import ListNotations.
Open Scope Z_scope.

(* The set of live bus tasks equals the set of handles held by producers: every handle points to a
   live task repeating exactly the frame and period of its PeriodicMessageTask, which holds the
   producer's current frame (frame_current; the assignable attributes cob_id / period are covered by
   C17_restart_leaves_one and the two C17_attributes theorems); two producers
   never share a task (each producer holds at most one handle by construction); and every live task
   is held by some producer (nothing leaks, no earlier task keeps transmitting). *)
Theorem C17_no_leak_invariant : forall c ops,
  let s := run (init c) ops in
  ((forall p pt, task_of s p = Some pt -> carries (bus_get (st_bus s) (pt_tid pt)) pt) /\
   (forall p q pt qt, task_of s p = Some pt -> task_of s q = Some qt -> pt_tid pt = pt_tid qt -> p = q) /\
   (forall t, bus_alive (st_bus s) t = true -> exists p pt, task_of s p = Some pt /\ pt_tid pt = t)) /\
  (forall p pt, task_of s p = Some pt -> frame_current s p pt).
Proof. exact no_leak_invariant. Qed.

(* after stop() of any producer, in any reachable state: it holds no handle and every task still
   transmitting belongs to another producer *)
Theorem C17_stopped_means_none : forall c ops p,
  none_running (step_st (run (init c) ops) (stop_op p)) p.
Proof. exact stopped_means_none. Qed.

(* heartbeat time 0 => no heartbeat: after writing 0 to object 0x1017, after start_heartbeat(ms <= 0);
   and whenever a heartbeat task runs, the heartbeat time is positive and is its period *)
Theorem C17_heartbeat_zero_stops : forall c ops,
  let s := run (init c) ops in
  none_running (step_st s (ObjWrite HB_TIME_INDEX 0)) PHb /\
  (forall ms, ms <= 0 -> none_running (step_st s (HbStart ms)) PHb) /\
  (forall pt, task_of s PHb = Some pt ->
     0 < hb_ms (st_hb s) /\ bt_period (bus_get (st_bus s) (pt_tid pt)) = hb_ms (st_hb s)).
Proof. exact heartbeat_zero_stops. Qed.

(* a start / restart that returns normally, in any reachable state (running or not, with the period
   given or omitted, after any attribute assignments): the producer holds a task created by this very
   call, carrying the producer's CURRENT CAN id (PdoMap.cob_id as it is at the call), payload and period
   (the argument, or the period attribute when omitted), and the task it held before is dead.
   With C17_no_leak_invariant for the new state: exactly one task of this producer is transmitting. *)
Theorem C17_restart_leaves_one : forall c ops,
  let s := run (init c) ops in
  (forall p x, eff_period p (sy_period (st_sync s)) = Some x -> snd (step s (SyncStart p)) = None ->
     started s (step_st s (SyncStart p)) PSync SYNC_COB_ID [] x false) /\
  (forall i p x pd, nth_error (st_pdos s) i = Some pd -> eff_period p (pd_period pd) = Some x ->
     snd (step s (PdoStart i p)) = None ->
     started s (step_st s (PdoStart i p)) (PPdo i) (pd_cob pd) (pd_data pd) x false) /\
  (forall ms, 0 < ms -> snd (step s (HbStart ms)) = None ->
     started s (step_st s (HbStart ms)) PHb (HB_BASE + hb_node (st_hb s)) [hb_state (st_hb s)] ms false) /\
  (forall x, snd (step s (GuardStart x)) = None ->
     started s (step_st s (GuardStart x)) PGuard (HB_BASE + gd_node (st_guard s)) [] x true).
Proof. exact restart_leaves_one. Qed.

(* CAN id and period against the assignable attributes: a start that returns normally makes the task
   agree with them (in ANY state), and the agreement persists over every further call sequence that
   does not assign an attribute of that producer; in particular (ops1 = []) it holds throughout
   every history without attribute assignments. *)
Theorem C17_attributes_current_after_start : forall s,
  (forall p, snd (step s (SyncStart p)) = None ->
     forall pt, task_of (step_st s (SyncStart p)) PSync = Some pt -> attrs_current (step_st s (SyncStart p)) PSync pt) /\
  (forall i p, snd (step s (PdoStart i p)) = None ->
     forall pt, task_of (step_st s (PdoStart i p)) (PPdo i) = Some pt ->
                attrs_current (step_st s (PdoStart i p)) (PPdo i) pt).
Proof. exact start_sets_attrs. Qed.

Theorem C17_attributes_stay_current : forall c ops1 ops2 p,
  let s := run (init c) ops1 in
  (forall pt, task_of s p = Some pt -> attrs_current s p pt) ->
  (forall o, In o ops2 -> touches o p = false) ->
  forall pt, task_of (run s ops2) p = Some pt -> attrs_current (run s ops2) p pt.
Proof. exact attrs_stay_current. Qed.

(* Network.disconnect: no PDO map (of any node, rx or tx) holds a task afterwards, and whatever is
   still transmitting belongs to a producer that is not a PDO map *)
Theorem C17_disconnect_stops_pdo_tasks : forall c ops,
  let s' := step_st (run (init c) ops) Disconnect in
  (forall i, task_of s' (PPdo i) = None) /\
  (forall t, bus_alive (st_bus s') t = true ->
     exists q qt, (forall i, q <> PPdo i) /\ task_of s' q = Some qt /\ pt_tid qt = t).
Proof. exact disconnect_stops_pdo_tasks. Qed.

(* PDO payload: after start(), update() or a mapped-variable write (in-place write + update) that
   returns normally, the running task transmits the map's current data - on both bus flavours *)
Theorem C17_pdo_payload_current : forall c ops o i,
  commits o i ->
  let s := run (init c) ops in
  snd (step s o) = None ->
  forall pd pt, nth_error (st_pdos (step_st s o)) i = Some pd -> pd_task pd = Some pt ->
    bt_data (bus_get (st_bus (step_st s o)) (pt_tid pt)) = pd_data pd.
Proof. exact pdo_payload_current. Qed.

(* ---- non-vacuity: concrete non-trivial histories meet the hypotheses ---- *)
Definition nv_cfg (modify : bool) : config := mkCfg modify 2 3 250 [(515, [0; 0; 0]); (386, [1; 2])].
Definition nv_ops : list op :=
  [SyncStart (Some 100); SyncStart (Some 200); PdoStart 0 (Some 500); PdoPoke 0 0 7; PdoUpdate 0;
   PdoStart 1 (Some 10); NmtCmd 128; NmtCmd 1; ObjWrite 4119 1000; GuardStart 300; GuardStart 400;
   PdoSetVar 0 2 9; PdoStart 0 None].

(* all five producers hold a task after 13 calls with restarts and updates; on the bus without
   modify_data 12 tasks were created and exactly 5 are live, each with the current frame *)
Example C17_nv_invariant :
  let s := run (init (nv_cfg false)) nv_ops in
  (forall p, In p [PSync; PHb; PGuard; PPdo 0; PPdo 1] -> task_of s p <> None) /\
  length (st_bus s) = 12%nat /\
  live_view s = VL [VL [VZ 1; VZ 128; VB []; VZ 200; VBool false];
                    VL [VZ 4; VZ 386; VB [1; 2]; VZ 10; VBool false];
                    VL [VZ 7; VZ 1794; VB [5]; VZ 1000; VBool false];
                    VL [VZ 9; VZ 1795; VB []; VZ 400; VBool true];
                    VL [VZ 11; VZ 515; VB [7; 0; 9]; VZ 500; VBool false]].
Proof.
  vm_compute. split; [|split; reflexivity].
  intros p [<-|[<-|[<-|[<-|[<-|[]]]]]]; discriminate.
Qed.

Example C17_nv_restart :
  let s := run (init (nv_cfg true)) nv_ops in
  task_of s PSync <> None /\ snd (step s (SyncStart (Some 50))) = None /\ snd (step s (SyncStart None)) = None /\
  (exists pd, nth_error (st_pdos s) 0 = Some pd /\ pd_task pd <> None /\ snd (step s (PdoStart 0 (Some 20))) = None) /\
  task_of s PHb <> None /\ snd (step s (HbStart 5)) = None /\
  task_of s PGuard <> None /\ snd (step s (GuardStart 1)) = None.
Proof. vm_compute. repeat split; try discriminate. eexists. repeat split; discriminate. Qed.

Example C17_nv_payload :
  let s := run (init (nv_cfg false)) (firstn 4 nv_ops) in
  commits (PdoUpdate 0) 0 /\ snd (step s (PdoUpdate 0)) = None /\
  exists pd pt, nth_error (st_pdos (step_st s (PdoUpdate 0))) 0 = Some pd /\ pd_task pd = Some pt /\ pd_data pd = [7; 0; 0] /\
                bt_data (bus_get (st_bus s) 2) = [0; 0; 0].
Proof. split; [right; left; reflexivity|]. vm_compute. split; [reflexivity|]. do 2 eexists. repeat split. Qed.

Example C17_nv_disconnect :
  let s := run (init (nv_cfg true)) nv_ops in
  task_of s (PPdo 0) <> None /\ task_of s (PPdo 1) <> None /\
  live_view (step_st s Disconnect) = VL [VL [VZ 1; VZ 128; VB []; VZ 200; VBool false];
                                         VL [VZ 5; VZ 1794; VB [5]; VZ 1000; VBool false];
                                         VL [VZ 7; VZ 1795; VB []; VZ 400; VBool true]].
Proof. vm_compute. repeat split; discriminate. Qed.

(* COB-ID and period attribute assigned while running, then start() without a period: the surviving
   task is a new one on the new COB-ID with the new period (both flavours give the same live set here) *)
Example C17_nv_attributes :
  let ops := [PdoStart 0 (Some 100); PdoSetCob 0 450; PdoSetPeriod 0 (Some 200); PdoStart 0 None] in
  let s3 := run (init (nv_cfg false)) (firstn 3 ops) in
  snd (step s3 (PdoStart 0 None)) = None /\ touches (PdoSetCob 0 450) (PPdo 0) = true /\
  live_view s3 = VL [VL [VZ 0; VZ 515; VB [0; 0; 0]; VZ 100; VBool false]] /\
  live_view (run (init (nv_cfg false)) ops) = VL [VL [VZ 1; VZ 450; VB [0; 0; 0]; VZ 200; VBool false]] /\
  live_view (run (init (nv_cfg true)) ops) = VL [VL [VZ 1; VZ 450; VB [0; 0; 0]; VZ 200; VBool false]].
Proof. vm_compute. repeat split. Qed.

(* ------------------------------------------------------------------ tie (c): source text
   PeriodicMessageTask.update, SyncProducer.start/stop and PdoMap.start/stop/update as translated from the
   CURRENT source text (Gen/SrcC17.v, regenerated on every run) determine the model functions the theorems
   above are about: which of stop / modify_data / _start / send_periodic is called, the position of the
   period check relative to stop(), the period attribute and the handle afterwards. *)
Theorem C17_src_update : forall modify b pt d,
  pt_update modify b pt d =
  let '(stored, act) := src_pt_update modify (list_Z_eqb d (pt_data pt)) false 0 in
  let d' := if stored then d else pt_data pt in
  let pt1 tid := mkP tid (pt_can pt) d' (pt_period pt) (pt_remote pt) in
  if act =? 1 then (bus_modify b (pt_tid pt) d', pt1 (pt_tid pt))
  else if act =? 3 then
    (bus_stop b (pt_tid pt) ++ [mkB (pt_can pt) d' (pt_period pt) (pt_remote pt) true], pt1 (length b))
  else if act =? 0 then (b, pt1 (pt_tid pt))
  else (bus_stop b (pt_tid pt), pt1 (pt_tid pt)).
Proof. exact src_pt_update_eq. Qed.

Theorem C17_src_sync_start : forall s p,
  let y := st_sync s in
  let '(stopped, ph, pv, out) :=
    src_sync_start (osome p) (oget p) (osome (sy_period y)) (oget (sy_period y)) false in
  let per := mkopt ph pv in
  let b1 := if stopped then stop_opt (st_bus s) (sy_task y) else st_bus s in
  sync_start s p =
  if out =? 0 then (set_sync s b1 (mkSy per (if stopped then None else sy_task y)), raised E_VALUE)
  else match send_periodic (st_conn s) b1 SYNC_COB_ID [] pv false with
       | Some (b2, pt) => (set_sync s b2 (mkSy per (Some pt)), ok)
       | None => (set_sync s b1 (mkSy per None), raised E_ATTR)
       end.
Proof. exact src_sync_start_eq. Qed.

Theorem C17_src_pdo_start : forall conn b pd p,
  let '(stopped, ph, pv, out) :=
    src_pdo_start (osome p) (oget p) (osome (pd_period pd)) (oget (pd_period pd)) false in
  let per := mkopt ph pv in
  let b1 := if stopped then stop_opt b (pd_task pd) else b in
  let pd1 := mkPd (pd_cob pd) (pd_nvars pd) (pd_data pd) per (if stopped then None else pd_task pd) in
  pdo_start1 conn b pd p =
  if out =? 0 then (b1, pd1, raised E_VALUE)
  else match send_periodic conn b1 (pd_cob pd) (pd_data pd) pv false with
       | Some (b2, pt) => (b2, mkPd (pd_cob pd) (pd_nvars pd) (pd_data pd) per (Some pt), ok)
       | None => (b1, pd1, raised E_ATTR)
       end.
Proof. exact src_pdo_start_eq. Qed.

Theorem C17_src_pdo_update : forall modify b pd,
  pdo_update1 modify b pd =
  if src_pdo_update_calls (osome (pd_task pd)) false then
    match pd_task pd with
    | Some pt => let '(b1, pt1) := pt_update modify b pt (pd_data pd) in
                 (b1, mkPd (pd_cob pd) (pd_nvars pd) (pd_data pd) (pd_period pd) (Some pt1))
    | None => (b, pd)
    end
  else (b, pd).
Proof. exact src_pdo_update_eq. Qed.

Theorem C17_src_pdo_stop : forall b pd,
  pdo_stop1 b pd =
  let '(stopped, holds) := src_pdo_stop (osome (pd_task pd)) false true in
  (if stopped then stop_opt b (pd_task pd) else b,
   mkPd (pd_cob pd) (pd_nvars pd) (pd_data pd) (pd_period pd) (if holds then pd_task pd else None)).
Proof. exact src_pdo_stop_eq. Qed.

Theorem C17_src_sync_stop : forall s,
  sync_stop s =
  let y := st_sync s in
  let '(stopped, holds) := src_sync_stop (osome (sy_task y)) false true in
  set_sync s (if stopped then stop_opt (st_bus s) (sy_task y) else st_bus s)
           (mkSy (sy_period y) (if holds then sy_task y else None)).
Proof. exact src_sync_stop_eq. Qed.

Print Assumptions C17_no_leak_invariant.
Print Assumptions C17_stopped_means_none.
Print Assumptions C17_heartbeat_zero_stops.
Print Assumptions C17_restart_leaves_one.
Print Assumptions C17_attributes_current_after_start.
Print Assumptions C17_attributes_stay_current.
Print Assumptions C17_disconnect_stops_pdo_tasks.
Print Assumptions C17_pdo_payload_current.
Print Assumptions C17_src_update.
Print Assumptions C17_src_sync_start.
Print Assumptions C17_src_pdo_start.
Print Assumptions C17_src_pdo_update.
Print Assumptions C17_src_pdo_stop.
Print Assumptions C17_src_sync_stop.
