(* C07 - A disturbed SDO transfer fails loudly and does not poison the next one
   (expedited + segmented transfer; the block-transfer part belongs to C12/C13).
   Statements only; every proof is [exact] of a lemma in Proofs/SdoClient_proofs.v.
   Model: Model/SdoClient.v run against the medium of Model/RefServer.v: [disturb w k f pre] arms
   ONE disturbance f for the response to the k-th frame the client sends and puts the stale frames
   [pre] into the response queue before the transfer starts ("stale frame before the request").
   Kinds (RefServer.fault): FLost (response lost), FLostReq (request lost), FDelay (response arrives
   after the client's time-out abort), FReplace frs (response replaced, e.g. by an abort frame),
   FXor0 16 (toggle bit flipped), FXor0 m (command specifier changed), FMux m (multiplexer changed),
   FDup (response duplicated), FStale fr (stale frame between request and response).
   [sdo_error r]: r is SdoCommunicationError or SdoAbortedError. *)
From Coq Require Import ZArith List Bool Lia.
From CV Require Import Base.Val Base.Bytes Base.Tys Gen.Tables Model.RefServer Model.SdoClient Proofs.SdoClient_proofs Gen.SrcC01 Proofs.Src_eq_c01.
Import ListNotations.
Open Scope Z_scope.

(* Download: for EVERY step k and EVERY disturbance made of 8-byte frames (arbitrary replacement or
   stale frames included), whatever stale frames were in the queue: success implies that the server
   holds exactly the payload; every other outcome is an SDO communication / abort error. *)
Theorem C07_disturbed_download : forall (w : cworld) idx sub data size force sched k f pre,
  net_wf (w_s w) -> fault_wf f ->
  mux_ok idx sub -> zlen data < 2 ^ 32 -> (size = None \/ size = Some (zlen data)) ->
  valid_sched (expedited size force) sched (zlen data) ->
  let '(w', r) := with_write net_step (disturb w k f pre) idx sub size force data sched in
  (r = Ok tt /\ store_get idx sub (n_srv (w_s w')) = Some data) \/ sdo_error r.
Proof. exact disturbed_download. Qed.

(* The same download through io.BufferedWriter / TextIOWrapper ([replay_write]: the wrapper's raw calls
   are replayed as recorded, the bytes of a failed flush are offered again at the next flush / at
   close; the exception that reaches the caller is the last one raised).  Success means that no raw
   call failed, so the raw calls were the writes [sched] followed by close() (-1): then the server
   holds exactly the payload.  Any failed raw call makes the outcome an exception by construction of
   [replay_ops]; its class is checked by the correspondence run only (CPython's buffer is not modelled). *)
Theorem C07_disturbed_buffered_download : forall (w : cworld) idx sub data size force sched k f pre,
  net_wf (w_s w) -> fault_wf f ->
  mux_ok idx sub -> zlen data < 2 ^ 32 -> (size = None \/ size = Some (zlen data)) ->
  valid_sched (expedited size force) sched (zlen data) ->
  let '(w', r) := replay_write net_step (disturb w k f pre) idx sub size force data (sched ++ [-1]) in
  r = Ok tt -> store_get idx sub (n_srv (w_s w')) = Some data.
Proof. exact disturbed_buffered_download. Qed.

(* A refused or unanswered download initiation ends the transfer (fix 0d5f4b1): when the initiate exchange
   ends with an SDO error (abort received, time-out - after which request_response has sent its one abort
   frame -, unexpected response), the world after the whole with-block INCLUDING close() of the discarded
   stream object is the world right after that exchange: no further frame is put on the bus (w_log is
   part of the world), whatever the caller or the buffered wrapper tries afterwards. *)
Theorem C07_failed_initiation_silent : forall (w : cworld) idx sub size force data sched w0 st0 r0,
  ws_init net_step w idx sub size force = (w0, st0, r0) -> sdo_error r0 ->
  with_write net_step w idx sub size force data sched = (w0, r0) /\
  forall ops, replay_write net_step w idx sub size force data ops = (w0, r0).
Proof. exact (@failed_initiation_silent net net_step). Qed.

(* Upload (SdoClient.upload): for every step k and every disturbance the SDO protocol can tell from
   the genuine response or that leaves it intact ([ul_fault_ok]: lost, request lost, late, abort
   frame, toggle flipped, specifier changed, multiplexer of the initiate response changed,
   duplicated, stale frame with another specifier / multiplexer / toggle bit): the result is exactly
   the correct data or an SDO error - never success with other data.
   Excluded, as stated in the design: a stale upload-segment response carrying the expected toggle
   bit, or a stale initiate response for the same multiplexer with other content, is
   indistinguishable from a genuine response within CiA 301. *)
Theorem C07_disturbed_upload : forall (w : cworld) idx sub odt v k f pre,
  net_wf (w_s w) -> fault_wf f -> ul_fault_ok idx sub (Some (k, f)) ->
  mux_ok idx sub -> store_get idx sub (n_srv (w_s w)) = Some v -> zlen v < 2 ^ 32 ->
  (length (st_segs (s_style (n_srv (w_s w)))) < FUEL)%nat -> (length v + 2 <= FUEL)%nat ->
  let '(w', r) := sdo_upload net_step FUEL (disturb w k f pre) idx sub odt in
  r = Ok (expected_upload (s_style (n_srv (w_s w))) odt v) \/ sdo_error r.
Proof. exact disturbed_upload. Qed.

(* the same for open(..., buffering=0).read() *)
Theorem C07_disturbed_raw_read : forall (w : cworld) idx sub v k f pre,
  net_wf (w_s w) -> fault_wf f -> ul_fault_ok idx sub (Some (k, f)) ->
  mux_ok idx sub -> store_get idx sub (n_srv (w_s w)) = Some v -> zlen v < 2 ^ 32 ->
  (length (st_segs (s_style (n_srv (w_s w)))) < FUEL)%nat -> (length v + 2 <= FUEL)%nat ->
  let '(w', _, r) := read_whole net_step FUEL (disturb w k f pre) idx sub in
  r = Ok (wire_value (s_style (n_srv (w_s w))) v) \/ sdo_error r.
Proof. exact disturbed_raw_read. Qed.

(* The mechanism, at every protocol step of every transfer (each step is one request_response call):
   no frame in the queue before the time-out -> SdoCommunicationError, and the very next frame the
   client puts on the bus is the abort with code 0x05040000 ([timeout_abort_frame]). *)
Theorem C07_lost_response_aborts_step : forall (w : cworld) req n1,
  net_step (w_s w) req = (n1, []) ->
  exists w' late, request_response net_step w req = (w', Err E_SDOCOMM) /\
    w_log w' = late ++ timeout_abort_frame :: (0 :: req) :: w_log w.
Proof. exact lost_response_aborts_step. Qed.

(* Transfer level, every step k: after the transfer either the disturbance is still pending (the
   transfer had fewer than k+1 frames) or the time-out abort is on the bus. *)
Theorem C07_lost_response_aborts_download : forall (w : cworld) idx sub data size force sched k f pre,
  lost_like f ->
  lost_seen f (fst (with_write net_step (disturb w k f pre) idx sub size force data sched)).
Proof. exact lost_response_aborts_download. Qed.

Theorem C07_lost_response_aborts_upload : forall (w : cworld) idx sub odt k f pre,
  lost_like f ->
  lost_seen f (fst (sdo_upload net_step FUEL (disturb w k f pre) idx sub odt)).
Proof. exact lost_response_aborts_upload. Qed.

(* The next transfer is clean: from the state client and server are in after ANY disturbed transfer
   (whatever it left in the response queue, plus frames [late] that arrive afterwards, whatever
   transfer the server still has open), an undisturbed transfer satisfies C01's conclusions. *)
Theorem C07_next_transfer_clean_download : forall (w : cworld) k f pre late idx1 sub1 data1 size1 force1 sched1
    idx sub data size force sched,
  net_wf (w_s w) -> fault_wf f ->
  mux_ok idx sub -> zlen data < 2 ^ 32 -> (size = None \/ size = Some (zlen data)) ->
  valid_sched (expedited size force) sched (zlen data) ->
  let w1 := settle (fst (with_write net_step (disturb w k f pre) idx1 sub1 size1 force1 data1 sched1)) late in
  exists w', with_write net_step w1 idx sub size force data sched = (w', Ok tt) /\
    store_get idx sub (n_srv (w_s w')) = Some data /\ s_viol (n_srv (w_s w')) = s_viol (n_srv (w_s w1)).
Proof. exact next_download_clean_after_download. Qed.

Theorem C07_next_transfer_clean_upload : forall (w : cworld) k f pre late idx1 sub1 odt1 idx sub odt v,
  net_wf (w_s w) -> fault_wf f -> mux_ok idx sub ->
  let w1 := settle (fst (sdo_upload net_step FUEL (disturb w k f pre) idx1 sub1 odt1)) late in
  store_get idx sub (n_srv (w_s w1)) = Some v -> zlen v < 2 ^ 32 ->
  (length (st_segs (s_style (n_srv (w_s w1)))) < FUEL)%nat -> (length v + 2 <= FUEL)%nat ->
  exists w', sdo_upload net_step FUEL w1 idx sub odt = (w', Ok (expected_upload (s_style (n_srv (w_s w1))) odt v)) /\
    s_viol (n_srv (w_s w')) = s_viol (n_srv (w_s w1)).
Proof. exact next_upload_clean_after_upload. Qed.

(* the general form behind both: ANY well-formed state with no disturbance pending *)
Theorem C07_next_transfer_clean_any : forall (w : cworld) idx sub data size force sched,
  net_wf (w_s w) -> n_fault (w_s w) = None ->
  mux_ok idx sub -> zlen data < 2 ^ 32 -> (size = None \/ size = Some (zlen data)) ->
  valid_sched (expedited size force) sched (zlen data) ->
  exists w', with_write net_step w idx sub size force data sched = (w', Ok tt) /\
    store_get idx sub (n_srv (w_s w')) = Some data /\ s_viol (n_srv (w_s w')) = s_viol (n_srv (w_s w)).
Proof. exact next_transfer_clean_download. Qed.

(* ---- non-vacuity ---- *)
(* a stale segment acknowledgement between request and response of the second segment of a 10-byte
   download; a flipped toggle bit in the first segment of a 9-byte upload; a lost response *)
Example C07_nv_faults :
  fault_wf (FStale [32; 0; 0; 0; 0; 0; 0; 0]) /\ fault_wf (FXor0 16) /\ lost_like FLost /\
  ul_fault_ok 8192 0 (Some (1%nat, FXor0 16)) /\
  ul_fault_ok 8192 0 (Some (0%nat, FMux [1; 32; 0])) /\
  ul_fault_ok 8192 0 (Some (2%nat, FStale [0; 1; 2; 3; 4; 5; 6; 7])).
Proof.
  split; [reflexivity|]. split; [exact I|]. split; [exact I|].
  split; [vm_compute; repeat split; reflexivity|].
  split.
  - cbn. split; [reflexivity|]. split; [discriminate|].
    repeat (constructor; [lia|]). constructor.
  - cbn. split; [reflexivity|]. right. discriminate.
Qed.

Example C07_nv_outcomes :
  let data := [1; 2; 3; 4; 5; 6; 7; 8; 9; 10] in
  let w := init_world [(8192, [1; 2; 3; 4; 5; 6; 7; 8; 9])] in
  (* stale ack accepted in place of the genuine one: the download still delivers *)
  snd (with_write net_step (disturb w 2 (FStale [32; 0; 0; 0; 0; 0; 0; 0]) []) 8192 1 (Some 10) false data [10; 3]) = Ok tt /\
  (* lost response of the last segment: the time-out error reaches the caller, abort on the bus;
     the same when the wrapper re-offers the bytes at close (raw calls 10, 3, 3, close) *)
  snd (with_write net_step (disturb w 2 FLost []) 8192 1 (Some 10) false data [10; 3]) = Err E_SDOCOMM /\
  snd (replay_write net_step (disturb w 2 FLost []) 8192 1 (Some 10) false data [10; 3; 3; -1]) = Err E_SDOCOMM /\
  snd (with_write net_step (disturb w 0 FLost []) 8192 1 (Some 3) false [1; 2; 3] [3]) = Err E_SDOCOMM /\
  In timeout_abort_frame (w_log (fst (with_write net_step (disturb w 2 FLost []) 8192 1 (Some 10) false data [10; 3]))) /\
  (* toggle flipped in an upload segment: error; duplicated response: correct data *)
  snd (sdo_upload net_step FUEL (disturb w 1 (FXor0 16) []) 8192 0 None) = Err E_SDOCOMM /\
  snd (sdo_upload net_step FUEL (disturb w 1 FDup []) 8192 0 None) = Ok [1; 2; 3; 4; 5; 6; 7; 8; 9] /\
  (* abort frame received *)
  snd (sdo_upload net_step FUEL (disturb w 0 (FReplace [[128; 0; 32; 0; 0; 0; 2; 6]]) []) 8192 0 None) = Abort 100794368.
Proof. vm_compute. repeat split; try reflexivity. auto 20. Qed.

(* ---- Tie (c): source text -> model.  Gen/SrcC01.v is regenerated from the text of canopen/sdo/client.py on every run
   (tools/tables/src_c01.py): WritableStream.__init__ / write / close and ReadableStream.__init__ / read as state
   skeletons (which branch, byte 0 of the request, payload bytes copied, _toggle / _done / _error / pos / size
   afterwards, which exception).  The *_from_src functions (Proofs/Src_eq_c01.v) are the model functions rebuilt around
   those skeletons: the only decisions left outside the translated text are struct packing, the request/response
   exchange and slicing.  The model the theorems above speak about IS what the current source text says. ---- *)
Theorem C07_src_ws_init : forall (S : Type) (peer : S -> frame -> S * list frame) (w : world) idx sub size force,
  ws_init peer w idx sub size force = ws_init_from_src peer w idx sub size force.
Proof. exact @src_ws_init_eq. Qed.

Theorem C07_src_ws_write : forall (S : Type) (peer : S -> frame -> S * list frame) (w : world) st b,
  ws_write peer w st b = ws_write_from_src peer w st b.
Proof. exact @src_ws_write_eq. Qed.

Theorem C07_src_ws_close : forall (S : Type) (peer : S -> frame -> S * list frame) (w : world) st,
  ws_close peer w st = ws_close_from_src peer w st.
Proof. exact @src_ws_close_eq. Qed.

Theorem C07_src_rs_init : forall (S : Type) (peer : S -> frame -> S * list frame) (w : world) idx sub,
  rs_init peer w idx sub = rs_init_from_src peer w idx sub.
Proof. exact @src_rs_init_eq. Qed.

Theorem C07_src_rs_read : forall (S : Type) (peer : S -> frame -> S * list frame) (f : nat) (w : world) st size,
  0 <= size ->
  rs_read peer (Datatypes.S f) w st = rs_read_from_src peer (rs_read peer f) w st size.
Proof. exact @src_rs_read_eq. Qed.

(* readinto(b) with a buffer of cap bytes: read(7) only when nothing is pending, min(cap, pending) bytes handed out,
   the rest kept *)
Theorem C07_src_rs_readinto : forall (S : Type) (peer : S -> frame -> S * list (frame)) rf cap (w : world) st,
  0 <= cap -> rs_readinto peer rf cap w st = rs_readinto_from_src peer rf cap w st.
Proof. exact @src_rs_readinto_eq. Qed.

(* the exchange itself: which frame is awaited, when the queue is replaced, that ONE request is sent, and that a missing
   response is answered by the abort frame [0x80, 0, 0, 0, code little-endian] with the code in the source text (0x05040000)
   after MAX_RETRIES (regenerated: SDO_MAX_RETRIES) attempts *)
Theorem C07_src_request_response : forall (S : Type) (peer : S -> frame -> S * list (frame)) (w : world) req,
  request_response peer w req = request_response_from_src peer w req.
Proof. exact @src_request_response_eq. Qed.

Theorem C07_src_read_response : forall (S : Type) (w : @world S), read_response w = read_response_from_src w.
Proof. exact @src_read_response_eq. Qed.

Theorem C07_src_abort_frame : forall code, abort_frame code = abort_frame_from_src code.
Proof. exact src_abort_eq. Qed.

Theorem C07_src_upload_truncation : forall odt response_size data,
  truncate odt response_size data = truncate_from_src odt response_size data.
Proof. exact src_upload_eq. Qed.

(* non-vacuity of the tie: the skeletons on concrete states.  A 10-byte download of declared size: initiate byte 0x21;
   second segment (3 bytes at pos 7, toggle 0x10) has byte 0 = 0x10 | (7-3)<<1 | 1 = 0x19 and completes the stream;
   close() of an unfinished stream of unknown size sends 0x0F | toggle; an expedited upload response 0x4B (e, s, n=2)
   gives size 2; a final 2-byte upload segment 0x1B with toggle 0x10. *)
Example C07_nv_src :
  src_ws_init true 10 false false 96 = (1, 33, true, false, false, false, 0, 0) /\
  src_ws_init true 3 false false 96 = (1, 39, false, true, false, false, 0, 0) /\
  src_ws_write false false false true 10 7 16 3 false 48 0 0 false = (1, 25, 3, 0, true, false, 10, 3) /\
  src_ws_write false false false true 10 7 16 3 true 0 0 0 false = (6, 25, 3, 16, true, true, 7, 0) /\
  src_ws_close false false 16 false 0 = (true, 31, true) /\
  src_rs_init 8192 1 75 8192 1 4 0 false 0 0 = (1, true, 2, 1, 2, 0, false) /\
  src_rs_read false false 7 false false 16 7 27 0 0 = (7, 112, 0, true, 9, 2).
Proof. vm_compute. repeat split; reflexivity. Qed.

(* a lost response with an empty queue: one request sent, then the abort 0x05040000; a stale frame in the queue is
   dropped first; an abort frame from the server (0x80) raises SdoAbortedError *)
Example C07_nv_src_exchange :
  src_request_response SDO_MAX_RETRIES true true false 0 0 = (2, false, 1, 84148224, 0) /\
  src_request_response SDO_MAX_RETRIES false false false 0 0 = (1, true, 1, 0, 1) /\
  src_read_response false 128 = 1 /\ src_read_response false 96 = 2 /\ src_read_response true 0 = 0 /\
  abort_frame_from_src 84148224 = [128; 0; 0; 0; 0; 0; 4; 5].
Proof. vm_compute. repeat split; reflexivity. Qed.

Print Assumptions C07_disturbed_download.
Print Assumptions C07_disturbed_buffered_download.
Print Assumptions C07_failed_initiation_silent.
Print Assumptions C07_disturbed_upload.
Print Assumptions C07_disturbed_raw_read.
Print Assumptions C07_lost_response_aborts_step.
Print Assumptions C07_lost_response_aborts_download.
Print Assumptions C07_lost_response_aborts_upload.
Print Assumptions C07_next_transfer_clean_download.
Print Assumptions C07_next_transfer_clean_upload.
Print Assumptions C07_next_transfer_clean_any.
Print Assumptions C07_src_ws_init.
Print Assumptions C07_src_ws_write.
Print Assumptions C07_src_ws_close.
Print Assumptions C07_src_rs_init.
Print Assumptions C07_src_rs_read.
Print Assumptions C07_src_upload_truncation.
Print Assumptions C07_src_request_response.
Print Assumptions C07_src_read_response.
Print Assumptions C07_src_abort_frame.
Print Assumptions C07_src_rs_readinto.
