From CV Require Import Model.Pdo.
