(* C05 - PDO variables occupy exactly their mapped bits.
   Statements only; proofs in Proofs/Pdo_proofs.v.  Model: Model/Pdo.v (PdoMap.add_variable,
   _update_data_size, PdoVariable.get_data / set_data composed with Variable.raw), data type
   table Gen/Tables.v regenerated from /repo on every run.
   A frame is a list of bytes; the frame "as a number" is le_decode frame, whose bit i is bit
   (i mod 8) of byte (i / 8) (Base.Bytes.le_decode_testbit): bit 0 of byte 0 first. *)
From Coq Require Import ZArith List Bool.
From CV Require Import Base.Val Base.Bytes Base.Bits Base.Tys Gen.Tables Gen.SrcC05 Model.Codec Model.Pdo
  Proofs.Codec_proofs Proofs.Pdo_proofs Proofs.Src_eq_pdo.
Import ListNotations.
Open Scope Z_scope.

(* Layout: offsets are the prefix sums of the mapped lengths, the fields are pairwise disjoint and
   lie inside the frame, and the frame has ceil(total/8) bytes. *)
Theorem C05_layout : forall es, Forall (fun e => 0 <= e_len e) es ->
  length (offsets es) = length es /\
  (forall k e off, nth_error es k = Some e -> nth_error (offsets es) k = Some off ->
     off = total_bits (firstn k es) /\ 0 <= off /\ off + e_len e <= total_bits es) /\
  (forall i j ei ej oi oj, (i < j)%nat -> nth_error es i = Some ei -> nth_error es j = Some ej ->
     nth_error (offsets es) i = Some oi -> nth_error (offsets es) j = Some oj -> oi + e_len ei <= oj) /\
  8 * (frame_len es - 1) < total_bits es <= 8 * frame_len es.
Proof. exact layout_offsets. Qed.

(* Reading: the value is exactly the bit field [off, off+len) of the frame, sign-extended from
   the mapped length for signed types.  entry_is says what may be mapped: an integer object with
   its own length (or a sub-byte length for the 8-bit types), BOOLEAN as one bit, REAL32/64. *)
Theorem C05_read_is_field : forall frame dt off len ft,
  bytes_ok frame -> entry_is dt len ft -> 0 <= off -> off + len <= 8 * zlen frame ->
  pdo_read frame dt off len = Ok (field_value ft len (get_field (le_decode frame) off len)).
Proof. exact pdo_read_spec. Qed.

(* Writing: the frame keeps its length and, bit by bit, the field takes the value's low bits while
   every other bit is unchanged. *)
Theorem C05_write_changes_exactly_the_field : forall frame dt off len ft v,
  bytes_ok frame -> entry_is dt len ft -> fits ft v -> 0 <= off -> off + len <= 8 * zlen frame ->
  exists frame', pdo_write frame dt off len (write_value ft v) = Ok frame' /\
    length frame' = length frame /\ bytes_ok frame' /\
    forall i, 0 <= i ->
      Z.testbit (nth (Z.to_nat (i / 8)) frame' 0) (i mod 8) =
      if (off <=? i) && (i <? off + len) then Z.testbit v (i - off)
      else Z.testbit (nth (Z.to_nat (i / 8)) frame 0) (i mod 8).
Proof. exact pdo_write_bits. Qed.

Theorem C05_write_as_number : forall frame dt off len ft v,
  bytes_ok frame -> entry_is dt len ft -> fits ft v -> 0 <= off -> off + len <= 8 * zlen frame ->
  exists frame', pdo_write frame dt off len (write_value ft v) = Ok frame' /\
                 zlen frame' = zlen frame /\ bytes_ok frame' /\
                 le_decode frame' = set_field (le_decode frame) off len v.
Proof. exact pdo_write_spec. Qed.

(* A value outside the object's range is refused (no new frame exists). *)
Theorem C05_write_rejects_out_of_range : forall frame dt off len s w p v,
  zassoc dt STRUCT_TYPES = Some p -> int_packer p = Some (s, w) -> in_range s w v = false ->
  pdo_write frame dt off len (PInt v) = Err E_VALUE.
Proof. exact pdo_write_rejects. Qed.

(* Consequences: read-after-write and non-interference. *)
Theorem C05_read_after_write : forall frame dt off len ft v,
  bytes_ok frame -> entry_is dt len ft -> fits ft v -> 0 <= off -> off + len <= 8 * zlen frame ->
  exists frame', pdo_write frame dt off len (write_value ft v) = Ok frame' /\
    pdo_read frame' dt off len = Ok (field_value ft len (v mod 2 ^ len)).
Proof. exact pdo_read_after_write. Qed.

Theorem C05_full_length_value_unchanged : forall ft dt w v, entry_is dt w ft -> fits ft v ->
  match ft with FInt _ w' => w = w' | _ => True end ->
  field_value ft w (v mod 2 ^ w) = write_value ft v.
Proof. exact full_field_value. Qed.

Theorem C05_write_preserves_neighbours : forall frame dt off len ft v dt2 off2 len2 ft2,
  bytes_ok frame -> entry_is dt len ft -> fits ft v -> 0 <= off -> off + len <= 8 * zlen frame ->
  entry_is dt2 len2 ft2 -> 0 <= off2 -> off2 + len2 <= 8 * zlen frame ->
  off2 + len2 <= off \/ off + len <= off2 ->
  exists frame', pdo_write frame dt off len (write_value ft v) = Ok frame' /\
    pdo_read frame' dt2 off2 len2 = pdo_read frame dt2 off2 len2.
Proof. exact pdo_write_preserves_other. Qed.

(* Tie to the source text: PdoVariable.get_data / set_data as translated from the CURRENT source by
   tools/py2coq.py (Gen/SrcC05.v, regenerated on every run) are the model functions the theorems above are about
   (a mapped field has at least one bit). *)
Theorem C05_source_get_data_is_model : forall frame dt off len, 0 <= off -> 1 <= len ->
  src_pdo_get_data frame (is_signed dt) (od_size dt) off len = pdo_get_data frame dt off len.
Proof. exact src_pdo_get_data_eq. Qed.

Theorem C05_source_set_data_is_model : forall frame off len data, 0 <= off -> 0 <= len ->
  src_pdo_set_data frame off len data = pdo_set_data frame off len data.
Proof. exact src_pdo_set_data_eq. Qed.

(* ---- non-vacuity ---- *)
(* [BOOLEAN:1, INTEGER16:16, INTEGER8:4] : an unaligned signed 16-bit field and a signed nibble *)
Example C05_nv_layout :
  let es := [{| e_dt := 1; e_len := 1 |}; {| e_dt := 3; e_len := 16 |}; {| e_dt := 2; e_len := 4 |}] in
  offsets es = [0; 1; 17] /\ frame_len es = 3 /\
  entry_is 3 16 (FInt true 16) /\ entry_is 2 4 (FInt true 8) /\ entry_is 1 1 FBool /\ entry_is 8 32 (FReal 32) /\
  fits (FInt true 16) (-32768) /\
  pdo_read [255; 255; 255] 3 1 16 = Ok (PInt (-1)) /\
  pdo_read [0; 0; 16] 2 17 4 = Ok (PInt (-8)) /\
  pdo_write [0; 0; 0] 3 1 16 (PInt (-32768)) = Ok [0; 0; 1].
Proof.
  cbn zeta. repeat split; try (vm_compute; reflexivity).
  - exists (PStruct true 16). vm_compute. auto.
  - exists (PStruct true 8). vm_compute. split; [reflexivity|]. split; [reflexivity|]. right. repeat split; discriminate.
Qed.

Print Assumptions C05_layout.
Print Assumptions C05_read_is_field.
Print Assumptions C05_write_changes_exactly_the_field.
Print Assumptions C05_write_as_number.
Print Assumptions C05_write_rejects_out_of_range.
Print Assumptions C05_read_after_write.
Print Assumptions C05_full_length_value_unchanged.
Print Assumptions C05_write_preserves_neighbours.
Print Assumptions C05_source_get_data_is_model.
Print Assumptions C05_source_set_data_is_model.
