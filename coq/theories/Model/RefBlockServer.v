(* Reference peers for SDO block transfer, written from CiA 301 (7.2.4.3.9 .. 7.2.4.3.16),
   NOT from the library: a block-download server and a block-upload server, and a fault
   injector (lost / corrupted / replaced / duplicated frames) that wraps either of them.
   Python twins: harness/ref/block_server.py.  Definitions only.

   A server is a function  S -> lost:bool -> frame -> S * list frame .  [lost = true] means the
   client frame did not reach the server; the servers use it only to model their own time-out
   (a sub-block whose last segment is lost is ended by the server's time-out, which is shorter
   than the client's).  *)
From Coq Require Import ZArith List Bool.
From CV Require Import Base.Val Base.Bytes Model.Crc.
Import ListNotations.
Open Scope Z_scope.

Definition frame := list Z.
Definition pad8 (l : list Z) : list Z := l ++ repeat 0 (8 - length l).
Definition fb (fr : frame) (i : nat) : Z := nth i fr 0.
Definition abort_frame (mux : list Z) (code : Z) : frame := 128 :: mux ++ le_encode 4 code.

(* ---- deterministic payloads shared with the harness: zeros ++ LCG bytes ++ literal ---- *)
Fixpoint gen_bytes (n : nat) (x : Z) : list Z :=
  match n with
  | O => []
  | S n' => let x' := (x * 1103515245 + 12345) mod 2147483648 in (x' / 65536) mod 256 :: gen_bytes n' x'
  end.

Definition payload_of (zeros seed n : Z) (lit : list Z) : list Z :=
  repeat 0 (Z.to_nat zeros) ++ gen_bytes (Z.to_nat n) seed ++ lit.

(* ---- 61-bit multiplicative hash of a frame trace (long traces are compared through it);
        the multiplier is odd, so h -> h * m + c is a bijection modulo 2^61: two traces of equal
        shape that differ in one byte always hash differently ---- *)
Definition hmask : Z := 2305843009213693951.   (* 2^61 - 1 *)
Definition hash_frame (h : Z) (fr : frame) : Z :=
  fold_left (fun h b => Z.land (h * 1000003 + b + 1) hmask) fr (Z.land (h * 1000003 + zlen fr + 257) hmask).
Definition hash_log (log : list frame) : Z := fold_left hash_frame log 7.

(* block sizes the server will announce, one per sub-block; the last one is repeated *)
Definition next_blk (l : list Z) : Z * list Z :=
  match l with
  | a :: (_ :: _) as r => (a, r)
  | [a] => (a, [a])
  | [] => (127, [])
  end.

(* =====================================================================================
   Block download server
   ===================================================================================== *)
Record dsrv := mkds {
  ds_state : Z;              (* 0 idle, 1 receiving a sub-block, 2 waiting for the end request *)
  ds_blks : list Z;          (* block sizes still to announce *)
  ds_crc_en : bool;          (* the server is able to check a CRC *)
  ds_cc : bool;              (* CRC in force: client cc and server sc *)
  ds_sizeind : bool;
  ds_size : Z;
  ds_mux : list Z;
  ds_blksize : Z;
  ds_ackseq : Z;             (* last segment of this sub-block received in sequence *)
  ds_buf : list Z;           (* data of those segments *)
  ds_committed : list Z;     (* data of all acknowledged sub-blocks *)
  ds_lastflag : bool;
  ds_lost : bool;            (* a segment of this sub-block was missed *)
  ds_store : option (list Z);(* the object's value after a successful transfer *)
  ds_bad : Z;                (* 0 = no protocol violation by the client seen so far *)
  ds_aborted : bool }.

Definition ds_init (blks : list Z) (crc_en : bool) : dsrv :=
  mkds 0 blks crc_en false false 0 [] 0 0 [] [] false false None 0 false.

Definition bad1 (old code : Z) : Z := if old =? 0 then code else old.

(* protocol violation codes *)
Definition BAD_LEN : Z := 1.        (* frame is not 8 bytes *)
Definition BAD_UNEXPECTED : Z := 2. (* request not allowed in this state *)
Definition BAD_SEQ : Z := 3.        (* segment out of sequence although nothing was lost *)
Definition BAD_CRC : Z := 4.
Definition BAD_SIZE : Z := 5.
Definition BAD_BLKSIZE : Z := 6.
Definition BAD_ACK : Z := 7.        (* upload: acknowledged more segments than were sent *)

Definition ds_set_state_bad (s : dsrv) (st bad : Z) (ab : bool) : dsrv :=
  mkds st (ds_blks s) (ds_crc_en s) (ds_cc s) (ds_sizeind s) (ds_size s) (ds_mux s) (ds_blksize s)
       (ds_ackseq s) (ds_buf s) (ds_committed s) (ds_lastflag s) (ds_lost s) (ds_store s) bad ab.

Definition ds_segment (s : dsrv) (lost : bool) (d : frame) : dsrv * list frame :=
  let d0 := fb d 0 in
  let seq := Z.land d0 127 in
  let last := Z.testbit d0 7 in
  let accept := negb lost && (seq =? ds_ackseq s + 1) && negb (ds_lost s) in
  (* 1. take the segment or note the gap *)
  let ackseq1 := if accept then seq else ds_ackseq s in
  let buf1 := if accept then ds_buf s ++ firstn 7 (skipn 1 d) else ds_buf s in
  let lastflag1 := if accept then last else ds_lastflag s in
  let lost1 := if accept then ds_lost s else true in
  let bad1' := if accept || lost || ds_lost s then ds_bad s else bad1 (ds_bad s) BAD_SEQ in
  (* 2. end of the sub-block: all announced segments are through, or the last one was *)
  if (seq =? ds_blksize s) || last then
    let to_end := lastflag1 && (ackseq1 =? seq) in
    let '(nb, blks') := next_blk (ds_blks s) in
    (mkds (if to_end then 2 else 1) blks' (ds_crc_en s) (ds_cc s) (ds_sizeind s) (ds_size s) (ds_mux s) nb
          0 [] (ds_committed s ++ buf1) to_end false (ds_store s) bad1' (ds_aborted s),
     [[162; ackseq1; nb; 0; 0; 0; 0; 0]])
  else
    (mkds 1 (ds_blks s) (ds_crc_en s) (ds_cc s) (ds_sizeind s) (ds_size s) (ds_mux s) (ds_blksize s)
          ackseq1 buf1 (ds_committed s) lastflag1 lost1 (ds_store s) bad1' (ds_aborted s), []).

Definition dl_srv (s : dsrv) (lost : bool) (d : frame) : dsrv * list frame :=
  if negb (length d =? 8)%nat then
    (if lost then s else ds_set_state_bad s (ds_state s) (bad1 (ds_bad s) BAD_LEN) (ds_aborted s), [])
  else
  let d0 := fb d 0 in
  if ds_state s =? 1 then
    if d0 =? 128 then (if lost then s else ds_set_state_bad s 0 (ds_bad s) true, [])   (* abort *)
    else ds_segment s lost d
  else if lost then (s, [])
  else if d0 =? 128 then (ds_set_state_bad s 0 (ds_bad s) true, [])
  else if (Z.land d0 225 =? 192) && (ds_state s =? 0) then
    (* initiate block download: ccs=6, cs=0; bit 2 = cc, bit 1 = s *)
    let '(nb, blks') := next_blk (ds_blks s) in
    let mux := firstn 3 (skipn 1 d) in
    (mkds 1 blks' (ds_crc_en s) (Z.testbit d0 2 && ds_crc_en s) (Z.testbit d0 1) (le_decode (skipn 4 d)) mux nb
          0 [] [] false false (ds_store s) (ds_bad s) (ds_aborted s),
     [(160 + (if ds_crc_en s then 4 else 0)) :: mux ++ [nb; 0; 0; 0]])
  else if (Z.land d0 227 =? 193) && (ds_state s =? 2) then
    (* end block download: ccs=6, cs=1; bits 4..2 = n; bytes 1..2 = CRC *)
    let n := Z.land (Z.shiftr d0 2) 7 in
    let data := firstn (length (ds_committed s) - Z.to_nat n) (ds_committed s) in
    let crc := fb d 1 + 256 * fb d 2 in
    if ds_cc s && negb (crc =? crc16 data) then
      (ds_set_state_bad s 0 (bad1 (ds_bad s) BAD_CRC) (ds_aborted s), [abort_frame (ds_mux s) 84148228])
    else if ds_sizeind s && negb (zlen data =? ds_size s) then
      (ds_set_state_bad s 0 (bad1 (ds_bad s) BAD_SIZE) (ds_aborted s), [abort_frame (ds_mux s) 101122064])
    else
      (mkds 0 (ds_blks s) (ds_crc_en s) (ds_cc s) (ds_sizeind s) (ds_size s) (ds_mux s) (ds_blksize s)
            (ds_ackseq s) (ds_buf s) (ds_committed s) (ds_lastflag s) (ds_lost s) (Some data) (ds_bad s)
            (ds_aborted s),
       [[161; 0; 0; 0; 0; 0; 0; 0]])
  else
    (ds_set_state_bad s 0 (bad1 (ds_bad s) BAD_UNEXPECTED) (ds_aborted s), [abort_frame (firstn 3 (skipn 1 d)) 84148225]).

(* =====================================================================================
   Block upload server
   ===================================================================================== *)
Record usrv := mkus {
  us_state : Z;              (* 0 idle, 1 initiated, 2 sending sub-blocks, 3 end sent *)
  us_value : list Z;
  us_crc_en : bool;
  us_cc : bool;
  us_blksize : Z;
  us_start : Z;              (* offset of the first byte of the current sub-block *)
  us_sent : Z;               (* segments sent in the current sub-block *)
  us_acks_exact : bool;      (* every acknowledge so far confirmed exactly the segments sent *)
  us_ended : bool;           (* the client closed the transfer with the end response *)
  us_bad : Z;
  us_aborted : bool;
  us_sizeind : bool }.       (* the server announces the size in the initiate response (s bit); it need not *)

Definition us_init (value : list Z) (crc_en sizeind : bool) : usrv :=
  mkus 0 value crc_en false 0 0 0 true false 0 false sizeind.

(* the segments of one sub-block starting at byte offset [off]: at most [k] of them *)
Fixpoint us_segments (k : nat) (seq : Z) (rest : list Z) : list frame :=
  match k with
  | O => []
  | S k' =>
      match rest with
      | [] => []
      | _ =>
          let chunk := firstn 7 rest in
          let more := skipn 7 rest in
          match more with
          | [] => [pad8 ((seq + 128) :: chunk)]
          | _ => pad8 (seq :: chunk) :: us_segments k' (seq + 1) more
          end
      end
  end.

Definition us_set (s : usrv) (st : Z) (bad : Z) (ab ended : bool) : usrv :=
  mkus st (us_value s) (us_crc_en s) (us_cc s) (us_blksize s) (us_start s) (us_sent s) (us_acks_exact s)
       ended bad ab (us_sizeind s).

Definition us_send_block (s : usrv) (st blksize start : Z) (exact : bool) (bad : Z) : usrv * list frame :=
  let segs := us_segments (Z.to_nat blksize) 1 (skipn (Z.to_nat start) (us_value s)) in
  (mkus st (us_value s) (us_crc_en s) (us_cc s) blksize start (zlen segs) exact (us_ended s) bad (us_aborted s)
         (us_sizeind s),
   segs).

Definition ul_srv (s : usrv) (lost : bool) (d : frame) : usrv * list frame :=
  if lost then (s, []) else
  if negb (length d =? 8)%nat then (us_set s (us_state s) (bad1 (us_bad s) BAD_LEN) (us_aborted s) (us_ended s), [])
  else
  let d0 := fb d 0 in
  if d0 =? 128 then (us_set s 0 (us_bad s) true (us_ended s), [])
  else if negb (Z.land d0 224 =? 160) then
    (us_set s 0 (bad1 (us_bad s) BAD_UNEXPECTED) (us_aborted s) (us_ended s), [abort_frame (firstn 3 (skipn 1 d)) 84148225])
  else
  let sub := Z.land d0 3 in
  if (sub =? 0) && (us_state s =? 0) then
    (* initiate block upload: ccs=5, cs=0; bit 2 = cc; byte 4 = blksize *)
    let blksize := fb d 4 in
    let okb := (1 <=? blksize) && (blksize <=? 127) in
    let mux := firstn 3 (skipn 1 d) in
    (mkus 1 (us_value s) (us_crc_en s) (Z.testbit d0 2 && us_crc_en s) blksize 0 0 true false
          (if okb then us_bad s else bad1 (us_bad s) BAD_BLKSIZE) (us_aborted s) (us_sizeind s),
     [(192 + (if us_sizeind s then 2 else 0) + (if us_crc_en s then 4 else 0)) :: mux ++
      (if us_sizeind s then le_encode 4 (zlen (us_value s)) else [0; 0; 0; 0])])
  else if (sub =? 3) && (us_state s =? 1) then
    us_send_block s 2 (us_blksize s) 0 (us_acks_exact s) (us_bad s)
  else if (sub =? 2) && (us_state s =? 2) then
    (* block upload response: byte 1 = ackseq, byte 2 = next blksize *)
    let ackseq := fb d 1 in
    let blksize := fb d 2 in
    let bad := if us_sent s <? ackseq then bad1 (us_bad s) BAD_ACK
               else if (1 <=? blksize) && (blksize <=? 127) then us_bad s else bad1 (us_bad s) BAD_BLKSIZE in
    let exact := us_acks_exact s && (ackseq =? us_sent s) in
    let pos := us_start s + 7 * ackseq in
    if zlen (us_value s) <=? pos then
      let n := (7 - zlen (us_value s) mod 7) mod 7 in
      let crc := if us_cc s then crc16 (us_value s) else 0 in
      (mkus 3 (us_value s) (us_crc_en s) (us_cc s) blksize pos 0 exact (us_ended s) bad (us_aborted s) (us_sizeind s),
       [[193 + 4 * n; crc mod 256; crc / 256; 0; 0; 0; 0; 0]])
    else us_send_block s 2 blksize pos exact bad
  else if (sub =? 1) && (us_state s =? 3) then
    (us_set s 0 (us_bad s) (us_aborted s) true, [])
  else
    (us_set s 0 (bad1 (us_bad s) BAD_UNEXPECTED) (us_aborted s) (us_ended s), [abort_frame (firstn 3 (skipn 1 d)) 84148225]).

(* =====================================================================================
   Fault injector
   ===================================================================================== *)
Inductive fault :=
| FDropC (k : Z)                 (* the k-th frame sent by the client (1 = initiate) is lost *)
| FDropS (j : Z)                 (* the j-th frame sent by the server is lost *)
| FXorS (j byte mask : Z)        (* the j-th server frame arrives with byte [byte] xor-ed with [mask] *)
| FAbortS (j code : Z)           (* the j-th server frame is replaced by an abort with [code] *)
| FDupS (j : Z).                 (* the j-th server frame arrives twice *)

Definition lostb (faults : list fault) (k : Z) : bool :=
  existsb (fun f => match f with FDropC k' => k' =? k | _ => false end) faults.

Fixpoint xor_at (fr : frame) (i : nat) (mask : Z) : frame :=
  match fr, i with
  | [], _ => []
  | b :: r, O => Z.lxor b mask :: r
  | b :: r, S i' => b :: xor_at r i' mask
  end.

(* what becomes of the j-th server frame *)
Fixpoint mangle1 (faults : list fault) (j : Z) (frs : list frame) : list frame :=
  match faults with
  | [] => frs
  | f :: r =>
      let frs' :=
        match f with
        | FDropS j' => if j' =? j then [] else frs
        | FXorS j' byte mask => if j' =? j then map (fun fr => xor_at fr (Z.to_nat byte) mask) frs else frs
        | FAbortS j' code => if j' =? j then map (fun fr => abort_frame (firstn 3 (skipn 1 fr)) code) frs else frs
        | FDupS j' => if j' =? j then frs ++ frs else frs
        | FDropC _ => frs
        end in
      mangle1 r j frs'
  end.

Fixpoint mangle (faults : list fault) (ns : Z) (outs : list frame) : list frame :=
  match outs with
  | [] => []
  | fr :: r => mangle1 faults (ns + 1) [fr] ++ mangle faults (ns + 1) r
  end.

Record fstate (S : Type) := mkfs { f_inner : S; f_nc : Z; f_ns : Z; f_faults : list fault }.
Arguments mkfs {S}. Arguments f_inner {S}. Arguments f_nc {S}. Arguments f_ns {S}. Arguments f_faults {S}.

Definition faulty {S : Type} (srv : S -> bool -> frame -> S * list frame)
           (fs : fstate S) (fr : frame) : fstate S * list frame :=
  let nc := f_nc fs + 1 in
  let '(s', outs) := srv (f_inner fs) (lostb (f_faults fs) nc) fr in
  (mkfs s' nc (f_ns fs + zlen outs) (f_faults fs), mangle (f_faults fs) (f_ns fs) outs).

Definition fs_init {S : Type} (s : S) (faults : list fault) : fstate S := mkfs s 0 0 faults.
