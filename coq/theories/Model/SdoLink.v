(* C03: the COMPOSITION of the library's SDO client model (Model/SdoClient.v, generic in its peer)
   with the library's SDO server model (Model/SdoServer.v: SdoServer.on_request + LocalNode) and the
   typed layer on top of both:
     canopen/variable.py   variable.raw (class of variable.py) getter / setter  (decode_raw / encode_raw of Model/Codec.v)
     canopen/sdo/base.py   SdoBase.__getitem__, SdoRecord.__getitem__, Sdovariable.get_data / set_data
     canopen/objectdictionary   ObjectDictionary.__getitem__ (index, name, "Record.Member"),
                                ODRecord.__getitem__, ObjectDictionary.get_variable
     canopen/sdo/server.py SdoServer.upload / download (the local accessor: LocalNode.get_data / set_data)
     canopen/network.py    Network.notify / subscribe (dispatch by CAN id), for channel isolation.
   Definitions only. *)
From Coq Require Import ZArith List Bool.
From CV Require Import Base.Val Base.Bytes Base.Tys Gen.Tables Gen.SdoTables Model.Codec Model.SdoClient Model.SdoServer.
Import ListNotations.
Open Scope Z_scope.

(* ---- the server as the client's peer: responses passed to send_response reach the client's queue ---- *)
Definition no_rcb (idx sub : Z) : option pyval := None.      (* no read callbacks registered *)
Definition srv_peer (d : dict) (st : sstate) (req : list Z) : sstate * list (list Z) :=
  let '(st', resps, _) := on_request d no_rcb st req in (st', resps).

Definition lworld := @world sstate.

(* ---- object dictionary with names (what the accessors are looked up in) ---- *)
(* an ODvariable carries its own index / subindex attributes; Sdovariable uses THOSE *)
Record nvar := { nv_name : list Z; nv_index : Z; nv_sub : Z; nv_var : var }.
Inductive nobj :=
| NVar (v : nvar)
| NRec (name : list Z) (members : list nvar).
Definition ndict := list (Z * nobj).          (* ObjectDictionary.indices, in insertion order *)

Definition nobj_name (o : nobj) : list Z := match o with NVar v => nv_name v | NRec n _ => n end.

(* the server's view (LocalNode._find_object works on indices / subindices) *)
Definition to_dict (nd : ndict) : dict :=
  map (fun '(i, o) => (i, match o with
                          | NVar v => OVar (nv_var v)
                          | NRec _ ms => ORec (map (fun m => (nv_sub m, nv_var m)) ms)
                          end)) nd.

Fixpoint by_name (n : list Z) (nd : ndict) : option nobj :=
  match nd with
  | [] => None
  | (_, o) :: r => if list_Z_eqb (nobj_name o) n then Some o else by_name n r
  end.
Fixpoint member_by_name (n : list Z) (ms : list nvar) : option nvar :=
  match ms with [] => None | m :: r => if list_Z_eqb (nv_name m) n then Some m else member_by_name n r end.
Fixpoint member_by_sub (s : Z) (ms : list nvar) : option nvar :=
  match ms with [] => None | m :: r => if nv_sub m =? s then Some m else member_by_sub s r end.

(* str.split('.', maxsplit=1) *)
Fixpoint split_dot (s : list Z) : option (list Z * list Z) :=
  match s with
  | [] => None
  | c :: r => if c =? 46 then Some ([], r)
              else match split_dot r with Some (a, b) => Some (c :: a, b) | None => None end
  end.

(* how the caller spells the entry *)
Inductive access :=
| AIndex (i : Z)                 (* sdo[0x2004] *)
| AName (n : list Z)             (* sdo["var4"], sdo["Rec.m4"] *)
| ARec (i : Z) (s : Z).          (* sdo[0x3000][5] *)

(* SdoBase.__getitem__ / SdoRecord.__getitem__ down to the ODvariable; KeyError = Err E_KEY;
   a record where a variable is expected has no .raw: AttributeError *)
Definition resolve (nd : ndict) (a : access) : res nvar :=
  match a with
  | AIndex i => match zassoc i nd with
                | Some (NVar v) => Ok v
                | Some (NRec _ _) => Err E_ATTR
                | None => Err E_KEY
                end
  | AName n => match by_name n nd with
               | Some (NVar v) => Ok v
               | Some (NRec _ _) => Err E_ATTR
               | None =>
                   match split_dot n with
                   | Some (a, b) =>
                       match by_name a nd with
                       | Some (NRec _ ms) => match member_by_name b ms with Some m => Ok m | None => Err E_KEY end
                       | Some (NVar _) => Err E_TYPE
                       | None => Err E_KEY
                       end
                   | None => Err E_KEY
                   end
               end
  | ARec i s => match zassoc i nd with
                | Some (NRec _ ms) => match member_by_sub s ms with Some m => Ok m | None => Err E_KEY end
                | Some (NVar _) => Err E_TYPE
                | None => Err E_KEY
                end
  end.

(* ObjectDictionary.get_variable(index, subindex), as used by SdoClient.upload: the data type *)
Definition od_type (nd : ndict) (idx sub : Z) : option Z :=
  match zassoc idx nd with
  | Some (NVar v) => v_dt (nv_var v)
  | Some (NRec _ ms) => match member_by_sub sub ms with Some m => v_dt (nv_var m) | None => None end
  | None => None
  end.

Section Link.
  Context (nd : ndict).
  Let peer := srv_peer (to_dict nd).

  (* remote.sdo[...].raw = value:  Sdovariable.set_data(od.encode_raw(value)) -> SdoClient.download;
     sched = what io.BufferedWriter(7) offers to the raw stream *)
  Definition remote_set (w : lworld) (a : access) (value : pyval) (sched : list Z) : lworld * res unit :=
    match resolve nd a with
    | Ok v =>
        match encode_raw (v_dt (nv_var v)) value with
        | Ok data =>
            let force := match v_dt (nv_var v) with Some t => t =? dt_DOMAIN | None => false end in
            sdo_download peer w (nv_index v) (nv_sub v) data force sched
        | Err k => (w, Err k)
        | Abort c => (w, Abort c)
        end
    | Err k => (w, Err k)
    | Abort c => (w, Abort c)
    end.

  (* remote.sdo[...].raw:  od.decode_raw(SdoClient.upload(index, subindex)) *)
  Definition remote_get (w : lworld) (a : access) : lworld * res pyval :=
    match resolve nd a with
    | Ok v =>
        let '(w1, r) := sdo_upload peer FUEL w (nv_index v) (nv_sub v) (od_type nd (nv_index v) (nv_sub v)) in
        (w1, rbind r (decode_raw (v_dt (nv_var v))))
    | Err k => (w, Err k)
    | Abort c => (w, Abort c)
    end.

  (* local.sdo[...].raw:  od.decode_raw(SdoServer.upload(...)) = LocalNode.get_data(index, subindex) *)
  Definition local_get (w : lworld) (a : access) : lworld * res pyval :=
    match resolve nd a with
    | Ok v =>
        let '(st1, r) := get_data (to_dict nd) no_rcb (w_s w) (nv_index v) (nv_sub v) false in
        ({| w_s := st1; w_q := w_q w; w_log := w_log w |}, rbind r (decode_raw (v_dt (nv_var v))))
    | Err k => (w, Err k)
    | Abort c => (w, Abort c)
    end.

  (* one item of the round trip: write, read back remotely, read back locally, look at data_store *)
  Definition roundtrip (w : lworld) (a : access) (value : pyval) (sched : list Z) : lworld * val :=
    let '(w1, r1) := remote_set w a value sched in
    match r1 with
    | Ok _ =>
        let '(w2, r2) := remote_get w1 a in
        match r2 with
        | Ok back =>
            let '(w3, r3) := local_get w2 a in
            match r3 with
            | Ok loc =>
                match resolve nd a with
                | Ok v =>
                    match store_get (s_store (w_s w3)) (nv_index v) (nv_sub v) with
                    | Some b => (w3, VL [pyval_val back; pyval_val loc; VB b])
                    | None => (w3, VErr E_KEY)
                    end
                | Err k => (w3, VErr k)
                | Abort c => (w3, VAbort c)
                end
            | Err k => (w3, VErr k)
            | Abort c => (w3, VAbort c)
            end
        | Err k => (w2, VErr k)
        | Abort c => (w2, VAbort c)
        end
    | Err k => (w1, VErr k)
    | Abort c => (w1, VAbort c)
    end.
End Link.

(* ---- Network.subscribe / notify: every frame goes to the callbacks subscribed to its CAN id ---- *)
(* a client's response queue receives on_response for the frames on its tx COB-ID only *)
Definition delivered (cob : Z) (trace : list (Z * list Z)) : list (list Z) :=
  map snd (filter (fun cf => fst cf =? cob) trace).

(* one Network with several clients (node id n: rx 0x600 + n, tx 0x580 + n): the bus trace is fed to
   notify frame by frame; queues : list (cob * queue) *)
Fixpoint notify_all (subs : list Z) (queues : list (Z * list (list Z))) (trace : list (Z * list Z))
    : list (Z * list (list Z)) :=
  match trace with
  | [] => queues
  | (cid, fr) :: r =>
      notify_all subs (map (fun '(c, q) => if (c =? cid) && zmem c subs then (c, q ++ [fr]) else (c, q)) queues) r
  end.

(* ---- runner for the correspondence check (inline delivery) ---- *)
Record link_item := { li_acc : access; li_val : pyval; li_sched : list Z }.
Record sdolink_case := { lc_dict : ndict; lc_node : Z; lc_trace : bool; lc_items : list link_item }.

Fixpoint run_items (nd : ndict) (w : lworld) (items : list link_item) : lworld * list val :=
  match items with
  | [] => (w, [])
  | i :: r => let '(w1, v) := roundtrip nd w (li_acc i) (li_val i) (li_sched i) in
              let '(w2, vs) := run_items nd w1 r in (w2, v :: vs)
  end.

Definition trace_val (node : Z) (log : list (list Z)) : val :=
  VL (map (fun e => match e with
                    | t :: fr => VL [VZ (if t =? 0 then 1536 + node else 1408 + node); VB fr]
                    | [] => VNone
                    end) (rev log)).

Definition run_sdolink (c : sdolink_case) : val :=
  let w0 : lworld := {| w_s := fresh_state []; w_q := []; w_log := [] |} in
  let '(w, vs) := run_items (lc_dict c) w0 (lc_items c) in
  VL (if lc_trace c then vs ++ [trace_val (lc_node c) (w_log w)] else vs).

(* ---- specification vocabulary ---- *)
(* a rw variable of data type dt registered (and attributed) at idx:sub, directly or as a record member *)
Definition rw_var (dt : Z) : var := mkVar (Some dt) [114; 119] None None.
Definition holds_var (nd : ndict) (idx sub dt : Z) (name : list Z) : Prop :=
  (sub = 0 /\ zassoc idx nd = Some (NVar {| nv_name := name; nv_index := idx; nv_sub := 0; nv_var := rw_var dt |})) \/
  (exists rname ms, zassoc idx nd = Some (NRec rname ms) /\
     member_by_sub sub ms = Some {| nv_name := name; nv_index := idx; nv_sub := sub; nv_var := rw_var dt |}).

(* the server finds a readable and writable variable v at idx:sub *)
Definition entry_rw (d : dict) (idx sub : Z) (v : var) : Prop :=
  find_object d idx sub = Ok v /\ writable v = true /\ readable v = true.

(* the spelling a resolves to a rw variable of type dt whose own index / subindex attributes are idx:sub,
   which is where the dictionary registers it (server's _find_object, client's get_variable) *)
Definition registered (nd : ndict) (a : access) (idx sub dt : Z) : Prop :=
  (exists name, resolve nd a = Ok {| nv_name := name; nv_index := idx; nv_sub := sub; nv_var := rw_var dt |}) /\
  entry_rw (to_dict nd) idx sub (rw_var dt) /\ od_type nd idx sub = Some dt.

(* SdoClient.upload does not cut the data: the entry's declared size (STRUCT_TYPES) is not below its length *)
Definition trunc_ok (odt : option Z) (data : list Z) : Prop :=
  match odt with
  | Some t => match od_var_size t with Some vs => zlen data <= vs | None => True end
  | None => True
  end.

(* a small dictionary for the non-vacuity examples: INTEGER32 "v4", DOMAIN "d", record "R" with an
   INTEGER64 member "m" at sub-index 3 *)
Definition nv_dict : ndict :=
  [(8196, NVar {| nv_name := [118; 52]; nv_index := 8196; nv_sub := 0; nv_var := rw_var 4 |});
   (8207, NVar {| nv_name := [100]; nv_index := 8207; nv_sub := 0; nv_var := rw_var 15 |});
   (12288, NRec [82] [ {| nv_name := [110]; nv_index := 12288; nv_sub := 0; nv_var := rw_var 5 |};
                       {| nv_name := [109]; nv_index := 12288; nv_sub := 3; nv_var := rw_var 21 |} ])].
