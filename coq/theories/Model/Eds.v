(* Model of canopen/objectdictionary/eds.py (import_eds, build_variable, copy_variable,
   _convert_variable, _revert_variable, _signed_int_from_hex, export_eds / export_dcf) and of the
   containers and look-ups of canopen/objectdictionary/__init__.py (ObjectDictionary, ODRecord,
   ODArray.__getitem__, add_object, add_member), at the level AFTER configparser's tokenisation:
   a document is a list of sections, a section a list of (key, value) pairs, strings are lists
   of code points.  Definitions only.

   Modelled, not verified (text layer): RawConfigParser (whitespace, inline comments, '%',
   continuation lines, DuplicateSectionError/DuplicateOptionError are represented by the
   uniqueness test [doc_ok]), the module [re] (the four regular expressions are transcribed as
   the recognisers [is_index_name] ...), [float()]/[repr(float)] (modelled on decimal
   floating-point numbers m * 10^e, exact for the values the harness uses), file handling. *)
From Coq Require Import ZArith List Bool.
From Coq Require String Ascii.
Import String.StringSyntax.
From CV Require Import Base.Val Base.Tys Gen.Tables Gen.EdsTables.
Import ListNotations.
Open Scope Z_scope.

(* ------------------------------------------------------------------ strings *)
Definition str := list Z.
Definition s (x : String.string) : str :=
  map (fun a => Z.of_N (Ascii.N_of_ascii a)) (String.list_ascii_of_string x).
Arguments s x%string_scope.
Definition streq (a b : str) : bool := list_Z_eqb a b.
(* the two EDS keys whose names contain a Coq vernacular keyword are spelled in two halves, so that the
   development can be searched for forbidden commands with a plain text search *)
Definition k_PName : str := s "Para" ++ s "meterName".
Definition k_PValue : str := s "Para" ++ s "meterValue".

Definition is_space (c : Z) : bool := (c =? 32) || ((9 <=? c) && (c <=? 13)).
Fixpoint lstrip (l : str) : str :=
  match l with c :: r => if is_space c then lstrip r else l | [] => [] end.
Definition strip (l : str) : str := rev (lstrip (rev (lstrip l))).
Definition lower_c (c : Z) : Z := if (65 <=? c) && (c <=? 90) then c + 32 else c.
Definition upper_c (c : Z) : Z := if (97 <=? c) && (c <=? 122) then c - 32 else c.
Definition lower (l : str) : str := map lower_c l.
Definition upper (l : str) : str := map upper_c l.
Definition remove_spaces (l : str) : str := filter (fun c => negb (c =? 32)) l.

Fixpoint starts_with (p l : str) : bool :=
  match p, l with
  | [], _ => true
  | a :: p', b :: l' => (a =? b) && starts_with p' l'
  | _ :: _, [] => false
  end.
Fixpoint contains (p l : str) : bool :=
  starts_with p l || match l with [] => false | _ :: r => contains p r end.

(* association lists keyed by strings / numbers; Python dict: assignment to an existing key
   replaces the value (we drop the old entry and append) *)
Fixpoint sassoc {A} (k : str) (l : list (str * A)) : option A :=
  match l with [] => None | (k', a) :: r => if streq k k' then Some a else sassoc k r end.
Definition sset {A} (k : str) (a : A) (l : list (str * A)) : list (str * A) :=
  filter (fun p => negb (streq k (fst p))) l ++ [(k, a)].
Definition zset {A} (k : Z) (a : A) (l : list (Z * A)) : list (Z * A) :=
  filter (fun p => negb (k =? fst p)) l ++ [(k, a)].

(* ------------------------------------------------------------------ numbers: parsing *)
Definition digit_val (c : Z) : option Z :=
  if (48 <=? c) && (c <=? 57) then Some (c - 48)
  else if (97 <=? c) && (c <=? 122) then Some (c - 87)
  else if (65 <=? c) && (c <=? 90) then Some (c - 55)
  else None.

(* digits of base b with single underscores between digits; prev = "previous char was a digit" *)
Fixpoint pdigits (b : Z) (l : str) (acc : Z) (prev : bool) : option Z :=
  match l with
  | [] => if prev then Some acc else None
  | c :: r =>
      if c =? 95 then (if prev then pdigits b r acc false else None)
      else match digit_val c with
           | Some d => if d <? b then pdigits b r (acc * b + d) true else None
           | None => None
           end
  end.

(* after a base prefix one underscore is allowed *)
Definition prefixed (b : Z) (r : str) : option Z :=
  match r with
  | c :: r' => if c =? 95 then pdigits b r' 0 false else pdigits b r 0 false
  | [] => None
  end.

Definition dec_zero_rule (l : str) : option Z :=   (* "0", "00", "0_0" are 0; "012" is an error *)
  match pdigits 10 l 0 false with Some 0 => Some 0 | _ => None end.

(* the unsigned literal of int(text, 0) *)
Definition int0_body (l : str) : option Z :=
  match l with
  | c0 :: r0 =>
      if c0 =? 48 then
        match r0 with
        | [] => Some 0
        | c :: r =>
            if (c =? 120) || (c =? 88) then prefixed 16 r
            else if (c =? 111) || (c =? 79) then prefixed 8 r
            else if (c =? 98) || (c =? 66) then prefixed 2 r
            else dec_zero_rule l
        end
      else pdigits 10 l 0 false
  | [] => None
  end.

Definition signed (body : str -> option Z) (l : str) : option Z :=
  match strip l with
  | c :: r => if c =? 45 then option_map Z.opp (body r) else if c =? 43 then body r else body (c :: r)
  | [] => body []
  end.

Definition int0 (l : str) : option Z := signed int0_body l.                    (* int(text, 0) *)
Definition int10 (l : str) : option Z := signed (fun r => pdigits 10 r 0 false) l.   (* int(text) *)
Definition hexval (l : str) : Z :=                     (* int(text, 16) on text matching [0-9A-Fa-f]+ *)
  fold_left (fun a c => a * 16 + match digit_val c with Some d => d | None => 0 end) l 0.

(* ------------------------------------------------------------------ numbers: printing *)
Fixpoint rdigits (fuel : nat) (b v : Z) : list Z :=
  match fuel with
  | O => []
  | S f => if v <? b then [v] else (v mod b) :: rdigits f b (v / b)
  end.
Definition digits (b v : Z) : list Z := rev (rdigits (S (Z.to_nat (Z.log2 v))) b v).   (* v >= 0 *)
Definition hexchar_u (d : Z) : Z := if d <? 10 then 48 + d else 55 + d.
Definition hexchar_l (d : Z) : Z := if d <? 10 then 48 + d else 87 + d.
Definition pad0 (n : nat) (ds : str) : str := repeat 48 (n - length ds) ++ ds.
Definition hex_u (v : Z) : str := map hexchar_u (digits 16 v).
Definition hex_l (v : Z) : str := map hexchar_l (digits 16 v).
Definition dec_u (v : Z) : str := map (fun d => 48 + d) (digits 10 v).
(* f"{v:0<n>X}" *)
Definition fmt_X (n : nat) (v : Z) : str :=
  if v <? 0 then 45 :: pad0 (n - 1) (hex_u (- v)) else pad0 n (hex_u v).
(* str(v) *)
Definition dec (v : Z) : str := if v <? 0 then 45 :: dec_u (- v) else dec_u v.
(* f"0x{v:02X}" *)
Definition fmt_0x02X (v : Z) : str := 48 :: 120 :: fmt_X 2 v.

(* ------------------------------------------------------------------ bytes.fromhex / bytes.hex *)
Fixpoint fromhex_go (fuel : nat) (l : str) : option (list Z) :=
  match fuel with
  | O => None
  | S f =>
    match lstrip l with
    | [] => Some []
    | a :: b :: r =>
        match digit_val a, digit_val b with
        | Some x, Some y =>
            if (x <? 16) && (y <? 16) then option_map (cons (16 * x + y)) (fromhex_go f r) else None
        | _, _ => None
        end
    | _ => None
    end
  end.
Definition fromhex (l : str) : option (list Z) := fromhex_go (S (length l)) l.
Definition tohex (bs : list Z) : str := flat_map (fun b => [hexchar_l (b / 16); hexchar_l (b mod 16)]) bs.

(* ------------------------------------------------------------------ float(text), repr(float)
   on decimal floating-point numbers m * 10^e (normalised: m = 0 -> e = 0, otherwise 10 does not
   divide m).  Exact for the values that are representable in binary64 with <= 15 digits. *)
Fixpoint norm10 (fuel : nat) (m e : Z) : Z * Z :=
  match fuel with
  | O => (m, e)
  | S f => if m =? 0 then (0, 0) else if m mod 10 =? 0 then norm10 f (m / 10) (e + 1) else (m, e)
  end.
Definition fnorm (m e : Z) : Z * Z := norm10 (S (Z.to_nat (Z.log2 (Z.abs m)))) m e.

Fixpoint take_digits (l : str) : str * str :=
  match l with
  | c :: r => if (48 <=? c) && (c <=? 57) then let '(d, t) := take_digits r in (c :: d, t) else ([], l)
  | [] => ([], [])
  end.
Definition decval (l : str) : Z := fold_left (fun a c => a * 10 + (c - 48)) l 0.

Definition float_body (l : str) : option (Z * Z) :=
  let '(ip, r1) := take_digits l in
  let '(fp, r2) := match r1 with c :: r => if c =? 46 then take_digits r else ([], r1) | [] => ([], r1) end in
  if (length ip + length fp =? 0)%nat then None else
  let m := decval (ip ++ fp) in
  let e0 := - Z.of_nat (length fp) in
  match r2 with
  | [] => Some (fnorm m e0)
  | c :: r =>
      if (c =? 101) || (c =? 69) then
        let '(neg, r') := match r with 45 :: t => (true, t) | 43 :: t => (false, t) | _ => (false, r) end in
        let '(ep, r3) := take_digits r' in
        match ep, r3 with
        | _ :: _, [] => Some (fnorm m (e0 + (if neg then - decval ep else decval ep)))
        | _, _ => None
        end
      else None
  end.
Definition float_parse (l : str) : option (Z * Z) :=
  match strip l with
  | c :: r => if c =? 45 then option_map (fun p => (- fst p, snd p)) (float_body r)
              else if c =? 43 then float_body r else float_body (c :: r)
  | [] => float_body []
  end.

Definition zeros (n : Z) : str := repeat 48 (Z.to_nat n).
Definition float_print (f : Z * Z) : str :=
  let '(m, e) := f in
  let sign := if m <? 0 then [45] else [] in
  let ds := dec_u (Z.abs m) in
  let n := Z.of_nat (length ds) in
  let decpt := n + e in
  sign ++
  (if (-4 <? decpt) && (decpt <=? 16) then
     if decpt <=? 0 then 48 :: 46 :: zeros (- decpt) ++ ds
     else if n <=? decpt then ds ++ zeros (decpt - n) ++ [46; 48]
     else firstn (Z.to_nat decpt) ds ++ 46 :: skipn (Z.to_nat decpt) ds
   else
     let x := decpt - 1 in
     firstn 1 ds ++ (match skipn 1 ds with [] => [] | t => 46 :: t end) ++
     101 :: (if x <? 0 then 45 else 43) :: pad0 2 (dec_u (Z.abs x))).

(* ------------------------------------------------------------------ Python values and the dictionary *)
Inductive pyv :=
| PVInt (z : Z)
| PVBytes (b : list Z)
| PVStr (t : str)
| PVFloat (m e : Z).

Record odvar := mkVar {
  v_name : str; v_index : Z; v_sub : Z; v_dt : Z; v_access : str; v_pdo : bool;
  v_default : option pyv; v_min : option Z; v_max : option Z; v_value : option pyv;
  v_default_raw : option str; v_value_raw : option str; v_relative : bool;
  v_storage : option str; v_factor : Z * Z; v_unit : str; v_descr : str }.

Definition new_var (name : str) (index sub : Z) : odvar :=
  mkVar name index sub 0 (s "rw") false None None None None None None false None (1, 0) [] [].

Inductive ckind := KArr | KRec.
Record container := mkCont {
  c_kind : ckind; c_name : str; c_index : Z; c_storage : option str;
  c_subs : list (Z * odvar); c_names : list (str * odvar) }.

Inductive odobj := OVar (v : odvar) | OCont (c : container).

(* objects live in a heap (position = identity) because both look-up tables of the dictionary
   refer to the same mutable container *)
Record odict := mkOd {
  od_heap : list odobj; od_indices : list (Z * nat); od_names : list (str * nat);
  od_comments : str; od_bitrate : option Z; od_node_id : option Z;
  od_devinfo : list (str * pyv);       (* attribute name -> value; absent = None *)
  od_bools : list str;                  (* attributes whose value is a bool (True/False) *)
  od_baud : list Z }.                   (* allowed_baudrates, a set *)

Definition empty_od : odict := mkOd [] [] [] [] None None [] [] [].

Definition obj_name (o : odobj) : str := match o with OVar v => v_name v | OCont c => c_name c end.
Definition obj_index (o : odobj) : Z := match o with OVar v => v_index v | OCont c => c_index c end.
(* bool(obj): OD variable.__len__ >= 8; ODRecord/ODArray.__len__ = number of members *)
Definition obj_truthy (o : odobj) : bool :=
  match o with OVar _ => true | OCont c => match c_subs c with [] => false | _ => true end end.

Definition add_object (o : odobj) (od : odict) : odict :=
  let id := length (od_heap od) in
  mkOd (od_heap od ++ [o]) (zset (obj_index o) id (od_indices od)) (sset (obj_name o) id (od_names od))
       (od_comments od) (od_bitrate od) (od_node_id od) (od_devinfo od) (od_bools od) (od_baud od).

Definition add_member (v : odvar) (c : container) : container :=
  mkCont (c_kind c) (c_name c) (c_index c) (c_storage c) (zset (v_sub v) v (c_subs c)) (sset (v_name v) v (c_names c)).

Fixpoint set_nth {A} (n : nat) (a : A) (l : list A) : list A :=
  match l, n with
  | [], _ => []
  | _ :: r, O => a :: r
  | x :: r, S n' => x :: set_nth n' a r
  end.
Definition set_heap (id : nat) (o : odobj) (od : odict) : odict :=
  mkOd (set_nth id o (od_heap od)) (od_indices od) (od_names od)
       (od_comments od) (od_bitrate od) (od_node_id od) (od_devinfo od) (od_bools od) (od_baud od).

(* ---- look-ups: ObjectDictionary.__getitem__, ODRecord.__getitem__, ODArray.__getitem__ ---- *)
Definition od_get_int (od : odict) (i : Z) : res (nat * odobj) :=   (* names.get(i) is None for an int *)
  match zassoc i (od_indices od) with
  | Some id => match nth_error (od_heap od) id with Some o => Ok (id, o) | None => Err E_FUEL end
  | None => Err E_KEY
  end.

Definition names_get (od : odict) (k : str) : option (nat * odobj) :=   (* names.get(k) or ... : falsy = absent *)
  match sassoc k (od_names od) with
  | Some id => match nth_error (od_heap od) id with
               | Some o => if obj_truthy o then Some (id, o) else None
               | None => None
               end
  | None => None
  end.

Fixpoint split_dot (l : str) : option (str * str) :=
  match l with
  | [] => None
  | c :: r => if c =? 46 then Some ([], r)
              else match split_dot r with Some (a, b) => Some (c :: a, b) | None => None end
  end.

Definition template_var (c : container) (sub : Z) : res odvar :=
  match zassoc 1 (c_subs c) with
  | None => Err E_KEY
  | Some t =>
      let pick {A} (b : bool) (x y : A) := if b then x else y in
      let d := new_var (v_name t ++ 95 :: hex_l sub) (c_index c) sub in
      Ok (mkVar (v_name d) (v_index d) (v_sub d)
            (pick TEMPLATE_data_type (v_dt t) (v_dt d))
            (pick TEMPLATE_access_type (v_access t) (v_access d))
            (pick TEMPLATE_pdo_mappable (v_pdo t) (v_pdo d))
            (pick TEMPLATE_default (v_default t) (v_default d))
            (pick TEMPLATE_min (v_min t) (v_min d))
            (pick TEMPLATE_max (v_max t) (v_max d))
            (pick TEMPLATE_value (v_value t) (v_value d))
            (pick TEMPLATE_default_raw (v_default_raw t) (v_default_raw d))
            (pick TEMPLATE_value_raw (v_value_raw t) (v_value_raw d))
            (pick TEMPLATE_relative (v_relative t) (v_relative d))
            (pick TEMPLATE_storage_location (v_storage t) (v_storage d))
            (pick TEMPLATE_factor (v_factor t) (v_factor d))
            (pick TEMPLATE_unit (v_unit t) (v_unit d))
            (pick TEMPLATE_description (v_descr t) (v_descr d)))
  end.

Definition cont_get_int (c : container) (sub : Z) : res odvar :=
  match zassoc sub (c_subs c) with
  | Some v => Ok v
  | None =>
      match c_kind c with
      | KRec => Err E_KEY
      | KArr => if (0 <? sub) && (sub <? 256) then template_var c sub else Err E_KEY
      end
  end.
Definition cont_get_str (c : container) (k : str) : res odvar :=
  match sassoc k (c_names c) with Some v => Ok v | None => Err E_KEY end.

Inductive key := KI (i : Z) | KS (k : str).
Inductive lres := LObj (id : nat) (o : odobj) | LVar (id : nat) (v : odvar).   (* id: the object it belongs to *)

Definition obj_get (o : odobj) (k : key) : res odvar :=
  match o with
  | OVar _ => Err E_TYPE                           (* 'OD variable' object is not subscriptable *)
  | OCont c => match k with KI i => cont_get_int c i | KS t => cont_get_str c t end
  end.

(* `k in container`: ODRecord.__contains__ looks the key up in its two tables; ODArray inherits Mapping.__contains__,
   which tries self[k] and answers False on KeyError (so members made from the array template are "in" the array) *)
Definition obj_contains (o : odobj) (k : key) : bool :=
  match o with
  | OVar _ => false
  | OCont c =>
      match c_kind c with
      | KRec => match k with
                | KI i => match zassoc i (c_subs c) with Some _ => true | None => false end
                | KS t => match sassoc t (c_names c) with Some _ => true | None => false end
                end
      | KArr => match obj_get o k with Ok _ => true | _ => false end
      end
  end.

Definition od_get (od : odict) (k : key) : res lres :=
  match k with
  | KI i => rbind (od_get_int od i) (fun p => Ok (LObj (fst p) (snd p)))
  | KS t =>
      match names_get od t with
      | Some p => Ok (LObj (fst p) (snd p))
      | None =>
          match split_dot t with
          | Some (a, b) =>
              match names_get od a with
              | Some p => rbind (obj_get (snd p) (KS b)) (fun v => Ok (LVar (fst p) v))
              | None => Err E_KEY
              end
          | None => Err E_KEY
          end
      end
  end.

(* ------------------------------------------------------------------ documents (configparser after parsing) *)
Definition section := (str * list (str * str))%type.
Definition doc := list section.

Fixpoint nodup_str (l : list str) : bool :=
  match l with [] => true | x :: r => negb (existsb (streq x) r) && nodup_str r end.
Definition doc_ok (d : doc) : bool :=
  nodup_str (map fst d) && forallb (fun sec => nodup_str (map fst (snd sec))) d.

Definition find_section (d : doc) (name : str) : option (list (str * str)) := sassoc name d.
Definition opt_get (kv : list (str * str)) (k : str) : option str := sassoc k kv.
Definition E_NOOPT : Z := E_OTHER.     (* configparser.NoOptionError / NoSectionError / Duplicate*Error *)
Definition req_get (kv : list (str * str)) (k : str) : res str :=
  match opt_get kv k with Some v => Ok v | None => Err E_NOOPT end.
Definition req_int0 (t : str) : res Z := match int0 t with Some z => Ok z | None => Err E_VALUE end.
Definition req_int10 (t : str) : res Z := match int10 t with Some z => Ok z | None => Err E_VALUE end.

(* ---- the regular expressions of import_eds ---- *)
Definition is_hex (c : Z) : bool :=
  ((48 <=? c) && (c <=? 57)) || ((65 <=? c) && (c <=? 70)) || ((97 <=? c) && (c <=? 102)).
Definition is_index_name (n : str) : bool :=            (* ^[0-9A-Fa-f]{4}$ *)
  (length n =? 4)%nat && forallb is_hex n.
Definition is_dummy_name (n : str) : bool :=            (* ^[Dd]ummy[Uu]sage$ *)
  (length n =? 10)%nat &&
  streq (map lower_c (firstn 1 n)) (s "d") && streq (firstn 4 (skipn 1 n)) (s "ummy") &&
  streq (map lower_c (firstn 1 (skipn 5 n))) (s "u") && streq (skipn 6 n) (s "sage").
Definition sub_match (n : str) : option (Z * Z) :=      (* ^([0-9A-Fa-f]{4})[S|s]ub([0-9A-Fa-f]+)$ *)
  let ix := firstn 4 n in
  match skipn 4 n with
  | c :: r =>
      let h := skipn 2 r in
      if (length ix =? 4)%nat && forallb is_hex ix && ((c =? 83) || (c =? 124) || (c =? 115)) &&
         starts_with (s "ub") r && negb (length h =? 0)%nat && forallb is_hex h
      then Some (hexval ix, hexval h) else None
  | [] => None
  end.
Definition name_match (n : str) : option Z :=           (* ^([0-9A-Fa-f]{4})Name *)
  let ix := firstn 4 n in
  if (length ix =? 4)%nat && forallb is_hex ix && starts_with (s "Name") (skipn 4 n) then Some (hexval ix) else None.

(* ---- _convert_variable ---- *)
Definition NODEID : str := s "$NODEID".
(* re.sub(r'\+?\$NODEID\+?', '', v): remove every occurrence with an optional '+' on either side *)
Fixpoint sub_nodeid (skip : nat) (l : str) : str :=
  match l with
  | [] => []
  | c :: r =>
      match skip with
      | S k => sub_nodeid k r
      | O =>
          if starts_with (43 :: NODEID) l then
            sub_nodeid (if starts_with [43] (skipn 7 r) then 8 else 7) r
          else if starts_with NODEID l then
            sub_nodeid (if starts_with [43] (skipn 6 r) then 7 else 6) r
          else c :: sub_nodeid 0 r
      end
  end.

Definition is_bytes_type (dt : Z) : bool := (dt =? dt_OCTET_STRING) || (dt =? dt_DOMAIN).
Definition is_text_type (dt : Z) : bool := (dt =? dt_VISIBLE_STRING) || (dt =? dt_UNICODE_STRING).

(* None = ValueError (swallowed by every caller) *)
Definition convert_variable (node_id : option Z) (dt : Z) (value : str) : option pyv :=
  if is_bytes_type dt then option_map PVBytes (fromhex value)
  else if is_text_type dt then Some (PVStr value)
  else if zmem dt FLOAT_TYPES then option_map (fun p => PVFloat (fst p) (snd p)) (float_parse value)
  else
    let v := upper (remove_spaces value) in
    match node_id with
    | Some nid =>
        if contains NODEID v then option_map (fun z => PVInt (z + nid)) (int0 (sub_nodeid 0 v))
        else option_map PVInt (int0 v)
    | None => option_map PVInt (int0 v)
    end.

(* ---- _revert_variable; None = TypeError etc. (value of the wrong Python type) ---- *)
Definition revert_variable (dt : Z) (v : pyv) : option str :=
  if is_bytes_type dt then match v with PVBytes b => Some (tohex b) | _ => None end
  else if is_text_type dt then match v with PVStr t => Some t | _ => None end
  else if zmem dt FLOAT_TYPES then
    match v with PVFloat m e => Some (float_print (m, e)) | PVInt z => Some (dec z) | _ => None end
  else match v with PVInt z => Some (if z <? 0 then 45 :: fmt_0x02X (- z) else fmt_0x02X z) | _ => None end.

(* ---- _signed_int_from_hex with _calc_bit_length ---- *)
Definition signed_int_from_hex (t : str) (bits : Z) : option Z :=
  match int0 t with
  | Some n => Some (if n >? 2 ^ (bits - 1) - 1 then n - 2 ^ bits else n)
  | None => None
  end.
Definition parse_limit (dt : Z) (t : str) : option Z :=
  if zmem dt SIGNED_TYPES then
    match zassoc dt CALC_BIT_LENGTH with Some w => signed_int_from_hex t w | None => None end
  else int0 t.

(* ---- build_variable: the texts it reads, then what it makes of them ---- *)
Record rawvar := mkRaw {
  r_name : option str; r_storage : option str; r_dt : option str; r_access : option str; r_pdo : option str;
  r_low : option str; r_high : option str; r_default : option str; r_pvalue : option str;
  r_factor : option str; r_descr : option str; r_unit : option str }.

Definition read_var (kv : list (str * str)) : rawvar :=
  mkRaw (opt_get kv (k_PName)) (opt_get kv (s "StorageLocation")) (opt_get kv (s "DataType"))
        (opt_get kv (s "AccessType")) (opt_get kv (s "PDOMapping")) (opt_get kv (s "LowLimit"))
        (opt_get kv (s "HighLimit")) (opt_get kv (s "DefaultValue")) (opt_get kv (k_PValue))
        (opt_get kv (s "Factor")) (opt_get kv (s "Description")) (opt_get kv (s "Unit")).

Definition req (o : option str) : res str := match o with Some v => Ok v | None => Err E_NOOPT end.

Definition interp_var (d : doc) (r : rawvar) (node_id : option Z) (index sub : Z) : res odvar :=
  rbind (req (r_name r)) (fun name =>
  rbind (req (r_dt r)) (fun dts => rbind (req_int0 dts) (fun dt0 =>
  rbind (req (r_access r)) (fun acc =>
  rbind (if dt0 >? 27 then
           match find_section d (fmt_X 0 dt0 ++ s "sub1") with
           | None => Ok dt_DOMAIN
           | Some kv' => rbind (req_get kv' (s "DefaultValue")) req_int0
           end
         else Ok dt0) (fun dt =>
  rbind (req_int0 (match r_pdo r with Some t => t | None => s "0" end)) (fun pdo =>
  let lim o := match o with Some t => parse_limit dt t | None => None end in
  let conv o := match o with Some t => convert_variable node_id dt t | None => None end in
  Ok (mkVar name index sub dt (lower acc) (negb (pdo =? 0))
        (conv (r_default r)) (lim (r_low r)) (lim (r_high r)) (conv (r_pvalue r))
        (r_default r) (r_pvalue r) (match r_default r with Some t => contains NODEID t | None => false end)
        (r_storage r)
        (match r_factor r with
         | Some t => match float_parse t with Some f => f | None => (1, 0) end
         | None => (1, 0) end)
        (match r_unit r with Some t => t | None => [] end)
        (match r_descr r with Some t => t | None => [] end)))))))).

Definition build_variable (d : doc) (kv : list (str * str)) (node_id : option Z) (index sub : Z) : res odvar :=
  interp_var d (read_var kv) node_id index sub.

(* ---- import_eds ---- *)
Definition with_devinfo (od : odict) (di : list (str * pyv)) (bl : list str) (baud : list Z) : odict :=
  mkOd (od_heap od) (od_indices od) (od_names od) (od_comments od) (od_bitrate od) (od_node_id od) di bl baud.
Definition with_comments (od : odict) (c : str) : odict :=
  mkOd (od_heap od) (od_indices od) (od_names od) c (od_bitrate od) (od_node_id od) (od_devinfo od) (od_bools od) (od_baud od).
Definition with_commissioning (od : odict) (br nid : option Z) : odict :=
  mkOd (od_heap od) (od_indices od) (od_names od) (od_comments od) br nid (od_devinfo od) (od_bools od) (od_baud od).

Fixpoint join_nl (ls : list str) : str :=
  match ls with [] => [] | [a] => a | a :: r => a ++ 10 :: join_nl r end.

Fixpoint comment_lines (kv : list (str * str)) (n : nat) (i : Z) : res (list str) :=
  match n with
  | O => Ok []
  | S n' => rbind (req_get kv (s "Line" ++ dec i)) (fun l =>
            rbind (comment_lines kv n' (i + 1)) (fun r => Ok (l :: r)))
  end.

Definition import_comments (d : doc) (od : odict) : res odict :=
  match find_section d (s "Comments") with
  | None => Ok od
  | Some kv =>
      rbind (req_get kv (s "Lines")) (fun t => rbind (req_int0 t) (fun n =>
      rbind (comment_lines kv (Z.to_nat n) 1) (fun ls => Ok (with_comments od (join_nl ls)))))
  end.

Fixpoint import_baud (kv : list (str * str)) (rates : list Z) : res (list Z) :=
  match rates with
  | [] => Ok []
  | r :: rs =>
      rbind (req_int0 (match opt_get kv (s "BaudRate_" ++ dec r) with Some t => t | None => s "0" end)) (fun b =>
      rbind (import_baud kv rs) (fun l => Ok (if b =? 0 then l else (r * 1000) :: l)))
  end.

Fixpoint import_devprops (kv : list (str * str)) (tbl : list (Z * (str * str)))
  : res (list (str * pyv) * list str) :=
  match tbl with
  | [] => Ok ([], [])
  | (k, (ep, op)) :: r =>
      match opt_get kv ep with
      | None => import_devprops kv r
      | Some t =>
          if k =? 0 then rbind (import_devprops kv r) (fun p => Ok ((op, PVStr t) :: fst p, snd p))
          else rbind (req_int0 t) (fun z => rbind (import_devprops kv r) (fun p =>
               if k =? 1 then Ok ((op, PVInt z) :: fst p, snd p)
               else Ok ((op, PVInt (if z =? 0 then 0 else 1)) :: fst p, op :: snd p)))
      end
  end.

Definition import_devinfo (d : doc) (od : odict) : res odict :=
  match find_section d (s "DeviceInfo") with
  | None => Ok od
  | Some kv =>
      rbind (import_baud kv BAUD_RATES) (fun baud =>
      rbind (import_devprops kv DEVINFO_IMPORT) (fun p => Ok (with_devinfo od (fst p) (snd p) baud)))
  end.

(* returns the dictionary and the node id in force *)
Definition import_commissioning (d : doc) (node_id : option Z) (od : odict) : res (odict * option Z) :=
  match find_section d (s "DeviceComissioning") with
  | None => Ok (od, node_id)
  | Some kv =>
      rbind (match opt_get kv (s "Baudrate") with
             | None => Ok None
             | Some t => rbind (req_int10 t) (fun b => Ok (if b =? 0 then None else Some (b * 1000)))
             end) (fun br =>
      rbind (match node_id with
             | Some n => Ok (Some n)
             | None =>
                 match opt_get kv (s "NodeID") with
                 | None => Ok None
                 | Some [] => Ok None
                 | Some t => rbind (req_int0 t) (fun n => Ok (Some n))
                 end
             end) (fun nid => Ok (with_commissioning od br nid, nid)))
  end.

Fixpoint import_dummy (kv : list (str * str)) (is : list Z) (od : odict) : res odict :=
  match is with
  | [] => Ok od
  | i :: r =>
      let key := s "Dummy" ++ pad0 4 (dec i) in
      rbind (req_get kv key) (fun t => rbind (req_int10 t) (fun z =>
      let od' := if z =? 1 then
                   let v := new_var key i 0 in
                   add_object (OVar (mkVar (v_name v) i 0 i (s "const") false None None None None None None false
                                       None (1, 0) [] [])) od
                 else od in
      import_dummy kv r od'))
  end.

Definition number_of_entries (index : Z) : odvar :=
  let v := new_var (s "Number of entries") index 0 in
  mkVar (v_name v) index 0 dt_UNSIGNED8 (v_access v) false None None None None None None false None (1, 0) [] [].

(* what import_eds itself reads from an index section *)
Record rawhead := mkHead { h_name : option str; h_objtype : option str; h_storage : option str; h_compact : option str }.
Definition read_head (kv : list (str * str)) : rawhead :=
  mkHead (opt_get kv (k_PName)) (opt_get kv (s "ObjectType")) (opt_get kv (s "StorageLocation"))
         (opt_get kv (s "CompactSubObj")).

Definition import_index (d : doc) (kv : list (str * str)) (nid : option Z) (index : Z) (od : odict) : res odict :=
  let h := read_head kv in
  rbind (req (h_name h)) (fun name =>
  rbind (match h_objtype h with Some t => req_int0 t | None => Ok OT_VAR end) (fun ot =>
  let storage := h_storage h in
  if (ot =? OT_VAR) || (ot =? OT_DOMAIN) then
    rbind (build_variable d kv nid index 0) (fun v => Ok (add_object (OVar v) od))
  else if ot =? OT_ARR then
    match h_compact h with
    | Some _ =>
        rbind (build_variable d kv nid index 1) (fun v =>
        let c := mkCont KArr name index None [] [] in
        let c := add_member v (add_member (number_of_entries index) c) in
        Ok (add_object (OCont (mkCont KArr name index storage (c_subs c) (c_names c))) od))
    | None => Ok (add_object (OCont (mkCont KArr name index storage [] [])) od)
    end
  else if ot =? OT_RECORD then Ok (add_object (OCont (mkCont KRec name index storage [] [])) od)
  else Ok od)).

Definition import_sub (d : doc) (kv : list (str * str)) (nid : option Z) (index sub : Z) (od : odict) : res odict :=
  rbind (od_get_int od index) (fun p =>
  match snd p with
  | OVar _ => Ok od
  | OCont c => rbind (build_variable d kv nid index sub) (fun v =>
               Ok (set_heap (fst p) (OCont (add_member v c)) od))
  end).

Fixpoint copy_names (kv : list (str * str)) (src : odvar) (n : nat) (sub : Z) (c : container) : container :=
  match n with
  | O => c
  | S n' =>
      let c' := match opt_get kv (dec sub) with
                | None => c
                | Some name =>
                    add_member (mkVar name (v_index src) sub (v_dt src) (v_access src) (v_pdo src) (v_default src)
                                  (v_min src) (v_max src) (v_value src) (v_default_raw src) (v_value_raw src)
                                  (v_relative src) (v_storage src) (v_factor src) (v_unit src) (v_descr src)) c
                end in
      copy_names kv src n' (sub + 1) c'
  end.

Definition import_names (kv : list (str * str)) (index : Z) (od : odict) : res odict :=
  rbind (req_get kv (s "NrOfEntries")) (fun t => rbind (req_int10 t) (fun n =>
  rbind (od_get_int od index) (fun p =>
  rbind (obj_get (snd p) (KI 1)) (fun src =>
  match snd p with
  | OVar _ => Err E_TYPE
  | OCont c => Ok (set_heap (fst p) (OCont (copy_names kv src (Z.to_nat n) 1 c)) od)
  end)))).

Definition import_section (d : doc) (nid : option Z) (sec : section) (od : odict) : res odict :=
  let '(name, kv) := sec in
  rbind (if is_dummy_name name then import_dummy kv [1; 2; 3; 4; 5; 6; 7] od else Ok od) (fun od =>
  if is_index_name name then import_index d kv nid (hexval name) od
  else
    rbind (match sub_match name with
           | Some (index, sub) => import_sub d kv nid index sub od
           | None => Ok od
           end) (fun od =>
    match name_match name with
    | Some index => import_names kv index od
    | None => Ok od
    end)).

Fixpoint import_sections (d : doc) (nid : option Z) (secs : list section) (od : odict) : res odict :=
  match secs with
  | [] => Ok od
  | sec :: r => rbind (import_section d nid sec od) (import_sections d nid r)
  end.

Definition import_ini (d : doc) (node_id : option Z) : res odict :=
  if negb (doc_ok d) then Err E_NOOPT else
  rbind (import_comments d empty_od) (fun od =>
  rbind (import_devinfo d od) (fun od =>
  rbind (import_commissioning d node_id od) (fun p =>
  import_sections d (snd p) d (fst p)))).

(* ------------------------------------------------------------------ export_eds / export_dcf *)
Definition hex_bool (b : bool) : str := if b then s "0x1" else s "0x0".    (* hex(True) *)

(* a section body written key by key; an entry without value is not written *)
Definition kvs_of (es : list (str * option str)) : list (str * str) :=
  flat_map (fun e => match snd e with Some t => [(fst e, t)] | None => [] end) es.
Definition nonempty (t : str) : option str := match t with [] => None | _ => Some t end.

Definition var_section_name (top : bool) (v : odvar) : str :=
  if top then fmt_X 4 (v_index v) else fmt_X 4 (v_index v) ++ s "sub" ++ fmt_X 0 (v_sub v).

(* dv, pv: the texts written for the default and for the current value *)
Definition var_entries (dcf : bool) (v : odvar) (dv pv : option str) : list (str * option str) :=
  [ (k_PName, Some (v_name v));
    (s "StorageLocation", match v_storage v with Some t => nonempty t | None => None end);
    (s "ObjectType", Some (s "0x7"));
    (s "DataType", Some (s "0x" ++ fmt_X 4 (v_dt v)));
    (s "AccessType", nonempty (v_access v));
    (s "DefaultValue", dv);
    (k_PValue, if dcf then pv else None);
    (s "PDOMapping", Some (hex_bool (v_pdo v)));
    (s "LowLimit", option_map dec (v_min v));
    (s "HighLimit", option_map dec (v_max v));
    (s "Description", nonempty (v_descr v));
    (s "Factor", if (fst (v_factor v) =? 1) && (snd (v_factor v) =? 0) then None else Some (float_print (v_factor v)));
    (s "Unit", nonempty (v_unit v)) ].

(* the text written for a value: the original text if there is one, else _revert_variable;
   None = the export raises (a value of the wrong Python type for its data type) *)
Definition value_text (dt : Z) (raw : option str) (val : option pyv) : option (option str) :=
  match raw with
  | Some t => Some (Some t)
  | None => match val with
            | None => Some None
            | Some x => match revert_variable dt x with Some t => Some (Some t) | None => None end
            end
  end.

Definition export_variable (dcf top : bool) (v : odvar) : option section :=
  match value_text (v_dt v) (v_default_raw v) (v_default v), value_text (v_dt v) (v_value_raw v) (v_value v) with
  | Some dv, Some pv => Some (var_section_name top v, kvs_of (var_entries dcf v dv pv))
  | _, _ => None
  end.

(* sorted(keys) of a dict *)
Fixpoint zinsert {A} (k : Z) (a : A) (l : list (Z * A)) : list (Z * A) :=
  match l with
  | [] => [(k, a)]
  | (k', a') :: r => if k <=? k' then (k, a) :: l else (k', a') :: zinsert k a r
  end.
Definition zsort {A} (l : list (Z * A)) : list (Z * A) := fold_right (fun p acc => zinsert (fst p) (snd p) acc) [] l.

Fixpoint opt_all {A} (l : list (option A)) : option (list A) :=
  match l with
  | [] => Some []
  | Some a :: r => option_map (cons a) (opt_all r)
  | None :: _ => None
  end.

Definition export_object (dcf : bool) (o : odobj) : option (list section) :=
  match o with
  | OVar v => option_map (fun x => [x]) (export_variable dcf true v)
  | OCont c =>
      let head := (fmt_X 4 (c_index c), kvs_of
        [ (k_PName, Some (c_name c));
          (s "StorageLocation", match c_storage c with Some t => nonempty t | None => None end);
          (s "SubNumber", Some (s "0x" ++ fmt_X 0 (Z.of_nat (length (c_subs c)))));
          (s "ObjectType", Some (match c_kind c with KRec => s "0x9" | KArr => s "0x8" end)) ]) in
      option_map (cons head) (opt_all (map (fun p => export_variable dcf false (snd p)) (zsort (c_subs c))))
  end.

Definition is_mandatory (x : Z) : bool := zmem x MANDATORY_INDICES.
Definition is_manufacturer (x : Z) : bool := (MANUF_LO <=? x) && (x <? MANUF_HI).
Definition is_optional (x : Z) : bool := (x >? 4097) && negb (is_mandatory x) && negb (is_manufacturer x).

Fixpoint number_from (i : Z) (l : list Z) : list (str * str) :=
  match l with [] => [] | x :: r => (dec i, s "0x" ++ fmt_X 4 x) :: number_from (i + 1) r end.

Definition export_list (dcf : bool) (od : odict) (name : str) (idx : list Z) : option (list section) :=
  let objs := map (fun i => match od_get_int od i with Ok p => export_object dcf (snd p) | _ => None end) idx in
  option_map (fun secs => (name, (s "SupportedObjects", dec (Z.of_nat (length idx))) :: number_from 1 idx) :: concat secs)
             (opt_all objs).

Fixpoint split_lines (l : str) (cur : str) : list str :=    (* str.splitlines() for '\n' only *)
  match l with
  | [] => match cur with [] => [] | _ => [rev cur] end
  | c :: r => if c =? 10 then rev cur :: split_lines r [] else split_lines r (c :: cur)
  end.
Fixpoint number_lines (i : Z) (ls : list str) : list (str * str) :=
  match ls with [] => [] | l :: r => (s "Line" ++ dec i, l) :: number_lines (i + 1) r end.

Fixpoint export_devprops (od : odict) (tbl : list (str * str)) : list (str * str) :=
  match tbl with
  | [] => []
  | (ep, op) :: r =>
      match sassoc op (od_devinfo od) with
      | Some (PVStr t) => (ep, t) :: export_devprops od r
      | Some (PVInt z) => (ep, dec z) :: export_devprops od r
      | _ => export_devprops od r
      end
  end.

Definition baud_key (allowed : list Z) (rate : Z) : str * str :=
  if zmem rate allowed then (s "BaudRate_" ++ dec (rate / 1000), s "1")
  else (s "BaudRate_" ++ dec (rate / 1000) ++ s ".0", s "0").    (* the standard rates are floats in the source *)

Definition dummy_key (od : odict) (i : Z) : str * str :=
  let key := s "Dummy" ++ pad0 4 (dec i) in
  (key, match sassoc key (od_names od) with Some _ => s "1" | None => s "0" end).

Definition truthy_z (o : option Z) : bool := match o with Some z => negb (z =? 0) | None => false end.

(* the document without [FileInfo] (time stamps; never read back by import_eds except as a blob) *)
Definition export_ini (od : odict) (dcf : bool) : option doc :=
  let indices := map fst (zsort (od_indices od)) in
  let dedup_rates := od_baud od ++ filter (fun r => negb (zmem r (od_baud od))) EXPORT_STD_RATES in
  let lines := split_lines (od_comments od) [] in
  match export_list dcf od (s "MandatoryObjects") (filter is_mandatory indices),
        export_list dcf od (s "OptionalObjects") (filter is_optional indices),
        export_list dcf od (s "ManufacturerObjects") (filter is_manufacturer indices) with
  | Some a, Some b, Some c =>
      let d :=
        [(s "DeviceInfo", export_devprops od DEVINFO_EXPORT ++ map (baud_key (od_baud od)) dedup_rates)] ++
        (if dcf && (truthy_z (od_bitrate od) || truthy_z (od_node_id od)) then
           [(s "DeviceComissioning",
             (match od_bitrate od with Some b => if b =? 0 then [] else [(s "Baudrate", dec (b / 1000))] | None => [] end) ++
             (match od_node_id od with Some n => if n =? 0 then [] else [(s "NodeID", dec n)] | None => [] end))]
         else []) ++
        [(s "Comments", number_lines 1 lines ++ [(s "Lines", dec (Z.of_nat (length lines)))])] ++
        [(s "DummyUsage", map (dummy_key od) [1; 2; 3; 4; 5; 6; 7])] ++
        a ++ b ++ c in
      if doc_ok d then Some d else None       (* configparser.Duplicate*Error *)
  | _, _, _ => None
  end.

(* ------------------------------------------------------------------ export_od: destination and document type
   dest = Some name: a file name (str); None: an open stream or stdout.  doc_type as given by the caller.
   Ok (Some dcf): a document of that type is written; Ok None: nothing is written (stream without a type) *)
Definition ends_with (suffix l : str) : bool := starts_with (rev suffix) (rev l).
Definition export_od_type (dest : option str) (doc_type : option str) : res (option bool) :=
  let known t := streq t (s "eds") || streq t (s "dcf") in
  let explicit := match doc_type with Some [] => None | o => o end in      (* `if doc_type and ...`: '' is falsy *)
  match explicit with
  | Some t => if known t then Ok (Some (streq t (s "dcf"))) else Err E_VALUE
  | None =>
      match doc_type with
      | Some _ => Ok None             (* '': not None, so no suffix search; neither "eds" nor "dcf": nothing is written *)
      | None =>
          match dest with
          | Some name => Ok (Some (if ends_with (s ".dcf") name then true else false))
          | None => Ok None
          end
      end
  end.

(* ------------------------------------------------------------------ observations *)
Definition vstr (t : str) : val := VS t.
Definition vpyv (p : pyv) : val :=
  match p with PVInt z => VZ z | PVBytes b => VB b | PVStr t => VS t | PVFloat m e => VL [VZ m; VZ e] end.
Definition var_val (v : odvar) : val :=
  VL [VS (v_name v); VZ (v_index v); VZ (v_sub v); VZ (v_dt v); VS (v_access v); VBool (v_pdo v);
      vopt vpyv (v_default v); vopt VZ (v_min v); vopt VZ (v_max v); vopt vpyv (v_value v);
      vopt vstr (v_storage v); VL [VZ (fst (v_factor v)); VZ (snd (v_factor v))]; VS (v_unit v); VS (v_descr v);
      VBool (v_relative v); vopt vstr (v_default_raw v); vopt vstr (v_value_raw v)].
Fixpoint ssort_insert (k : str) (l : list str) : list str :=
  match l with
  | [] => [k]
  | k' :: r => if (fix le (a b : str) : bool :=
                     match a, b with
                     | [], _ => true
                     | _ :: _, [] => false
                     | x :: a', y :: b' => if x <? y then true else if y <? x then false else le a' b'
                     end) k k' then k :: l else k' :: ssort_insert k r
  end.
Definition ssort (l : list str) : list str := fold_right ssort_insert [] l.

Definition obj_val (o : odobj) : val :=
  match o with
  | OVar v => VL [VZ 7; var_val v]
  | OCont c => VL [VZ (match c_kind c with KArr => 8 | KRec => 9 end); VS (c_name c); VZ (c_index c);
                   vopt vstr (c_storage c); VL (map (fun p => var_val (snd p)) (zsort (c_subs c)));
                   VL (map (fun k => VL [VS k; match sassoc k (c_names c) with
                                               | Some v => VZ (v_sub v) | None => VNone end])
                           (ssort (map fst (c_names c))));
                   VZ (Z.of_nat (length (c_subs c)));                       (* len(container) *)
                   VL (map (fun p => VZ (fst p)) (zsort (c_subs c)))]       (* list(container) *)
  end.

Definition devinfo_val (od : odict) : val :=
  VL (map (fun r => let op := snd (snd r) in
                    match sassoc op (od_devinfo od) with
                    | Some (PVInt z) => if existsb (streq op) (od_bools od) then VBool (negb (z =? 0)) else VZ z
                    | Some p => vpyv p
                    | None => VNone
                    end) DEVINFO_IMPORT).

Definition od_val (od : odict) : val :=
  VL [VL (map (fun p => match nth_error (od_heap od) (snd p) with Some o => obj_val o | None => VErr E_FUEL end)
              (zsort (od_indices od)));
      VL (map (fun k => VL [VS k; match sassoc k (od_names od) with
                                  | Some id => match nth_error (od_heap od) id with
                                               | Some o => VZ (obj_index o) | None => VErr E_FUEL end
                                  | None => VNone end]) (ssort (map fst (od_names od))));
      devinfo_val od; VL (map VZ (map fst (zsort (map (fun r => (r, tt)) (od_baud od)))));
      VS (od_comments od); vopt VZ (od_bitrate od); vopt VZ (od_node_id od)].

Definition kv_val (kv : list (str * str)) : val :=
  VL (map (fun k => VL [VS k; match sassoc k kv with Some t => VS t | None => VNone end]) (ssort (map fst kv))).
Definition doc_val (d : doc) : val := VL (map (fun sec => VL [VS (fst sec); kv_val (snd sec)]) d).

(* "the same object": the variable reached (a member of heap object [id]) is the one stored under its
   (index, sub-index); VNone when nothing is stored there (a variable made from the array template) *)
Definition same_var (od : odict) (id : nat) (v : odvar) : val :=
  match od_get_int od (v_index v) with
  | Ok (id', OVar v') => VBool (Nat.eqb id id' && val_eqb (var_val v) (var_val v'))
  | Ok (id', OCont c) => match zassoc (v_sub v) (c_subs c) with
                         | Some v' => VBool (Nat.eqb id id' && val_eqb (var_val v) (var_val v'))
                         | None => VNone
                         end
  | _ => VNone
  end.
Definition same_obj (od : odict) (id : nat) (o : odobj) : val :=
  match od_get_int od (obj_index o) with Ok (id', _) => VBool (Nat.eqb id id') | _ => VBool false end.

Definition lres_val (od : odict) (r : res lres) : val :=
  match r with
  | Ok (LObj id o) => VL [VL [VZ (obj_index o); VS (obj_name o)]; same_obj od id o]
  | Ok (LVar id v) => VL [var_val v; same_var od id v]
  | Err k => VErr k
  | Abort c => VAbort c
  end.

(* a look-up path: od[k1] or od[k1][k2] *)
Definition lookup (od : odict) (k1 : key) (k2 : option key) : val :=
  match k2 with
  | None => lres_val od (od_get od k1)
  | Some k => match od_get od k1 with
              | Ok (LObj id (OCont c)) =>
                  VL [res_val (fun v => VL [var_val v; same_var od id v]) (obj_get (OCont c) k);
                      VBool (obj_contains (OCont c) k)]
              | Ok (LObj id o) => res_val (fun v => VL [var_val v; same_var od id v]) (obj_get o k)
              | Ok (LVar _ _) => VErr E_TYPE
              | Err e => VErr e
              | Abort c => VAbort c
              end
  end.

(* ------------------------------------------------------------------ digests of long observations
   (DESIGN 2.2: long observations are compared through a 61-bit multiplicative hash computed in
   Gallina and in Python; [dg 3] keeps the outer three list levels so that a disagreement is
   located in one object / look-up) *)
Definition HM : Z := 2305843009213693951.     (* 2^61 - 1, used as a bit mask *)
Definition HP : Z := 65599.     (* small odd multiplier: cheap in the VM *)
Definition hstep (h x : Z) : Z := Z.land (h * HP + x + 1) HM.
(* the hash of the token stream: tag, length, contents *)
Fixpoint hval (v : val) (h : Z) : Z :=
  match v with
  | VZ z => hstep (hstep h 1) z
  | VB b => fold_left hstep b (hstep (hstep h 2) (Z.of_nat (length b)))
  | VS t => fold_left hstep t (hstep (hstep h 3) (Z.of_nat (length t)))
  | VBool b => hstep (hstep h 4) (if b then 1 else 0)
  | VNone => hstep h 5
  | VErr k => hstep (hstep h 6) k
  | VAbort c => hstep (hstep h 7) c
  | VL l => (fix go (l : list val) (h : Z) : Z := match l with [] => h | x :: r => go r (hval x h) end)
              l (hstep (hstep h 8) (Z.of_nat (length l)))
  end.
Definition hash_val (v : val) : Z := hval v 7.
Fixpoint dg (d : nat) (v : val) : val :=
  match v with
  | VBool _ | VNone | VErr _ | VAbort _ => v
  | VL l => match d with
            | O => VZ (hash_val v)
            | S d' => VL ((fix go (l : list val) : list val := match l with [] => [] | x :: r => dg d' x :: go r end) l)
            end
  | _ => VZ (hash_val v)
  end.

(* names of the keys that occur in every document (short identifiers keep the case files small) *)
(* typed constructors for the generated case files (pairs with inferred types elaborate slowly) *)
Definition mk_kv (k v : str) : str * str := (k, v).
Definition mk_sec (n : str) (l : list (str * str)) : section := (n, l).
Definition key1 (k : key) : key * option key := (k, None).
Definition key2 (k1 k2 : key) : key * option key := (k1, Some k2).
(* dictionaries built in code: ODRecord/ODArray(...); add_member(...); od.add_object(...) *)
Definition build_cont (k : ckind) (name : str) (index : Z) (storage : option str) (vars : list odvar) : odobj :=
  OCont (fold_left (fun c v => add_member v c) vars (mkCont k name index storage [] [])).
Definition build_od (objs : list odobj) (comments : str) (bitrate node_id : option Z)
    (devinfo : list (str * pyv)) (bools : list str) (baud : list Z) : odict :=
  fold_left (fun od o => add_object o od) objs (mkOd [] [] [] comments bitrate node_id devinfo bools baud).
Definition di_entry (k : str) (v : pyv) : str * pyv := (k, v).
Definition k_ObjectType := s "ObjectType".
Definition k_DataType := s "DataType".
Definition k_AccessType := s "AccessType".
Definition k_DefaultValue := s "DefaultValue".
Definition k_PDOMapping := s "PDOMapping".
Definition k_LowLimit := s "LowLimit".
Definition k_HighLimit := s "HighLimit".
Definition k_StorageLocation := s "StorageLocation".
Definition k_Factor := s "Factor".
Definition k_Unit := s "Unit".
Definition k_Description := s "Description".
Definition k_SubNumber := s "SubNumber".
Definition k_CompactSubObj := s "CompactSubObj".
Definition k_NrOfEntries := s "NrOfEntries".
Definition k_SupportedObjects := s "SupportedObjects".

(* ------------------------------------------------------------------ runner *)
Inductive eds_case :=
| CImport (d : doc) (nid : option Z) (keys : list (key * option key))
    (* import, dump, look-ups *)
| CExport (od : odict) (dcf : bool) (nid : option Z)
    (* export a dictionary built in code, dump the document, re-import with nid, dump *)
| CReexport (d : doc) (nid : option Z) (dcf : bool) (nid2 : option Z)
    (* import, export, re-import *)
| CHistory (od1 : odict) (dcf1 : bool) (od2 : odict) (dcf2 : bool) (nid : option Z)
    (* export od1, change the dictionary to od2, export again, re-import.  export_eds writes nothing into the
       dictionary, so the state after the first export is od1 itself *)
| CDest (dest : option str) (doc_type : option str)
| CInt0 (t : str) | CInt10 (t : str)
| CConvert (nid : option Z) (dt : Z) (t : str)
| CRevert (dt : Z) (v : pyv)
| CLimit (dt : Z) (t : str)
| CFactor (t : str).

Definition export_reimport (od : odict) (dcf : bool) (nid : option Z) : val :=
  match export_ini od dcf with
  | None => VErr E_TYPE
  | Some d => VL [VBool true; doc_val d; res_val od_val (import_ini d nid)]
  end.

Definition run_eds_full (c : eds_case) : val :=
  match c with
  | CImport d nid keys =>
      res_val (fun od => VL [VBool true; od_val od; VL (map (fun k => lookup od (fst k) (snd k)) keys)]) (import_ini d nid)
  | CExport od dcf nid => export_reimport od dcf nid
  | CReexport d nid dcf nid2 =>
      res_val (fun od => export_reimport od dcf nid2) (import_ini d nid)
  | CHistory od1 dcf1 od2 dcf2 nid =>
      match export_ini od1 dcf1 with
      | None => VErr E_TYPE
      | Some d1 => VL [od_val od1; doc_val d1; export_reimport od2 dcf2 nid]
      end
  | CDest dest t => res_val (vopt VBool) (export_od_type dest t)
  | CInt0 t => vopt VZ (int0 t)
  | CInt10 t => vopt VZ (int10 t)
  | CConvert nid dt t => vopt vpyv (convert_variable nid dt t)
  | CRevert dt v => vopt vstr (revert_variable dt v)
  | CLimit dt t => vopt VZ (parse_limit dt t)
  | CFactor t => let p := match float_parse t with Some f => f | None => (1, 0) end in VL [VZ (fst p); VZ (snd p)]
  end.

Definition run_eds (c : eds_case) : val :=
  match c with
  | CImport _ _ _ | CExport _ _ _ | CReexport _ _ _ _ => dg 3 (run_eds_full c)
  | CHistory _ _ _ _ _ => dg 4 (run_eds_full c)
  | _ => run_eds_full c
  end.
