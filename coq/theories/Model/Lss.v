(* Model of canopen/lss.py (class LssMaster) and of the part of canopen/network.py it uses
   (Network.send_message on a synchronous bus, Network.notify -> LssMaster.on_message_received
   subscribed to LSS_RX_COBID).  Definitions only.  Command specifiers, ListMessageNeedResponse
   and the COB-IDs come from Gen/LssTables.v, regenerated from lss.py on every run.

   Python int = Z, frames = list Z, exceptions = res.  The blocking responses.get(timeout) is
   "the head of the queue, or LssError when the queue is empty" (inline delivery); time.sleep is
   not modelled.  The peer (everything else on the bus) is a function
       peer : P -> cobid -> data -> P * list (cobid * data)      (the frames it sends in reaction). *)
From Coq Require Import ZArith List Bool.
From CV Require Import Base.Val Base.Bytes Base.Tys Gen.LssTables Model.RefLssSlave.
Import ListNotations.
Open Scope Z_scope.

(* a frame on the bus: sent by the library (Network.send_message) or by anyone else *)
Inductive busmsg := Tx (cobid : Z) (data : list Z) | Rx (cobid : Z) (data : list Z).

(* master state: the responses queue, the rest of the bus, and the log of all frames on the bus *)
Record mstate (P : Type) := mkM { responses : list (list Z); pst : P; bus : list busmsg }.
Arguments mkM {P}.
Arguments responses {P}.
Arguments pst {P}.
Arguments bus {P}.

(* ---- struct.pack / bytearray item assignment / struct.unpack_from as used by lss.py ---- *)
Definition byte_arg (v : Z) : res Z :=                 (* message[i] = v : ValueError outside range(256) *)
  if (0 <=? v) && (v <? 256) then Ok v else Err E_VALUE.
Definition pack_u16 (v : Z) : res (list Z) :=          (* struct.pack('<H', v) *)
  if (0 <=? v) && (v <? 65536) then Ok (le_encode 2 v) else Err E_STRUCT.
Definition pack_u32 (v : Z) : res (list Z) :=          (* struct.pack('<I', v) *)
  if (0 <=? v) && (v <? 4294967296) then Ok (le_encode 4 v) else Err E_STRUCT.
Definition pack_fast_scan (cs idn bc sub nxt : Z) : res (list Z) :=   (* struct.pack('<BIBBB', ...) *)
  if (0 <=? cs) && (cs <? 256) && (0 <=? idn) && (idn <? 4294967296) && (0 <=? bc) && (bc <? 256)
     && (0 <=? sub) && (sub <? 256) && (0 <=? nxt) && (nxt <? 256)
  then Ok (cs :: le_encode 4 idn ++ [bc; sub; nxt]) else Err E_STRUCT.

Definition unpack_B (r : option (list Z)) : res Z :=              (* struct.unpack_from("<B", r)[0] *)
  match r with
  | None => Err E_TYPE
  | Some (a :: _) => Ok a
  | Some _ => Err E_STRUCT
  end.
Definition unpack_BB (r : option (list Z)) : res (Z * Z) :=       (* struct.unpack_from("<BB", r) *)
  match r with
  | None => Err E_TYPE
  | Some (a :: b :: _) => Ok (a, b)
  | Some _ => Err E_STRUCT
  end.
Definition unpack_BI (r : option (list Z)) : res (Z * Z) :=       (* struct.unpack_from("<BI", r) *)
  match r with
  | None => Err E_TYPE
  | Some l => if 5 <=? zlen l then Ok (nth 0 l 0, le_decode (firstn 4 (skipn 1 l))) else Err E_STRUCT
  end.

(* ---- the public calls ---- *)
Inductive lss_op :=
| OGlobal (mode : Z)
| OSelective (v p r s : Z)
| OInqNode
| OInqAddr (cs : Z)
| OCfgNode (n : Z)
| OCfgBit (b : Z)
| OActivate (d : Z)
| OStore
| OIdentRemote (v p rl rh sl sh : Z)
| OIdentNonCfg
| OFastScan
| OInject (cobid : Z) (f : list Z)       (* not a call: another device's frame arrives *)
| ONet.                                  (* Network.connect / disconnect / __exit__ on the same Network object: the
                                            subscription of LssMaster.on_message_received made in Network.__init__ and
                                            the master's queue belong to the Network object and survive *)

Definition unit_val (_ : unit) : val := VNone.
Definition scan_val (r : bool * option (list Z)) : val :=
  VL [VBool (fst r); vopt (fun l => VL (map VZ l)) (snd r)].

Section Master.
  Context {P : Type} (peer : P -> Z -> list Z -> P * list (Z * list Z)).
  Notation M := (mstate P).

  Definition sbind {A B} (x : M * res A) (f : M -> A -> M * res B) : M * res B :=
    match x with
    | (st, Ok a) => f st a
    | (st, Err k) => (st, Err k)
    | (st, Abort c) => (st, Abort c)
    end.

  (* Network.notify: on_message_received is subscribed to LSS_RX_COBID and puts bytes(data) *)
  Definition notify (q : list (list Z)) (m : Z * list Z) : list (list Z) :=
    if fst m =? LSS_RX_COBID then q ++ [snd m] else q.

  (* a frame sent by someone else appears on the bus *)
  Definition inject (st : M) (cobid : Z) (data : list Z) : M :=
    mkM (notify (responses st) (cobid, data)) (pst st) (bus st ++ [Rx cobid data]).

  (* Network.send_message on the synchronous bus: the peer reacts before the call returns *)
  Definition send_message (st : M) (cobid : Z) (data : list Z) : M :=
    let '(p', rs) := peer (pst st) cobid data in
    mkM (fold_left notify rs (responses st)) p' (bus st ++ Tx cobid data :: map (fun m => Rx (fst m) (snd m)) rs).

  (* LssMaster.__send_command *)
  Definition send_command (st : M) (msg : list Z) : M * res (option (list Z)) :=
    let st0 := match responses st with
               | [] => st
               | _ => mkM [] (pst st) (bus st)          (* unexpected messages: self.responses = queue.Queue() *)
               end in
    let st1 := send_message st0 LSS_TX_COBID msg in
    if negb (zmem (nth 0 msg 0) ListMessageNeedResponse) then (st1, Ok None)
    else match responses st1 with
         | [] => (st1, Err E_LSS)                       (* queue.Empty -> LssError("No LSS response received") *)
         | r :: q => (mkM q (pst st1) (bus st1), Ok (Some r))
         end.

  (* send_switch_state_global *)
  Definition switch_state_global (st : M) (mode : Z) : M * res unit :=
    sbind (st, byte_arg mode) (fun st m =>
    sbind (send_command st [CS_SWITCH_STATE_GLOBAL; m; 0; 0; 0; 0; 0; 0]) (fun st _ => (st, Ok tt))).

  (* __send_lss_address *)
  Definition send_lss_address (st : M) (req_cs number : Z) : M * res (option (list Z)) :=
    sbind (st, byte_arg req_cs) (fun st cs =>
    sbind (st, pack_u32 number) (fun st b =>
    send_command st (cs :: b ++ [0; 0; 0]))).

  (* send_switch_state_selective *)
  Definition switch_state_selective (st : M) (v p r s : Z) : M * res bool :=
    sbind (send_lss_address st CS_SWITCH_STATE_SELECTIVE_VENDOR_ID v) (fun st _ =>
    sbind (send_lss_address st CS_SWITCH_STATE_SELECTIVE_PRODUCT_CODE p) (fun st _ =>
    sbind (send_lss_address st CS_SWITCH_STATE_SELECTIVE_REVISION_NUMBER r) (fun st _ =>
    sbind (send_lss_address st CS_SWITCH_STATE_SELECTIVE_SERIAL_NUMBER s) (fun st response =>
    sbind (st, unpack_B response) (fun st cs =>
    (st, Ok (cs =? CS_SWITCH_STATE_SELECTIVE_RESPONSE))))))).

  (* inquire_node_id / __send_inquire_node_id *)
  Definition inquire_node_id (st : M) : M * res Z :=
    sbind (send_command st [CS_INQUIRE_NODE_ID; 0; 0; 0; 0; 0; 0; 0]) (fun st response =>
    sbind (st, unpack_BB response) (fun st cn =>
    if negb (fst cn =? CS_INQUIRE_NODE_ID) then (st, Err E_LSS) else (st, Ok (snd cn)))).

  (* inquire_lss_address / __send_inquire_lss_address *)
  Definition inquire_lss_address (st : M) (req_cs : Z) : M * res Z :=
    sbind (st, byte_arg req_cs) (fun st cs =>
    sbind (send_command st [cs; 0; 0; 0; 0; 0; 0; 0]) (fun st response =>
    sbind (st, unpack_BI response) (fun st cp =>
    if negb (fst cp =? req_cs) then (st, Err E_LSS) else (st, Ok (snd cp))))).

  (* __send_configure *)
  Definition send_configure (st : M) (req_cs value1 value2 : Z) : M * res unit :=
    sbind (st, byte_arg req_cs) (fun st cs =>
    sbind (st, byte_arg value1) (fun st v1 =>
    sbind (st, byte_arg value2) (fun st v2 =>
    sbind (send_command st [cs; v1; v2; 0; 0; 0; 0; 0]) (fun st response =>
    sbind (st, unpack_BB response) (fun st ce =>
    if negb (fst ce =? req_cs) then (st, Err E_LSS)
    else if negb (snd ce =? ERROR_NONE) then (st, Err E_LSS)
    else (st, Ok tt)))))).

  Definition configure_node_id (st : M) (n : Z) := send_configure st CS_CONFIGURE_NODE_ID n 0.
  Definition configure_bit_timing (st : M) (b : Z) := send_configure st CS_CONFIGURE_BIT_TIMING 0 b.
  Definition store_configuration (st : M) := send_configure st CS_STORE_CONFIGURATION 0 0.

  (* activate_bit_timing *)
  Definition activate_bit_timing (st : M) (delay : Z) : M * res unit :=
    sbind (st, pack_u16 delay) (fun st b =>
    sbind (send_command st (CS_ACTIVATE_BIT_TIMING :: b ++ [0; 0; 0; 0; 0])) (fun st _ => (st, Ok tt))).

  (* send_identify_remote_slave *)
  Definition identify_remote_slave (st : M) (v p rl rh sl sh : Z) : M * res unit :=
    sbind (send_lss_address st CS_IDENTIFY_REMOTE_SLAVE_VENDOR_ID v) (fun st _ =>
    sbind (send_lss_address st CS_IDENTIFY_REMOTE_SLAVE_PRODUCT_CODE p) (fun st _ =>
    sbind (send_lss_address st CS_IDENTIFY_REMOTE_SLAVE_REVISION_NUMBER_LOW rl) (fun st _ =>
    sbind (send_lss_address st CS_IDENTIFY_REMOTE_SLAVE_REVISION_NUMBER_HIGH rh) (fun st _ =>
    sbind (send_lss_address st CS_IDENTIFY_REMOTE_SLAVE_SERIAL_NUMBER_LOW sl) (fun st _ =>
    sbind (send_lss_address st CS_IDENTIFY_REMOTE_SLAVE_SERIAL_NUMBER_HIGH sh) (fun st _ =>
    (st, Ok tt))))))).

  (* send_identify_non_configured_remote_slave *)
  Definition identify_non_configured (st : M) : M * res unit :=
    sbind (send_command st [CS_IDENTIFY_NON_CONFIGURED_REMOTE_SLAVE; 0; 0; 0; 0; 0; 0; 0]) (fun st _ => (st, Ok tt)).

  (* __send_fast_scan_message: LssError (silence) is caught and means "no" *)
  Definition send_fast_scan_message (st : M) (idn bc sub nxt : Z) : M * res bool :=
    sbind (st, pack_fast_scan CS_FAST_SCAN idn bc sub nxt) (fun st msg =>
    match send_command st msg with
    | (st1, Err k) => if k =? E_LSS then (st1, Ok false) else (st1, Err k)
    | (st1, Abort c) => (st1, Abort c)
    | (st1, Ok recv_msg) =>
        sbind (st1, unpack_B recv_msg) (fun st cs => (st, Ok (cs =? CS_IDENTIFY_SLAVE)))
    end).

  (* inner loop of fast_scan: "while lss_bit_check > 0: lss_bit_check -= 1; ..." run from lss_bit_check = n;
     idn is lss_id[lss_sub] *)
  Fixpoint scan_bits (n : nat) (st : M) (idn sub nxt : Z) : M * res Z :=
    match n with
    | O => (st, Ok idn)
    | S k =>
        let bc := Z.of_nat k in
        sbind (send_fast_scan_message st idn bc sub nxt) (fun st found =>
        scan_bits k st (if found then idn else Z.lor idn (Z.shiftl 1 bc)) sub nxt)
    end.

  Definition upd (l : list Z) (i : Z) (v : Z) : list Z :=
    firstn (Z.to_nat i) l ++ v :: skipn (S (Z.to_nat i)) l.

  (* outer loop "while lss_sub < 4", n = number of parts still to scan *)
  Fixpoint scan_parts (n : nat) (st : M) (lss_id : list Z) (sub nxt : Z) : M * res (bool * option (list Z)) :=
    match n with
    | O => (st, Ok (true, Some lss_id))
    | S k =>
        sbind (scan_bits 32 st (nth (Z.to_nat sub) lss_id 0) sub nxt) (fun st idn =>
        let lss_id' := upd lss_id sub idn in
        let nxt' := Z.land (sub + 1) 3 in
        sbind (send_fast_scan_message st idn 0 sub nxt') (fun st ok =>
        if ok then scan_parts k st lss_id' (sub + 1) nxt' else (st, Ok (false, None))))
    end.

  (* fast_scan *)
  Definition fast_scan (st : M) : M * res (bool * option (list Z)) :=
    sbind (send_fast_scan_message st 0 128 0 0) (fun st ok =>
    if ok then scan_parts 4 st [0; 0; 0; 0] 0 0 else (st, Ok (false, None))).

  (* ---- one public call ---- *)
  Definition run_op (st : M) (o : lss_op) : M * val :=
    let out {A} (f : A -> val) (x : M * res A) : M * val := (fst x, res_val f (snd x)) in
    match o with
    | OGlobal m => out unit_val (switch_state_global st m)
    | OSelective v p r s => out VBool (switch_state_selective st v p r s)
    | OInqNode => out VZ (inquire_node_id st)
    | OInqAddr cs => out VZ (inquire_lss_address st cs)
    | OCfgNode n => out unit_val (configure_node_id st n)
    | OCfgBit b => out unit_val (configure_bit_timing st b)
    | OActivate d => out unit_val (activate_bit_timing st d)
    | OStore => out unit_val (store_configuration st)
    | OIdentRemote v p rl rh sl sh => out unit_val (identify_remote_slave st v p rl rh sl sh)
    | OIdentNonCfg => out unit_val (identify_non_configured st)
    | OFastScan => out scan_val (fast_scan st)
    | OInject c f => (inject st c f, VNone)
    | ONet => (st, VNone)
    end.
End Master.

(* ---- runner for the correspondence check ---- *)
Inductive lss_peer :=
| PSlave (s : slave)                              (* the CiA 305 reference slave *)
| PScript (l : list (list (Z * list Z))).         (* reacts to the i-th frame with the i-th list of frames *)

Definition peer_step (p : lss_peer) (cobid : Z) (f : list Z) : lss_peer * list (Z * list Z) :=
  match p with
  | PSlave s => let '(s', rs) := slave_step s cobid f in (PSlave s', rs)
  | PScript [] => (PScript [], [])
  | PScript (h :: t) => (PScript t, h)
  end.

Definition peer_val (p : lss_peer) : val :=
  match p with
  | PSlave s => slave_val s
  | PScript l => VZ (zlen l)
  end.

(* polynomial hash of a long bus log (the harness computes the same, harness/props/c18.py) *)
Definition HASH_MASK : Z := 2305843009213693951.    (* 2^61 - 1 *)
Definition hash_step (h x : Z) : Z := Z.land (Z.shiftl h 8 + h + x + 1) HASH_MASK.    (* 257 h + x + 1 mod 2^61 *)
Definition busmsg_bytes (m : busmsg) : list Z :=
  match m with
  | Tx c d => 0 :: c / 256 :: c mod 256 :: d
  | Rx c d => 1 :: c / 256 :: c mod 256 :: d
  end.
Definition bus_hash (b : list busmsg) : Z :=
  fold_left (fun h m => fold_left hash_step (busmsg_bytes m) (hash_step h (zlen (busmsg_bytes m)))) b 7.

Definition bus_val (hashed : bool) (b : list busmsg) : val :=
  if hashed then VZ (bus_hash b) else VL (map (fun m => VB (busmsg_bytes m)) b).

(* per call: result, the frames seen on the bus during the call (COB-ID first), the peer afterwards, and
   "the master's public settings are what they were before the call": no modelled method of LssMaster assigns
   a class or instance attribute other than self.responses, so this is constantly true in the model *)
Fixpoint run_ops (hashed : bool) (st : mstate lss_peer) (ops : list lss_op) : list val :=
  match ops with
  | [] => []
  | o :: r =>
      let '(st1, v) := run_op peer_step (mkM (responses st) (pst st) []) o in
      VL [v; bus_val hashed (bus st1); peer_val (pst st1); VBool true] :: run_ops hashed st1 r
  end.

Inductive lss_case := LssCase (hashed : bool) (p : lss_peer) (ops : list lss_op).

Definition run_lss (c : lss_case) : val :=
  match c with LssCase hashed p ops => VL (run_ops hashed (mkM [] p []) ops) end.
