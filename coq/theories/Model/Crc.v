(* CRC-16/XMODEM as prescribed by CiA 301 for SDO block transfers:
   polynomial x^16 + x^12 + x^5 + 1 (0x1021), initial value 0, no reflection, no final xor,
   processed bit by bit, most significant bit first.

   canopen/sdo/base.py: CrcXmodem.process(data) is  self._value = binascii.crc_hqx(data, self._value)
   and CrcXmodem.final() returns self._value.  binascii.crc_hqx is C code: it is MODELLED by
   [crc_from] (not verified) and tied to it by the correspondence cases CCrc of C12/C13.
   Definitions only. *)
From Coq Require Import ZArith List Bool.
Import ListNotations.
Open Scope Z_scope.

(* one shift of the 16-bit register *)
Definition crc_bit (c : Z) : Z :=
  if Z.testbit c 15 then Z.lxor (Z.land (Z.shiftl c 1) 65535) 4129 else Z.land (Z.shiftl c 1) 65535.

Definition crc_byte (c b : Z) : Z :=
  let c0 := Z.lxor c (Z.shiftl b 8) in
  crc_bit (crc_bit (crc_bit (crc_bit (crc_bit (crc_bit (crc_bit (crc_bit c0))))))).

(* binascii.crc_hqx(data, value) for 0 <= value < 65536 *)
Definition crc_from (c : Z) (data : list Z) : Z := fold_left crc_byte data c.

(* CrcXmodem: fresh object, one or more process() calls, final() *)
Definition crc16 (data : list Z) : Z := crc_from 0 data.
