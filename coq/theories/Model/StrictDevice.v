(* A strict CANopen device as far as PDO configuration goes (reference peer for C09).
   Written from CiA 301 (objects 1400h-15FFh / 1800h-19FFh communication parameter,
   1600h-17FFh / 1A00h-1BFFh mapping parameter), NOT from the library.  Python twin:
   harness/ref/strict_pdo_device.py.  Definitions only.

   Rules of the strict mode:
   * a register that does not exist on the device cannot be written (0609 0011h);
   * a value that does not fit the register's CiA 301 type is refused (0607 0010h);
   * communication parameter: sub 0 is read-only (0601 0002h); while the PDO is valid
     (bit 31 of sub 1 clear) sub 1 may only be written with bit 31 set or with bits 0..30
     unchanged (0609 0030h), every other sub-entry is refused (0800 0022h);
   * mapping parameter: refused while the PDO is valid (0800 0022h); an entry (sub >= 1) is
     refused unless the count (sub 0) is 0 (0800 0022h) and the word names a mappable object
     of the device with a bit length it supports (0604 0041h); a count n > 0 is refused
     unless entries 1..n exist, are mappable (0604 0041h) and total at most 64 bits (0604 0042h).
   Mode 1 is a "broken" device with a read-only count (0601 0002h) that takes entries at any
   count and also the null entry 0 (unused slot); mode 2 accepts every write that fits an
   existing register. *)
From Coq Require Import ZArith List Bool.
Import ListNotations.
Open Scope Z_scope.

Definition MODE_STRICT : Z := 0.
Definition MODE_RO_COUNT : Z := 1.
Definition MODE_LENIENT : Z := 2.

Definition AB_NO_SUB : Z := 0x06090011.
Definition AB_LENGTH : Z := 0x06070010.
Definition AB_READ_ONLY : Z := 0x06010002.
Definition AB_VALUE : Z := 0x06090030.
Definition AB_STATE : Z := 0x08000022.
Definition AB_NOT_MAPPABLE : Z := 0x06040041.
Definition AB_PDO_LENGTH : Z := 0x06040042.

(* registers: (index, sub-index) -> value; the first binding wins, a write conses *)
Definition regs := list ((Z * Z) * Z).

Fixpoint rget (r : regs) (i s : Z) : option Z :=
  match r with
  | [] => None
  | ((i', s'), v) :: t => if (i =? i') && (s =? s') then Some v else rget t i s
  end.

Definition rset (r : regs) (i s v : Z) : regs := ((i, s), v) :: r.

Definition rhas (r : regs) (i s : Z) : bool :=
  match rget r i s with Some _ => true | None => false end.

(* static part of a device: mappable objects (index, sub-index, bit length) and the mode *)
Record device := mkDev { d_objs : list (Z * Z * Z); d_mode : Z }.

Definition is_com (i : Z) : bool :=
  ((0x1400 <=? i) && (i <? 0x1600)) || ((0x1800 <=? i) && (i <? 0x1A00)).
Definition is_map (i : Z) : bool :=
  ((0x1600 <=? i) && (i <? 0x1800)) || ((0x1A00 <=? i) && (i <? 0x1C00)).

(* CiA 301 types of the PDO parameter objects, in bits *)
Definition reg_width (i s : Z) : Z :=
  if is_com i then
    (if s =? 1 then 32 else if s =? 3 then 16 else if s =? 5 then 16 else 8)
  else if is_map i then (if s =? 0 then 8 else 32)
  else 32.

Definition fits (w v : Z) : bool := (0 <=? v) && (v <? 2 ^ w).

(* PDO "exists / is valid": bit 31 of the COB-ID entry is 0 *)
Definition pdo_valid (r : regs) (com : Z) : bool :=
  match rget r com 1 with Some v => negb (Z.testbit v 31) | None => false end.

(* mapping word = index << 16 | sub << 8 | bit length *)
Definition word_index (w : Z) : Z := Z.shiftr w 16.
Definition word_sub (w : Z) : Z := Z.land (Z.shiftr w 8) 255.
Definition word_len (w : Z) : Z := Z.land w 255.

Definition entry_ok (objs : list (Z * Z * Z)) (w : Z) : bool :=
  existsb (fun o => let '(oi, os, ol) := o in
             (word_index w =? oi) && (word_sub w =? os) && (1 <=? word_len w) && (word_len w <=? ol)) objs.

(* entries k .. k+fuel-1 of mapping object i: Some (total bit length) if all exist and are mappable *)
Fixpoint entries_sum (objs : list (Z * Z * Z)) (r : regs) (i k : Z) (fuel : nat) : option Z :=
  match fuel with
  | O => Some 0
  | S f =>
      match rget r i k with
      | Some w =>
          if entry_ok objs w then
            match entries_sum objs r i (k + 1) f with
            | Some t => Some (word_len w + t)
            | None => None
            end
          else None
      | None => None
      end
  end.

Definition com_check (r : regs) (i s v old : Z) : option Z :=
  if s =? 0 then Some AB_READ_ONLY
  else if s =? 1 then
    if pdo_valid r i && negb (Z.testbit v 31) && negb (v mod 2 ^ 31 =? old mod 2 ^ 31)
    then Some AB_VALUE else None
  else if pdo_valid r i then Some AB_STATE else None.

Definition map_check (d : device) (r : regs) (i s v : Z) : option Z :=
  if pdo_valid r (i - 0x200) then Some AB_STATE
  else if s =? 0 then
    if d_mode d =? MODE_RO_COUNT then Some AB_READ_ONLY
    else if v =? 0 then None
    else match entries_sum (d_objs d) r i 1 (Z.to_nat v) with
         | Some t => if t <=? 64 then None else Some AB_PDO_LENGTH
         | None => Some AB_NOT_MAPPABLE
         end
  else
    if negb (d_mode d =? MODE_RO_COUNT) &&
       negb (match rget r i 0 with Some c => c =? 0 | None => false end)
    then Some AB_STATE
    else if entry_ok (d_objs d) v || ((d_mode d =? MODE_RO_COUNT) && (v =? 0)) then None
    else Some AB_NOT_MAPPABLE.

(* None = the write is accepted; Some code = SDO abort *)
Definition dev_check (d : device) (r : regs) (i s v : Z) : option Z :=
  match rget r i s with
  | None => Some AB_NO_SUB
  | Some old =>
      if negb (fits (reg_width i s) v) then Some AB_LENGTH
      else if d_mode d =? MODE_LENIENT then None
      else if is_com i then com_check r i s v old
      else if is_map i then map_check d r i s v
      else None
  end.

Definition dev_write (d : device) (r : regs) (i s v : Z) : regs * option Z :=
  match dev_check d r i s v with
  | None => (rset r i s v, None)
  | Some c => (r, Some c)
  end.

(* SDO upload *)
Definition dev_read (r : regs) (i s : Z) : option Z := rget r i s.

(* the device with its ordered log of write requests (index, sub, value, verdict) *)
Definition write := (Z * Z * Z)%type.
Definition lstate := (regs * list (write * option Z))%type.

Definition log_write (d : device) (st : lstate) (i s v : Z) : lstate * option Z :=
  let '(r, lg) := st in
  let '(r', a) := dev_write d r i s v in
  ((r', lg ++ [((i, s, v), a)]), a).

(* a list of writes sent one after the other; stops at the first refusal *)
Fixpoint run_writes (d : device) (st : lstate) (ws : list write) : lstate * option Z :=
  match ws with
  | [] => (st, None)
  | (i, s, v) :: t =>
      let '(st', a) := log_write d st i s v in
      match a with None => run_writes d st' t | Some c => (st', Some c) end
  end.

(* the register file after a list of accepted writes *)
Fixpoint apply_writes (r : regs) (ws : list write) : regs :=
  match ws with
  | [] => r
  | (i, s, v) :: t => apply_writes (rset r i s v) t
  end.
