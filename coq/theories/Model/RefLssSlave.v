(* Reference LSS slave written from CiA 305 (Layer Setting Services), NOT from the library:
   every number below is the standard's (COB-IDs 0x7E5 / 0x7E4, command specifiers, error codes).
   One device with a 128-bit LSS address (vendor id, product code, revision number, serial number),
   the two LSS states (waiting / configuration), the fast-scan state machine (LSSPos, IDNumber /
   BitCheck mask compare, LSSSub / LSSNext, switch to configuration on the final confirm), switch
   state global / selective, configure node-id / bit timing, activate bit timing, store
   configuration, the inquire services and the identify services.  Definitions only.
   Python twin: harness/ref/lss_slave.py. *)
From Coq Require Import ZArith List Bool.
From CV Require Import Base.Val Base.Bytes.
Import ListNotations.
Open Scope Z_scope.

(* ---- the standard's constants ---- *)
Definition STD_MASTER_COBID : Z := 2021.   (* 0x7E5  master -> slave *)
Definition STD_SLAVE_COBID : Z := 2020.    (* 0x7E4  slave -> master *)
Definition STD_SWITCH_GLOBAL : Z := 4.
Definition STD_CFG_NODE_ID : Z := 17.      (* 0x11 *)
Definition STD_CFG_BIT_TIMING : Z := 19.   (* 0x13 *)
Definition STD_ACTIVATE_BIT_TIMING : Z := 21.  (* 0x15 *)
Definition STD_STORE : Z := 23.            (* 0x17 *)
Definition STD_SEL_VENDOR : Z := 64.       (* 0x40 *)
Definition STD_SEL_PRODUCT : Z := 65.
Definition STD_SEL_REVISION : Z := 66.
Definition STD_SEL_SERIAL : Z := 67.
Definition STD_SEL_RESPONSE : Z := 68.     (* 0x44 *)
Definition STD_IDENT_VENDOR : Z := 70.     (* 0x46 .. 0x4B *)
Definition STD_IDENT_PRODUCT : Z := 71.
Definition STD_IDENT_REV_LOW : Z := 72.
Definition STD_IDENT_REV_HIGH : Z := 73.
Definition STD_IDENT_SER_LOW : Z := 74.
Definition STD_IDENT_SER_HIGH : Z := 75.
Definition STD_IDENT_NON_CONFIGURED : Z := 76.   (* 0x4C *)
Definition STD_IDENTIFY_SLAVE : Z := 79.         (* 0x4F *)
Definition STD_IDENTIFY_NON_CONFIGURED_SLAVE : Z := 80.  (* 0x50 *)
Definition STD_FAST_SCAN : Z := 81.        (* 0x51 *)
Definition STD_INQ_VENDOR : Z := 90.       (* 0x5A .. 0x5D *)
Definition STD_INQ_SERIAL : Z := 93.
Definition STD_INQ_NODE_ID : Z := 94.      (* 0x5E *)
Definition STD_BITCHECK_RESET : Z := 128.  (* 0x80 *)
Definition ST_WAITING : Z := 0.
Definition ST_CONFIGURATION : Z := 1.
Definition NODE_UNCONFIGURED : Z := 255.

Record slave := mkSlave {
  sl_ident : list Z;     (* [vendor; product; revision; serial] *)
  sl_mode : Z;           (* ST_WAITING / ST_CONFIGURATION *)
  sl_node : Z;           (* pending node-id, 255 = not configured *)
  sl_pos : Z;            (* LSSPos of the fast-scan machine *)
  sl_sel : Z;            (* switch state selective: parts matched so far, 0..3 *)
  sl_idn : Z;            (* identify remote slave: parts matched so far, 0..5 *)
  sl_bt : Z;             (* pending bit-timing index *)
  sl_delay : Z;          (* switch delay of the last activate bit timing *)
  sl_st_node : Z;        (* stored node-id *)
  sl_st_bt : Z;          (* stored bit timing *)
  sl_store_err : Z       (* what this device answers to store configuration: 0 done, 1 not supported, 2 access problem *)
}.

Definition set_mode s v := mkSlave (sl_ident s) v (sl_node s) (sl_pos s) (sl_sel s) (sl_idn s) (sl_bt s) (sl_delay s) (sl_st_node s) (sl_st_bt s) (sl_store_err s).
Definition set_node s v := mkSlave (sl_ident s) (sl_mode s) v (sl_pos s) (sl_sel s) (sl_idn s) (sl_bt s) (sl_delay s) (sl_st_node s) (sl_st_bt s) (sl_store_err s).
Definition set_pos s v := mkSlave (sl_ident s) (sl_mode s) (sl_node s) v (sl_sel s) (sl_idn s) (sl_bt s) (sl_delay s) (sl_st_node s) (sl_st_bt s) (sl_store_err s).
Definition set_sel s v := mkSlave (sl_ident s) (sl_mode s) (sl_node s) (sl_pos s) v (sl_idn s) (sl_bt s) (sl_delay s) (sl_st_node s) (sl_st_bt s) (sl_store_err s).
Definition set_idn s v := mkSlave (sl_ident s) (sl_mode s) (sl_node s) (sl_pos s) (sl_sel s) v (sl_bt s) (sl_delay s) (sl_st_node s) (sl_st_bt s) (sl_store_err s).
Definition set_bt s v := mkSlave (sl_ident s) (sl_mode s) (sl_node s) (sl_pos s) (sl_sel s) (sl_idn s) v (sl_delay s) (sl_st_node s) (sl_st_bt s) (sl_store_err s).
Definition set_delay s v := mkSlave (sl_ident s) (sl_mode s) (sl_node s) (sl_pos s) (sl_sel s) (sl_idn s) (sl_bt s) v (sl_st_node s) (sl_st_bt s) (sl_store_err s).
Definition set_stored s n b := mkSlave (sl_ident s) (sl_mode s) (sl_node s) (sl_pos s) (sl_sel s) (sl_idn s) (sl_bt s) (sl_delay s) n b (sl_store_err s).

Definition part (s : slave) (i : Z) : Z := nth (Z.to_nat i) (sl_ident s) 0.

(* frame fields *)
Definition u32_at (off : nat) (f : list Z) : Z := le_decode (firstn 4 (skipn off f)).
Definition u16_at (off : nat) (f : list Z) : Z := le_decode (firstn 2 (skipn off f)).
Definition byte_at (off : nat) (f : list Z) : Z := nth off f 0.

(* a reply is a full 8-byte frame on the slave's COB-ID, unused bytes zero *)
Definition pad8 (l : list Z) : list Z := firstn 8 (l ++ repeat 0 8).
Definition reply (l : list Z) : list (Z * list Z) := [(STD_SLAVE_COBID, pad8 l)].
Definition silent : list (Z * list Z) := [].

(* ---- fast scan (CiA 305, 0x51): only a non-configured slave in waiting state takes part ---- *)
Definition fs_mask (bitcheck : Z) : Z := Z.land (Z.shiftl 4294967295 bitcheck) 4294967295.

Definition slave_fastscan (s : slave) (f : list Z) : slave * list (Z * list Z) :=
  if (sl_mode s =? ST_WAITING) && (sl_node s =? NODE_UNCONFIGURED) then
    let idnumber := u32_at 1 f in
    let bitcheck := byte_at 5 f in
    let lsssub := byte_at 6 f in
    let lssnext := byte_at 7 f in
    if bitcheck =? STD_BITCHECK_RESET then (set_pos s 0, reply [STD_IDENTIFY_SLAVE])
    else if (bitcheck <? 32) && (lsssub <? 4) && (lssnext <? 4) && (lsssub =? sl_pos s) then
      if Z.land (part s lsssub) (fs_mask bitcheck) =? Z.land idnumber (fs_mask bitcheck) then
        let s1 := set_pos s lssnext in
        (if (bitcheck =? 0) && (lssnext <? lsssub) then set_mode s1 ST_CONFIGURATION else s1,
         reply [STD_IDENTIFY_SLAVE])
      else (s, silent)
    else (s, silent)
  else (s, silent).

(* ---- switch state selective (0x40..0x43 -> 0x44): slave in waiting state ---- *)
Definition slave_selective (s : slave) (cs : Z) (f : list Z) : slave * list (Z * list Z) :=
  if sl_mode s =? ST_WAITING then
    let k := cs - STD_SEL_VENDOR in
    let ok := ((k =? 0) || (sl_sel s =? k)) && (u32_at 1 f =? part s k) in   (* the vendor-id frame (re)starts the sequence *)
    if cs =? STD_SEL_SERIAL then
      if ok then (set_mode (set_sel s 0) ST_CONFIGURATION, reply [STD_SEL_RESPONSE])
      else (set_sel s 0, silent)
    else (set_sel s (if ok then k + 1 else 0), silent)
  else (s, silent).

(* ---- identify remote slave (0x46..0x4B -> 0x4F): every slave whose address lies in the ranges ---- *)
Definition slave_identify (s : slave) (cs : Z) (f : list Z) : slave * list (Z * list Z) :=
  let k := cs - STD_IDENT_VENDOR in
  let x := u32_at 1 f in
  let hit :=
    if k =? 0 then x =? part s 0
    else if k =? 1 then x =? part s 1
    else if k =? 2 then x <=? part s 2
    else if k =? 3 then part s 2 <=? x
    else if k =? 4 then x <=? part s 3
    else part s 3 <=? x in
  let ok := ((k =? 0) || (sl_idn s =? k)) && hit in
  if cs =? STD_IDENT_SER_HIGH then (set_idn s 0, if ok then reply [STD_IDENTIFY_SLAVE] else silent)
  else (set_idn s (if ok then k + 1 else 0), silent).

(* ---- services of the configuration state ---- *)
Definition node_id_valid (n : Z) : bool := ((1 <=? n) && (n <=? 127)) || (n =? NODE_UNCONFIGURED).
Definition bit_timing_valid (selector index : Z) : bool := (selector =? 0) && (index <=? 8).

Definition slave_config (s : slave) (cs : Z) (f : list Z) : slave * list (Z * list Z) :=
  if cs =? STD_CFG_NODE_ID then
    let n := byte_at 1 f in
    if node_id_valid n then (set_node s n, reply [cs; 0]) else (s, reply [cs; 1])
  else if cs =? STD_CFG_BIT_TIMING then
    if bit_timing_valid (byte_at 1 f) (byte_at 2 f) then (set_bt s (byte_at 2 f), reply [cs; 0])
    else (s, reply [cs; 1])
  else if cs =? STD_ACTIVATE_BIT_TIMING then (set_delay s (u16_at 1 f), silent)
  else if cs =? STD_STORE then
    ((if sl_store_err s =? 0 then set_stored s (sl_node s) (sl_bt s) else s), reply [cs; sl_store_err s])
  else if (STD_INQ_VENDOR <=? cs) && (cs <=? STD_INQ_SERIAL) then
    (s, reply (cs :: le_encode 4 (part s (cs - STD_INQ_VENDOR))))
  else if cs =? STD_INQ_NODE_ID then (s, reply [cs; sl_node s])
  else (s, silent).

(* ---- one received frame ---- *)
Definition slave_step (s : slave) (cobid : Z) (f : list Z) : slave * list (Z * list Z) :=
  if negb (cobid =? STD_MASTER_COBID) || negb (zlen f =? 8) then (s, silent)   (* LSS frames are always 8 bytes *)
  else
    let cs := byte_at 0 f in
    if cs =? STD_SWITCH_GLOBAL then
      let m := byte_at 1 f in
      ((if (m =? ST_WAITING) || (m =? ST_CONFIGURATION) then set_mode s m else s), silent)
    else if cs =? STD_FAST_SCAN then slave_fastscan s f
    else if (STD_SEL_VENDOR <=? cs) && (cs <=? STD_SEL_SERIAL) then slave_selective s cs f
    else if (STD_IDENT_VENDOR <=? cs) && (cs <=? STD_IDENT_SER_HIGH) then slave_identify s cs f
    else if cs =? STD_IDENT_NON_CONFIGURED then
      (s, if sl_node s =? NODE_UNCONFIGURED then reply [STD_IDENTIFY_NON_CONFIGURED_SLAVE] else silent)
    else if sl_mode s =? ST_CONFIGURATION then slave_config s cs f
    else (s, silent).

Definition slave_val (s : slave) : val :=
  VL [VZ (sl_mode s); VZ (sl_node s); VZ (sl_pos s); VZ (sl_sel s); VZ (sl_idn s);
      VZ (sl_bt s); VZ (sl_delay s); VZ (sl_st_node s); VZ (sl_st_bt s)].
