(* Model of canopen/objectdictionary: ODVariable.encode_raw / decode_raw / __len__,
   struct.Struct packers and datatypes.IntegerN / UnsignedN.  Definitions only. *)
From Coq Require Import ZArith List Bool.
From CV Require Import Base.Val Base.Bytes Base.Tys Gen.Tables.
Import ListNotations.
Open Scope Z_scope.

(* Python values that reach the codec *)
Inductive pyval :=
| PInt (z : Z)
| PBytes (b : list Z)
| PStr (s : list Z)            (* code points *)
| PFloat (bits : Z).           (* a float, given by the IEEE-754 pattern of the target width *)

Definition pyval_val (p : pyval) : val :=
  match p with PInt z => VZ z | PBytes b => VB b | PStr s => VS s | PFloat b => VL [VZ b] end.

(* ---- struct.Struct for the integer formats: range check, little endian ---- *)
Definition in_range (signed : bool) (w v : Z) : bool :=
  if signed then (- 2 ^ (w - 1) <=? v) && (v <? 2 ^ (w - 1)) else (0 <=? v) && (v <? 2 ^ w).

Definition pack_struct (signed : bool) (w v : Z) : res (list Z) :=
  if in_range signed w v then Ok (le_encode (Z.to_nat (w / 8)) v) else Err E_STRUCT.

Definition unpack_struct (signed : bool) (w : Z) (bs : list Z) : res Z :=
  if zlen bs =? w / 8 then
    let u := le_decode bs in Ok (if signed then sext w u else u)
  else Err E_STRUCT.

(* ---- IntegerN / UnsignedN: pack in the next wider struct format and slice ---- *)
Definition wider (w : Z) : Z := if w <=? 8 then 8 else if w <=? 16 then 16 else if w <=? 32 then 32 else 64.

Definition packN (signed : bool) (w v : Z) : res (list Z) :=
  rbind (pack_struct signed (wider w) v) (fun bs =>
  if in_range signed w v then Ok (firstn (Z.to_nat (w / 8)) bs) else Err E_STRUCT).

Definition unpack_uintN (w : Z) (bs : list Z) : res Z :=
  unpack_struct false (wider w) (bs ++ repeat 0 (Z.to_nat (wider w / 8 - w / 8))).

Definition unpack_intN (w : Z) (bs : list Z) : res Z :=
  match nth_error bs (Z.to_nat (w / 8 - 1)) with
  | None => Err E_INDEX
  | Some top =>
      let fill := if 0 <? Z.land top 128 then 255 else 0 in
      unpack_struct true (wider w) (bs ++ repeat fill (Z.to_nat (wider w / 8 - w / 8)))
  end.

Definition packer_bits (p : packer) : Z :=
  match p with PStruct _ w => w | PBool => 8 | PReal w => w | PIntN w => w | PUintN w => w end.

Definition pack (p : packer) (v : pyval) : res (list Z) :=
  match p, v with
  | PStruct s w, PInt z => pack_struct s w z
  | PIntN w, PInt z => packN true w z
  | PUintN w, PInt z => packN false w z
  | PBool, PInt z => Ok [if z =? 0 then 0 else 1]
  | PReal w, PFloat bits => Ok (le_encode (Z.to_nat (w / 8)) bits)
  | _, _ => Err E_FUEL  (* combinations the harness never generates *)
  end.

Definition unpack (p : packer) (bs : list Z) : res pyval :=
  match p with
  | PStruct s w => rbind (unpack_struct s w bs) (fun z => Ok (PInt z))
  | PIntN w => rbind (unpack_intN w bs) (fun z => Ok (PInt z))
  | PUintN w => rbind (unpack_uintN w bs) (fun z => Ok (PInt z))
  | PBool => if zlen bs =? 1 then Ok (PInt (if le_decode bs =? 0 then 0 else 1)) else Err E_STRUCT
  | PReal w => if zlen bs =? w / 8 then Ok (PFloat (le_decode bs)) else Err E_STRUCT
  end.

(* ---- text codecs ---- *)
Definition ascii_encode (s : list Z) : res (list Z) :=
  if forallb (fun c => (0 <=? c) && (c <? 128)) s then Ok s else Err E_VALUE.

Fixpoint rstrip0 (s : list Z) : list Z :=
  match s with
  | [] => []
  | c :: r => match rstrip0 r with
              | [] => if c =? 0 then [] else [c]
              | r' => c :: r'
              end
  end.

Definition ascii_decode (bs : list Z) : list Z := rstrip0 (filter (fun b => b <? 128) bs).

Definition is_hi (u : Z) : bool := (55296 <=? u) && (u <? 56320).   (* D800..DBFF *)
Definition is_lo (u : Z) : bool := (56320 <=? u) && (u <? 57344).   (* DC00..DFFF *)

Fixpoint utf16_units (s : list Z) : res (list Z) :=
  match s with
  | [] => Ok []
  | c :: r =>
      rbind (utf16_units r) (fun us =>
      if (c <? 0) || (1114112 <=? c) || is_hi c || is_lo c then Err E_VALUE
      else if c <? 65536 then Ok (c :: us)
      else let c' := c - 65536 in Ok ((55296 + c' / 1024) :: (56320 + c' mod 1024) :: us))
  end.

Definition utf16_encode (s : list Z) : res (list Z) :=
  rbind (utf16_units s) (fun us => Ok (flat_map (fun u => [u mod 256; u / 256]) us)).

Fixpoint pair_units (bs : list Z) : list Z :=
  match bs with
  | a :: b :: r => (a + 256 * b) :: pair_units r
  | _ => []                                   (* a trailing odd byte is ignored *)
  end.

Fixpoint utf16_dec_units (us : list Z) : list Z :=
  match us with
  | [] => []
  | u :: r =>
      if is_hi u then
        match r with
        | l :: r' => if is_lo l then (65536 + (u - 55296) * 1024 + (l - 56320)) :: utf16_dec_units r'
                     else utf16_dec_units r          (* lone high surrogate ignored *)
        | [] => []
        end
      else if is_lo u then utf16_dec_units r         (* lone low surrogate ignored *)
      else u :: utf16_dec_units r
  end.

Definition utf16_decode (bs : list Z) : list Z := rstrip0 (utf16_dec_units (pair_units bs)).

(* ---- ODVariable.encode_raw / decode_raw / __len__ ---- *)
Definition encode_raw (dt : option Z) (v : pyval) : res (list Z) :=
  match v with
  | PBytes b => Ok b
  | _ =>
    match dt with
    | None => Err E_OD
    | Some t =>
      if t =? dt_VISIBLE_STRING then
        match v with PStr s => ascii_encode s | _ => Err E_ATTR end
      else if t =? dt_UNICODE_STRING then
        match v with PStr s => utf16_encode s | _ => Err E_ATTR end
      else if (t =? dt_DOMAIN) || (t =? dt_OCTET_STRING) then Err E_TYPE   (* bytes(str) *)
      else match zassoc t STRUCT_TYPES with
           | Some p =>
               match pack p v with
               | Err k => if k =? E_STRUCT then Err E_VALUE else Err k
               | r => r
               end
           | None => Err E_TYPE
           end
    end
  end.

Definition decode_raw (dt : option Z) (bs : list Z) : res pyval :=
  match dt with
  | None => Ok (PBytes bs)
  | Some t =>
    if t =? dt_VISIBLE_STRING then Ok (PStr (ascii_decode bs))
    else if t =? dt_UNICODE_STRING then Ok (PStr (utf16_decode bs))
    else match zassoc t STRUCT_TYPES with
         | Some p =>
             match unpack p bs with
             | Err k => if k =? E_STRUCT then Err E_OD else Err k
             | r => r
             end
         | None => Ok (PBytes bs)
         end
  end.

Definition len_bits (dt : option Z) : Z :=
  match dt with
  | Some t => match zassoc t STRUCT_TYPES with Some p => packer_bits p / 8 * 8 | None => 8 end
  | None => 8
  end.

(* ---- runner for the correspondence check ---- *)
Inductive codec_case :=
| CEnc (dt : option Z) (v : pyval)
| CDec (dt : option Z) (bs : list Z)
| CLen (dt : option Z)
| CDecEnc (dt : option Z) (bs : list Z)
| CStrRt (dt : option Z) (s : list Z).

Definition run_codec (c : codec_case) : val :=
  match c with
  | CEnc dt v => res_val VB (encode_raw dt v)
  | CDec dt bs => res_val pyval_val (decode_raw dt bs)
  | CLen dt => VZ (len_bits dt)
  | CDecEnc dt bs =>
      res_val (fun x => x)
        (rbind (decode_raw dt bs) (fun v => rbind (encode_raw dt v) (fun b => Ok (VL [pyval_val v; VB b]))))
  | CStrRt dt s =>
      res_val (fun x => x)
        (rbind (encode_raw dt (PStr s)) (fun b => rbind (decode_raw dt b) (fun v => Ok (VL [VB b; pyval_val v]))))
  end.
