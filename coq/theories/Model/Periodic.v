(* C17 - model of the periodic transmissions of canopen (definitions only, no proofs).

   Code modelled, function by function (as it is NOW, including the fixes f0682bd
   "SyncProducer.start stops a running transmission first" and 0c5c336
   "PeriodicMessageTask copies the payload it is created with"):

     network.py   Network.send_periodic, PeriodicMessageTask.__init__/_start/stop/update
                  (both branches of update: bus tasks with and without modify_data),
                  Network.send_message (only its "not connected" check), Network.disconnect
     sync.py      SyncProducer.start / stop
     pdo/base.py  PdoMap.start / stop / update, set_data of a mapped PDO entry (byte aligned: in-place
                  write followed by update), PdoBase.stop (all maps of a node)
     nmt.py       NmtSlave.send_command / on_command / on_write (object 0x1017) /
                  start_heartbeat / stop_heartbeat / update_heartbeat,
                  NmtMaster.start_node_guarding / stop_node_guarding

   The bus is the registry of cyclic tasks kept by the (simulated) python-can bus: task id =
   position in the list = number of tasks created before it.  Periods are in milliseconds.
   Python objects with identity (PeriodicMessageTask, bus tasks) are records / indices. *)
From Coq Require Import ZArith List Bool.
From CV Require Import Base.Val Base.Tys Gen.NmtTables Gen.PeriodicTables.
Import ListNotations.
Open Scope Z_scope.

(* ------------------------------------------------------------------ the bus *)
Record btask := mkB { bt_id : Z; bt_data : list Z; bt_period : Z; bt_remote : bool; bt_alive : bool }.
Definition dead_task : btask := mkB 0 [] 0 false false.
Definition bus := list btask.

Fixpoint upd {A} (f : A -> A) (l : list A) (n : nat) : list A :=
  match l, n with
  | [], _ => []
  | x :: r, O => f x :: r
  | x :: r, S n' => x :: upd f r n'
  end.

Definition kill (b : btask) : btask := mkB (bt_id b) (bt_data b) (bt_period b) (bt_remote b) false.
Definition set_data (d : list Z) (b : btask) : btask := mkB (bt_id b) d (bt_period b) (bt_remote b) (bt_alive b).

Definition bus_stop (b : bus) (t : nat) : bus := upd kill b t.             (* task.stop() *)
Definition bus_modify (b : bus) (t : nat) (d : list Z) : bus := upd (set_data d) b t.  (* task.modify_data(msg) *)
Definition bus_get (b : bus) (t : nat) : btask := nth t b dead_task.
Definition bus_alive (b : bus) (t : nat) : bool := bt_alive (bus_get b t).

(* ------------------------------------------------------------------ PeriodicMessageTask *)
(* pt_tid = self._task (handle of the bus task), pt_can/pt_data/pt_remote = self.msg, pt_period = self.period *)
Record ptask := mkP { pt_tid : nat; pt_can : Z; pt_data : list Z; pt_period : Z; pt_remote : bool }.

(* Network.send_periodic -> PeriodicMessageTask(...): AttributeError when self.bus is None *)
Definition send_periodic (conn : bool) (b : bus) (id : Z) (d : list Z) (p : Z) (r : bool) : option (bus * ptask) :=
  if conn then Some (b ++ [mkB id d p r true], mkP (length b) id d p r) else None.

Definition pt_stop (b : bus) (pt : ptask) : bus := bus_stop b (pt_tid pt).

(* PeriodicMessageTask.update(data) *)
Definition pt_update (modify : bool) (b : bus) (pt : ptask) (d : list Z) : bus * ptask :=
  if modify then
    (bus_modify b (pt_tid pt) d, mkP (pt_tid pt) (pt_can pt) d (pt_period pt) (pt_remote pt))
  else if list_Z_eqb d (pt_data pt) then
    (b, mkP (pt_tid pt) (pt_can pt) d (pt_period pt) (pt_remote pt))
  else
    (bus_stop b (pt_tid pt) ++ [mkB (pt_can pt) d (pt_period pt) (pt_remote pt) true],
     mkP (length b) (pt_can pt) d (pt_period pt) (pt_remote pt)).

Definition stop_opt (b : bus) (t : option ptask) : bus :=
  match t with Some pt => pt_stop b pt | None => b end.

(* ------------------------------------------------------------------ producers *)
Record sync_st := mkSy { sy_period : option Z; sy_task : option ptask }.
Record pdo_st := mkPd { pd_cob : Z; pd_nvars : nat; pd_data : list Z; pd_period : option Z; pd_task : option ptask }.
Record hb_st := mkHb { hb_node : Z; hb_state : Z; hb_ms : Z; hb_obj : Z; hb_task : option ptask }.
Record guard_st := mkGd { gd_node : Z; gd_task : option ptask }.

Record state := mkS {
  st_modify : bool;          (* flavour of the bus: cyclic tasks have modify_data *)
  st_conn : bool;            (* network.bus is not None *)
  st_bus : bus;
  st_sync : sync_st;
  st_pdos : list pdo_st;
  st_hb : hb_st;
  st_guard : guard_st }.

Record config := mkCfg {
  cf_modify : bool;
  cf_local : Z;              (* id of the local node (heartbeat producer) *)
  cf_remote : Z;             (* id of the remote node (node guarding by its NmtMaster) *)
  cf_hb_default : Z;         (* default value of object 0x1017 in the local dictionary *)
  cf_pdos : list (Z * list Z) }.  (* per PDO map: COB-ID, initial data (one byte per mapped variable) *)

Definition init (c : config) : state :=
  mkS (cf_modify c) true []
      (mkSy None None)
      (map (fun p => mkPd (fst p) (length (snd p)) (snd p) None None) (cf_pdos c))
      (mkHb (cf_local c) 0 0 (cf_hb_default c) None)
      (mkGd (cf_remote c) None).

Definition set_bus (s : state) (b : bus) : state :=
  mkS (st_modify s) (st_conn s) b (st_sync s) (st_pdos s) (st_hb s) (st_guard s).
Definition set_sync (s : state) (b : bus) (y : sync_st) : state :=
  mkS (st_modify s) (st_conn s) b y (st_pdos s) (st_hb s) (st_guard s).
Definition set_hb (s : state) (b : bus) (h : hb_st) : state :=
  mkS (st_modify s) (st_conn s) b (st_sync s) (st_pdos s) h (st_guard s).
Definition set_guard (s : state) (b : bus) (g : guard_st) : state :=
  mkS (st_modify s) (st_conn s) b (st_sync s) (st_pdos s) (st_hb s) g.
Definition set_pdos (s : state) (b : bus) (l : list pdo_st) : state :=
  mkS (st_modify s) (st_conn s) b (st_sync s) l (st_hb s) (st_guard s).
Definition set_pdo (s : state) (b : bus) (i : nat) (pd : pdo_st) : state :=
  set_pdos s b (upd (fun _ => pd) (st_pdos s) i).

Definition HB_BASE : Z := 1792.     (* 0x700, literal in nmt.py *)
Definition HB_TIME_INDEX : Z := 4119.   (* 0x1017 *)

Definition ok : option Z := None.
Definition raised (k : Z) : option Z := Some k.

(* ------------------------------------------------------------------ SyncProducer *)
Definition sync_stop (s : state) : state :=
  let y := st_sync s in
  set_sync s (stop_opt (st_bus s) (sy_task y)) (mkSy (sy_period y) None).

Definition sync_start (s : state) (p : option Z) : state * option Z :=
  let y := st_sync s in
  let per := match p with Some x => Some x | None => sy_period y end in
  match per with
  | None => (s, raised E_VALUE)
  | Some x =>
      if x =? 0 then (set_sync s (st_bus s) (mkSy per (sy_task y)), raised E_VALUE)
      else
        let b1 := stop_opt (st_bus s) (sy_task y) in
        match send_periodic (st_conn s) b1 SYNC_COB_ID [] x false with
        | Some (b2, pt) => (set_sync s b2 (mkSy per (Some pt)), ok)
        | None => (set_sync s b1 (mkSy per None), raised E_ATTR)
        end
  end.

(* ------------------------------------------------------------------ PdoMap *)
Definition pdo_stop1 (b : bus) (pd : pdo_st) : bus * pdo_st :=
  (stop_opt b (pd_task pd), mkPd (pd_cob pd) (pd_nvars pd) (pd_data pd) (pd_period pd) None).

Definition pdo_start1 (conn : bool) (b : bus) (pd : pdo_st) (p : option Z) : bus * pdo_st * option Z :=
  let b1 := stop_opt b (pd_task pd) in                         (* self.stop() comes first *)
  let per := match p with Some x => Some x | None => pd_period pd end in
  let pd1 := mkPd (pd_cob pd) (pd_nvars pd) (pd_data pd) per None in
  match per with
  | None => (b1, pd1, raised E_VALUE)
  | Some x =>
      if x =? 0 then (b1, pd1, raised E_VALUE)
      else match send_periodic conn b1 (pd_cob pd) (pd_data pd) x false with
           | Some (b2, pt) => (b2, mkPd (pd_cob pd) (pd_nvars pd) (pd_data pd) per (Some pt), ok)
           | None => (b1, pd1, raised E_ATTR)
           end
  end.

Definition pdo_update1 (modify : bool) (b : bus) (pd : pdo_st) : bus * pdo_st :=
  match pd_task pd with
  | None => (b, pd)
  | Some pt =>
      let '(b1, pt1) := pt_update modify b pt (pd_data pd) in
      (b1, mkPd (pd_cob pd) (pd_nvars pd) (pd_data pd) (pd_period pd) (Some pt1))
  end.

Definition pd_set_data (pd : pdo_st) (d : list Z) : pdo_st :=
  mkPd (pd_cob pd) (pd_nvars pd) d (pd_period pd) (pd_task pd).

(* data[k:k+1] = bytes([v]) : replaces byte k, or appends when k is beyond the end *)
Definition slice_set (d : list Z) (k : nat) (v : Z) : list Z :=
  if Nat.ltb k (length d) then upd (fun _ => v) d k else d ++ [v].

Definition is_byte (v : Z) : bool := (0 <=? v) && (v <=? 255).

(* ------------------------------------------------------------------ NmtSlave heartbeat *)
Definition hb_set (h : hb_st) (st ms obj : Z) (t : option ptask) : hb_st := mkHb (hb_node h) st ms obj t.

Definition hb_stop1 (b : bus) (h : hb_st) : bus * hb_st :=
  (stop_opt b (hb_task h), hb_set h (hb_state h) (hb_ms h) (hb_obj h) None).

Definition hb_start1 (conn : bool) (b : bus) (h : hb_st) (ms : Z) : bus * hb_st * option Z :=
  let b1 := stop_opt b (hb_task h) in
  let h1 := hb_set h (hb_state h) ms (hb_obj h) None in
  if 0 <? ms then
    match send_periodic conn b1 (HB_BASE + hb_node h) [hb_state h] ms false with
    | Some (b2, pt) => (b2, hb_set h (hb_state h) ms (hb_obj h) (Some pt), ok)
    | None => (b1, h1, raised E_ATTR)
    end
  else (b1, h1, ok).

Definition hb_update1 (modify : bool) (b : bus) (h : hb_st) : bus * hb_st :=
  match hb_task h with
  | None => (b, h)
  | Some pt =>
      let '(b1, pt1) := pt_update modify b pt [hb_state h] in
      (b1, hb_set h (hb_state h) (hb_ms h) (hb_obj h) (Some pt1))
  end.

Definition new_state (code cur : Z) : Z :=
  match zassoc code COMMAND_TO_STATE with Some n => n | None => cur end.

(* NmtSlave.send_command(code) *)
Definition nmt_cmd (s : state) (code : Z) : state * option Z :=
  let h := st_hb s in
  let old := hb_state h in
  let st' := new_state code old in
  let h0 := hb_set h st' (hb_ms h) (hb_obj h) (hb_task h) in
  if (st' =? 0) && negb (st_conn s) then
    (set_hb s (st_bus s) h0, raised E_RUNTIME)            (* boot-up message: "Not connected to CAN bus" *)
  else if (old =? 0) && (st' =? 127) then
    let '(b1, h1, r) := hb_start1 (st_conn s) (st_bus s) h0 (hb_obj h) in (set_hb s b1 h1, r)
  else
    let '(b1, h1) := hb_update1 (st_modify s) (st_bus s) h0 in (set_hb s b1 h1, ok).

(* NmtSlave.on_command: NMT command frame [code, node] received on COB-ID 0 *)
Definition nmt_recv (s : state) (code node : Z) : state * option Z :=
  let h := st_hb s in
  let st' := if (node =? hb_node h) || (node =? 0) then new_state code (hb_state h) else hb_state h in
  let h0 := hb_set h st' (hb_ms h) (hb_obj h) (hb_task h) in
  let '(b1, h1) := hb_update1 (st_modify s) (st_bus s) h0 in (set_hb s b1 h1, ok).

(* local_node.sdo[idx].raw = v for an UNSIGNED16 object: write callbacks (NmtSlave.on_write), then the store *)
Definition obj_write (s : state) (idx v : Z) : state * option Z :=
  if (v <? 0) || (65535 <? v) then (s, raised E_VALUE)
  else if idx =? HB_TIME_INDEX then
    let h := st_hb s in
    if v =? 0 then
      let '(b1, h1) := hb_stop1 (st_bus s) h in
      (set_hb s b1 (hb_set h1 (hb_state h1) (hb_ms h1) v (hb_task h1)), ok)
    else
      let '(b1, h1, r) := hb_start1 (st_conn s) (st_bus s) h v in
      match r with
      | None => (set_hb s b1 (hb_set h1 (hb_state h1) (hb_ms h1) v (hb_task h1)), ok)
      | Some k => (set_hb s b1 h1, raised k)      (* callback raised: value not stored *)
      end
  else (s, ok).

(* ------------------------------------------------------------------ NmtMaster node guarding *)
Definition guard_stop (s : state) : state :=
  let g := st_guard s in set_guard s (stop_opt (st_bus s) (gd_task g)) (mkGd (gd_node g) None).

Definition guard_start (s : state) (p : Z) : state * option Z :=
  let g := st_guard s in
  let b1 := stop_opt (st_bus s) (gd_task g) in
  match send_periodic (st_conn s) b1 (HB_BASE + gd_node g) [] p true with
  | Some (b2, pt) => (set_guard s b2 (mkGd (gd_node g) (Some pt)), ok)
  | None => (set_guard s b1 (mkGd (gd_node g) None), raised E_ATTR)
  end.

(* ------------------------------------------------------------------ Network.disconnect *)
Fixpoint stop_all (b : bus) (l : list pdo_st) : bus * list pdo_st :=
  match l with
  | [] => (b, [])
  | pd :: r =>
      let '(b1, pd1) := pdo_stop1 b pd in
      let '(b2, r') := stop_all b1 r in (b2, pd1 :: r')
  end.

Definition disconnect (s : state) : state :=
  let '(b1, l1) := stop_all (st_bus s) (st_pdos s) in
  mkS (st_modify s) false b1 (st_sync s) l1 (st_hb s) (st_guard s).

(* ------------------------------------------------------------------ operations *)
Inductive op :=
| SyncStart (p : option Z)            (* network.sync.start(p)   (None: argument omitted) *)
| SyncStop
| PdoStart (i : nat) (p : option Z)   (* map.start(p) *)
| PdoStop (i : nat)
| PdoUpdate (i : nat)
| PdoPoke (i k : nat) (v : Z)         (* map.data[k] = v  (in place, no update) *)
| PdoAssign (i : nat) (d : list Z)    (* map.data = bytearray(d) *)
| PdoSetVar (i k : nat) (v : Z)       (* map[k].raw = v : in-place write, then map.update() *)
| HbStart (ms : Z)                    (* local.nmt.start_heartbeat(ms) *)
| HbStop
| HbUpdate
| NmtCmd (code : Z)                   (* local.nmt.send_command(code) *)
| NmtRecv (code node : Z)             (* NMT command frame from the bus *)
| ObjWrite (idx v : Z)                (* local.sdo[idx].raw = v ; idx 0x1017 = producer heartbeat time *)
| GuardStart (p : Z)                  (* remote.nmt.start_node_guarding(p) *)
| GuardStop
| Disconnect
| SyncSetPeriod (p : option Z)        (* network.sync.period = p   (attribute assignment, no call) *)
| PdoSetCob (i : nat) (c : Z)         (* map.cob_id = c *)
| PdoSetPeriod (i : nat) (p : option Z).  (* map.period = p *)

Definition step (s : state) (o : op) : state * option Z :=
  match o with
  | SyncStart p => sync_start s p
  | SyncStop => (sync_stop s, ok)
  | PdoStart i p =>
      match nth_error (st_pdos s) i with
      | None => (s, raised E_KEY)
      | Some pd => let '(b1, pd1, r) := pdo_start1 (st_conn s) (st_bus s) pd p in (set_pdo s b1 i pd1, r)
      end
  | PdoStop i =>
      match nth_error (st_pdos s) i with
      | None => (s, raised E_KEY)
      | Some pd => let '(b1, pd1) := pdo_stop1 (st_bus s) pd in (set_pdo s b1 i pd1, ok)
      end
  | PdoUpdate i =>
      match nth_error (st_pdos s) i with
      | None => (s, raised E_KEY)
      | Some pd => let '(b1, pd1) := pdo_update1 (st_modify s) (st_bus s) pd in (set_pdo s b1 i pd1, ok)
      end
  | PdoPoke i k v =>
      match nth_error (st_pdos s) i with
      | None => (s, raised E_KEY)
      | Some pd =>
          if negb (Nat.ltb k (length (pd_data pd))) then (s, raised E_INDEX)
          else if negb (is_byte v) then (s, raised E_VALUE)
          else (set_pdo s (st_bus s) i (pd_set_data pd (upd (fun _ => v) (pd_data pd) k)), ok)
      end
  | PdoAssign i d =>
      match nth_error (st_pdos s) i with
      | None => (s, raised E_KEY)
      | Some pd => (set_pdo s (st_bus s) i (pd_set_data pd d), ok)
      end
  | PdoSetVar i k v =>
      match nth_error (st_pdos s) i with
      | None => (s, raised E_KEY)
      | Some pd =>
          if negb (Nat.ltb k (pd_nvars pd)) then
            (s, raised (if Nat.ltb k 8 then E_INDEX else E_KEY))   (* map[k]: slots 0..7 by position, else by OD index *)
          else if negb (is_byte v) then (s, raised E_VALUE)
          else
            let pd0 := pd_set_data pd (slice_set (pd_data pd) k v) in
            let '(b1, pd1) := pdo_update1 (st_modify s) (st_bus s) pd0 in (set_pdo s b1 i pd1, ok)
      end
  | HbStart ms => let '(b1, h1, r) := hb_start1 (st_conn s) (st_bus s) (st_hb s) ms in (set_hb s b1 h1, r)
  | HbStop => let '(b1, h1) := hb_stop1 (st_bus s) (st_hb s) in (set_hb s b1 h1, ok)
  | HbUpdate => let '(b1, h1) := hb_update1 (st_modify s) (st_bus s) (st_hb s) in (set_hb s b1 h1, ok)
  | NmtCmd code => nmt_cmd s code
  | NmtRecv code node => nmt_recv s code node
  | ObjWrite idx v => obj_write s idx v
  | GuardStart p => guard_start s p
  | GuardStop => (guard_stop s, ok)
  | Disconnect => (disconnect s, ok)
  | SyncSetPeriod p => (set_sync s (st_bus s) (mkSy p (sy_task (st_sync s))), ok)
  | PdoSetCob i c =>
      match nth_error (st_pdos s) i with
      | None => (s, raised E_KEY)
      | Some pd => (set_pdo s (st_bus s) i (mkPd c (pd_nvars pd) (pd_data pd) (pd_period pd) (pd_task pd)), ok)
      end
  | PdoSetPeriod i p =>
      match nth_error (st_pdos s) i with
      | None => (s, raised E_KEY)
      | Some pd => (set_pdo s (st_bus s) i (mkPd (pd_cob pd) (pd_nvars pd) (pd_data pd) p (pd_task pd)), ok)
      end
  end.

Definition step_st (s : state) (o : op) : state := fst (step s o).

Fixpoint run (s : state) (ops : list op) : state :=
  match ops with
  | [] => s
  | o :: r => run (step_st s o) r
  end.

(* ------------------------------------------------------------------ specification vocabulary *)
Inductive prod := PSync | PHb | PGuard | PPdo (i : nat).

(* the task handle a producer holds (None: it holds none) *)
Definition task_of (s : state) (p : prod) : option ptask :=
  match p with
  | PSync => sy_task (st_sync s)
  | PHb => hb_task (st_hb s)
  | PGuard => gd_task (st_guard s)
  | PPdo i => match nth_error (st_pdos s) i with Some pd => pd_task pd | None => None end
  end.

(* bus task [bt] is transmitting exactly the frame and period held by the PeriodicMessageTask [pt] *)
Definition carries (bt : btask) (pt : ptask) : Prop :=
  bt_alive bt = true /\ bt_id bt = pt_can pt /\ bt_data bt = pt_data pt /\
  bt_period bt = pt_period pt /\ bt_remote bt = pt_remote pt.

(* [pt] holds what the API state of producer [p] says, as far as only CALLS can change it:
   CAN id, payload and remote flag of SYNC / heartbeat / guarding, heartbeat period and state byte *)
Definition frame_current (s : state) (p : prod) (pt : ptask) : Prop :=
  match p with
  | PSync => pt_can pt = SYNC_COB_ID /\ pt_data pt = [] /\ pt_remote pt = false /\ pt_period pt <> 0
  | PHb =>
      let h := st_hb s in
      pt_can pt = HB_BASE + hb_node h /\ pt_remote pt = false /\ pt_period pt = hb_ms h /\ 0 < hb_ms h /\
      (st_conn s = true -> pt_data pt = [hb_state h])
  | PGuard =>
      pt_can pt = HB_BASE + gd_node (st_guard s) /\ pt_data pt = [] /\ pt_remote pt = true
  | PPdo i => pt_remote pt = false /\ pt_period pt <> 0
  end.

(* [pt] agrees with the public attributes an application may also ASSIGN (SyncProducer.period,
   PdoMap.cob_id, PdoMap.period); an assignment takes effect at the next start() *)
Definition attrs_current (s : state) (p : prod) (pt : ptask) : Prop :=
  match p with
  | PSync => exists q, sy_period (st_sync s) = Some q /\ (q <> 0 -> pt_period pt = q)
  | PPdo i => exists pd, nth_error (st_pdos s) i = Some pd /\ pt_can pt = pd_cob pd /\
                         pd_period pd = Some (pt_period pt)
  | _ => True
  end.

(* X = producers exempted from the attribute clause (those whose attributes have been assigned) *)
Definition current (X : prod -> Prop) (s : state) (p : prod) (pt : ptask) : Prop :=
  frame_current s p pt /\ (~ X p -> attrs_current s p pt).

(* abstract part: bus registry against a handle assignment *)
Definition AInv (b : bus) (tk : prod -> option ptask) : Prop :=
  (forall p pt, tk p = Some pt -> carries (bus_get b (pt_tid pt)) pt) /\
  (forall p q pt qt, tk p = Some pt -> tk q = Some qt -> pt_tid pt = pt_tid qt -> p = q) /\
  (forall t, bus_alive b t = true -> exists p pt, tk p = Some pt /\ pt_tid pt = t).

Definition inv (X : prod -> Prop) (s : state) : Prop :=
  AInv (st_bus s) (task_of s) /\ (forall p pt, task_of s p = Some pt -> current X s p pt).

(* the operation assigns an attribute of producer p *)
Definition touches (o : op) (p : prod) : bool :=
  match o, p with
  | SyncSetPeriod _, PSync => true
  | PdoSetCob i _, PPdo j => Nat.eqb i j
  | PdoSetPeriod i _, PPdo j => Nat.eqb i j
  | _, _ => false
  end.

(* producer p has nothing on the wire: it holds no handle and every live task belongs to another producer *)
Definition none_running (s : state) (p : prod) : Prop :=
  task_of s p = None /\
  forall t, bus_alive (st_bus s) t = true -> exists q qt, q <> p /\ task_of s q = Some qt /\ pt_tid qt = t.

(* the call that took s to s' created a fresh task for p with exactly this frame and period, p holds it,
   and the task p held before is no longer transmitting *)
Definition started (s s' : state) (p : prod) (id : Z) (d : list Z) (per : Z) (r : bool) : Prop :=
  task_of s' p = Some (mkP (length (st_bus s)) id d per r) /\
  bus_get (st_bus s') (length (st_bus s)) = mkB id d per r true /\
  (forall old, task_of s p = Some old -> bus_alive (st_bus s') (pt_tid old) = false).

Definition stop_op (p : prod) : op :=
  match p with PSync => SyncStop | PHb => HbStop | PGuard => GuardStop | PPdo i => PdoStop i end.

(* ------------------------------------------------------------------ observation *)
Fixpoint live_from (t : nat) (b : bus) : list val :=
  match b with
  | [] => []
  | x :: r =>
      let rest := live_from (S t) r in
      if bt_alive x then VL [VZ (Z.of_nat t); VZ (bt_id x); VB (bt_data x); VZ (bt_period x); VBool (bt_remote x)] :: rest
      else rest
  end.
Definition live_view (s : state) : val := VL (live_from O (st_bus s)).

Definition res_view (r : option Z) : val := match r with None => VNone | Some k => VErr k end.

Fixpoint trace (s : state) (ops : list op) : list val :=
  match ops with
  | [] => []
  | o :: r => let '(s1, res) := step s o in VL [res_view res; live_view s1] :: trace s1 r
  end.

(* ---- runner for the correspondence check: the result of every call and the live set after it ---- *)
Inductive periodic_case := PCase (c : config) (ops : list op).

Definition run_periodic (c : periodic_case) : val :=
  match c with PCase cfg ops => VL (trace (init cfg) ops) end.
