(* Reference peer for C19: a CiA 402 (IEC 61800-7-201) conformant drive, written from the
   standard's power-drive-system state machine, NOT from the library.  Definitions only.

   Statusword (0x6041) patterns, bits 6 5 3 2 1 0  (x = don't care):
     xxxx xxxx x0xx 0000  NOT READY TO SWITCH ON        xxxx xxxx x1xx 0000  SWITCH ON DISABLED
     xxxx xxxx x01x 0001  READY TO SWITCH ON            xxxx xxxx x01x 0011  SWITCHED ON
     xxxx xxxx x01x 0111  OPERATION ENABLED             xxxx xxxx x00x 0111  QUICK STOP ACTIVE
     xxxx xxxx x0xx 1111  FAULT REACTION ACTIVE         xxxx xxxx x0xx 1000  FAULT
   Controlword (0x6040) commands, bits 7 3 2 1 0:
     shutdown 0xxx x110 (transitions 2,6,8)      switch on 0xxx 0111 (3)
     switch on + enable operation 0xxx 1111 (3+4) disable voltage 0xxx xx0x (7,9,10,12)
     quick stop 0xxx x01x (7,10,11)              disable operation 0xxx 0111 (5)
     enable operation 0xxx 1111 (4,16)           fault reset: rising edge of bit 7 (15)
   Automatic transitions: 1 (NOT READY -> SWITCH ON DISABLED), 14 (FAULT REACTION -> FAULT).
   They fire at a moment the master does not control: a schedule (list bool) is consumed at every
   status read and says whether the pending automatic transition fires before that read; when the
   schedule is exhausted the transition fires (it happens eventually). *)
From Coq Require Import ZArith List Bool String.
Import ListNotations.
Open Scope Z_scope.

Inductive dstate :=
| NotReady | SwitchOnDisabled | ReadyToSwitchOn | SwitchedOn | OperationEnabled
| QuickStopActive | FaultReaction | Fault.

Definition all_dstates : list dstate :=
  [NotReady; SwitchOnDisabled; ReadyToSwitchOn; SwitchedOn; OperationEnabled; QuickStopActive; FaultReaction; Fault].

Definition dstate_idx (s : dstate) : Z :=
  match s with
  | NotReady => 0 | SwitchOnDisabled => 1 | ReadyToSwitchOn => 2 | SwitchedOn => 3
  | OperationEnabled => 4 | QuickStopActive => 5 | FaultReaction => 6 | Fault => 7
  end.

Definition dstate_of_idx (i : Z) : dstate :=
  match i with
  | 0 => NotReady | 1 => SwitchOnDisabled | 2 => ReadyToSwitchOn | 3 => SwitchedOn
  | 4 => OperationEnabled | 5 => QuickStopActive | 6 => FaultReaction | _ => Fault
  end.

Definition dstate_eqb (a b : dstate) : bool := dstate_idx a =? dstate_idx b.

(* the standard's name of each state *)
Definition dstate_name (s : dstate) : string :=
  match s with
  | NotReady => "NOT READY TO SWITCH ON" | SwitchOnDisabled => "SWITCH ON DISABLED"
  | ReadyToSwitchOn => "READY TO SWITCH ON" | SwitchedOn => "SWITCHED ON"
  | OperationEnabled => "OPERATION ENABLED" | QuickStopActive => "QUICK STOP ACTIVE"
  | FaultReaction => "FAULT REACTION ACTIVE" | Fault => "FAULT"
  end%string.

(* (mask, value) of the statusword pattern of each state: 0x4F = x1xx 1111, 0x6F = x11x 1111 *)
Definition sw_pattern (s : dstate) : Z * Z :=
  match s with
  | NotReady => (79, 0) | SwitchOnDisabled => (79, 64)
  | ReadyToSwitchOn => (111, 33) | SwitchedOn => (111, 35)
  | OperationEnabled => (111, 39) | QuickStopActive => (111, 7)
  | FaultReaction => (79, 15) | Fault => (79, 8)
  end.

Definition sw_matches (sw : Z) (s : dstate) : bool :=
  let '(m, v) := sw_pattern s in Z.land sw m =? v.

(* the CiA 402 reading of a statusword: the states whose pattern matches *)
Definition cia_states_of (sw : Z) : list dstate := filter (sw_matches sw) all_dstates.

Definition cia_decode (sw : Z) : string :=
  match cia_states_of sw with
  | [s] => dstate_name s
  | [] => "UNKNOWN"
  | _ => "AMBIGUOUS"
  end%string.

(* every statusword a drive in state s may report: the pattern, all other bits taken from [extra] *)
Definition sw_of (s : dstate) (extra : Z) : Z :=
  let '(m, v) := sw_pattern s in Z.lor v (Z.land extra (Z.lnot m)).

(* automatic transitions 1 and 14 *)
Definition auto (s : dstate) : dstate :=
  match s with NotReady => SwitchOnDisabled | FaultReaction => Fault | x => x end.

(* controlword command decoding *)
Definition cw_bit7 (cw : Z) : bool := Z.testbit cw 7.
Definition is_shutdown (cw : Z) : bool := Z.land cw 135 =? 6.          (* 0xxx x110 *)
Definition is_switch_on (cw : Z) : bool := Z.land cw 143 =? 7.         (* 0xxx 0111, also disable operation *)
Definition is_enable_operation (cw : Z) : bool := Z.land cw 143 =? 15. (* 0xxx 1111 *)
Definition is_disable_voltage (cw : Z) : bool := Z.land cw 130 =? 0.   (* 0xxx xx0x *)
Definition is_quick_stop (cw : Z) : bool := Z.land cw 134 =? 2.        (* 0xxx x01x *)

(* states passed through when the controlword [cw] is received in state [s]
   ([last7] = bit 7 of the previously received controlword); the last one is the new state,
   [] = no transition. *)
Definition command_path (s : dstate) (cw : Z) (last7 : bool) : list dstate :=
  match s with
  | NotReady | FaultReaction => []
  | Fault => if cw_bit7 cw && negb last7 then [SwitchOnDisabled] else []          (* 15 *)
  | SwitchOnDisabled => if is_shutdown cw then [ReadyToSwitchOn] else []            (* 2 *)
  | ReadyToSwitchOn =>
      if is_disable_voltage cw || is_quick_stop cw then [SwitchOnDisabled]          (* 7 *)
      else if is_switch_on cw then [SwitchedOn]                                     (* 3 *)
      else if is_enable_operation cw then [SwitchedOn; OperationEnabled]            (* 3 + 4 *)
      else []
  | SwitchedOn =>
      if is_disable_voltage cw || is_quick_stop cw then [SwitchOnDisabled]          (* 10 *)
      else if is_shutdown cw then [ReadyToSwitchOn]                                 (* 6 *)
      else if is_enable_operation cw then [OperationEnabled]                        (* 4 *)
      else []
  | OperationEnabled =>
      if is_disable_voltage cw then [SwitchOnDisabled]                              (* 9 *)
      else if is_quick_stop cw then [QuickStopActive]                               (* 11 *)
      else if is_shutdown cw then [ReadyToSwitchOn]                                 (* 8 *)
      else if is_switch_on cw then [SwitchedOn]                                     (* 5 *)
      else []
  | QuickStopActive =>
      if is_disable_voltage cw then [SwitchOnDisabled]                              (* 12 *)
      else if is_enable_operation cw then [OperationEnabled]                        (* 16 *)
      else []
  end.

Definition command (s : dstate) (cw : Z) (last7 : bool) : dstate := last (command_path s cw last7) s.

(* the drive as seen from the bus.  The logs are newest-first. *)
Record drive := mkDrive {
  d_st : dstate;
  d_sched : list bool;     (* schedule of the automatic transitions *)
  d_extra : Z;             (* bits reported outside the pattern of the current state *)
  d_last7 : bool;          (* bit 7 of the last controlword (fault reset needs a rising edge) *)
  d_cws : list Z;          (* controlwords received *)
  d_trace : list dstate;   (* states entered *)
  d_reads : Z              (* number of status reads served *)
}.

Definition drive_init (s : dstate) (sched : list bool) (extra : Z) : drive :=
  mkDrive s sched extra false [] [] 0.

(* a status read: the pending automatic transition fires first if the schedule says so *)
Definition rd_status (d : drive) : drive * Z :=
  let fire := match d_sched d with [] => true | b :: _ => b end in
  let s' := if fire then auto (d_st d) else d_st d in
  let tr := if dstate_eqb s' (d_st d) then d_trace d else s' :: d_trace d in
  (mkDrive s' (tl (d_sched d)) (d_extra d) (d_last7 d) (d_cws d) tr (d_reads d + 1),
   sw_of s' (d_extra d)).

(* a controlword write: the drive reacts at once *)
Definition wr_cw (d : drive) (cw : Z) : drive :=
  let path := command_path (d_st d) cw (d_last7 d) in
  mkDrive (last path (d_st d)) (d_sched d) (d_extra d) (cw_bit7 cw) (cw :: d_cws d)
          (rev path ++ d_trace d) (d_reads d).

(* ---- operation modes: CiA 402 object 0x6060 codes and the bit of each mode in 0x6502 ---- *)
Definition cia402_modes : list (string * (Z * option Z)) :=
  [ ("NO MODE", (0, None));
    ("PROFILED POSITION", (1, Some 0));
    ("VELOCITY", (2, Some 1));
    ("PROFILED VELOCITY", (3, Some 2));
    ("PROFILED TORQUE", (4, Some 3));
    ("HOMING", (6, Some 5));
    ("INTERPOLATED POSITION", (7, Some 6));
    ("CYCLIC SYNCHRONOUS POSITION", (8, Some 7));
    ("CYCLIC SYNCHRONOUS VELOCITY", (9, Some 8));
    ("CYCLIC SYNCHRONOUS TORQUE", (10, Some 9)) ]%string.

Definition mode_advertised (support : Z) (bit : option Z) : bool :=
  match bit with None => true | Some i => Z.testbit support i end.

(* the mode part of the drive: 0x6502 supported modes, 0x6060 written, 0x6061 displayed.
   The display follows a written mode after [lag] further reads of 0x6061. *)
Record mdrive := mkMDrive {
  m_support : Z;
  m_display : Z;
  m_pending : option Z;
  m_lag : nat;             (* configured lag *)
  m_wait : nat;            (* reads left before the pending mode is displayed *)
  m_writes : list Z;       (* values written to 0x6060, newest first *)
  m_reads : Z              (* reads of 0x6061 *)
}.

Definition mdrive_init (support display : Z) (lag : nat) : mdrive :=
  mkMDrive support display None lag 0 [] 0.

Definition m_write (d : mdrive) (code : Z) : mdrive :=
  match m_lag d with
  | O => mkMDrive (m_support d) code None O O (code :: m_writes d) (m_reads d)
  | n => mkMDrive (m_support d) (m_display d) (Some code) n n (code :: m_writes d) (m_reads d)
  end.

Definition m_read_display (d : mdrive) : mdrive * Z :=
  match m_pending d, m_wait d with
  | Some c, O => (mkMDrive (m_support d) c None (m_lag d) O (m_writes d) (m_reads d + 1), c)
  | Some c, S n => (mkMDrive (m_support d) (m_display d) (Some c) (m_lag d) n (m_writes d) (m_reads d + 1), m_display d)
  | None, _ => (mkMDrive (m_support d) (m_display d) None (m_lag d) (m_wait d) (m_writes d) (m_reads d + 1), m_display d)
  end.
