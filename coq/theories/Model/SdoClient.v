(* Model of canopen/sdo/client.py (expedited + segmented transfer):
     SdoClient.send_request / read_response / request_response / abort / upload / download,
     WritableStream.__init__ / write / close, ReadableStream.__init__ / read / readall,
   following the Python code function by function.  Definitions only.

   Python int = Z, bytes / frames = list Z, exceptions = res (Err kind / Abort code).
   The blocking call (send + queue.get(timeout)) is a peer function
       peer : S -> frame -> S * list frame
   giving the frames that reach the response queue before the time-out ([] = time-out).
   The raw-call sequences of io.BufferedWriter / BufferedReader / a write-all loop are inputs
   (write schedule = offered chunk sizes; read count), they are not modelled. *)
From Coq Require Import ZArith List Bool.
From CV Require Import Base.Val Base.Bytes Base.Tys Gen.SdoTables Gen.Tables Model.RefServer.
Import ListNotations.
Open Scope Z_scope.

Definition TIMEOUT_ABORT : Z := 84148224.   (* 0x05040000, literal in request_response *)

(* struct SDO_STRUCT "<BHB" .pack : range errors of struct *)
Definition pack_sdo (cmd idx sub : Z) : res (list Z) :=
  if (0 <=? cmd) && (cmd <? 256) && (0 <=? idx) && (idx <? 65536) && (0 <=? sub) && (sub <? 256)
  then Ok [cmd; idx mod 256; idx / 256; sub] else Err E_STRUCT.

(* SdoClient.abort: bytearray(8), [0] = REQUEST_ABORTED, "<L" code at offset 4 *)
Definition abort_frame (code : Z) : frame := REQUEST_ABORTED :: [0; 0; 0] ++ le_encode 4 code.

(* ws_error: the SDO error that ended the transfer (None = none; Some None = SdoCommunicationError;
   Some (Some c) = SdoAbortedError c), re-raised by every later write *)
Record wstream := {
  ws_size : option Z; ws_pos : Z; ws_toggle : Z; ws_exp : option (list Z); ws_done : bool;
  ws_error : option (option Z) }.
Record rstream := {
  rs_done : bool; rs_toggle : Z; rs_pos : Z; rs_size : option Z; rs_exp : option (list Z);
  rs_pending : list Z }.

Definition ws_new (size : option Z) : wstream :=
  {| ws_size := size; ws_pos := 0; ws_toggle := 0; ws_exp := None; ws_done := false; ws_error := None |}.
Definition rs_new : rstream :=
  {| rs_done := false; rs_toggle := 0; rs_pos := 0; rs_size := None; rs_exp := None; rs_pending := [] |}.

Section Client.
  Context {S : Type} (peer : S -> frame -> S * list frame).

  (* client + bus: peer state, SdoClient.responses, frames seen on the bus (newest first;
     0 :: request, 1 :: response) *)
  Record world := { w_s : S; w_q : list frame; w_log : list frame }.

  Definition set_q (q : list frame) (w : world) : world :=
    {| w_s := w_s w; w_q := q; w_log := w_log w |}.

  (* send_request (MAX_RETRIES / CanError path not modelled: the bus never raises) *)
  Definition send_request (w : world) (req : frame) : world :=
    let '(s', rs) := peer (w_s w) req in
    {| w_s := s'; w_q := w_q w ++ rs; w_log := rev (map (cons 1) rs) ++ (0 :: req) :: w_log w |}.

  Definition read_response (w : world) : world * res frame :=
    match w_q w with
    | [] => (w, Err E_SDOCOMM)                       (* queue.Empty -> SdoCommunicationError *)
    | r :: q' =>
        let w' := set_q q' w in
        match r with
        | [] => (w', Err E_STRUCT)
        | c :: _ =>
            if c =? RESPONSE_ABORTED then
              if (length r <? 8)%nat then (w', Err E_STRUCT)
              else (w', Abort (le_decode (firstn 4 (skipn 4 r))))
            else (w', Ok r)
        end
    end.

  Definition request_response (w : world) (req : frame) : world * res frame :=
    let w0 := match w_q w with [] => w | _ => set_q [] w end in
    let w1 := send_request w0 req in
    let '(w2, r) := read_response w1 in
    match r with
    | Err k => if k =? E_SDOCOMM then (send_request w2 (abort_frame TIMEOUT_ABORT), r) else (w2, r)
    | _ => (w2, r)
    end.

  (* ---------------- WritableStream ---------------- *)
  Definition ws_init (w : world) (idx sub : Z) (size : option Z) (force : bool)
      : world * wstream * res unit :=
    let st := ws_new size in
    let segmented := match size with None => true | Some z => (z <? 1) || (4 <? z) || force end in
    if segmented then
      let szb := match size with
                 | None => Ok [0; 0; 0; 0]
                 | Some z => if (0 <=? z) && (z <? 2 ^ 32) then Ok (le_encode 4 z) else Err E_STRUCT
                 end in
      let command := match size with
                     | None => REQUEST_DOWNLOAD
                     | Some _ => Z.lor REQUEST_DOWNLOAD SIZE_SPECIFIED
                     end in
      (* an SDO error of the initiate exchange (time-out, abort, unexpected response) is latched as in
         write(): _done = True, _error = exc, so that close() of the discarded object sends nothing *)
      let failed (e : option Z) := {| ws_size := size; ws_pos := 0; ws_toggle := 0; ws_exp := None;
                                      ws_done := true; ws_error := Some e |} in
      match szb with
      | Ok sz =>
          match pack_sdo command idx sub with
          | Ok hdr =>
              let '(w1, r) := request_response w (hdr ++ sz) in
              match r with
              | Ok resp =>
                  if nth 0 resp 0 =? RESPONSE_DOWNLOAD then (w1, st, Ok tt)
                  else (w1, failed None, Err E_SDOCOMM)
              | Err k => if k =? E_SDOCOMM then (w1, failed None, Err k) else (w1, st, Err k)
              | Abort c => (w1, failed (Some c), Abort c)
              end
          | Err k => (w, st, Err k)
          | Abort c => (w, st, Abort c)
          end
      | Err k => (w, st, Err k)
      | Abort c => (w, st, Abort c)
      end
    else
      let z := match size with Some z => z | None => 0 end in
      let command := Z.lor (Z.lor (Z.lor REQUEST_DOWNLOAD EXPEDITED) SIZE_SPECIFIED) (Z.shiftl (4 - z) 2) in
      match pack_sdo command idx sub with
      | Ok hdr =>
          (w, {| ws_size := size; ws_pos := 0; ws_toggle := 0; ws_exp := Some hdr; ws_done := false;
                 ws_error := None |}, Ok tt)
      | Err k => (w, st, Err k)
      | Abort c => (w, st, Abort c)
      end.

  Definition ws_write (w : world) (st : wstream) (b : list Z) : world * wstream * res Z :=
    if ws_done st then
      (w, st, match ws_error st with
              | Some None => Err E_SDOCOMM          (* the transfer has failed: same error again *)
              | Some (Some c) => Abort c
              | None => Err E_RUNTIME
              end)
    else
      match ws_exp st with
      | Some hdr =>
          let size := match ws_size st with Some z => z | None => 0 end in
          if zlen b <? size then (w, st, Ok 0)
          else if 4 <? zlen b then (w, st, Err E_OTHER)      (* AssertionError *)
          else
            let '(w1, r) := request_response w (hdr ++ pad_to 4 b) in
            match r with
            | Ok resp =>
                if Z.land (nth 0 resp 0) 224 =? RESPONSE_DOWNLOAD then
                  (w1, {| ws_size := ws_size st; ws_pos := ws_pos st + zlen b; ws_toggle := ws_toggle st;
                          ws_exp := ws_exp st; ws_done := true; ws_error := ws_error st |}, Ok (zlen b))
                else (w1, st, Err E_SDOCOMM)
            | Err k => (w1, st, Err k)
            | Abort c => (w1, st, Abort c)
            end
      | None =>
          let command0 := Z.lor REQUEST_SEGMENT_DOWNLOAD (ws_toggle st) in
          let toggle' := Z.lxor (ws_toggle st) TOGGLE_BIT in
          let n := Z.min (zlen b) 7 in
          let last := match ws_size st with Some z => z <=? ws_pos st + n | None => false end in
          let command1 := if last then Z.lor command0 NO_MORE_DATA else command0 in
          let command := Z.lor command1 (Z.shiftl (7 - n) 1) in
          (* toggle and _done advance only after the segment was confirmed (fix b4d915e): a write() repeated
             after a failed transmission sends the same segment again.  An SDO error of the exchange
             (time-out, abort, unexpected response) ends the transfer: _done = True, _error = exc *)
          let st1 := st in
          let failed (e : option Z) := {| ws_size := ws_size st; ws_pos := ws_pos st; ws_toggle := ws_toggle st;
                                          ws_exp := None; ws_done := true; ws_error := Some e |} in
          let req := command :: pad_to 7 (firstn (Z.to_nat n) b) in
          let '(w1, r) := request_response w req in
          match r with
          | Ok resp =>
              if Z.land (nth 0 resp 0) 224 =? RESPONSE_SEGMENT_DOWNLOAD then
                (w1, {| ws_size := ws_size st; ws_pos := ws_pos st + n; ws_toggle := toggle';
                        ws_exp := None; ws_done := last; ws_error := ws_error st |}, Ok n)
              else (w1, failed None, Err E_SDOCOMM)
          | Err k => if k =? E_SDOCOMM then (w1, failed None, Err k) else (w1, st1, Err k)
          | Abort c => (w1, failed (Some c), Abort c)
          end
      end.

  Definition ws_close (w : world) (st : wstream) : world * wstream * res unit :=
    if negb (ws_done st) && negb (match ws_exp st with Some _ => true | None => false end) then
      let command := Z.lor (Z.lor (Z.lor REQUEST_SEGMENT_DOWNLOAD NO_MORE_DATA) (ws_toggle st)) (Z.shiftl 7 1) in
      let '(w1, r) := request_response w (command :: [0; 0; 0; 0; 0; 0; 0]) in
      match r with
      | Ok _ => (w1, {| ws_size := ws_size st; ws_pos := ws_pos st; ws_toggle := ws_toggle st;
                        ws_exp := ws_exp st; ws_done := true; ws_error := ws_error st |}, Ok tt)
      | Err k => (w1, st, Err k)
      | Abort c => (w1, st, Abort c)
      end
    else (w, st, Ok tt).

  (* the raw-stream calls of one "with open(...) as fp: fp.write(...)": every element of the
     schedule is the number of bytes offered to WritableStream.write (a prefix of the data not
     yet accepted); the first exception ends the body *)
  Fixpoint write_sched (w : world) (st : wstream) (data : list Z) (sched : list Z)
      : world * wstream * res unit :=
    match sched with
    | [] => (w, st, Ok tt)
    | k :: ks =>
        let '(w1, st1, r) := ws_write w st (firstn (Z.to_nat k) data) in
        match r with
        | Ok n => write_sched w1 st1 (skipn (Z.to_nat n) data) ks
        | Err e => (w1, st1, Err e)
        | Abort c => (w1, st1, Abort c)
        end
    end.

  (* open(..., "wb", size, force_segment) + writes + close on leaving the with block.
     An exception of close() replaces the one of the body; a constructor that raises leaves a
     half-built stream whose finalizer runs close() (exceptions there are swallowed). *)
  Definition with_write (w : world) (idx sub : Z) (size : option Z) (force : bool)
      (data : list Z) (sched : list Z) : world * res unit :=
    let '(w0, st0, r0) := ws_init w idx sub size force in
    match r0 with
    | Ok _ =>
        let '(w1, st1, r1) := write_sched w0 st0 data sched in
        let '(w2, _, r2) := ws_close w1 st1 in
        (w2, match r2 with Ok _ => r1 | _ => r2 end)
    | _ => let '(w1, _, _) := ws_close w0 st0 in (w1, r0)
    end.

  (* The same through io.BufferedWriter / TextIOWrapper when something fails: the wrapper keeps the
     bytes of a failed flush and offers them again at the next flush / at close.  Its raw calls are
     replayed as recorded: k >= 0 = write() offered k bytes, k < 0 = close().  Every call is made
     whatever the earlier ones raised; the exception that reaches the caller is the last one. *)
  Fixpoint replay_ops (w : world) (st : wstream) (data : list Z) (ops : list Z) (r : res unit)
      : world * res unit :=
    match ops with
    | [] => (w, r)
    | k :: ks =>
        if k <? 0 then
          let '(w1, st1, r1) := ws_close w st in
          replay_ops w1 st1 data ks (match r1 with Ok _ => r | _ => r1 end)
        else
          let '(w1, st1, r1) := ws_write w st (firstn (Z.to_nat k) data) in
          match r1 with
          | Ok n => replay_ops w1 st1 (skipn (Z.to_nat n) data) ks r
          | Err e => replay_ops w1 st1 data ks (Err e)
          | Abort c => replay_ops w1 st1 data ks (Abort c)
          end
    end.

  Definition replay_write (w : world) (idx sub : Z) (size : option Z) (force : bool)
      (data : list Z) (ops : list Z) : world * res unit :=
    let '(w0, st0, r0) := ws_init w idx sub size force in
    match r0 with
    | Ok _ => replay_ops w0 st0 data ops (Ok tt)
    | _ => let '(w1, _, _) := ws_close w0 st0 in (w1, r0)
    end.

  (* SdoClient.download: open(index, subindex, "wb", buffering=7, size=len(data), force_segment) *)
  Definition sdo_download (w : world) (idx sub : Z) (data : list Z) (force : bool) (sched : list Z)
      : world * res unit :=
    with_write w idx sub (Some (zlen data)) force data sched.

  (* ---------------- ReadableStream ---------------- *)
  Definition rs_init (w : world) (idx sub : Z) : world * rstream * res unit :=
    match pack_sdo REQUEST_UPLOAD idx sub with
    | Ok hdr =>
        let '(w1, r) := request_response w (hdr ++ [0; 0; 0; 0]) in
        match r with
        | Ok resp =>
            if (length resp <? 4)%nat then (w1, rs_new, Err E_STRUCT)
            else
              let c := nth 0 resp 0 in
              let ridx := nth 1 resp 0 + 256 * nth 2 resp 0 in
              let rsub := nth 3 resp 0 in
              let res_data := firstn 4 (skipn 4 resp) in
              if negb (Z.land c 224 =? RESPONSE_UPLOAD) then (w1, rs_new, Err E_SDOCOMM)
              else if negb ((ridx =? idx) && (rsub =? sub)) then (w1, rs_new, Err E_SDOCOMM)
              else if negb (Z.land c EXPEDITED =? 0) then
                if negb (Z.land c SIZE_SPECIFIED =? 0) then
                  let size := 4 - Z.land (Z.shiftr c 2) 3 in
                  let d := firstn (Z.to_nat size) res_data in
                  (w1, {| rs_done := false; rs_toggle := 0; rs_pos := zlen d; rs_size := Some size;
                          rs_exp := Some d; rs_pending := [] |}, Ok tt)
                else
                  (w1, {| rs_done := false; rs_toggle := 0; rs_pos := zlen res_data; rs_size := None;
                          rs_exp := Some res_data; rs_pending := [] |}, Ok tt)
              else if negb (Z.land c SIZE_SPECIFIED =? 0) then
                if (length res_data =? 4)%nat then
                  (w1, {| rs_done := false; rs_toggle := 0; rs_pos := 0;
                          rs_size := Some (le_decode res_data); rs_exp := None; rs_pending := [] |}, Ok tt)
                else (w1, rs_new, Err E_STRUCT)
              else (w1, rs_new, Ok tt)
        | Err k => (w1, rs_new, Err k)
        | Abort c => (w1, rs_new, Abort c)
        end
    | Err k => (w, rs_new, Err k)
    | Abort c => (w, rs_new, Abort c)
    end.

  Definition set_pending (p : list Z) (st : rstream) : rstream :=
    {| rs_done := rs_done st; rs_toggle := rs_toggle st; rs_pos := rs_pos st; rs_size := rs_size st;
       rs_exp := rs_exp st; rs_pending := p |}.

  (* ReadableStream.read(size >= 0).  fuel bounds the recursion on empty non-final segments.
     Bytes left over from a readinto() with a small buffer are handed out first. *)
  Fixpoint rs_read (fuel : nat) (w : world) (st : rstream) : world * rstream * res (list Z) :=
    if negb (is_nil (rs_pending st)) then (w, set_pending [] st, Ok (rs_pending st))
    else if rs_done st then (w, st, Ok [])
    else
      match rs_exp st with
      | Some d =>
          (w, {| rs_done := true; rs_toggle := rs_toggle st; rs_pos := rs_pos st; rs_size := rs_size st;
                 rs_exp := rs_exp st; rs_pending := rs_pending st |}, Ok d)
      | None =>
          match fuel with
          | O => (w, st, Err E_FUEL)
          | Datatypes.S f =>
              let req := Z.lor REQUEST_SEGMENT_UPLOAD (rs_toggle st) :: [0; 0; 0; 0; 0; 0; 0] in
              let '(w1, r) := request_response w req in
              match r with
              | Ok resp =>
                  let c := nth 0 resp 0 in
                  if negb (Z.land c 224 =? RESPONSE_SEGMENT_UPLOAD) then (w1, st, Err E_SDOCOMM)
                  else if negb (Z.land c TOGGLE_BIT =? rs_toggle st) then (w1, st, Err E_SDOCOMM)
                  else
                    let len := 7 - Z.land (Z.shiftr c 1) 7 in
                    let done := negb (Z.land c NO_MORE_DATA =? 0) in
                    let st1 := {| rs_done := done; rs_toggle := Z.lxor (rs_toggle st) TOGGLE_BIT;
                                  rs_pos := rs_pos st + len; rs_size := rs_size st; rs_exp := None;
                                  rs_pending := rs_pending st |} in
                    if (len =? 0) && negb done then rs_read f w1 st1
                    else (w1, st1, Ok (firstn (Z.to_nat len) (skipn 1 resp)))
              | Err k => (w1, st, Err k)
              | Abort c => (w1, st, Abort c)
              end
          end
      end.

  (* RawIOBase.readall: read(DEFAULT_BUFFER_SIZE) until it returns b"" *)
  Fixpoint readall (rf fuel : nat) (w : world) (st : rstream) (acc : list Z)
      : world * rstream * res (list Z) :=
    match fuel with
    | O => (w, st, Err E_FUEL)
    | Datatypes.S f =>
        let '(w1, st1, r) := rs_read rf w st in
        match r with
        | Ok [] => (w1, st1, Ok acc)
        | Ok d => readall rf f w1 st1 (acc ++ d)
        | Err k => (w1, st1, Err k)
        | Abort c => (w1, st1, Abort c)
        end
    end.

  (* with open(index, subindex, buffering=0) as fp: size = fp.size; data = fp.read() *)
  Definition read_whole (fuel : nat) (w : world) (idx sub : Z) : world * option Z * res (list Z) :=
    let '(w0, st0, r0) := rs_init w idx sub in
    match r0 with
    | Ok _ =>
        match rs_exp st0 with
        | Some d => (w0, rs_size st0, Ok d)          (* read(-1) returns exp_data directly *)
        | None => let '(w1, _, r1) := readall fuel fuel w0 st0 [] in (w1, rs_size st0, r1)
        end
    | Err k => (w0, None, Err k)
    | Abort c => (w0, None, Abort c)
    end.

  (* ReadableStream.readinto(b), cap = len(b):
       if not self._pending: self._pending = self.read(7)
       count = min(len(b), len(self._pending)); b[:count] = self._pending[:count]
       self._pending = self._pending[count:]; return count
     cap < 0 stands for a plain read(n) call (RawIOBase.readall) *)
  Definition rs_readinto (rf : nat) (cap : Z) (w : world) (st : rstream) : world * rstream * res (list Z) :=
    if cap <? 0 then rs_read rf w st
    else
      match rs_pending st with
      | [] =>
          let '(w1, st1, r) := rs_read rf w st in
          match r with
          | Ok d =>
              let count := Z.to_nat (Z.min cap (zlen d)) in
              (w1, set_pending (skipn count d) st1, Ok (firstn count d))
          | _ => (w1, st1, r)
          end
      | p =>
          let count := Z.to_nat (Z.min cap (zlen p)) in
          (w, set_pending (skipn count p) st, Ok (firstn count p))
      end.

  (* the raw reads made by a buffered wrapper (one buffer capacity per call), concatenated;
     the first exception ends the reading *)
  Fixpoint read_caps (rf : nat) (caps : list Z) (w : world) (st : rstream) (acc : list Z)
      : world * rstream * res (list Z) :=
    match caps with
    | [] => (w, st, Ok acc)
    | cap :: cs =>
        let '(w1, st1, r) := rs_readinto rf cap w st in
        match r with
        | Ok d => read_caps rf cs w1 st1 (acc ++ d)
        | Err k => (w1, st1, Err k)
        | Abort c => (w1, st1, Abort c)
        end
    end.

  Definition open_read (fuel : nat) (caps : list Z) (w : world) (idx sub : Z) : world * res (list Z) :=
    let '(w0, st0, r0) := rs_init w idx sub in
    match r0 with
    | Ok _ => let '(w1, _, r1) := read_caps fuel caps w0 st0 [] in (w1, r1)
    | Err k => (w0, Err k)
    | Abort c => (w0, Abort c)
    end.

  (* len(var) // 8 for a variable whose data_type is in STRUCT_TYPES *)
  Definition packer_bytes (p : packer) : Z :=
    match p with PStruct _ w => w / 8 | PBool => 1 | PReal w => w / 8 | PIntN w => w / 8 | PUintN w => w / 8 end.
  Definition od_var_size (t : Z) : option Z :=
    match zassoc t STRUCT_TYPES with Some p => Some (packer_bytes p) | None => None end.

  Definition truncate (odt : option Z) (response_size : option Z) (data : list Z) : list Z :=
    match odt with
    | Some t =>
        match od_var_size t with
        | Some vs =>
            if match response_size with None => true | Some rs => vs <? rs end
            then firstn (Z.to_nat vs) data else data
        | None => data
        end
    | None => data
    end.

  (* SdoClient.upload; odt = data type of od.get_variable(index, subindex), None if not found *)
  Definition sdo_upload (fuel : nat) (w : world) (idx sub : Z) (odt : option Z) : world * res (list Z) :=
    let '(w1, size, r) := read_whole fuel w idx sub in
    match r with
    | Ok data => (w1, Ok (truncate odt size data))
    | _ => (w1, r)
    end.
End Client.

Arguments w_s {S} _.
Arguments w_q {S} _.
Arguments w_log {S} _.

(* =================== closed system: client + medium + reference server =================== *)
Definition cworld := @world net.

Inductive ul_mode := UUpload | URaw | UReads (caps : list Z).   (* upload() / open(buffering=0).read() / raw reads of a buffered wrapper *)

(* the client's object dictionary entry at the index of the transfer, as far as SdoClient.upload looks
   at it through ObjectDictionary.get_variable(index, subindex): a variable, a record or an array with
   the data types of the members it lists *)
Inductive odshape :=
| ONone                                        (* index not in the dictionary *)
| OVarT (dt : option Z)                        (* a plain OD variable: found whatever the sub-index *)
| ORecT (members : list (Z * option Z))        (* ODRecord.get(subindex) *)
| OArrT (members : list (Z * option Z)).       (* ODArray.get(subindex) *)

(* data_type of get_variable's result.  ODArray.__getitem__ answers an unlisted sub-index 1..255 with a
   variable made from the member at sub-index 1 (data_type copied); Mapping.get turns KeyError into None *)
Definition od_get_type (o : odshape) (sub : Z) : option Z :=
  match o with
  | ONone => None
  | OVarT dt => dt
  | ORecT ms => match zassoc sub ms with Some dt => dt | None => None end
  | OArrT ms =>
      match zassoc sub ms with
      | Some dt => dt
      | None => if (0 <? sub) && (sub <? 256)
                then match zassoc 1 ms with Some dt => dt | None => None end
                else None
      end
  end.

Inductive xfer_case :=
| TDl (idx sub : Z) (data : list Z) (size : option Z) (force : bool) (sched : list Z)
| TDlOps (idx sub : Z) (data : list Z) (size : option Z) (force : bool) (ops : list Z)  (* buffered open *)
| TUl (idx sub : Z) (od : odshape) (mode : ul_mode)
| TPut (idx sub : Z) (value : list Z).     (* the server's application changes the object *)

Record tcase := {
  t_style : style;
  t_fault : option (nat * fault);
  t_pre : list frame;          (* stale frames already in the response queue *)
  t_x : xfer_case }.

Record sdo_case := {
  c_store : list (Z * list Z);
  c_keys : list Z;             (* objects whose final value is observed *)
  c_full : bool;               (* observe complete frame traces (else only their length) *)
  c_ts : list tcase }.

Definition FUEL : nat := Z.to_nat 3000.

Definition run_xfer (w : cworld) (x : xfer_case) : cworld * val :=
  match x with
  | TDl idx sub data size force sched =>
      let '(w1, r) := with_write net_step w idx sub size force data sched in
      (w1, res_val (fun _ => VNone) r)
  | TDlOps idx sub data size force ops =>
      let '(w1, r) := replay_write net_step w idx sub size force data ops in
      (w1, res_val (fun _ => VNone) r)
  | TUl idx sub od UUpload =>
      let '(w1, r) := sdo_upload net_step FUEL w idx sub (od_get_type od sub) in (w1, res_val VB r)
  | TUl idx sub odt URaw =>
      let '(w1, _, r) := read_whole net_step FUEL w idx sub in (w1, res_val VB r)
  | TUl idx sub odt (UReads caps) =>
      let '(w1, r) := open_read net_step FUEL caps w idx sub in (w1, res_val VB r)
  | TPut idx sub v =>
      ({| w_s := with_srv (store_put [idx mod 256; idx / 256; sub] v) (w_s w); w_q := w_q w; w_log := w_log w |}, VNone)
  end.

Definition run_tcase (full : bool) (w : cworld) (t : tcase) : cworld * val :=
  let w0 : cworld := {| w_s := arm (t_fault t) (with_srv (set_style (t_style t)) (w_s w));
                        w_q := w_q w ++ t_pre t; w_log := [] |} in
  let '(w1, v) := run_xfer w0 (t_x t) in
  let tr := rev (w_log w1) in
  ({| w_s := arm None (w_s w1); w_q := w_q w1; w_log := [] |},
   VL [v; if full then VL (map VB tr) else VZ (zlen tr); VZ (zlen (s_viol (n_srv (w_s w1))))]).

Fixpoint run_tcases (full : bool) (w : cworld) (ts : list tcase) : cworld * list val :=
  match ts with
  | [] => (w, [])
  | t :: r => let '(w1, v) := run_tcase full w t in
              let '(w2, vs) := run_tcases full w1 r in (w2, v :: vs)
  end.

Definition init_world (store : list (Z * list Z)) : cworld :=
  {| w_s := net_of {| s_store := store; s_x := XNone; s_viol := []; s_style := default_style |};
     w_q := []; w_log := [] |}.

Definition run_sdoclient (c : sdo_case) : val :=
  let '(w, vs) := run_tcases (c_full c) (init_world (c_store c)) (c_ts c) in
  let s := n_srv (w_s w) in
  VL [VL vs;
      VL (map (fun k => VL [VZ k; vopt VB (zassoc k (s_store s))]) (c_keys c));
      VL (map VZ (rev (s_viol s)))].

(* =================== specification vocabulary (used by Properties/C01.v, C07.v) =================== *)
Definition mux_ok (idx sub : Z) : Prop := 0 <= idx < 65536 /\ 0 <= sub < 256.
Definition mux_bytes (idx sub : Z) : list Z := [idx mod 256; idx / 256; sub].

(* WritableStream chooses expedited transfer *)
Definition expedited (size : option Z) (force : bool) : bool :=
  match size with Some z => (1 <=? z) && (z <=? 4) && negb force | None => false end.

(* a write schedule for a segmented stream: every offer is a non-empty prefix of the data not yet
   accepted (a segmented write accepts min(k, 7) bytes) and all data is offered in the end *)
Fixpoint valid_seg_sched (sched : list Z) (len : Z) : Prop :=
  match sched with
  | [] => len = 0
  | k :: ks => 1 <= k <= len /\ valid_seg_sched ks (len - Z.min k 7)
  end.
(* an expedited raw stream must be offered all its (size = len) bytes at once *)
Definition valid_sched (exp : bool) (sched : list Z) (len : Z) : Prop :=
  if exp then sched = [len] else valid_seg_sched sched len.

(* outcomes the property allows for a disturbed transfer besides success *)
Definition sdo_error {A} (r : res A) : Prop := r = Err E_SDOCOMM \/ exists c, r = Abort c.

(* what an upload hands to the caller before the dictionary truncation: the value, or the four data
   bytes of an expedited response that does not indicate its size *)
Definition wire_value (st : style) (v : list Z) : list Z :=
  if st_expedite st && (1 <=? zlen v) && (zlen v <=? 4) && negb (st_exp_size st) then pad_to 4 v else v.
Definition size_indicated (st : style) (v : list Z) : bool :=
  if st_expedite st && (1 <=? zlen v) && (zlen v <=? 4) then st_exp_size st else st_size_ind st.

(* well-formed frames of a disturbance: 8 bytes *)
Definition frame8 (fr : frame) : Prop := length fr = 8%nat.
Definition fault_wf (f : fault) : Prop :=
  match f with
  | FReplace frs => Forall frame8 frs
  | FStale fr => frame8 fr
  | FMux m => length m = 3%nat
  | _ => True
  end.
Definition xfer_wf (x : xfer) : Prop :=
  match x with XNone => True | XDl mux _ _ _ => length mux = 3%nat | XUl mux _ _ _ => length mux = 3%nat end.
Definition net_wf (n : net) : Prop :=
  xfer_wf (s_x (n_srv n)) /\ match n_fault n with Some (_, f) => fault_wf f | None => True end.

(* the disturbances of an upload that the SDO protocol can tell from the genuine response
   (or that leave it intact); t = toggle bit expected in the next segment response *)
Definition seg_fault_ok (t : bool) (f : fault) : Prop :=
  match f with
  | FLost | FLostReq | FDelay | FDup => True
  | FReplace frs => match frs with [] => True | fr :: _ => frame8 fr /\ nth 0 fr 0 = 128 end
  | FXor0 m => 0 < m < 256 /\ m mod 16 = 0
  | FMux _ => False
  | FStale fr => frame8 fr /\ (Z.land (nth 0 fr 0) 224 <> 0 \/ Z.testbit (nth 0 fr 0) 4 <> t)
  end.
Definition init_fault_ok (idx sub : Z) (f : fault) : Prop :=
  match f with
  | FLost | FLostReq | FDelay | FDup => True
  | FReplace frs => match frs with [] => True | fr :: _ => frame8 fr /\ nth 0 fr 0 = 128 end
  | FXor0 m => 0 < m < 256 /\ m mod 16 = 0
  | FMux m => length m = 3%nat /\ m <> mux_bytes idx sub /\ Forall (fun b => 0 <= b < 256) m
  | FStale fr => frame8 fr /\ Forall (fun b => 0 <= b < 256) fr /\
                 (Z.land (nth 0 fr 0) 224 <> 64 \/ firstn 3 (skipn 1 fr) <> mux_bytes idx sub)
  end.
(* disturbance armed for the k-th frame of an upload *)
Definition ul_fault_ok (idx sub : Z) (kf : option (nat * fault)) : Prop :=
  match kf with
  | None => True
  | Some (O, f) => init_fault_ok idx sub f
  | Some (Datatypes.S j, f) => seg_fault_ok (Nat.odd j) f
  end.

(* result of SdoClient.upload: the dictionary truncation applied to what the stream hands out *)
Definition expected_upload (st : style) (odt : option Z) (v : list Z) : list Z :=
  truncate odt (if size_indicated st v then Some (zlen v) else None) (wire_value st v).

(* raw reads that can deliver data (a zero-length buffer cannot) *)
Definition active_caps (caps : list Z) : nat := length (filter (fun c => negb (c =? 0)) caps).

(* disturbances after which the client sees no response before its time-out *)
Definition lost_like (f : fault) : Prop :=
  match f with FLost | FLostReq | FDelay => True | FReplace [] => True | _ => False end.
Definition timeout_abort_frame : frame := 0 :: abort_frame TIMEOUT_ABORT.   (* log entry: 0 = request *)
(* the disturbance is still pending, or the client has put the time-out abort on the bus *)
Definition lost_seen (f : fault) (w : cworld) : Prop :=
  (exists j, n_fault (w_s w) = Some (j, f)) \/ In timeout_abort_frame (w_log w).

(* ---- sequences of transfers: what each transfer must do, in terms of the server's store only ---- *)
Definition spec_xfer (sty : style) (store : list (Z * list Z)) (x : xfer_case) : list (Z * list Z) * val :=
  match x with
  | TDl idx sub data _ _ _ => ((mux_key idx sub, data) :: store, VNone)
  | TDlOps idx sub data _ _ _ => ((mux_key idx sub, data) :: store, VNone)
  | TPut idx sub v => ((mux_key idx sub, v) :: store, VNone)
  | TUl idx sub odt mode =>
      (store,
       match zassoc (mux_key idx sub) store with
       | None => VAbort 100794368      (* 0x06020000 object does not exist *)
       | Some v => match mode with
                   | UUpload => VB (expected_upload sty (od_get_type odt sub) v)
                   | _ => VB (wire_value sty v)
                   end
       end)
  end.

Definition xfer_ok (sty : style) (store : list (Z * list Z)) (x : xfer_case) : Prop :=
  match x with
  | TDl idx sub data size force sched =>
      mux_ok idx sub /\ zlen data < 2 ^ 32 /\ (size = None \/ size = Some (zlen data)) /\
      valid_sched (expedited size force) sched (zlen data)
  | TDlOps idx sub data size force ops =>     (* the raw calls of a run in which nothing failed *)
      mux_ok idx sub /\ zlen data < 2 ^ 32 /\ (size = None \/ size = Some (zlen data)) /\
      exists sched, ops = sched ++ [-1] /\ Forall (fun k => 0 <= k) sched /\
                    valid_sched (expedited size force) sched (zlen data)
  | TPut idx sub v => mux_ok idx sub
  | TUl idx sub odt mode =>
      mux_ok idx sub /\
      match zassoc (mux_key idx sub) store with
      | None => True
      | Some v => zlen v < 2 ^ 32 /\ (length (st_segs sty) < FUEL)%nat /\ (length v + 2 <= FUEL)%nat /\
                  match mode with UReads caps => (length (wire_value sty v) <= active_caps caps)%nat | _ => True end
      end
  end.

Fixpoint seq_ok (store : list (Z * list Z)) (ts : list tcase) : Prop :=
  match ts with
  | [] => True
  | t :: r => t_fault t = None /\ xfer_ok (t_style t) store (t_x t) /\
              seq_ok (fst (spec_xfer (t_style t) store (t_x t))) r
  end.
Fixpoint spec_seq (store : list (Z * list Z)) (ts : list tcase) : list (Z * list Z) * list val :=
  match ts with
  | [] => (store, [])
  | t :: r => let '(st1, v) := spec_xfer (t_style t) store (t_x t) in
              let '(st2, vs) := spec_seq st1 r in (st2, v :: vs)
  end.
(* the result component of what run_tcase observes *)
Definition obs_result (o : val) : val := match o with VL (v :: _) => v | _ => VNone end.
