(* Reference peer for C02 / C06: a conformant CiA 301 SDO client (normal transfers) that
   validates every server response, and the well-formedness rules for server responses to
   arbitrary request frames.  Written from the standard, NOT from the library; generic in the
   server ([step] is the server's receive function).  Definitions only.
   The Python twin is harness/ref/sdo_ref_client.py (tied by the correspondence check). *)
From Coq Require Import ZArith List Bool.
From CV Require Import Base.Val Base.Bytes.
Import ListNotations.
Open Scope Z_scope.

Definition frame := list Z.

(* protocol violations detected by the reference client (reported as [Err k]) *)
Definition V_COUNT : Z := 201.      (* not exactly one 8-byte response, or the server raised *)
Definition V_ABORT_MUX : Z := 202.  (* abort frame names another multiplexer than the transfer's *)
Definition V_INIT : Z := 203.       (* malformed initiate response (scs, reserved bit, multiplexer, e/s/n) *)
Definition V_PAD : Z := 204.        (* unused / reserved bytes not zero *)
Definition V_SEG : Z := 205.        (* segment response: wrong scs or toggle *)
Definition V_SIZE : Z := 206.       (* announced size not met / last flag not exactly when data is exhausted *)
Definition V_USAGE : Z := 207.      (* the caller asked for an impossible transfer (never generated) *)

Definition mux_bytes (idx sub : Z) : list Z := [idx mod 256; (idx / 256) mod 256; sub].

Definition all_zero (l : list Z) : bool := forallb (Z.eqb 0) l.

(* exactly one response of exactly 8 bytes and nothing raised *)
Definition one_resp (rs : list frame) (raised : bool) : option frame :=
  match rs, raised with
  | [r], false => if zlen r =? 8 then Some r else None
  | _, _ => None
  end.

(* an abort frame received during the transfer idx:sub: code, if it names that multiplexer *)
Definition abort_result (idx sub : Z) (b1 b2 b3 c0 c1 c2 c3 : Z) : res (list Z) :=
  if (b1 + 256 * b2 =? idx) && (b3 =? sub) then Abort (le_decode [c0; c1; c2; c3])
  else Err V_ABORT_MUX.

(* the standard's frames *)
Definition upload_request (idx sub : Z) : frame := 64 :: mux_bytes idx sub ++ [0; 0; 0; 0].
Definition segment_request (t : Z) : frame := [96 + 16 * t; 0; 0; 0; 0; 0; 0; 0].
Definition abort_frame_of (idx sub code : Z) : frame := 128 :: mux_bytes idx sub ++ le_encode 4 code.

(* what a conformant server sends for a segmented / expedited upload of [data] (canonical form:
   size always indicated, unused bytes zero).  Segment i has toggle i mod 2, carries bytes
   7i .. 7i+6, and has c = 1 exactly when nothing is left. *)
Definition seg_resp (t : Z) (d : list Z) (last : bool) : frame :=
  (16 * t + 2 * (7 - zlen d) + (if last then 1 else 0)) :: d ++ repeat 0 (7 - length d).

Fixpoint seg_frames (fuel : nat) (t : Z) (buf : list Z) : list frame :=
  match fuel with
  | O => []
  | S f =>
      let d := firstn 7 buf in
      match skipn 7 buf with
      | [] => [seg_resp t d true]
      | r => seg_resp t d false :: seg_frames f (1 - t) r
      end
  end.

Definition upload_frames (idx sub : Z) (data : list Z) : list frame :=
  let n := zlen data in
  if (0 <? n) && (n <=? 4) then
    [ (67 + 4 * (4 - n)) :: mux_bytes idx sub ++ data ++ repeat 0 (4 - length data) ]
  else
    (65 :: mux_bytes idx sub ++ le_encode 4 n) :: seg_frames (S (length data)) 0 data.

Section Client.
  Context {St : Type} (step : St -> frame -> St * list frame * bool).

  (* ---- upload ---- *)
  Fixpoint ul_loop (fuel : nat) (s : St) (idx sub t : Z) (acc : list Z) (size : option Z)
           (tr : list frame) : St * res (list Z) * list frame :=
    match fuel with
    | O => (s, Err E_FUEL, tr)
    | S f =>
      let '(s1, rs, raised) := step s (segment_request t) in
      let tr1 := tr ++ rs in
      match one_resp rs raised with
      | Some [c; d1; d2; d3; d4; d5; d6; d7] =>
        if c =? 128 then (s1, abort_result idx sub d1 d2 d3 d4 d5 d6 d7, tr1)
        else if negb ((c / 32 =? 0) && ((c / 16) mod 2 =? t)) then (s1, Err V_SEG, tr1)
        else
          let n := (c / 2) mod 8 in
          let last := c mod 2 =? 1 in
          let ds := [d1; d2; d3; d4; d5; d6; d7] in
          let k := Z.to_nat (7 - n) in
          if negb (all_zero (skipn k ds)) then (s1, Err V_PAD, tr1)
          else
            let acc1 := acc ++ firstn k ds in
            let complete := match size with Some sz => zlen acc1 =? sz | None => last end in
            let over := match size with Some sz => sz <? zlen acc1 | None => false end in
            if over || negb (Bool.eqb last complete) then (s1, Err V_SIZE, tr1)
            else if last then (s1, Ok acc1, tr1)
            else ul_loop f s1 idx sub (1 - t) acc1 size tr1
      | _ => (s1, Err V_COUNT, tr1)
      end
    end.

  Definition ref_upload (fuel : nat) (s : St) (idx sub : Z) : St * res (list Z) * list frame :=
    let '(s1, rs, raised) := step s (upload_request idx sub) in
    match one_resp rs raised with
    | Some [c; b1; b2; b3; d0; d1; d2; d3] =>
      if c =? 128 then (s1, abort_result idx sub b1 b2 b3 d0 d1 d2 d3, rs)
      else if negb ((c / 32 =? 2) && ((c / 16) mod 2 =? 0) && (b1 + 256 * b2 =? idx) && (b3 =? sub))
      then (s1, Err V_INIT, rs)
      else
        let e := (c / 2) mod 2 in
        let sz := c mod 2 in
        let n := (c / 4) mod 4 in
        let ds := [d0; d1; d2; d3] in
        if e =? 1 then
          if (sz =? 0) && negb (n =? 0) then (s1, Err V_INIT, rs)
          else
            let k := Z.to_nat (4 - n) in
            if negb (all_zero (skipn k ds)) then (s1, Err V_PAD, rs)
            else (s1, Ok (firstn k ds), rs)
        else if negb (n =? 0) then (s1, Err V_INIT, rs)
        else if sz =? 1 then ul_loop fuel s1 idx sub 0 [] (Some (le_decode ds)) rs
        else if negb (all_zero ds) then (s1, Err V_PAD, rs)
        else ul_loop fuel s1 idx sub 0 [] None rs
    | _ => (s1, Err V_COUNT, rs)
    end.

  (* ---- download ---- *)
  Fixpoint dl_loop (fuel : nat) (s : St) (idx sub t : Z) (rest : list Z) (tr : list frame)
    : St * res (list Z) * list frame :=
    match fuel with
    | O => (s, Err E_FUEL, tr)
    | S f =>
      let chunk := firstn 7 rest in
      let rest' := skipn 7 rest in
      let last := match rest' with [] => true | _ => false end in
      let cmd := 16 * t + 2 * (7 - zlen chunk) + (if last then 1 else 0) in
      let '(s1, rs, raised) := step s (cmd :: chunk ++ repeat 0 (7 - length chunk)) in
      let tr1 := tr ++ rs in
      match one_resp rs raised with
      | Some [c; d1; d2; d3; d4; d5; d6; d7] =>
        if c =? 128 then (s1, abort_result idx sub d1 d2 d3 d4 d5 d6 d7, tr1)
        else if (c =? 32 + 16 * t) && all_zero [d1; d2; d3; d4; d5; d6; d7] then
          if last then (s1, Ok [], tr1) else dl_loop f s1 idx sub (1 - t) rest' tr1
        else (s1, Err V_SEG, tr1)
      | _ => (s1, Err V_COUNT, tr1)
      end
    end.

  (* mode 0: expedited, size indicated (1..4 bytes); 1: expedited, size not indicated (4 bytes);
     2: segmented, size indicated; 3: segmented, size not indicated *)
  Definition download_request (idx sub : Z) (data : list Z) (mode : Z) : option frame :=
    let n := zlen data in
    if mode =? 0 then
      if (1 <=? n) && (n <=? 4)
      then Some ((35 + 4 * (4 - n)) :: mux_bytes idx sub ++ data ++ repeat 0 (4 - length data))
      else None
    else if mode =? 1 then
      if n =? 4 then Some (34 :: mux_bytes idx sub ++ data) else None
    else if mode =? 2 then
      if n <? 2 ^ 32 then Some (33 :: mux_bytes idx sub ++ le_encode 4 n) else None
    else if mode =? 3 then Some (32 :: mux_bytes idx sub ++ [0; 0; 0; 0])
    else None.

  Definition ref_download (fuel : nat) (s : St) (idx sub : Z) (data : list Z) (mode : Z)
    : St * res (list Z) * list frame :=
    match download_request idx sub data mode with
    | None => (s, Err V_USAGE, [])
    | Some req =>
      let '(s1, rs, raised) := step s req in
      match one_resp rs raised with
      | Some [c; b1; b2; b3; d0; d1; d2; d3] =>
        if c =? 128 then (s1, abort_result idx sub b1 b2 b3 d0 d1 d2 d3, rs)
        else if (c =? 96) && (b1 + 256 * b2 =? idx) && (b3 =? sub) && all_zero [d0; d1; d2; d3] then
          if mode <? 2 then (s1, Ok [], rs) else dl_loop fuel s1 idx sub 0 data rs
        else (s1, Err V_INIT, rs)
      | _ => (s1, Err V_COUNT, rs)
      end
    end.
End Client.

(* ---- one well-formed response per request, for ARBITRARY request frames ----
   [cur] is the multiplexer of the running transfer: that of the latest initiate request
   (download, upload, block upload) long enough to carry one; 0:0 before any.
   Where the standard is silent the rule is permissive (DESIGN.md section 6, C02):
   - an initiate request is answered by its initiate response or an abort, both echoing the
     multiplexer of the request (if the frame is too short to carry one: any of the three below);
   - a segment request is answered by the segment response with the toggle of the request, or an
     abort naming the running transfer;
   - block download / unknown command: one abort, naming the frame's multiplexer, the running
     transfer's, or zero;
   - a full (8-byte) client abort draws no response; a truncated one none or one abort. *)
Definition frame_mux (req : frame) : option (Z * Z) :=
  match req with _ :: lo :: hi :: sub :: _ => Some (lo + 256 * hi, sub) | _ => None end.

Definition mux_eqb (a b : Z * Z) : bool := (fst a =? fst b) && (snd a =? snd b).

Definition permissive_mux (cur : Z * Z) (req : frame) (m : Z * Z) : bool :=
  mux_eqb m cur || mux_eqb m (0, 0) ||
  match frame_mux req with Some fm => mux_eqb m fm | None => false end.

Definition initiating (ccs : Z) : bool := (ccs =? 1) || (ccs =? 2) || (ccs =? 5).

Definition next_mux (cur : Z * Z) (req : frame) : Z * Z :=
  match req with
  | c :: _ => if initiating (c / 32) then match frame_mux req with Some fm => fm | None => cur end else cur
  | [] => cur
  end.

Definition abort_mux_ok (cur : Z * Z) (req : frame) (ccs : Z) (m : Z * Z) : bool :=
  if initiating ccs then
    match frame_mux req with Some fm => mux_eqb m fm | None => permissive_mux cur req m end
  else if (ccs =? 0) || (ccs =? 3) then mux_eqb m cur
  else permissive_mux cur req m.

Definition resp_wf (cur : Z * Z) (req : frame) (rs : list frame) (raised : bool) : bool :=
  match req with
  | [] => true                               (* outside the property: CAN frames of 1..8 bytes *)
  | c :: _ =>
    let ccs := c / 32 in
    negb raised &&
    match rs with
    | [] => (ccs =? 4)
    | [[rc; b1; b2; b3; d0; d1; d2; d3]] =>
      let m := (b1 + 256 * b2, b3) in
      if ccs =? 4 then (zlen req <? 8) && (rc =? 128) && permissive_mux cur req m
      else if rc =? 128 then abort_mux_ok cur req ccs m
      else if (ccs =? 2) || (ccs =? 5) then
        (* initiate upload response *)
        (rc / 32 =? 2) && ((rc / 16) mod 2 =? 0) &&
        match frame_mux req with Some fm => mux_eqb m fm | None => false end &&
        (let e := (rc / 2) mod 2 in let s := rc mod 2 in let n := (rc / 4) mod 4 in
         if e =? 1 then (if s =? 1 then all_zero (skipn (Z.to_nat (4 - n)) [d0; d1; d2; d3]) else n =? 0)
         else (n =? 0) && (if s =? 1 then true else all_zero [d0; d1; d2; d3]))
      else if ccs =? 3 then
        (* upload segment response: toggle of the request, unused bytes zero *)
        (rc / 32 =? 0) && ((rc / 16) mod 2 =? (c / 16) mod 2) &&
        all_zero (skipn (Z.to_nat (7 - (rc / 2) mod 8)) [b1; b2; b3; d0; d1; d2; d3])
      else if ccs =? 1 then
        (rc =? 96) && match frame_mux req with Some fm => mux_eqb m fm | None => false end &&
        all_zero [d0; d1; d2; d3]
      else if ccs =? 0 then
        (rc =? 32 + 16 * ((c / 16) mod 2)) && all_zero [b1; b2; b3; d0; d1; d2; d3]
      else false                             (* block download / unknown: only an abort *)
    | _ => false
    end
  end.

Fixpoint check_hist (cur : Z * Z) (reqs : list frame) (outs : list (list frame * bool)) : bool :=
  match reqs, outs with
  | [], [] => true
  | f :: reqs', (rs, raised) :: outs' =>
      resp_wf cur f rs raised && check_hist (next_mux cur f) reqs' outs'
  | _, _ => false
  end.
