(* Model of canopen/emcy.py: EMCY_STRUCT ("<HB5s"), EmcyConsumer (on_emcy, add_callback, reset,
   wait), EmcyProducer (send, reset), EmcyError.get_desc.  Definitions only.
   Tables: Gen/EmcyTables.v (frame layout, DESCRIPTIONS) regenerated from /repo on every run. *)
From Coq Require Import ZArith List Bool.
From Coq Require String Ascii.
From CV Require Import Base.Val Base.Bytes Base.Tys Gen.EmcyTables.
Import ListNotations.
Open Scope Z_scope.

(* ---- text: Coq strings of the generated table as code points (the observation type uses VS) ---- *)
Fixpoint str_codes (s : String.string) : list Z :=
  match s with
  | String.EmptyString => []
  | String.String a r => Z.of_N (Ascii.N_of_ascii a) :: str_codes r
  end.

(* ---- EmcyError: (code, register, data, timestamp) ---- *)
Record entry := mkE { e_code : Z; e_reg : Z; e_data : list Z; e_ts : Z }.

Definition entry_val (e : entry) : val := VL [VZ (e_code e); VZ (e_reg e); VB (e_data e); VZ (e_ts e)].

(* ---- EMCY_STRUCT.unpack: exactly EMCY_SIZE bytes, else struct.error ---- *)
Definition decode_emcy (frame : list Z) (ts : Z) : res entry :=
  if zlen frame =? EMCY_SIZE then
    let nc := Z.to_nat EMCY_CODE_BYTES in
    let nr := Z.to_nat EMCY_REG_BYTES in
    Ok (mkE (le_decode (firstn nc frame))
            (le_decode (firstn nr (skipn nc frame)))
            (firstn (Z.to_nat EMCY_DATA_BYTES) (skipn (nc + nr) frame))
            ts)
  else Err E_STRUCT.

(* ---- EMCY_STRUCT.pack(code, register, data): range errors of H and B, "5s" pads with zero
        bytes and truncates ---- *)
Definition pad_data (data : list Z) : list Z :=
  let n := Z.to_nat EMCY_DATA_BYTES in firstn n (data ++ repeat 0 n).

Definition encode_emcy (code reg : Z) (data : list Z) : res (list Z) :=
  if (0 <=? code) && (code <? 2 ^ (8 * EMCY_CODE_BYTES)) && (0 <=? reg) && (reg <? 2 ^ (8 * EMCY_REG_BYTES)) then
    Ok (le_encode (Z.to_nat EMCY_CODE_BYTES) code ++ le_encode (Z.to_nat EMCY_REG_BYTES) reg ++ pad_data data)
  else Err E_STRUCT.

(* EmcyProducer.send / reset: the frame handed to network.send_message (on cob_id) *)
Definition producer_send (code reg : Z) (data : list Z) : res (list Z) := encode_emcy code reg data.
Definition producer_reset (reg : Z) (data : list Z) : res (list Z) := encode_emcy 0 reg data.

(* ---- EmcyConsumer ---- *)
(* callbacks are identified by their registration index 0, 1, ...; the callback log records
   (callback id, entry) for every invocation, in invocation order *)
Record cstate := mkS { s_log : list entry; s_active : list entry; s_ncb : nat; s_cblog : list (Z * entry) }.

Definition init (ncb : nat) : cstate := mkS [] [] ncb [].

Definition cb_ids (n : nat) : list Z := map Z.of_nat (seq 0 n).

(* on_emcy: "if code & 0xFF00 == 0" *)
Definition is_reset_code (code : Z) : bool := Z.land code 65280 =? 0.
Definition is_reset (e : entry) : bool := is_reset_code (e_code e).

Definition record_entry (s : cstate) (e : entry) : cstate :=
  mkS (s_log s ++ [e])
      (if is_reset e then [] else s_active s ++ [e])
      (s_ncb s)
      (s_cblog s ++ map (fun i => (i, e)) (cb_ids (s_ncb s))).

Definition on_emcy (s : cstate) (frame : list Z) (ts : Z) : res cstate :=
  rbind (decode_emcy frame ts) (fun e => Ok (record_entry s e)).

Definition add_callback (s : cstate) : cstate := mkS (s_log s) (s_active s) (S (s_ncb s)) (s_cblog s).

Definition consumer_reset (s : cstate) : cstate := mkS [] [] (s_ncb s) (s_cblog s).

(* a frame whose unpack raises leaves the consumer untouched (the exception goes to the caller) *)
Definition feed1 (s : cstate) (ft : list Z * Z) : cstate :=
  match on_emcy s (fst ft) (snd ft) with Ok s' => s' | _ => s end.

Definition feed (s : cstate) (frames : list (list Z * Z)) : cstate := fold_left feed1 frames s.

(* the entries of the frames that decode, in arrival order *)
Definition decoded (frames : list (list Z * Z)) : list entry :=
  flat_map (fun ft => match decode_emcy (fst ft) (snd ft) with Ok e => [e] | _ => [] end) frames.

(* ---- EmcyError.get_desc: first row with code & mask == row code ---- *)
Fixpoint desc_lookup (rows : list (Z * Z * String.string)) (code : Z) : list Z :=
  match rows with
  | [] => []
  | (c, m, d) :: r => if Z.land code m =? c then str_codes d else desc_lookup r code
  end.

Definition get_desc (code : Z) : list Z := desc_lookup DESCRIPTIONS code.

(* ---- EmcyConsumer.wait(emcy_code, timeout) ----
   The condition variable and the clock are not modelled.  What is modelled is what the loop does
   at each wake-up of emcy_received.wait(); the wake-up schedule is an input, a list of
     WTimeout          - woke up with the log unchanged ("Resumed due to timeout")
     WNew batch late   - [batch] = the entries appended to the log since the previous look at it
                         (all seen by this one look), [late] = time.time() > end_time at this wake-up.
   The caller holds the lock of emcy_received for the whole loop except inside Condition.wait(), and
   on_emcy appends under the same lock, so entries can only be logged while the caller sits in
   Condition.wait(): every logged entry belongs to the batch of exactly one wake-up.
   prev_log_size is the length of the log at the previous look; after a wake-up the loop tests the
   length, then the deadline, then scans self.log[prev_log_size:] in order. *)
Inductive wake := WTimeout | WNew (batch : list entry) (late : bool).

Definition matchb (filt : option Z) (e : entry) : bool :=
  match filt with None => true | Some c => e_code e =? c end.

Fixpoint wait_scan (filt : option Z) (log : list entry) (ws : list wake) : option entry :=
  match ws with
  | [] => None                                   (* no further arrival: the wait times out *)
  | WTimeout :: _ => None
  | WNew batch late :: r =>
      let log' := log ++ batch in
      if (length log' =? length log)%nat then None
      else if late then None
      else match find (matchb filt) (skipn (length log) log') with
           | Some e => Some e
           | None => wait_scan filt log' r
           end
  end.

(* ---- runner for the correspondence check ---- *)
Inductive emcy_op :=
| OFrame (frame : list Z) (ts : Z)
| OAddCb
| OReset.

Definition state_val (s : cstate) : val :=
  VL [VL (map entry_val (s_log s)); VL (map entry_val (s_active s));
      VL (map (fun p => VL [VZ (fst p); entry_val (snd p)]) (s_cblog s))].

(* one observation per operation: the consumer state after it, or the exception *)
Fixpoint run_ops (s : cstate) (ops : list emcy_op) : list val :=
  match ops with
  | [] => []
  | OFrame f ts :: r =>
      match on_emcy s f ts with
      | Ok s' => state_val s' :: run_ops s' r
      | Err k => VErr k :: run_ops s r
      | Abort c => VAbort c :: run_ops s r
      end
  | OAddCb :: r => let s' := add_callback s in state_val s' :: run_ops s' r
  | OReset :: r => let s' := consumer_reset s in state_val s' :: run_ops s' r
  end.

(* KLate: the clock has passed the deadline before these frames are logged *)
Inductive wake_case := KTimeout | KNew (frames : list (list Z * Z)) | KLate (frames : list (list Z * Z)).

Definition wake_of (k : wake_case) : wake :=
  match k with KTimeout => WTimeout | KNew fs => WNew (decoded fs) false | KLate fs => WNew (decoded fs) true end.

(* a sequence of messages from ONE EmcyProducer into one consumer (the producer keeps no state between messages) *)
Inductive prod_msg := PSend (code reg : Z) (data : list Z) | PReset (reg : Z) (data : list Z).

Definition producer_msg (m : prod_msg) : res (list Z) :=
  match m with PSend c r d => producer_send c r d | PReset r d => producer_reset r d end.

(* message i is sent at timestamp ts + i; a refused message sends nothing *)
Fixpoint produce_all (s : cstate) (ts : Z) (msgs : list prod_msg) : cstate :=
  match msgs with
  | [] => s
  | m :: r => match producer_msg m with
              | Ok f => produce_all (feed1 s (f, ts)) (ts + 1) r
              | _ => produce_all s (ts + 1) r
              end
  end.

Fixpoint produce_obs (msgs : list prod_msg) : list val :=
  match msgs with [] => [] | m :: r => res_val VB (producer_msg m) :: produce_obs r end.

Inductive emcy_case :=
| CHist (ncb : Z) (ops : list emcy_op)
| CProd (code reg : Z) (data : list Z)
| CProdReset (reg : Z) (data : list Z)
| CRound (code reg : Z) (data : list Z) (ts : Z)
| CDesc (code : Z)
| CWait (filt : option Z) (pre : list (list Z * Z)) (ws : list wake_case)
| CProdSeq (msgs : list prod_msg) (ts : Z).

Definition run_emcy (c : emcy_case) : val :=
  match c with
  | CHist ncb ops => VL (run_ops (init (Z.to_nat ncb)) ops)
  | CProd code reg data => res_val VB (producer_send code reg data)
  | CProdReset reg data => res_val VB (producer_reset reg data)
  | CRound code reg data ts =>
      res_val (fun x => x)
        (rbind (producer_send code reg data) (fun f =>
         rbind (on_emcy (init 1) f ts) (fun s => Ok (VL [VB f; state_val s]))))
  | CDesc code => VS (get_desc code)
  | CProdSeq msgs ts => VL (produce_obs msgs ++ [state_val (produce_all (init 1) ts msgs)])
  | CWait filt pre ws => vopt entry_val (wait_scan filt (s_log (feed (init 0) pre)) (map wake_of ws))
  end.
