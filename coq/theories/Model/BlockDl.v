(* Model of canopen/sdo/client.py, block download:
     SdoClient.send_request / read_response / request_response / abort   (transport, shared with BlockUl.v)
     BlockDownloadStream.__init__ / write / send / _block_ack / _retransmit / close
     SdoClient.open(..., "wb", size=, block_transfer=True) used in a with-block with ONE write call
   Definitions only.  Python int = Z, bytes = list Z, frames = list Z.

   The peer is a function  srv : S -> frame -> S * list frame  (what arrives in SdoClient.responses
   after the client has sent a frame).  queue.Queue = list; responses.get(timeout) on an empty
   queue = time-out = SdoCommunicationError("No SDO response received").

   Callers modelled (hypothesis forced by io.BufferedWriter, see notes/C12.md): the application
   makes a single write(payload) call on the stream returned by open().  For that caller
   BufferedWriter (buffer_size 1024) hands the raw stream, on every raw write() call, the WHOLE
   not yet consumed rest of the payload (directly while more than 1024 bytes remain, from its
   buffer on flush/close afterwards) and advances by the returned count: [write_all].  The same
   loop is what a caller of the unbuffered stream (buffering=0) writes by hand. *)
From Coq Require Import ZArith List Bool.
From CV Require Import Base.Val Base.Bytes Gen.SdoTables Model.Crc Model.RefBlockServer.
Import ListNotations.
Open Scope Z_scope.

(* =====================================================================================
   SdoClient transport
   ===================================================================================== *)
Section Transport.
  Context {S : Type} (srv : S -> frame -> S * list frame).

  (* n_log: every frame on the bus, newest first; 0 :: f = sent by the client, 1 :: f = delivered to it *)
  Record net := mknet { n_srv : S; n_q : list frame; n_log : list frame }.

  (* SdoClient.send_request (network.send_message never fails here: no CanError, no retry) *)
  Definition send_request (w : net) (fr : frame) : net :=
    let '(s', rs) := srv (n_srv w) fr in
    mknet s' (n_q w ++ rs) (rev (map (cons 1) rs) ++ (0 :: fr) :: n_log w).

  (* SdoClient.read_response *)
  Definition read_response (w : net) : res frame * net :=
    match n_q w with
    | [] => (Err E_SDOCOMM, w)
    | r :: q =>
        let w' := mknet (n_srv w) q (n_log w) in
        if fb r 0 =? RESPONSE_ABORTED then (Abort (le_decode (firstn 4 (skipn 4 r))), w') else (Ok r, w')
    end.

  (* SdoClient.abort *)
  Definition client_abort_frame (code : Z) : frame := REQUEST_ABORTED :: [0; 0; 0] ++ le_encode 4 code.
  Definition client_abort (w : net) (code : Z) : net := send_request w (client_abort_frame code).

  (* SdoClient.request_response with MAX_RETRIES = 1 *)
  Definition request_response (w : net) (fr : frame) : res frame * net :=
    let w0 := match n_q w with [] => w | _ => mknet (n_srv w) [] (n_log w) end in
    let w1 := send_request w0 fr in
    match read_response w1 with
    | (Err k, w2) => (Err k, client_abort w2 84148224)     (* 0x05040000, SdoCommunicationError re-raised *)
    | other => other
    end.
End Transport.
Arguments mknet {S}. Arguments n_srv {S}. Arguments n_q {S}. Arguments n_log {S}.

(* =====================================================================================
   BlockDownloadStream
   ===================================================================================== *)
Record dl := mkdl {
  d_size : option Z;
  d_pos : Z;
  d_done : bool;
  d_seqno : Z;
  d_crc : Z;
  d_last : Z;              (* _last_bytes_sent *)
  d_cur : list (list Z);   (* _current_block *)
  d_retx : bool;           (* _retransmitting *)
  d_blksize : Z;
  d_crcsup : bool;
  d_closed : bool }.

Section Client.
  Context {S : Type} (srv : S -> frame -> S * list frame).
  Notation net := (@net S).
  Definition R (A : Type) : Type := (res A * dl * net)%type.

  (* ---- __init__ ---- *)
  Definition dl_init_request (index sub : Z) (size : option Z) (crc : bool) : frame :=
    let command := Z.lor (Z.lor REQUEST_BLOCK_DOWNLOAD INITIATE_BLOCK_TRANSFER)
                     (Z.lor (if crc then CRC_SUPPORTED else 0)
                            (match size with Some _ => BLOCK_SIZE_SPECIFIED | None => 0 end)) in
    [command; index mod 256; index / 256; sub] ++
    match size with Some s => le_encode 4 s | None => [0; 0; 0; 0] end.

  Definition size_ok (size : option Z) : bool :=
    match size with Some s => (0 <=? s) && (s <? 4294967296) | None => true end.

  Definition dl_init (w : net) (index sub : Z) (size : option Z) (crc : bool) : res dl * net :=
    if negb (size_ok size) then (Err E_STRUCT, w) else      (* struct.pack_into("<L", ...) *)
    match request_response srv w (dl_init_request index sub size crc) with
    | (Err k, w1) => (Err k, w1)
    | (Abort a, w1) => (Abort a, w1)
    | (Ok r, w1) =>
        let res_command := fb r 0 in
        let res_index := fb r 1 + 256 * fb r 2 in
        let res_sub := fb r 3 in
        if negb (Z.land res_command 224 =? RESPONSE_BLOCK_DOWNLOAD) then
          (Err E_SDOCOMM, client_abort srv w1 84148225)         (* 0x05040001 *)
        else if negb (res_index =? index) || negb (res_sub =? sub) then
          (Err E_SDOCOMM, client_abort srv w1 134217728)        (* abort(): 0x08000000 *)
        else
          (Ok (mkdl size 0 false 0 0 0 [] false (fb r 4)
                    (negb (Z.land res_command CRC_SUPPORTED =? 0)) false), w1)
    end.

  (* ---- write / send / _block_ack / _retransmit: mutually recursive through write;
          [rec_write] is the recursive call, tied by [write] below with explicit fuel ---- *)
  Section Open.
    Context (rec_write : dl -> net -> list Z -> R (option Z)).

    Fixpoint retransmit_loop (bl : list (list Z)) (c : dl) (w : net) : R unit :=
      match bl with
      | [] =>
          (Ok tt, mkdl (d_size c) (d_pos c) (d_done c) (d_seqno c) (d_crc c) (d_last c) (d_cur c)
                       false (d_blksize c) (d_crcsup c) (d_closed c), w)
      | b :: r =>
          match rec_write c w b with
          | (Ok _, c', w') => retransmit_loop r c' w'
          | (Err k, c', w') => (Err k, c', w')
          | (Abort a, c', w') => (Abort a, c', w')
          end
      end.

    Definition retransmit (c : dl) (w : net) (ackseq blksize : Z) : R unit :=
      let block := skipn (Z.to_nat ackseq) (d_cur c) in
      let c1 := mkdl (d_size c) (d_pos c - zlen block * 7) (d_done c) 0 (d_crc c) (d_last c) []
                     true blksize (d_crcsup c) (d_closed c) in
      retransmit_loop block c1 w.

    Definition block_ack (c : dl) (w : net) : R unit :=
      match read_response w with
      | (Err k, w1) => (Err k, c, w1)
      | (Abort a, w1) => (Abort a, c, w1)
      | (Ok r, w1) =>
          let res_command := fb r 0 in
          let ackseq := fb r 1 in
          let blksize := fb r 2 in
          if negb (Z.land res_command 224 =? RESPONSE_BLOCK_DOWNLOAD) then
            (Err E_SDOCOMM, c, client_abort srv w1 84148225)
          else if negb (Z.land res_command 3 =? BLOCK_TRANSFER_RESPONSE) then
            (Err E_SDOCOMM, c, client_abort srv w1 84148225)
          else if negb (ackseq =? d_blksize c) then retransmit c w1 ackseq blksize
          else
            (Ok tt, mkdl (d_size c) (d_pos c) (d_done c) 0 (d_crc c) (d_last c) [] (d_retx c)
                         blksize (d_crcsup c) (d_closed c), w1)
      end.

    Definition send (c : dl) (w : net) (b : list Z) (end_ : bool) : R unit :=
      let seqno := d_seqno c + 1 in
      let command := if end_ then Z.lor seqno NO_MORE_BLOCKS else seqno in
      let done := if end_ then true else d_done c in
      let blksize := if end_ then seqno else d_blksize c in
      let last := if end_ then zlen b else d_last c in
      let w1 := send_request srv w (pad8 (command :: b)) in
      let crc := if d_crcsup c && negb (d_retx c) then crc_from (d_crc c) b else d_crc c in
      let c1 := mkdl (d_size c) (d_pos c + zlen b) done seqno crc last (d_cur c ++ [b]) (d_retx c)
                     blksize (d_crcsup c) (d_closed c) in
      if blksize <=? seqno then block_ack c1 w1 else (Ok tt, c1, w1).

    Definition write_body (c : dl) (w : net) (b : list Z) : R (option Z) :=
      if d_done c then (Err E_RUNTIME, c, w) else
      let data := firstn 7 b in
      let is_end := match d_size c with Some s => s <=? d_pos c + zlen data | None => false end in
      if is_end then
        match send c w data true with
        | (Ok _, c', w') => (Ok (Some (zlen data)), c', w')
        | (Err k, c', w') => (Err k, c', w')
        | (Abort a, c', w') => (Abort a, c', w')
        end
      else if zlen data <? 7 then (Ok None, c, w)
      else
        match send c w data false with
        | (Ok _, c', w') => (Ok (Some (zlen data)), c', w')
        | (Err k, c', w') => (Err k, c', w')
        | (Abort a, c', w') => (Abort a, c', w')
        end.
  End Open.

  (* nesting depth of write -> send -> _block_ack -> _retransmit -> write is bounded by fuel *)
  Fixpoint write (fuel : nat) (c : dl) (w : net) (b : list Z) : R (option Z) :=
    match fuel with
    | O => (Err E_FUEL, c, w)
    | Datatypes.S f => write_body (write f) c w b
    end.

  (* ---- close ---- *)
  Definition dl_end_request (c : dl) : frame :=
    let command := Z.lor (Z.lor REQUEST_BLOCK_DOWNLOAD END_BLOCK_TRANSFER) (Z.shiftl (7 - d_last c) 2) in
    if d_crcsup c then [command; d_crc c mod 256; d_crc c / 256; 0; 0; 0; 0; 0]
    else [command; 0; 0; 0; 0; 0; 0; 0].

  Definition dl_close (c : dl) (w : net) : res unit * net :=
    if d_closed c then (Ok tt, w) else
    match request_response srv w (dl_end_request c) with
    | (Err k, w1) => (Err k, w1)
    | (Abort a, w1) => (Abort a, w1)
    | (Ok r, w1) => if Z.land (fb r 0) END_BLOCK_TRANSFER =? 0 then (Err E_SDOCOMM, w1) else (Ok tt, w1)
    end.

  (* ---- the caller: BufferedWriter / hand-written loop over the raw stream ---- *)
  Fixpoint write_all (fuel depth : nat) (c : dl) (w : net) (rest : list Z) : R unit :=
    match rest with
    | [] => (Ok tt, c, w)
    | _ =>
      match fuel with
      | O => (Err E_FUEL, c, w)
      | Datatypes.S f =>
          match write depth c w rest with
          | (Ok (Some n), c', w') => write_all f depth c' w' (skipn (Z.to_nat n) rest)
          | (Ok None, c', w') => (Err E_IO, c', w')       (* BlockingIOError *)
          | (Err k, c', w') => (Err k, c', w')
          | (Abort a, c', w') => (Abort a, c', w')
          end
      end
    end.

  (* with client.open(index, sub, "wb", size=size, block_transfer=True, request_crc_support=crc) as f:
         f.write(payload)
     an exception raised by close() replaces the one raised in the body *)
  Definition dl_transfer (depth : nat) (w : net) (index sub : Z) (size : option Z) (crc : bool)
             (payload : list Z) : res unit * net :=
    match dl_init w index sub size crc with
    | (Err k, w1) => (Err k, w1)
    | (Abort a, w1) => (Abort a, w1)
    | (Ok c, w1) =>
        let '(r1, c2, w2) := write_all (Datatypes.S (length payload)) depth c w1 payload in
        match dl_close c2 w2 with
        | (Ok _, w3) => (r1, w3)
        | (Err k, w3) => (Err k, w3)
        | (Abort a, w3) => (Abort a, w3)
        end
    end.
End Client.

(* =====================================================================================
   Runner for the correspondence check: implementation + Python reference server  vs
   this model + Gallina reference server, same faults, complete frame traces compared
   ===================================================================================== *)
Inductive dl_case :=
| CDl (full : bool) (index sub : Z) (size : option Z) (crc_client crc_server : bool)
      (blks : list Z) (faults : list fault) (zeros seed n : Z) (lit : list Z)
| CCrc (init : Z) (data : list Z)            (* binascii.crc_hqx *)
| CGen (seed n : Z)                          (* payload generator of the harness *)
| CHash (log : list frame).                  (* trace hash of the harness *)

Definition DEPTH : nat := 64.

Definition log_val (full : bool) (log : list frame) : val :=
  if full then VL (map VB log) else VL [VZ (zlen log); VZ (hash_log log)].
Definition data_val (full : bool) (b : list Z) : val :=
  if full then VB b else VL [VZ (zlen b); VZ (hash_frame 0 b)].

Definition run_blockdl (c : dl_case) : val :=
  match c with
  | CDl full index sub size crc_client crc_server blks faults zeros seed n lit =>
      let payload := payload_of zeros seed n lit in
      let srv := faulty dl_srv in
      let w0 := mknet (fs_init (ds_init blks crc_server) faults) [] [] in
      let '(r, w) := dl_transfer srv DEPTH w0 index sub size crc_client payload in
      let s := f_inner (n_srv w) in
      VL [res_val (fun _ => VNone) r;
          vopt (data_val full) (ds_store s);
          VZ (ds_bad s);
          log_val full (rev (n_log w))]
  | CCrc init data => VZ (crc_from init data)
  | CGen seed n => VB (gen_bytes (Z.to_nat n) seed)
  | CHash log => VZ (hash_log log)
  end.
