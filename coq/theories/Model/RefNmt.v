(* Reference NMT behaviour written from CiA 301 (NMT state machine 7.3.2, node control
   protocols 7.2.8.3.1, heartbeat / boot-up protocol 7.2.8.3.2), NOT from the library.
   Also holds the event vocabulary shared by the reference and by Model/Nmt.v.
   Definitions only. *)
From Coq Require Import ZArith List Bool String Ascii.
From CV Require Import Base.Val.
Import ListNotations.
Open Scope Z_scope.

(* str -> code points (the models use list Z for Python str) *)
Fixpoint str_codes (s : string) : list Z :=
  match s with
  | EmptyString => []
  | String a r => Z.of_N (N_of_ascii a) :: str_codes r
  end.

(* ---- NMT states.  CiA 301 knows Initialisation, Pre-operational, Operational, Stopped;
   Sleep and Standby are the power-management states of the CiA 447/454 profiles, which use
   the same protocol (command specifiers 80 / 96, state bytes 80 / 96). ---- *)
Inductive nmt_st := Initialising | PreOperational | Operational | Stopped | Sleep | Standby.

(* node control: the command specifier alone decides the state that is entered
   (CiA 301 table 7.3.2.2 "NMT state transitions": start (3)(6), stop (5)(8), enter
   pre-operational (4)(7), reset node (9)(10)(11), reset communication (12)(13)(14));
   an undefined command specifier is ignored.
   CiA 301 gives no reception in Initialisation (the state is left automatically); the
   library keeps INITIALISING as a resting state until the application moves on, and the
   commands act on it like on every other state. *)
Definition cs_step (s : nmt_st) (cs : Z) : nmt_st :=
  if cs =? 1 then Operational            (* start remote node *)
  else if cs =? 2 then Stopped           (* stop remote node *)
  else if cs =? 128 then PreOperational  (* enter pre-operational *)
  else if cs =? 129 then Initialising    (* reset node *)
  else if cs =? 130 then Initialising    (* reset communication *)
  else if cs =? 80 then Sleep
  else if cs =? 96 then Standby
  else s.

(* state byte of the heartbeat / boot-up message (CiA 301 7.2.8.3.2.2): 0 boot-up,
   4 stopped, 5 operational, 127 pre-operational *)
Definition st_code (s : nmt_st) : Z :=
  match s with
  | Initialising => 0 | Stopped => 4 | Operational => 5 | PreOperational => 127
  | Sleep => 80 | Standby => 96
  end.

Definition st_name (s : nmt_st) : string :=
  match s with
  | Initialising => "INITIALISING" | Stopped => "STOPPED" | Operational => "OPERATIONAL"
  | PreOperational => "PRE-OPERATIONAL" | Sleep => "SLEEP" | Standby => "STANDBY"
  end.

Definition all_states : list nmt_st := [Initialising; PreOperational; Operational; Stopped; Sleep; Standby].

(* the state names accepted by the [state] setter (documented API of NmtBase.state) and the
   command specifier each of them stands for *)
Definition ref_names : list (string * Z) :=
  [("OPERATIONAL", 1); ("STOPPED", 2); ("SLEEP", 80); ("STANDBY", 96); ("PRE-OPERATIONAL", 128);
   ("INITIALISING", 129); ("RESET", 129); ("RESET COMMUNICATION", 130)]%string.

Definition ref_name_cs (name : list Z) : option Z :=
  match find (fun p => list_Z_eqb name (str_codes (fst p))) ref_names with
  | Some p => Some (snd p)
  | None => None
  end.

(* a node obeys a command addressed to its own id or to 0 (all nodes) *)
Definition ref_addressed (own nid : Z) : bool := (nid =? own) || (nid =? 0).

Definition ref_cmd (own : Z) (s : nmt_st) (cs nid : Z) : nmt_st :=
  if ref_addressed own nid then cs_step s cs else s.

(* heartbeat consumer: bit 7 is the (node guarding) toggle bit and carries no state;
   state byte 0 is the boot-up message: the node has entered PRE-OPERATIONAL *)
Definition ref_hb_code (b : Z) : Z := if b mod 128 =? 0 then 127 else b mod 128.

(* boot-up message = heartbeat frame whose state field is 0 *)
Definition is_bootup (b : Z) : bool := b mod 128 =? 0.

(* a waiter woken after the messages [arr] were received sees the last one *)
Definition woken_by_bootup (arr : list Z) : bool :=
  match rev arr with b :: _ => is_bootup b | [] => false end.

(* ---- event vocabulary of the simulated system: one bus, a slave (LocalNode own), the master
   object for that node (RemoteNode own), a master object for another node (RemoteNode oth) and
   the broadcast master (Network.nmt, id 0) ---- *)
Inductive who := MOwn | MOth | MBc.

Definition mid (own oth : Z) (m : who) : Z := match m with MOwn => own | MOth => oth | MBc => 0 end.

Inductive event :=
| ECmd (m : who) (code : Z)        (* <master m>.nmt.send_command(code) *)
| EName (m : who) (name : list Z)  (* <master m>.nmt.state = name *)
| ERaw (data : list Z)             (* a frame on CAN id 0 from somebody else *)
| EHb (data : list Z)              (* a frame on CAN id 0x700 + own from somebody else *)
| ESCmd (code : Z)                 (* slave: local_node.nmt.send_command(code) *)
| ESName (name : list Z)           (* slave: local_node.nmt.state = name *)
| ESetHb (t : Z)                   (* slave: local_node.sdo[0x1017].raw = t *)
| ETick.                           (* the slave's cyclic heartbeat task fires once *)

Definition is_byte (z : Z) : bool := (0 <=? z) && (z <? 256).

(* what the CiA 301 machine of the slave does on each event *)
Definition ref_slave_event (own oth : Z) (s : nmt_st) (e : event) : nmt_st :=
  match e with
  | ECmd m code => if is_byte code then ref_cmd own s code (mid own oth m) else s
  | EName m name =>
      match ref_name_cs name with
      | Some cs => ref_cmd own s cs (mid own oth m)
      | None => s
      end
  | ERaw (cs :: nid :: _) => ref_cmd own s cs nid
  | ERaw _ => s
  | ESCmd code => cs_step s code
  | ESName name => match ref_name_cs name with Some cs => cs_step s cs | None => s end
  | EHb _ | ESetHb _ | ETick => s
  end.

Definition ref_slave_run (own oth : Z) (s : nmt_st) (evs : list event) : nmt_st :=
  fold_left (ref_slave_event own oth) evs s.
