(* Model of canopen/sdo/client.py, block upload:
     BlockUploadStream.__init__ / read / _retransmit / _ack_block / _end_upload / close
     SdoClient.open(..., "rb", block_transfer=True) used in a with-block with f.read()
   (io.BufferedReader.read() -> RawIOBase.readall() -> read(n) until b"" : [readall]).
   Transport (send_request / read_response / request_response / abort) is in BlockDl.v.
   Definitions only.

   Second caller (readinto with small buffers, then read()): [ul_readinto], [ul_read_rest], [ul_transfer_ri];
   the attribute _pending (left-over of a segment that did not fit) is threaded beside the stream record.

   Not modelled (wall clock): the `while time.time() < end_time` guard of _retransmit.  With a peer
   that answers synchronously the loop ends by a matching segment or by read_response's time-out,
   never by the guard; the branch behind the guard (abort 0x05040000) is therefore absent. *)
From Coq Require Import ZArith List Bool.
From CV Require Import Base.Val Base.Bytes Gen.SdoTables Model.Crc Model.RefBlockServer Model.BlockDl.
Import ListNotations.
Open Scope Z_scope.

Record ul := mkul {
  u_done : bool;
  u_pos : Z;
  u_crc : Z;
  u_scrc : option Z;        (* _server_crc *)
  u_ackseq : Z;
  u_error : bool;
  u_size : option Z;
  u_crcsup : bool;
  u_blksize : Z }.          (* class attribute blksize = 127 *)

Section Client.
  Context {S : Type} (srv : S -> frame -> S * list frame).
  Notation net := (@net S).
  Definition RU (A : Type) : Type := (res A * ul * net)%type.

  Definition set_error (u : ul) : ul :=
    mkul (u_done u) (u_pos u) (u_crc u) (u_scrc u) (u_ackseq u) true (u_size u) (u_crcsup u) (u_blksize u).
  Definition set_ackseq (u : ul) (a : Z) : ul :=
    mkul (u_done u) (u_pos u) (u_crc u) (u_scrc u) a (u_error u) (u_size u) (u_crcsup u) (u_blksize u).

  (* ---- __init__ ---- *)
  Definition ul_init_request (index sub blksize : Z) (crc : bool) : frame :=
    [Z.lor (Z.lor REQUEST_BLOCK_UPLOAD INITIATE_BLOCK_TRANSFER) (if crc then CRC_SUPPORTED else 0);
     index mod 256; index / 256; sub; blksize; 0; 0; 0].

  Definition ul_start_request : frame := [Z.lor REQUEST_BLOCK_UPLOAD START_BLOCK_UPLOAD; 0; 0; 0; 0; 0; 0; 0].

  Definition ul_init (w : net) (index sub blksize : Z) (crc : bool) : res ul * net :=
    match request_response srv w (ul_init_request index sub blksize crc) with
    | (Err k, w1) => (Err k, w1)
    | (Abort a, w1) => (Abort a, w1)
    | (Ok r, w1) =>
        let res_command := fb r 0 in
        let res_index := fb r 1 + 256 * fb r 2 in
        let res_sub := fb r 3 in
        if negb (Z.land res_command 224 =? RESPONSE_BLOCK_UPLOAD) then
          (Err E_SDOCOMM, client_abort srv w1 84148225)
        else if negb (res_index =? index) || negb (res_sub =? sub) then
          (Err E_SDOCOMM, w1)                                   (* no abort frame here *)
        else
          let size := if Z.land res_command BLOCK_SIZE_SPECIFIED =? 0 then None
                      else Some (le_decode (firstn 4 (skipn 4 r))) in
          let crcsup := crc && negb (Z.land res_command CRC_SUPPORTED =? 0) in
          (Ok (mkul false 0 0 None 0 false size crcsup blksize), send_request srv w1 ul_start_request)
    end.

  (* ---- _ack_block ---- *)
  Definition ul_ack_request (u : ul) : frame :=
    [Z.lor REQUEST_BLOCK_UPLOAD BLOCK_TRANSFER_RESPONSE; u_ackseq u; u_blksize u; 0; 0; 0; 0; 0].

  Definition ack_block (u : ul) (w : net) : ul * net :=
    (set_ackseq u 0, send_request srv w (ul_ack_request u)).

  (* ---- _retransmit: acknowledge what was received, then skip responses until the next
          sequence number turns up; read_response's time-out (or an abort) ends it ---- *)
  Fixpoint retx_loop (fuel : nat) (u : ul) (w : net) : RU frame :=
    match fuel with
    | O => (Err E_FUEL, u, w)
    | Datatypes.S f =>
        match read_response w with
        | (Err k, w1) => (Err k, u, w1)
        | (Abort a, w1) => (Abort a, u, w1)
        | (Ok r, w1) =>
            let seqno := Z.land (fb r 0) 127 in
            if seqno =? u_ackseq u + 1 then (Ok r, set_ackseq u seqno, w1) else retx_loop f u w1
        end
    end.

  Definition ul_retransmit (u : ul) (w : net) : RU frame :=
    let '(u1, w1) := ack_block u w in
    retx_loop (Datatypes.S (length (n_q w1))) u1 w1.

  (* ---- _end_upload ---- *)
  Definition end_upload (u : ul) (w : net) : RU Z :=
    match read_response w with
    | (Err k, w1) => (Err k, u, w1)
    | (Abort a, w1) => (Abort a, u, w1)
    | (Ok r, w1) =>
        let res_command := fb r 0 in
        let u1 := mkul (u_done u) (u_pos u) (u_crc u) (Some (fb r 1 + 256 * fb r 2)) (u_ackseq u)
                       (u_error u) (u_size u) (u_crcsup u) (u_blksize u) in
        if negb (Z.land res_command 224 =? RESPONSE_BLOCK_UPLOAD) then
          (Err E_SDOCOMM, set_error u1, client_abort srv w1 84148225)
        else if negb (Z.land res_command 3 =? END_BLOCK_TRANSFER) then
          (Err E_SDOCOMM, set_error u1, client_abort srv w1 84148225)
        else (Ok (Z.land (Z.shiftr res_command 2) 7), u1, w1)
    end.

  (* ---- read(7) ---- *)
  (* the part after the segment has been obtained and its sequence number accounted for *)
  Definition read_tail (u : ul) (w : net) (response : frame) : RU (list Z) :=
    let res_command := fb response 0 in
    let last := negb (Z.land res_command NO_MORE_BLOCKS =? 0) in
    let '(u1, w1) := if (u_blksize u <=? u_ackseq u) || last then ack_block u w else (u, w) in
    let fin (u2 : ul) (w2 : net) (data : list Z) (done : bool) : RU (list Z) :=
      let crc := if u_crcsup u2 then crc_from (u_crc u2) data else u_crc u2 in
      let u3 := mkul done (u_pos u2) crc (u_scrc u2) (u_ackseq u2) (u_error u2) (u_size u2)
                     (u_crcsup u2) (u_blksize u2) in
      if u_crcsup u2 && done && negb (match u_scrc u2 with Some sc => sc =? crc | None => false end) then
        (Err E_SDOCOMM, set_error u3, client_abort srv w2 84148228)          (* 0x05040004 *)
      else
        let u4 := mkul done (u_pos u2 + zlen data) crc (u_scrc u2) (u_ackseq u2) (u_error u2) (u_size u2)
                       (u_crcsup u2) (u_blksize u2) in
        if done && match u_size u2 with Some s => negb (u_pos u4 =? s) | None => false end then
          (Err E_SDOCOMM, set_error u4, client_abort srv w2 101122064)       (* 0x06070010 *)
        else (Ok data, u4, w2) in
    if last then
      match end_upload u1 w1 with
      | (Err k, u2, w2) => (Err k, u2, w2)
      | (Abort a, u2, w2) => (Abort a, u2, w2)
      | (Ok n, u2, w2) => fin u2 w2 (skipn 1 (firstn (Z.to_nat (8 - n)) response)) true
      end
    else fin u1 w1 (skipn 1 (firstn 8 response)) false.

  Definition ul_read (u : ul) (w : net) : RU (list Z) :=
    if u_done u then (Ok [], u, w) else
    match read_response w with
    | (Abort a, w1) => (Abort a, u, w1)
    | (Err _, w1) =>
        (* time-out: _retransmit() returns the next segment in sequence, already accounted for *)
        match ul_retransmit u w1 with
        | (Ok response, u2, w2) => read_tail u2 w2 response
        | (Err k, u2, w2) => (Err k, u2, w2)
        | (Abort a, u2, w2) => (Abort a, u2, w2)
        end
    | (Ok response, w1) =>
        let seqno := Z.land (fb response 0) 127 in
        if seqno =? u_ackseq u + 1 then read_tail (set_ackseq u seqno) w1 response
        else
          match ul_retransmit u w1 with
          | (Ok response', u2, w2) => read_tail u2 w2 response'
          | (Err k, u2, w2) => (Err k, u2, w2)
          | (Abort a, u2, w2) => (Abort a, u2, w2)
          end
    end.

  (* ---- RawIOBase.readall: read until b"" ---- *)
  Fixpoint readall (fuel : nat) (u : ul) (w : net) (acc : list Z) : RU (list Z) :=
    match fuel with
    | O => (Err E_FUEL, u, w)
    | Datatypes.S f =>
        match ul_read u w with
        | (Ok [], u1, w1) => (Ok acc, u1, w1)
        | (Ok data, u1, w1) => readall f u1 w1 (acc ++ data)
        | (Err k, u1, w1) => (Err k, u1, w1)
        | (Abort a, u1, w1) => (Abort a, u1, w1)
        end
    end.

  (* ---- close ---- *)
  Definition ul_end_request : frame := [Z.lor REQUEST_BLOCK_UPLOAD END_BLOCK_TRANSFER; 0; 0; 0; 0; 0; 0; 0].
  Definition ul_close (u : ul) (w : net) : net :=
    if u_done u && negb (u_error u) then send_request srv w ul_end_request else w.

  (* ---- readinto(b) with len(b) = k, and the _pending prologue of read() ----
     readinto: if not self._pending: self._pending = self.read(7); hand out min(k, len) bytes, keep the rest.
     read(n >= 0): a non-empty _pending is returned first (before the _done test).
     read(-1):     _pending + readall()   (readall = read(n) until b""). *)
  Definition ul_readinto (k : Z) (u : ul) (pend : list Z) (w : net) : RU (list Z) * list Z :=
    match pend with
    | [] =>
        match ul_read u w with
        | (Ok d, u1, w1) => ((Ok (firstn (Z.to_nat k) d), u1, w1), skipn (Z.to_nat k) d)
        | other => (other, [])
        end
    | _ => ((Ok (firstn (Z.to_nat k) pend), u, w), skipn (Z.to_nat k) pend)
    end.

  Fixpoint ul_readinto_all (ks : list Z) (u : ul) (pend : list Z) (w : net) (acc : list Z) : RU (list Z) * list Z :=
    match ks with
    | [] => ((Ok acc, u, w), pend)
    | k :: r =>
        match ul_readinto k u pend w with
        | ((Ok d, u1, w1), pend1) => ul_readinto_all r u1 pend1 w1 (acc ++ d)
        | other => other
        end
    end.

  Definition ul_read_rest (fuel : nat) (u : ul) (pend : list Z) (w : net) (acc : list Z) : RU (list Z) :=
    readall fuel u w (acc ++ pend).

  (* with client.open(index, sub, "rb", buffering=0, block_transfer=True, ...) as f:
         for k in ks: f.readinto(bytearray(k))      (the pieces are collected)
         rest = f.read()                                                        *)
  Definition ul_transfer_ri (fuel : nat) (w : net) (index sub blksize : Z) (crc : bool) (ks : list Z) : RU (list Z) :=
    match ul_init w index sub blksize crc with
    | (Err k, w1) => (Err k, mkul false 0 0 None 0 false None false blksize, w1)
    | (Abort a, w1) => (Abort a, mkul false 0 0 None 0 false None false blksize, w1)
    | (Ok u, w1) =>
        match ul_readinto_all ks u [] w1 [] with
        | ((Ok acc, u2, w2), pend) =>
            let '(r, u3, w3) := ul_read_rest fuel u2 pend w2 acc in
            (r, u3, ul_close u3 w3)
        | ((Err k, u2, w2), _) => (Err k, u2, ul_close u2 w2)
        | ((Abort a, u2, w2), _) => (Abort a, u2, ul_close u2 w2)
        end
    end.
  (* with client.open(index, sub, "rb", block_transfer=True, request_crc_support=crc) as f: data = f.read() *)
  Definition ul_transfer (fuel : nat) (w : net) (index sub blksize : Z) (crc : bool) : RU (list Z) :=
    match ul_init w index sub blksize crc with
    | (Err k, w1) => (Err k, mkul false 0 0 None 0 false None false blksize, w1)
    | (Abort a, w1) => (Abort a, mkul false 0 0 None 0 false None false blksize, w1)
    | (Ok u, w1) =>
        let '(r, u2, w2) := readall fuel u w1 [] in
        (r, u2, ul_close u2 w2)
    end.
End Client.

(* =====================================================================================
   Runner for the correspondence check
   ===================================================================================== *)
Inductive ul_case :=
| CUl (full : bool) (index sub blksize : Z) (crc_client crc_server size_ind : bool)
      (faults : list fault) (zeros seed n : Z) (lit : list Z) (ks : list Z)   (* ks: readinto buffer sizes, [] = f.read() only *)
| CUCrc (init : Z) (data : list Z).

Definition run_blockul (c : ul_case) : val :=
  match c with
  | CUl full index sub blksize crc_client crc_server size_ind faults zeros seed n lit ks =>
      let value := payload_of zeros seed n lit in
      let srv := faulty ul_srv in
      let w0 := mknet (fs_init (us_init value crc_server size_ind) faults) [] [] in
      (* every read consumes a frame or ends the transfer; the peer emits at most a few frames
         per value byte plus a few per fault *)
      let fuel := (4 * length value + 64 * length faults + 64)%nat in
      let '(r, u, w) := match ks with
                        | [] => ul_transfer srv fuel w0 index sub blksize crc_client
                        | _ => ul_transfer_ri srv fuel w0 index sub blksize crc_client ks
                        end in
      let s := f_inner (n_srv w) in
      VL [res_val (data_val full) r;
          VBool (us_ended s);
          VZ (us_bad s);
          VBool (us_acks_exact s);
          log_val full (rev (n_log w))]
  | CUCrc init data => VZ (crc_from init data)
  end.
