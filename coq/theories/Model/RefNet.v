(* Reference for C10, written from the statement of the property and the CiA 301 predefined
   connection set, not from the library:
     - a multimap  can_id -> ordered list of callbacks  as a TOTAL function (no notion of an
       "absent key", no exception kinds): subscribing appends unless already subscribed,
       unsubscribing deletes every occurrence, "unsubscribe all" empties the list;
     - the callbacks of a node proxy / a local node by their COB-IDs;
     - the node named by a COB-ID, by plain arithmetic (no bit operations).
   Only the types (handler, op, frame, delivery) are shared with Model/Net.v.  Definitions only. *)
From Coq Require Import ZArith List Bool.
From CV Require Import Base.Tys Gen.NetTables Model.Net.
Import ListNotations.
Open Scope Z_scope.

Definition rmap := Z -> list handler.

(* abstraction function: the multimap a subscribers dict stands for (an absent key and a key
   with an empty list both mean "nobody subscribed") *)
Definition abs (m : smap) (c : Z) : list handler :=
  match lookup c m with Some l => l | None => [] end.

Definition upd {A} (f : Z -> A) (c : Z) (v : A) : Z -> A := fun x => if x =? c then v else f x.

Definition r_sub (c : Z) (h : handler) (f : rmap) : rmap :=
  if hmem h (f c) then f else upd f c (f c ++ [h]).

(* None: the callback is not subscribed to that id (the request is refused, nothing changes) *)
Definition r_unsub1 (c : Z) (h : handler) (f : rmap) : option rmap :=
  if hmem h (f c) then Some (upd f c (filter (fun x => negb (handler_eqb h x)) (f c))) else None.

Definition r_unsub_all (c : Z) (f : rmap) : rmap := upd f c [].

(* CiA 301 predefined connection set: NMT 0, EMCY 0x80+n, SDO server->client 0x580+n,
   SDO client->server 0x600+n, heartbeat 0x700+n.  A proxy for a remote node listens to what the
   node transmits (SDO response, heartbeat, EMCY) and tracks NMT commands; a local node listens to
   SDO requests and NMT commands. *)
(* additional SDO channels of a proxy: the k-th one listens on its own response COB-ID *)
Fixpoint ref_extras (o : nobj) (k : Z) (txs : list Z) : list (Z * handler) :=
  match txs with
  | [] => []
  | tx :: r => (tx, HNode o (KSdoExtra k)) :: ref_extras o (k + 1) r
  end.

Definition ref_handlers (txs : list Z) (o : nobj) : list (Z * handler) :=
  let n := o_nid o in
  if o_local o then [(1536 + n, HNode o KSdoReq); (0, HNode o KNmt)]
  else (1408 + n, HNode o KSdoResp) :: ref_extras o 1 txs ++
       [(1792 + n, HNode o KHeartbeat); (128 + n, HNode o KEmcy); (0, HNode o KNmt)].

Definition r_sub_all (chs : list (Z * handler)) (f : rmap) : rmap :=
  fold_left (fun f ch => r_sub (fst ch) (snd ch) f) chs f.

(* detach a node: unsubscribe its callbacks one after the other; a refused request stops the
   detachment (the earlier ones stay done) *)
Fixpoint r_unsub_seq (chs : list (Z * handler)) (f : rmap) : rmap * bool :=
  match chs with
  | [] => (f, true)
  | (c, h) :: r => match r_unsub1 c h f with Some f' => r_unsub_seq r f' | None => (f, false) end
  end.

(* the node id named by a COB-ID of the services the scanner listens to *)
Fixpoint names_from (svcs : list Z) (id : Z) : option Z :=
  match svcs with
  | [] => None
  | s :: r => if (1 <=? id - s) && (id - s <=? 127) then Some (id - s) else names_from r id
  end.
Definition names (id : Z) : option Z := names_from SERVICES id.

Definition ref_scan_step (found : list Z) (id : Z) : list Z :=
  match names id with
  | Some n => if zmem n found then found else found ++ [n]
  | None => found
  end.
Definition ref_scan (ids : list Z) : list Z := fold_left ref_scan_step ids [].

Record rnet := { r_map : rmap; r_nodes : Z -> option nobj; r_scan : list Z;
                 r_chans : nobj -> list Z   (* response COB-IDs of the additional SDO channels *) }.

Definition ref_init : rnet :=
  {| r_map := fun c => if c =? LSS_RX_COBID then [HLss] else []; r_nodes := fun _ => None; r_scan := [];
     r_chans := fun _ => [] |}.

Definition ref_deliver (c : Z) (data : list Z) (ts : Z) (r : rnet) : rnet * list delivery :=
  ({| r_map := r_map r; r_nodes := r_nodes r; r_scan := ref_scan_step (r_scan r) c; r_chans := r_chans r |},
   map (fun h => (h, c, data, ts)) (r_map r c)).

Definition ref_detach (n : Z) (r : rnet) : rmap * bool :=
  match r_nodes r n with
  | Some old => r_unsub_seq (ref_handlers (r_chans r old) old) (r_map r)
  | None => (r_map r, true)
  end.

Definition with_map (r : rnet) (f : rmap) : rnet :=
  {| r_map := f; r_nodes := r_nodes r; r_scan := r_scan r; r_chans := r_chans r |}.

Definition ref_registered (o : nobj) (r : rnet) : bool :=
  match r_nodes r (o_nid o) with Some o' => nobj_eqb o o' | None => false end.

Definition ref_step (o : op) (r : rnet) : rnet * list delivery :=
  match o with
  | OSub c u => (with_map r (r_sub c (HUser u) (r_map r)), [])
  | OUnsub c (Some h) =>
      match r_unsub1 c h (r_map r) with
      | Some f => (with_map r f, [])
      | None => (r, [])
      end
  | OUnsub c None => (with_map r (r_unsub_all c (r_map r)), [])
  | OAdd o =>
      let '(f1, ok) := ref_detach (o_nid o) r in
      if ok then ({| r_map := r_sub_all (ref_handlers (r_chans r o) o) f1;
                     r_nodes := upd (r_nodes r) (o_nid o) (Some o);
                     r_scan := r_scan r; r_chans := r_chans r |}, [])
      else (with_map r f1, [])
  | ODel n =>
      match r_nodes r n with
      | None => (r, [])
      | Some _ =>
          let '(f1, ok) := ref_detach n r in
          ({| r_map := f1; r_nodes := if ok then upd (r_nodes r) n None else r_nodes r; r_scan := r_scan r;
              r_chans := r_chans r |}, [])
      end
  | ONotify c data ts => ref_deliver c data ts r
  | ORecv f => if f_err f || f_remote f then (r, []) else ref_deliver (f_id f) (f_data f) (f_ts f) r
  | OScanReset => ({| r_map := r_map r; r_nodes := r_nodes r; r_scan := []; r_chans := r_chans r |}, [])
  | OAddSdo o rx tx =>
      if o_local o then (r, [])        (* only proxies of remote nodes have SDO client channels *)
      else
        let k := Z.of_nat (length (r_chans r o)) + 1 in
        ({| r_map := if ref_registered o r then r_sub tx (HNode o (KSdoExtra k)) (r_map r) else r_map r;
            r_nodes := r_nodes r; r_scan := r_scan r;
            r_chans := fun x => if nobj_eqb x o then r_chans r o ++ [tx] else r_chans r x |}, [])
  | OReassoc o =>      (* attaching an attached node again: whatever of its callbacks is missing is (re)subscribed *)
      if ref_registered o r then (with_map r (r_sub_all (ref_handlers (r_chans r o) o) (r_map r)), []) else (r, [])
  | OConnect => (r, [])          (* the bus connection has no bearing on who is subscribed *)
  | ODisconnect => (r, [])
  end.

Fixpoint ref_run (ops : list op) (r : rnet) : rnet * list (list delivery) :=
  match ops with
  | [] => (r, [])
  | o :: rest => let '(r1, x) := ref_step o r in let '(r2, xs) := ref_run rest r1 in (r2, x :: xs)
  end.
