(* Model of the physical / described / bit-field views of an integer object:
   canopen/objectdictionary/__init__.py  encode_phys decode_phys encode_desc decode_desc
                                          encode_bits decode_bits add_value_description
                                          add_bit_definition
   canopen/variable.py                    the phys / desc / bits accessors, class Bits
                                          (_get_bits, __getitem__, __setitem__, read, write)
   Definitions only.  Python int = Z, str = list of code points, float = Q (binary64
   rounding is NOT modelled), exceptions = res. *)
From Coq Require Import ZArith QArith List Bool.
From CV Require Import Base.Val Base.Bytes Base.Tys Gen.Tables Model.Codec.
Import ListNotations.
Open Scope Z_scope.

(* ------------------------------------------------------------------ dictionaries *)
(* Python dicts keep insertion order; assigning to an existing key keeps its position. *)
Fixpoint zdict_set {A} (k : Z) (a : A) (l : list (Z * A)) : list (Z * A) :=
  match l with
  | [] => [(k, a)]
  | (k', a') :: r => if k =? k' then (k, a) :: r else (k', a') :: zdict_set k a r
  end.

Fixpoint sassoc {A} (k : list Z) (l : list (list Z * A)) : option A :=
  match l with
  | [] => None
  | (k', a) :: r => if list_Z_eqb k k' then Some a else sassoc k r
  end.

Fixpoint sdict_set {A} (k : list Z) (a : A) (l : list (list Z * A)) : list (list Z * A) :=
  match l with
  | [] => [(k, a)]
  | (k', a') :: r => if list_Z_eqb k k' then (k, a) :: r else (k', a') :: sdict_set k a r
  end.

(* add_value_description(value, descr) / add_bit_definition(name, bits), called in order *)
Definition build_descs (adds : list (Z * list Z)) : list (Z * list Z) :=
  fold_left (fun t e => zdict_set (fst e) (snd e) t) adds [].
Definition build_bitdefs (adds : list (list Z * list Z)) : list (list Z * list Z) :=
  fold_left (fun t e => sdict_set (fst e) (snd e) t) adds [].

(* ------------------------------------------------------------------ bit fields *)
(* the subscript of  var.bits[...] *)
Inductive bkey :=
| KInt (b : Z)
| KList (l : list Z)
| KSlice (start stop step : option Z)
| KName (s : list Z).

(* what Bits._get_bits hands to encode_bits / decode_bits: a sequence of bit numbers or a name *)
Inductive bitsel :=
| BList (l : list Z)
| BName (s : list Z).

(* x or d *)
Definition py_or (x : option Z) (d : Z) : Z :=
  match x with None => d | Some v => if v =? 0 then d else v end.

Fixpoint zrange (start step : Z) (n : nat) : list Z :=
  match n with O => [] | S k => start :: zrange (start + step) step k end.

(* list(range(start, stop, step)), step <> 0 *)
Definition py_range (start stop step : Z) : list Z :=
  let n := if 0 <? step then (stop - start + step - 1) / step
           else (start - stop - step - 1) / (- step) in
  zrange start step (Z.to_nat n).

Definition get_bits (key : bkey) : res bitsel :=
  match key with
  | KSlice start stop step =>
      match stop with
      | None => Err E_TYPE                      (* range(a, None, c) *)
      | Some st => Ok (BList (py_range (py_or start 0) st (py_or step 1)))
      end
  | KInt b => Ok (BList [b])
  | KList l => Ok (BList l)
  | KName s => Ok (BName s)
  end.

(* try: bits = self.bit_definitions[bits]  except (TypeError, KeyError): pass
   An unknown name stays a str: iterating it shifts 1 by a character (TypeError);
   the empty str reaches min() (ValueError). *)
Definition resolve (defs : list (list Z * list Z)) (sel : bitsel) : res (list Z) :=
  match sel with
  | BList l => Ok l
  | BName s =>
      match sassoc s defs with
      | Some l => Ok l
      | None => match s with [] => Err E_VALUE | _ => Err E_TYPE end
      end
  end.

(* mask = 0; for bit in bits: mask |= 1 << bit     (negative shift count: ValueError) *)
Fixpoint mask_of (bits : list Z) (mask : Z) : res Z :=
  match bits with
  | [] => Ok mask
  | b :: r => if b <? 0 then Err E_VALUE else mask_of r (Z.lor mask (Z.shiftl 1 b))
  end.

(* min(bits)  (empty: ValueError) *)
Definition list_min (l : list Z) : res Z :=
  match l with [] => Err E_VALUE | x :: r => Ok (fold_left Z.min r x) end.

Definition decode_bits_list (value : Z) (bits : list Z) : res Z :=
  rbind (mask_of bits 0) (fun mask =>
  rbind (list_min bits) (fun m =>
  Ok (Z.shiftr (Z.land value mask) m))).

Definition encode_bits_list (original : Z) (bits : list Z) (bit_value : Z) : res Z :=
  rbind (mask_of bits 0) (fun mask =>
  let temp := Z.land original (Z.lnot mask) in
  rbind (list_min bits) (fun m =>
  Ok (Z.lor temp (Z.shiftl bit_value m)))).

Definition decode_bits (defs : list (list Z * list Z)) (value : Z) (sel : bitsel) : res Z :=
  rbind (resolve defs sel) (decode_bits_list value).

Definition encode_bits (defs : list (list Z * list Z)) (original : Z) (sel : bitsel) (bit_value : Z) : res Z :=
  rbind (resolve defs sel) (fun bits => encode_bits_list original bits bit_value).

(* ------------------------------------------------------------------ descriptions *)
Fixpoint find_desc (d : list Z) (t : list (Z * list Z)) : option Z :=
  match t with
  | [] => None
  | (v, d') :: r => if list_Z_eqb d' d then Some v else find_desc d r
  end.

Definition decode_desc (t : list (Z * list Z)) (value : Z) : res (list Z) :=
  match t with
  | [] => Err E_OD
  | _ => match zassoc value t with Some d => Ok d | None => Err E_OD end
  end.

Definition encode_desc (t : list (Z * list Z)) (d : list Z) : res Z :=
  match t with
  | [] => Err E_OD
  | _ => match find_desc d t with Some v => Ok v | None => Err E_VALUE end
  end.

(* ------------------------------------------------------------------ scaling (over Q) *)
(* int(round(x)) : nearest integer, ties to the even one *)
Definition round_half_even (q : Q) : Z :=
  let n := Qnum q in
  let d := Zpos (Qden q) in
  let fl := n / d in
  match 2 * (n mod d) ?= d with
  | Lt => fl
  | Gt => fl + 1
  | Eq => if Z.even fl then fl else fl + 1
  end.

(* The object as far as the views need it. *)
Record odvar := {
  od_dt : Z;                               (* data_type *)
  od_factor : Q;                           (* factor *)
  od_descs : list (Z * list Z);            (* value_descriptions, in insertion order *)
  od_bitdefs : list (list Z * list Z)      (* bit_definitions, in insertion order *)
}.

(* Only integer objects are modelled; other data types pass the value through unchanged
   in the code and are never generated (E_FUEL marks "not modelled"). *)
Definition encode_phys (od : odvar) (value : Q) : res Z :=
  if zmem (od_dt od) INTEGER_TYPES then
    if Qeq_bool (od_factor od) 0 then Err E_OTHER           (* ZeroDivisionError *)
    else Ok (round_half_even (Qdiv value (od_factor od)))
  else Err E_FUEL.

Definition decode_phys (od : odvar) (value : Z) : res Q :=
  if zmem (od_dt od) INTEGER_TYPES then Ok (Qmult (inject_Z value) (od_factor od))
  else Err E_FUEL.

(* ------------------------------------------------------------------ the accessor layer *)
(* variable.py reaches the stored value only through .raw (get) and .raw = (set). *)
Section Accessors.
  Context {S : Type} (get_raw : S -> res Z) (set_raw : S -> Z -> res S).
  Context (od : odvar).

  Definition phys_get (s : S) : res Q := rbind (get_raw s) (decode_phys od).
  Definition phys_set (s : S) (v : Q) : res S := rbind (encode_phys od v) (set_raw s).

  Definition desc_get (s : S) : res (list Z) := rbind (get_raw s) (decode_desc (od_descs od)).
  Definition desc_set (s : S) (d : list Z) : res S := rbind (encode_desc (od_descs od) d) (set_raw s).

  (* var.bits builds a Bits object, whose constructor reads the raw value once;
     __getitem__ decodes the cached value; __setitem__ modifies it and writes it back *)
  Definition bits_get (s : S) (key : bkey) : res Z :=
    rbind (get_raw s) (fun raw =>
    rbind (get_bits key) (fun sel =>
    decode_bits (od_bitdefs od) raw sel)).

  Definition bits_set (s : S) (key : bkey) (v : Z) : res S :=
    rbind (get_raw s) (fun raw =>
    rbind (get_bits key) (fun sel =>
    rbind (encode_bits (od_bitdefs od) raw sel v) (fun r =>
    set_raw s r))).

  (* b = var.bits; b[key] = v; b[key] : the same Bits object is read after the assignment,
     it decodes the value it cached when writing, without reading the store again *)
  Definition bits_held (s : S) (key : bkey) (v : Z) : res (S * res Z) :=
    rbind (get_raw s) (fun raw =>
    rbind (get_bits key) (fun sel =>
    rbind (encode_bits (od_bitdefs od) raw sel v) (fun r =>
    rbind (set_raw s r) (fun s' =>
    Ok (s', rbind (get_bits key) (decode_bits (od_bitdefs od) r)))))).
End Accessors.

(* ------------------------------------------------------------------ the concrete store *)
(* A value of data type dt kept as bytes at a byte offset of a buffer:
   - SDO object: the buffer is the server's stored value (offset 0, nothing around it);
   - PDO object mapped byte-aligned with its full length: the buffer is the PDO data,
     get_data = data[off : off+size], set_data = data[off : off+len(new)] = new. *)
Record cell := { c_pre : list Z; c_cur : list Z; c_post : list Z }.

Definition cell_frame (c : cell) : list Z := c_pre c ++ c_cur c ++ c_post c.

Definition cell_get (dt : Z) (c : cell) : res Z :=
  match decode_raw (Some dt) (c_cur c) with
  | Ok (PInt z) => Ok z
  | Ok _ => Err E_FUEL
  | Err k => Err k
  | Abort a => Abort a
  end.

Definition cell_set (dt : Z) (c : cell) (v : Z) : res cell :=
  rbind (encode_raw (Some dt) (PInt v)) (fun bs =>
  Ok {| c_pre := c_pre c; c_cur := bs; c_post := c_post c |}).

(* ------------------------------------------------------------------ correspondence runner *)
Definition qval (q : Q) : val := let r := Qred q in VL [VZ (Qnum r); VZ (Zpos (Qden r))].
Definition mkq (n d : Z) : Q := Qmake n (Z.to_pos d).

Definition mkod (dt : Z) (fn fd : Z) (descs : list (Z * list Z)) (defs : list (list Z * list Z)) : odvar :=
  {| od_dt := dt; od_factor := mkq fn fd; od_descs := build_descs descs; od_bitdefs := build_bitdefs defs |}.

Inductive view_op :=
| OSetRaw (v : Z) | OGetRaw
| OSetPhys (n d : Z) | OGetPhys
| OSetDesc (d : list Z) | OGetDesc
| OSetBits (k : bkey) (v : Z) | OGetBits (k : bkey)
| OHeldBits (k : bkey) (v : Z)
(* the stored bytes change by a route that is not this accessor: a received PDO frame, the device or
   a second accessor changing the object, a direct write of the data *)
| OPoke (bs : list Z)
(* the second public route: var.write(value, fmt) / var.read(fmt); fmt as a code (fmt_code) and, for a
   write, the assignment it carries (the value in the Python type that the format expects) *)
| OWrite (fmt : Z) (o : view_op)
| ORead (fmt : Z).

(* fmt strings of read / write: "raw" = 0, "phys" = 1, "desc" = 2, any other string = 3 *)
Definition FMT_RAW : Z := 0.
Definition FMT_PHYS : Z := 1.
Definition FMT_DESC : Z := 2.

(* which property the method goes through: 1 = raw, 2 = phys, 3 = desc, 0 = none (the method does
   nothing / returns None for an unknown format) *)
Definition rw_route (fmt : Z) : Z :=
  if fmt =? FMT_RAW then 1 else if fmt =? FMT_PHYS then 2 else if fmt =? FMT_DESC then 3 else 0.

Definition setter_route (o : view_op) : Z :=
  match o with OSetRaw _ => 1 | OSetPhys _ _ => 2 | OSetDesc _ => 3 | _ => 0 end.

(* one step: observation and next store (unchanged when the step raises) *)
Definition unit_or_err {A} (c : cell) (r : res A) (f : A -> cell) : val * cell :=
  match r with Ok a => (VNone, f a) | Err k => (VErr k, c) | Abort a => (VAbort a, c) end.

(* SdoAbortedError 0x06010001 "attempt to read a write only object": what a store whose read is refused raises *)
Definition ABORT_WRITE_ONLY : Z := 100728833.

(* wo = true: a store that takes writes but refuses every read (write-only object behind SDO) *)
Fixpoint step_op_g (wo : bool) (od : odvar) (c : cell) (o : view_op) {struct o} : val * cell :=
  let g := if wo then (fun _ : cell => Abort ABORT_WRITE_ONLY) else cell_get (od_dt od) in
  let s := cell_set (od_dt od) in
  match o with
  | OSetRaw v => unit_or_err c (s c v) (fun x => x)
  | OGetRaw => (res_val VZ (g c), c)
  | OSetPhys n d => unit_or_err c (phys_set s od c (mkq n d)) (fun x => x)
  | OGetPhys => (res_val qval (phys_get g od c), c)
  | OSetDesc d => unit_or_err c (desc_set s od c d) (fun x => x)
  | OGetDesc => (res_val VS (desc_get g od c), c)
  | OSetBits k v => unit_or_err c (bits_set g s od c k v) (fun x => x)
  | OGetBits k => (res_val VZ (bits_get g od c k), c)
  | OPoke bs => (VNone, {| c_pre := c_pre c; c_cur := bs; c_post := c_post c |})
  | OHeldBits k v =>
      match bits_held g s od c k v with
      | Ok (c', r) => (res_val VZ r, c')
      | Err e => (VErr e, c)
      | Abort a => (VAbort a, c)
      end
  | OWrite fmt o' =>
      let r := rw_route fmt in
      if r =? 0 then (VNone, c)                       (* unknown format: nothing is written *)
      else if r =? setter_route o' then step_op_g wo od c o'  (* self.raw / self.phys / self.desc = value *)
      else (VErr E_FUEL, c)                           (* value of another Python type: never generated *)
  | ORead fmt =>
      let r := rw_route fmt in
      if r =? 1 then (res_val VZ (g c), c)
      else if r =? 2 then (res_val qval (phys_get g od c), c)
      else if r =? 3 then (res_val VS (desc_get g od c), c)
      else (VNone, c)                                 (* unknown format: returns None *)
  end.

Definition step_op : odvar -> cell -> view_op -> val * cell := step_op_g false.

(* after every step: what the step returned and the bytes of the whole buffer *)
Fixpoint run_ops_g (wo : bool) (od : odvar) (c : cell) (ops : list view_op) : list val :=
  match ops with
  | [] => []
  | o :: r => let '(v, c') := step_op_g wo od c o in VL [v; VB (cell_frame c')] :: run_ops_g wo od c' r
  end.
Definition run_ops : odvar -> cell -> list view_op -> list val := run_ops_g false.

Inductive views_case :=
(* od.encode_bits(raw, sel, v) and od.decode_bits(raw, sel) *)
| VBitsOd (defs : list (list Z * list Z)) (raw : Z) (sel : bitsel) (v : Z)
(* od.decode_desc(v) for each v, od.encode_desc(d) for each d *)
| VDescOd (adds : list (Z * list Z)) (vs : list Z) (ds : list (list Z))
(* od.encode_phys(vn/vd), od.decode_phys(raw) *)
| VPhysOd (dt fn fd vn vd raw : Z)
(* an object of type dt behind a store: buffer pre ++ cur ++ post, then the operations *)
| VOps (dt fn fd : Z) (descs : list (Z * list Z)) (defs : list (list Z * list Z))
       (pre cur post : list Z) (ops : list view_op)
(* the same behind a store that refuses every read *)
| VOpsWo (dt fn fd : Z) (descs : list (Z * list Z)) (defs : list (list Z * list Z))
       (pre cur post : list Z) (ops : list view_op).

Definition run_views (c : views_case) : val :=
  match c with
  | VBitsOd defs raw sel v =>
      let d := build_bitdefs defs in
      VL [res_val VZ (encode_bits d raw sel v); res_val VZ (decode_bits d raw sel)]
  | VDescOd adds vs ds =>
      let t := build_descs adds in
      VL [VL (map (fun v => res_val VS (decode_desc t v)) vs);
          VL (map (fun d => res_val VZ (encode_desc t d)) ds)]
  | VPhysOd dt fn fd vn vd raw =>
      let od := mkod dt fn fd [] [] in
      VL [res_val VZ (encode_phys od (mkq vn vd)); res_val qval (decode_phys od raw)]
  | VOps dt fn fd descs defs pre cur post ops =>
      VL (run_ops (mkod dt fn fd descs defs) {| c_pre := pre; c_cur := cur; c_post := post |} ops)
  | VOpsWo dt fn fd descs defs pre cur post ops =>
      VL (run_ops_g true (mkod dt fn fd descs defs) {| c_pre := pre; c_cur := cur; c_post := post |} ops)
  end.
