(* Reference SDO server (expedited + segmented transfer), written from CiA 301 section 7.2.4.3,
   NOT from the library.  It validates every request frame it receives and records a
   violation code for anything a conformant client must not send.  Definitions only.

   The server is parameterised by a response [style] (how it answers uploads: size indicated
   or not, expedited or not, expedited with or without size, lengths of the upload segments
   including empty non-final segments, last flag on the data segment or on a separate empty
   segment).  [net] adds the transmission medium with at most one pending disturbance
   (used by C07); with [n_fault = None] it is the undisturbed reference peer of C01.

   Python twin: harness/ref/sdo_ref_server.py (tied by the correspondence: full frame traces). *)
From Coq Require Import ZArith List Bool.
From CV Require Import Base.Val Base.Bytes Base.Tys.
Import ListNotations.
Open Scope Z_scope.

Definition frame := list Z.

Definition b2z (b : bool) : Z := if b then 1 else 0.
Definition pad_to (n : nat) (l : list Z) : list Z := l ++ repeat 0 (n - length l).
Definition all_zero (l : list Z) : bool := forallb (fun x => x =? 0) l.
Definition is_nil {A} (l : list A) : bool := match l with [] => true | _ => false end.
Definition olist {A} (o : option A) : list A := match o with Some a => [a] | None => [] end.

(* ---- response style ---- *)
Record style := {
  st_size_ind : bool;      (* segmented upload: size indicated in the initiate response *)
  st_expedite : bool;      (* values of 1..4 bytes are uploaded expedited *)
  st_exp_size : bool;      (* expedited upload indicates the size (s = 1, n = 4 - len) *)
  st_lazy_end : bool;      (* last-segment flag sent on a separate empty segment *)
  st_segs : list Z         (* lengths of the successive upload segments (clamped to 0..7);
                              7 once the list is exhausted *)
}.
Definition default_style : style :=
  {| st_size_ind := true; st_expedite := true; st_exp_size := true; st_lazy_end := false; st_segs := [] |}.

(* ---- server state ---- *)
Inductive xfer :=
| XNone
| XDl (mux : list Z) (size : option Z) (buf : list Z) (t : bool)
| XUl (mux : list Z) (rest : list Z) (t : bool) (segs : list Z).

Record sst := {
  s_store : list (Z * list Z);   (* key = index + 65536 * subindex; newest binding first *)
  s_x : xfer;
  s_viol : list Z;               (* violation codes, newest first; [] = every request was legal *)
  s_style : style
}.

(* violation codes *)
Definition V_LEN : Z := 1.        (* request is not 8 bytes *)
Definition V_RESERVED : Z := 2.   (* reserved bit / reserved bytes of initiate download not zero *)
Definition V_EXP_PAD : Z := 3.    (* expedited download: bytes beyond the data not zero *)
Definition V_N : Z := 4.          (* n set where it must be 0 *)
Definition V_NO_XFER : Z := 5.    (* segment request without a transfer of that kind *)
Definition V_TOGGLE : Z := 6.     (* toggle bit not alternating from 0 *)
Definition V_SEG_PAD : Z := 7.    (* download segment: bytes beyond 7 - n not zero *)
Definition V_SIZE : Z := 8.       (* announced size differs from the bytes sent *)
Definition V_UL_RESERVED : Z := 9. (* upload request: reserved bits / bytes not zero *)
Definition V_CS : Z := 10.        (* unknown command specifier *)

Definition set_x (x : xfer) (s : sst) : sst :=
  {| s_store := s_store s; s_x := x; s_viol := s_viol s; s_style := s_style s |}.
Definition flag (v : Z) (s : sst) : sst :=
  {| s_store := s_store s; s_x := s_x s; s_viol := v :: s_viol s; s_style := s_style s |}.
Definition flag_if (b : bool) (v : Z) (s : sst) : sst := if b then flag v s else s.
Definition store_put (mux : list Z) (v : list Z) (s : sst) : sst :=
  {| s_store := (le_decode mux, v) :: s_store s; s_x := s_x s; s_viol := s_viol s; s_style := s_style s |}.
Definition set_style (st : style) (s : sst) : sst :=
  {| s_store := s_store s; s_x := s_x s; s_viol := s_viol s; s_style := st |}.

Definition srv_abort (mux : list Z) (code : Z) : frame := 128 :: mux ++ le_encode 4 code.
Definition clamp7 (x : Z) : nat := Z.to_nat (Z.max 0 (Z.min 7 x)).

(* ---- the four services ---- *)
Definition srv_init_download (s : sst) (fr : frame) : sst * option frame :=
  let c := nth 0 fr 0 in
  let mux := firstn 3 (skipn 1 fr) in
  let d := skipn 4 fr in
  let e := Z.testbit c 1 in
  let sz := Z.testbit c 0 in
  let n := (c / 4) mod 4 in
  let s1 := flag_if (Z.testbit c 4) V_RESERVED s in
  let ack := Some (96 :: mux ++ [0; 0; 0; 0]) in
  if e then
    let s2 := flag_if (negb sz && negb (n =? 0)) V_N s1 in
    let ln := Z.to_nat (if sz then 4 - n else 4) in
    let s3 := flag_if (negb (all_zero (skipn ln d))) V_EXP_PAD s2 in
    (set_x XNone (store_put mux (firstn ln d) s3), ack)
  else
    let s2 := flag_if (negb (n =? 0)) V_N s1 in
    let s3 := flag_if (negb sz && negb (all_zero d)) V_RESERVED s2 in
    (set_x (XDl mux (if sz then Some (le_decode d) else None) [] false) s3, ack).

Definition srv_download_segment (s : sst) (fr : frame) : sst * option frame :=
  let c := nth 0 fr 0 in
  match s_x s with
  | XDl mux size buf t =>
      let tt := Z.testbit c 4 in
      let n := Z.to_nat ((c / 2) mod 8) in
      let last := Z.testbit c 0 in
      if negb (Bool.eqb tt t) then
        (flag V_TOGGLE (set_x XNone s), Some (srv_abort mux 84082688 (* 0x05030000 *)))
      else
        let s1 := flag_if (negb (all_zero (skipn (7 - n) (skipn 1 fr)))) V_SEG_PAD s in
        let buf' := buf ++ firstn (7 - n) (skipn 1 fr) in
        let ack := Some ((32 + 16 * b2z t) :: [0; 0; 0; 0; 0; 0; 0]) in
        if last then
          let s2 := flag_if (match size with Some z => negb (z =? zlen buf') | None => false end) V_SIZE s1 in
          (set_x XNone (store_put mux buf' s2), ack)
        else (set_x (XDl mux size buf' (negb t)) s1, ack)
  | _ => (flag V_NO_XFER (set_x XNone s), Some (srv_abort [0; 0; 0] 84148225 (* 0x05040001 *)))
  end.

Definition srv_init_upload (s : sst) (fr : frame) : sst * option frame :=
  let c := nth 0 fr 0 in
  let mux := firstn 3 (skipn 1 fr) in
  let st := s_style s in
  let s1 := flag_if (negb ((c mod 32 =? 0) && all_zero (skipn 4 fr))) V_UL_RESERVED s in
  match zassoc (le_decode mux) (s_store s) with
  | None => (set_x XNone s1, Some (srv_abort mux 100794368 (* 0x06020000 *)))
  | Some v =>
      let len := zlen v in
      if st_expedite st && (1 <=? len) && (len <=? 4) then
        (set_x XNone s1,
         Some ((if st_exp_size st then 67 + 4 * (4 - len) else 66) :: mux ++ pad_to 4 v))
      else
        (set_x (XUl mux v false (st_segs st)) s1,
         Some ((if st_size_ind st then 65 else 64) :: mux ++
               (if st_size_ind st then le_encode 4 len else [0; 0; 0; 0])))
  end.

Definition srv_upload_segment (s : sst) (fr : frame) : sst * option frame :=
  let c := nth 0 fr 0 in
  match s_x s with
  | XUl mux rest t segs =>
      let s1 := flag_if (negb ((c mod 16 =? 0) && all_zero (skipn 1 fr))) V_UL_RESERVED s in
      if negb (Bool.eqb (Z.testbit c 4) t) then
        (flag V_TOGGLE (set_x XNone s1), Some (srv_abort mux 84082688))
      else
        let k := match segs with [] => 7%nat | x :: _ => clamp7 x end in
        let chunk := firstn k rest in
        let rest' := skipn k rest in
        let last := if st_lazy_end (s_style s) then is_nil rest else is_nil rest' in
        let resp := Some ((16 * b2z t + 2 * (7 - zlen chunk) + b2z last) :: pad_to 7 chunk) in
        if last then (set_x XNone s1, resp)
        else (set_x (XUl mux rest' (negb t) (tl segs)) s1, resp)
  | _ => (flag V_NO_XFER (set_x XNone s), Some (srv_abort [0; 0; 0] 84148225))
  end.

Definition ref_step (s : sst) (fr : frame) : sst * option frame :=
  if negb (length fr =? 8)%nat then (flag V_LEN s, None)
  else
    let cs := nth 0 fr 0 / 32 in
    if cs =? 1 then srv_init_download s fr
    else if cs =? 0 then srv_download_segment s fr
    else if cs =? 2 then srv_init_upload s fr
    else if cs =? 3 then srv_upload_segment s fr
    else if cs =? 4 then (set_x XNone s, None)            (* abort from the client: no answer *)
    else (flag V_CS (set_x XNone s), Some (srv_abort (firstn 3 (skipn 1 fr)) 84148225)).

(* ---- the medium: at most one pending disturbance (C07) ---- *)
Inductive fault :=
| FLost                        (* the request is served, its response never arrives *)
| FLostReq                     (* the request itself never reaches the server *)
| FReplace (frs : list frame)  (* the response is replaced by these frames (abort frame, anything) *)
| FXor0 (m : Z)                (* byte 0 of the response xor m: 16 = toggle, 32..224 = specifier *)
| FMux (m : list Z)            (* bytes 1..3 (multiplexer) of the response replaced by m *)
| FDup                         (* the response arrives twice *)
| FStale (fr : frame)          (* a stale frame arrives between the request and its response *)
| FDelay.                      (* the response is late: it arrives together with the answer to the
                                  next frame the client sends (after its time-out abort) *)

Definition apply_fault (f : fault) (rs : list frame) : list frame :=
  match f with
  | FLost | FLostReq | FDelay => []
  | FReplace frs => frs
  | FXor0 m => map (fun r => match r with c :: t => Z.lxor c m :: t | [] => [] end) rs
  | FMux m => map (fun r => match r with c :: t => c :: m ++ skipn 3 t | [] => [] end) rs
  | FDup => rs ++ rs
  | FStale fr => fr :: rs
  end.

Record net := { n_fault : option (nat * fault); n_srv : sst }.

(* the disturbance hits the response to the k-th frame (counted from 0) the client sends
   after the disturbance was armed *)
Definition net_step (n : net) (req : frame) : net * list frame :=
  match n_fault n with
  | Some (O, FLostReq) => ({| n_fault := None; n_srv := n_srv n |}, [])
  | Some (O, FDelay) =>
      let '(s', o) := ref_step (n_srv n) req in
      ({| n_fault := match o with Some r => Some (O, FStale r) | None => None end; n_srv := s' |}, [])
  | Some (O, f) =>
      let '(s', o) := ref_step (n_srv n) req in
      ({| n_fault := None; n_srv := s' |}, apply_fault f (olist o))
  | Some (S k, f) =>
      let '(s', o) := ref_step (n_srv n) req in
      ({| n_fault := Some (k, f); n_srv := s' |}, olist o)
  | None =>
      let '(s', o) := ref_step (n_srv n) req in
      ({| n_fault := None; n_srv := s' |}, olist o)
  end.

Definition net_of (s : sst) : net := {| n_fault := None; n_srv := s |}.
Definition arm (f : option (nat * fault)) (n : net) : net := {| n_fault := f; n_srv := n_srv n |}.
Definition with_srv (g : sst -> sst) (n : net) : net := {| n_fault := n_fault n; n_srv := g (n_srv n) |}.

Definition mux_key (idx sub : Z) : Z := idx + 65536 * sub.
Definition store_get (idx sub : Z) (s : sst) : option (list Z) := zassoc (mux_key idx sub) (s_store s).
