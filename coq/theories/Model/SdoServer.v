(* Model of canopen/sdo/server.py (SdoServer.on_request and the handlers it dispatches to),
   canopen/node/local.py (LocalNode.get_data / set_data / _find_object), the parts of
   canopen/objectdictionary/__init__.py they use (ObjectDictionary / ODRecord / ODArray
   __contains__ / __getitem__, the OD variable class: readable / writable / __len__ / encode_raw) and
   SdoClient.read_response (abort decoding) of canopen/sdo/client.py.
   Definitions only.  Python int = Z, bytes = list Z, frames = list Z, exceptions = res.
   Application callbacks: the read callback is an oracle function [rcb] (a parameter), every
   callback invocation is logged in the state ([EvR] / [EvW]); callbacks do not raise. *)
From Coq Require Import ZArith List Bool.
From CV Require Import Base.Val Base.Bytes Base.Tys Gen.Tables Gen.SdoTables Model.Codec Model.RefClient.
Import ListNotations.
Open Scope Z_scope.

(* ---- abort codes written as literals in server.py / local.py ---- *)
Definition AB_TOGGLE : Z := 0x05030000.
Definition AB_COMMAND : Z := 0x05040001.
Definition AB_WRITEONLY : Z := 0x06010001.
Definition AB_READONLY : Z := 0x06010002.
Definition AB_NOOBJECT : Z := 0x06020000.
Definition AB_LENGTH : Z := 0x06070010.
Definition AB_NOSUB : Z := 0x06090011.
Definition AB_NOVALUE : Z := 0x060A0023.
Definition AB_GENERAL : Z := 0x08000000.

(* ---- object dictionary ---- *)
Record var := mkVar {
  v_dt : option Z;            (* data_type *)
  v_acc : list Z;             (* access_type, code points *)
  v_default : option pyval;   (* default (EDS DefaultValue) *)
  v_value : option pyval      (* value (DCF parameter value) *)
}.

Inductive obj :=
| OVar (v : var)
| ORec (subs : list (Z * var))
| OArr (subs : list (Z * var)).

Definition dict := list (Z * obj).

(* OD variable, writable: "w" in access_type;  readable: "r" in access_type or access_type == "const" *)
Definition writable (v : var) : bool := zmem 119 (v_acc v).
Definition readable (v : var) : bool := zmem 114 (v_acc v) || list_Z_eqb (v_acc v) [99; 111; 110; 115; 116].

(* ODArray.__getitem__: an undefined sub-index 1..255 is answered from the member at sub-index 1;
   data_type, default, access_type are copied, value (the DCF parameter value) is not *)
Definition template (t : var) : var := mkVar (v_dt t) (v_acc t) (v_default t) None.

(* LocalNode._find_object *)
Definition find_object (d : dict) (idx sub : Z) : res var :=
  match zassoc idx d with
  | None => Abort AB_NOOBJECT
  | Some (OVar v) => if sub =? 0 then Ok v else Abort AB_NOSUB
  | Some (ORec subs) =>
      match zassoc sub subs with Some v => Ok v | None => Abort AB_NOSUB end
  | Some (OArr subs) =>
      match zassoc sub subs with
      | Some v => Ok v
      | None =>
          if (0 <? sub) && (sub <? 256) then
            match zassoc 1 subs with Some t => Ok (template t) | None => Abort AB_NOSUB end
          else Abort AB_NOSUB
      end
  end.

(* obj.data_type in NUMBER_TYPES *)
Definition is_number (v : var) : bool :=
  match v_dt v with Some t => zmem t NUMBER_TYPES | None => false end.

(* ---- node + server state ---- *)
Inductive event :=
| EvR (idx sub : Z)                    (* read callback invoked *)
| EvW (idx sub : Z) (data : list Z).   (* write callback invoked with these bytes *)

Definition store := list ((Z * Z) * list Z).   (* data_store; the newest binding first *)

Definition key_eqb (a b : Z * Z) : bool := (fst a =? fst b) && (snd a =? snd b).

Fixpoint store_get (s : store) (idx sub : Z) : option (list Z) :=
  match s with
  | [] => None
  | (k, b) :: r => if key_eqb k (idx, sub) then Some b else store_get r idx sub
  end.

Record sstate := mkSt {
  s_buf : option (list Z);    (* SdoServer._buffer *)
  s_toggle : Z;               (* _toggle *)
  s_index : Z;                (* _index *)
  s_sub : Z;                  (* _subindex *)
  s_lasterr : Z;              (* last_received_error *)
  s_store : store;            (* LocalNode.data_store *)
  s_log : list event          (* callback invocations, oldest first *)
}.

Definition fresh_state (st0 : store) : sstate := mkSt None 0 0 0 0 st0 [].

Definition set_mux (st : sstate) (i s : Z) : sstate :=
  mkSt (s_buf st) (s_toggle st) i s (s_lasterr st) (s_store st) (s_log st).
Definition set_buf (st : sstate) (b : option (list Z)) (t : Z) : sstate :=
  mkSt b t (s_index st) (s_sub st) (s_lasterr st) (s_store st) (s_log st).
Definition set_lasterr (st : sstate) (c : Z) : sstate :=
  mkSt (s_buf st) (s_toggle st) (s_index st) (s_sub st) c (s_store st) (s_log st).
Definition log_ev (st : sstate) (e : event) : sstate :=
  mkSt (s_buf st) (s_toggle st) (s_index st) (s_sub st) (s_lasterr st) (s_store st) (s_log st ++ [e]).
Definition store_put (st : sstate) (i s : Z) (b : list Z) : sstate :=
  mkSt (s_buf st) (s_toggle st) (s_index st) (s_sub st) (s_lasterr st) (((i, s), b) :: s_store st) (s_log st).

(* SDO_STRUCT.unpack_from(request): needs 4 bytes *)
Definition unpack_mux (req : frame) : res (Z * Z * Z) :=
  match req with
  | c :: lo :: hi :: sub :: _ => Ok (c, lo + 256 * hi, sub)
  | _ => Err E_STRUCT
  end.

Section Server.
  Context (d : dict) (rcb : Z -> Z -> option pyval).

  (* LocalNode.get_data *)
  Definition get_data (st : sstate) (idx sub : Z) (check_readable : bool) : sstate * res (list Z) :=
    match find_object d idx sub with
    | Ok v =>
      if check_readable && negb (readable v) then (st, Abort AB_WRITEONLY)
      else
        let st1 := log_ev st (EvR idx sub) in
        match rcb idx sub with
        | Some r => (st1, encode_raw (v_dt v) r)
        | None =>
          match store_get (s_store st) idx sub with
          | Some b => (st1, Ok b)
          | None =>
            match v_value v with
            | Some x => (st1, encode_raw (v_dt v) x)
            | None =>
              match v_default v with
              | Some x => (st1, encode_raw (v_dt v) x)
              | None => (st1, Abort AB_NOVALUE)
              end
            end
          end
        end
    | Err k => (st, Err k)
    | Abort c => (st, Abort c)
    end.

  (* the checks of LocalNode.set_data, before anything is changed *)
  Definition check_set (idx sub : Z) (data : list Z) (check_writable : bool) : res var :=
    rbind (find_object d idx sub) (fun v =>
      if check_writable && negb (writable v) then Abort AB_READONLY
      else if is_number v && negb (8 * zlen data =? len_bits (v_dt v)) then Abort AB_LENGTH
      else Ok v).

  (* LocalNode.set_data *)
  Definition set_data (st : sstate) (idx sub : Z) (data : list Z) (check_writable : bool)
    : sstate * res unit :=
    match check_set idx sub data check_writable with
    | Ok _ => (store_put (log_ev st (EvW idx sub data)) idx sub data, Ok tt)
    | Err k => (st, Err k)
    | Abort c => (st, Abort c)
    end.

  (* SdoServer.init_upload (also reached through block_upload) *)
  Definition init_upload (st : sstate) (req : frame) : sstate * res (list frame) :=
    match unpack_mux req with
    | Ok (_, idx, sub) =>
      let st1 := set_mux st idx sub in
      let res_command := Z.lor RESPONSE_UPLOAD SIZE_SPECIFIED in
      let '(st2, r) := get_data st1 idx sub true in
      match r with
      | Ok data =>
        let size := zlen data in
        if (0 <? size) && (size <=? 4) then
          let cmd := Z.lor (Z.lor res_command EXPEDITED) (Z.shiftl (4 - size) 2) in
          (st2, Ok [cmd :: le_encode 2 idx ++ [sub] ++ data ++ repeat 0 (4 - length data)])
        else if size <? 2 ^ 32 then
          (set_buf st2 (Some data) 0, Ok [res_command :: le_encode 2 idx ++ [sub] ++ le_encode 4 size])
        else (st2, Err E_STRUCT)                (* struct.pack_into("<L", ...) out of range *)
      | Err k => (st2, Err k)
      | Abort c => (st2, Abort c)
      end
    | Err k => (st, Err k)
    | Abort c => (st, Abort c)
    end.

  (* SdoServer.segmented_upload *)
  Definition segmented_upload (st : sstate) (command : Z) : sstate * res (list frame) :=
    if negb (Z.land command TOGGLE_BIT =? s_toggle st) then (st, Abort AB_TOGGLE)
    else
      match s_buf st with
      | None => (st, Err E_TYPE)               (* None[:7] *)
      | Some buf =>
        let data := firstn 7 buf in
        let size := zlen data in
        let rest := skipn 7 buf in
        let c1 := Z.lor RESPONSE_SEGMENT_UPLOAD (s_toggle st) in
        let c2 := Z.lor c1 (Z.shiftl (7 - size) 1) in
        let c3 := match rest with [] => Z.lor c2 NO_MORE_DATA | _ => c2 end in
        (set_buf st (Some rest) (Z.lxor (s_toggle st) TOGGLE_BIT),
         Ok [c3 :: data ++ repeat 0 (7 - length data)])
      end.

  (* SdoServer.init_download *)
  Definition init_download (st : sstate) (req : frame) : sstate * res (list frame) :=
    match unpack_mux req with
    | Ok (command, idx, sub) =>
      let st1 := set_mux st idx sub in
      let resp := RESPONSE_DOWNLOAD :: le_encode 2 idx ++ [sub; 0; 0; 0; 0] in
      if negb (Z.land command EXPEDITED =? 0) then
        let size := if negb (Z.land command SIZE_SPECIFIED =? 0)
                    then 4 - Z.land (Z.shiftr command 2) 3 else 4 in
        let '(st2, r) := set_data st1 idx sub (firstn (Z.to_nat size) (skipn 4 req)) true in
        match r with
        | Ok _ => (st2, Ok [resp])
        | Err k => (st2, Err k)
        | Abort c => (st2, Abort c)
        end
      else if negb (Z.land command SIZE_SPECIFIED =? 0) && (zlen req <? 8) then
        (st1, Err E_STRUCT)                    (* struct.unpack_from("<L", request, 4) *)
      else (set_buf st1 (Some []) 0, Ok [resp])
    | Err k => (st, Err k)
    | Abort c => (st, Abort c)
    end.

  (* SdoServer.segmented_download *)
  Definition segmented_download (st : sstate) (command : Z) (req : frame) : sstate * res (list frame) :=
    if negb (Z.land command TOGGLE_BIT =? s_toggle st) then (st, Abort AB_TOGGLE)
    else
      match s_buf st with
      | None => (st, Err E_ATTR)               (* None.extend *)
      | Some buf =>
        let last_byte := 8 - Z.land (Z.shiftr command 1) 7 in
        let buf1 := buf ++ firstn (Z.to_nat (last_byte - 1)) (skipn 1 req) in
        let st1 := set_buf st (Some buf1) (s_toggle st) in
        let '(st2, r) :=
          if negb (Z.land command NO_MORE_DATA =? 0)
          then set_data st1 (s_index st) (s_sub st) buf1 true
          else (st1, Ok tt) in
        match r with
        | Ok _ =>
          let res_command := Z.lor RESPONSE_SEGMENT_DOWNLOAD (s_toggle st) in
          (set_buf st2 (s_buf st2) (Z.lxor (s_toggle st) TOGGLE_BIT), Ok [[res_command; 0; 0; 0; 0; 0; 0; 0]])
        | Err k => (st2, Err k)
        | Abort c => (st2, Abort c)
        end
      end.

  (* SdoServer.request_aborted: struct.unpack_from("<BHBL", data) needs 8 bytes *)
  Definition request_aborted (st : sstate) (req : frame) : sstate * res (list frame) :=
    if zlen req <? 8 then (st, Err E_STRUCT)
    else (set_lasterr st (le_decode (firstn 4 (skipn 4 req))), Ok []).

  (* SdoServer.abort: struct.pack("<BHBL", RESPONSE_ABORTED, _index, _subindex, code) *)
  Definition abort_frame (st : sstate) (code : Z) : option frame :=
    if (0 <=? s_index st) && (s_index st <? 65536) && (0 <=? s_sub st) && (s_sub st <? 256) &&
       (0 <=? code) && (code <? 2 ^ 32)
    then Some (RESPONSE_ABORTED :: le_encode 2 (s_index st) ++ [s_sub st] ++ le_encode 4 code)
    else None.

  (* abort() called from an except clause (or the final else): a struct.error there is not caught *)
  Definition do_abort (st : sstate) (code : Z) : sstate * list frame * bool :=
    match abort_frame st code with
    | Some f => (st, [f], false)
    | None => (st, [], true)
    end.

  (* SdoServer.on_request -> (state, frames passed to send_response, raised into the receive path?) *)
  Definition on_request (st : sstate) (req : frame) : sstate * list frame * bool :=
    match req with
    | [] => (st, [], true)                     (* struct.unpack_from("B", data, 0) outside the try *)
    | command :: _ =>
      let ccs := Z.land command 0xE0 in
      let '(st1, r) :=
        if ccs =? REQUEST_UPLOAD then init_upload st req
        else if ccs =? REQUEST_SEGMENT_UPLOAD then segmented_upload st command
        else if ccs =? REQUEST_DOWNLOAD then init_download st req
        else if ccs =? REQUEST_SEGMENT_DOWNLOAD then segmented_download st command req
        else if ccs =? REQUEST_BLOCK_UPLOAD then init_upload st req
        else if ccs =? REQUEST_BLOCK_DOWNLOAD then (st, Abort AB_COMMAND)
        else if ccs =? REQUEST_ABORTED then request_aborted st req
        else (st, Abort AB_COMMAND) in
      match r with
      | Ok rs => (st1, rs, false)
      | Abort c => do_abort st1 c
      | Err k => do_abort st1 (if k =? E_KEY then AB_NOOBJECT else AB_GENERAL)
      end
    end.
End Server.

(* ---- SdoClient.read_response: [None] = nothing arrives before RESPONSE_TIMEOUT ---- *)
Definition client_read_response (resp : option frame) : res frame :=
  match resp with
  | None => Err E_SDOCOMM
  | Some [] => Err E_STRUCT                                  (* unpack_from("B", b"") *)
  | Some (c :: r) =>
      if c =? RESPONSE_ABORTED then
        if zlen (c :: r) <? 8 then Err E_STRUCT                (* unpack_from("<L", response, 4) *)
        else Abort (le_decode (firstn 4 (skipn 4 (c :: r))))
      else Ok (c :: r)
  end.

(* ---- specification vocabulary used by the theorems ---- *)
(* what supplies the value of entry v at idx:sub, in the order of precedence:
   read callback, stored (downloaded) data, parameter value, default *)
Definition supplies (rcb : Z -> Z -> option pyval) (st : sstate) (idx sub : Z) (v : var) (data : list Z) : Prop :=
  (exists r, rcb idx sub = Some r /\ encode_raw (v_dt v) r = Ok data) \/
  (rcb idx sub = None /\ store_get (s_store st) idx sub = Some data) \/
  (rcb idx sub = None /\ store_get (s_store st) idx sub = None /\
     exists x, v_value v = Some x /\ encode_raw (v_dt v) x = Ok data) \/
  (rcb idx sub = None /\ store_get (s_store st) idx sub = None /\ v_value v = None /\
     exists x, v_default v = Some x /\ encode_raw (v_dt v) x = Ok data).

Definition no_value (rcb : Z -> Z -> option pyval) (st : sstate) (idx sub : Z) (v : var) : Prop :=
  rcb idx sub = None /\ store_get (s_store st) idx sub = None /\ v_value v = None /\ v_default v = None.

(* the object exists but the sub-index does not: a plain variable only has sub-index 0; a record
   only its members; an array its members and, when it has a member 1 to copy from, 1..255 *)
Definition sub_missing (d : dict) (idx sub : Z) : Prop :=
  match zassoc idx d with
  | Some (OVar _) => sub <> 0
  | Some (ORec subs) => zassoc sub subs = None
  | Some (OArr subs) => zassoc sub subs = None /\ (~ (0 < sub < 256) \/ zassoc 1 subs = None)
  | None => False
  end.

(* the length a numeric entry demands *)
Definition length_ok (v : var) (data : list Z) : bool :=
  negb (is_number v) || (8 * zlen data =? len_bits (v_dt v)).

(* states reachable from a fresh server by well-formed frames keep these *)
Definition mux_inv (st : sstate) : Prop :=
  0 <= s_index st < 65536 /\ 0 <= s_sub st < 256 /\ (s_toggle st = 0 \/ s_toggle st = 16).

Definition frame_ok (f : frame) : Prop := bytes_ok f /\ (1 <= length f <= 8)%nat.

(* ---- runner for the correspondence check ---- *)
Inductive op :=
| OpF (f : frame)                                   (* feed one raw frame *)
| OpU (idx sub : Z)                                 (* reference client upload *)
| OpD (idx sub : Z) (data : list Z) (mode : Z).     (* reference client download *)

Inductive sdo_case :=
| CRun (d : dict) (rcbt : list (Z * (Z * pyval))) (st0 : list (Z * (Z * list Z))) (ops : list op)
| CClient (resp : option frame).

Definition rcb_of (t : list (Z * (Z * pyval))) (idx sub : Z) : option pyval :=
  (fix go (l : list (Z * (Z * pyval))) : option pyval :=
     match l with
     | [] => None
     | (i, (s, v)) :: r => if (i =? idx) && (s =? sub) then Some v else go r
     end) t.

Definition store_of (l : list (Z * (Z * list Z))) : store :=
  map (fun '(i, (s, b)) => ((i, s), b)) l.

Definition ev_val (e : event) : val :=
  match e with
  | EvR i s => VL [VZ 0; VZ i; VZ s]
  | EvW i s b => VL [VZ 1; VZ i; VZ s; VB b]
  end.

(* data_store as a sorted list of (index, sub, bytes) *)
Fixpoint sins (k : Z * Z) (b : list Z) (l : list ((Z * Z) * list Z)) : list ((Z * Z) * list Z) :=
  match l with
  | [] => [(k, b)]
  | (k', b') :: r =>
      if key_eqb k k' then (k, b) :: r
      else if (fst k <? fst k') || ((fst k =? fst k') && (snd k <? snd k')) then (k, b) :: l
      else (k', b') :: sins k b r
  end.

Definition canon_store (s : store) : list ((Z * Z) * list Z) :=
  fold_right (fun kb acc => sins (fst kb) (snd kb) acc) [] s.

Definition store_val (s : store) : val :=
  VL (map (fun kb => VL [VZ (fst (fst kb)); VZ (snd (fst kb)); VB (snd kb)]) (canon_store s)).

Definition frames_val (l : list frame) : val := VL (map VB l).

Definition client_fuel : nat := Z.to_nat 3000.

(* a trace of response frames is observed through its length, its first frame and a
   polynomial hash of all its bytes (each frame preceded by its length), mod 2^61 - 1 *)
Definition trace_hash (tr : list frame) : Z :=
  fold_left (fun h b => (h * 257 + b + 1) mod 2305843009213693951)
            (flat_map (fun f => zlen f :: f) tr) 7.

Definition trace_val (tr : list frame) : list val :=
  [VZ (zlen tr); VZ (trace_hash tr); VB (hd [] tr)].

Definition run_op (d : dict) (rcb : Z -> Z -> option pyval) (st : sstate) (o : op) : sstate * val :=
  let n0 := length (s_log st) in
  let delta st' := VL (map ev_val (skipn n0 (s_log st'))) in
  match o with
  | OpF f =>
      let '(st', rs, raised) := on_request d rcb st f in
      (st', VL [frames_val rs; VBool raised; delta st'])
  | OpU idx sub =>
      let '(st', r, tr) := ref_upload (on_request d rcb) client_fuel st idx sub in
      (st', VL (res_val VB r :: trace_val tr ++ [delta st']))
  | OpD idx sub data mode =>
      let '(st', r, tr) := ref_download (on_request d rcb) client_fuel st idx sub data mode in
      (st', VL (res_val VB r :: trace_val tr ++ [delta st']))
  end.

Fixpoint run_ops (d : dict) (rcb : Z -> Z -> option pyval) (st : sstate) (ops : list op) : sstate * list val :=
  match ops with
  | [] => (st, [])
  | o :: r =>
      let '(st1, v) := run_op d rcb st o in
      let '(st2, vs) := run_ops d rcb st1 r in
      (st2, v :: vs)
  end.

(* the history of raw frames only, as used by the one-response theorem *)
Fixpoint run_frames (d : dict) (rcb : Z -> Z -> option pyval) (st : sstate) (fs : list frame)
  : sstate * list (list frame * bool) :=
  match fs with
  | [] => (st, [])
  | f :: r =>
      let '(st1, rs, raised) := on_request d rcb st f in
      let '(st2, outs) := run_frames d rcb st1 r in
      (st2, (rs, raised) :: outs)
  end.

Definition run_sdo (c : sdo_case) : val :=
  match c with
  | CRun d rcbt st0 ops =>
      let '(st, vs) := run_ops d (rcb_of rcbt) (fresh_state (store_of st0)) ops in
      VL [VL vs; store_val (s_store st); VZ (s_lasterr st)]
  | CClient resp => res_val VB (client_read_response resp)
  end.
