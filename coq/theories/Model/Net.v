(* Model of canopen/network.py (Network.subscribe / unsubscribe / notify / __setitem__ / __delitem__ /
   send_message / send_periodic, PeriodicMessageTask.__init__, MessageListener.on_message_received,
   NodeScanner.on_message_received / reset) and of RemoteNode / LocalNode .associate_network /
   .remove_network (canopen/node/remote.py, canopen/node/local.py).

   Definitions only.  Objects with identity are values:
     - a node object is the record (uid, node id, local?) : two records are the same Python object
       iff they are equal;
     - a callback is a [handler]: a user callback number, the LssMaster handler subscribed by
       Network.__init__, or one of the bound methods a node subscribes.
   Python's dict is an insertion-ordered association list (new keys appended, [del] removes the key,
   assignment to an existing key keeps its position). *)
From Coq Require Import ZArith List Bool.
From CV Require Import Base.Val Base.Tys Gen.NetTables.
Import ListNotations.
Open Scope Z_scope.

(* ------------------------------------------------------------------ callbacks *)
Inductive hkind :=
| KSdoResp     (* RemoteNode: sdo.on_response      on 0x580 + id *)
| KHeartbeat   (* RemoteNode: nmt.on_heartbeat     on 0x700 + id *)
| KEmcy        (* RemoteNode: emcy.on_emcy         on 0x80 + id *)
| KNmt         (* both:       nmt.on_command       on 0 *)
| KSdoReq      (* LocalNode:  sdo.on_request       on 0x600 + id *)
| KSdoExtra (k : Z).  (* RemoteNode: sdo_channels[k].on_response of the k-th channel created by
                         add_sdo (k = 1, 2, ...), on that channel's tx COB-ID *)

Record nobj := { o_uid : Z; o_nid : Z; o_local : bool }.

Inductive handler :=
| HUser (u : Z)
| HLss
| HNode (o : nobj) (k : hkind).

Definition hkind_eqb (a b : hkind) : bool :=
  match a, b with
  | KSdoResp, KSdoResp | KHeartbeat, KHeartbeat | KEmcy, KEmcy | KNmt, KNmt | KSdoReq, KSdoReq => true
  | KSdoExtra a, KSdoExtra b => a =? b
  | _, _ => false
  end.

Definition nobj_eqb (a b : nobj) : bool :=
  (o_uid a =? o_uid b) && (o_nid a =? o_nid b) && Bool.eqb (o_local a) (o_local b).

Definition handler_eqb (a b : handler) : bool :=
  match a, b with
  | HUser x, HUser y => x =? y
  | HLss, HLss => true
  | HNode o k, HNode o' k' => nobj_eqb o o' && hkind_eqb k k'
  | _, _ => false
  end.

(* [callback in list] *)
Fixpoint hmem (h : handler) (l : list handler) : bool :=
  match l with [] => false | x :: r => handler_eqb h x || hmem h r end.

(* list.remove(callback): first occurrence *)
Fixpoint remove_first (h : handler) (l : list handler) : list handler :=
  match l with [] => [] | x :: r => if handler_eqb h x then r else x :: remove_first h r end.

(* ------------------------------------------------------------------ Network.subscribers *)
Definition smap := list (Z * list handler).

Fixpoint lookup (c : Z) (m : smap) : option (list handler) :=
  match m with [] => None | (c', l) :: r => if c =? c' then Some l else lookup c r end.

(* Network.subscribe: setdefault(can_id, []) ; append unless already in the list *)
Fixpoint subscribe (c : Z) (h : handler) (m : smap) : smap :=
  match m with
  | [] => [(c, [h])]
  | (c', l) :: r => if c =? c' then (c', if hmem h l then l else l ++ [h]) :: r
                    else (c', l) :: subscribe c h r
  end.

(* self.subscribers[c] = l' for a key that exists (the in-place list mutation of .remove) *)
Fixpoint set_list (c : Z) (l' : list handler) (m : smap) : smap :=
  match m with
  | [] => []
  | (c', l) :: r => if c =? c' then (c', l') :: r else (c', l) :: set_list c l' r
  end.

(* del self.subscribers[c] *)
Fixpoint del_key (c : Z) (m : smap) : smap :=
  match m with
  | [] => []
  | (c', l) :: r => if c =? c' then del_key c r else (c', l) :: del_key c r
  end.

(* Network.unsubscribe(can_id, callback=None):
     callback None : del subscribers[can_id]              -> KeyError when the key is absent
     otherwise     : subscribers[can_id].remove(callback) -> KeyError / ValueError *)
Definition unsubscribe (c : Z) (h : option handler) (m : smap) : res smap :=
  match lookup c m with
  | None => Err E_KEY
  | Some l =>
      match h with
      | None => Ok (del_key c m)
      | Some h => if hmem h l then Ok (set_list c (remove_first h l) m) else Err E_VALUE
      end
  end.

(* ------------------------------------------------------------------ nodes *)
(* the channels appended to RemoteNode.sdo_channels by add_sdo, as their tx COB-IDs in creation
   order; the k-th of them (k from 1; sdo_channels[0] is the constructor's default channel) owns
   the callback HNode o (KSdoExtra k) *)
Fixpoint extras_from (o : nobj) (k : Z) (txs : list Z) : list (Z * handler) :=
  match txs with
  | [] => []
  | tx :: r => (tx, HNode o (KSdoExtra k)) :: extras_from o (k + 1) r
  end.

(* (can_id, callback) pairs in the order associate_network subscribes and remove_network
   unsubscribes them: for sdo in self.sdo_channels (default channel, then the added ones), heartbeat,
   EMCY, NMT; [txs] = tx COB-IDs of the added channels of this object *)
Definition node_handlers (txs : list Z) (o : nobj) : list (Z * handler) :=
  if o_local o then
    [(1536 + o_nid o, HNode o KSdoReq); (0, HNode o KNmt)]
  else
    (1408 + o_nid o, HNode o KSdoResp) :: extras_from o 1 txs ++
    [(1792 + o_nid o, HNode o KHeartbeat); (128 + o_nid o, HNode o KEmcy); (0, HNode o KNmt)].

Definition associate (txs : list Z) (o : nobj) (m : smap) : smap :=
  fold_left (fun m ch => subscribe (fst ch) (snd ch) m) (node_handlers txs o) m.

(* per node object: the added SDO channels (mutable attribute sdo_channels[1:] of the object) *)
Definition cmap := list (nobj * list Z).

Fixpoint txs_of (o : nobj) (cm : cmap) : list Z :=
  match cm with [] => [] | (o', l) :: r => if nobj_eqb o o' then l else txs_of o r end.

Fixpoint add_tx (o : nobj) (tx : Z) (cm : cmap) : cmap :=
  match cm with
  | [] => [(o, [tx])]
  | (o', l) :: r => if nobj_eqb o o' then (o', l ++ [tx]) :: r else (o', l) :: add_tx o tx r
  end.

(* remove_network: the unsubscribe calls in order; the first exception propagates and leaves the
   earlier removals in place *)
Fixpoint unsub_seq (chs : list (Z * handler)) (m : smap) : smap * res unit :=
  match chs with
  | [] => (m, Ok tt)
  | (c, h) :: r =>
      match unsubscribe c (Some h) m with
      | Ok m' => unsub_seq r m'
      | Err k => (m, Err k)
      | Abort k => (m, Abort k)
      end
  end.

Definition nmap := list (Z * nobj).

Fixpoint lookup_node (n : Z) (ns : nmap) : option nobj :=
  match ns with [] => None | (n', o) :: r => if n =? n' then Some o else lookup_node n r end.

Fixpoint set_node (n : Z) (o : nobj) (ns : nmap) : nmap :=
  match ns with
  | [] => [(n, o)]
  | (n', o') :: r => if n =? n' then (n', o) :: r else (n', o') :: set_node n o r
  end.

Fixpoint del_node (n : Z) (ns : nmap) : nmap :=
  match ns with
  | [] => []
  | (n', o') :: r => if n =? n' then del_node n r else (n', o') :: del_node n r
  end.

(* ------------------------------------------------------------------ NodeScanner *)
(* on_message_received: service = can_id & ~0x7F ; node_id = can_id & 0x7F *)
Definition scan_step (found : list Z) (can_id : Z) : list Z :=
  let service := Z.land can_id (Z.lnot 127) in
  let node_id := Z.land can_id 127 in
  if negb (zmem node_id found) && negb (node_id =? 0) && zmem service SERVICES
  then found ++ [node_id] else found.

Definition scan_from (found : list Z) (ids : list Z) : list Z := fold_left scan_step ids found.
Definition scan (ids : list Z) : list Z := scan_from [] ids.

(* ------------------------------------------------------------------ frames *)
Record frame := { f_id : Z; f_data : list Z; f_remote : bool; f_ext : bool; f_err : bool; f_ts : Z }.

(* can.Message(is_extended_id = can_id > 0x7FF, arbitration_id = can_id, data = data,
               is_remote_frame = remote)
   python-can: a remote frame has no payload ([data] is discarded when is_remote_frame), dlc = len(data) *)
Definition mk_frame (can_id : Z) (data : list Z) (remote : bool) : frame :=
  {| f_id := can_id; f_data := if remote then [] else data; f_remote := remote;
     f_ext := can_id >? 2047; f_err := false; f_ts := 0 |}.

(* Network.send_message: RuntimeError without a bus, otherwise exactly one bus.send(msg) *)
Definition send_message (connected : bool) (can_id : Z) (data : list Z) (remote : bool) : res (list frame) :=
  if connected then Ok [mk_frame can_id data remote] else Err E_RUNTIME.

(* Network.send_periodic -> PeriodicMessageTask.__init__: task.msg, and one
   bus.send_periodic(msg, period) *)
Definition periodic_task (can_id : Z) (data : list Z) (period : Z) (remote : bool)
  : frame * list (frame * Z) :=
  let m := mk_frame can_id data remote in (m, [(m, period)]).

(* PeriodicMessageTask.update(data):  self.msg.data = new_data ; self.msg.dlc = len(new_data)  - in
   place, every other attribute of the message (id, remote flag, extended flag) is kept (python-can
   does not recompute dlc on assignment of .data, the library sets it since fix 7181830); then
   task.modify_data(msg) when the bus task has it, else stop + start again when the data changed.
   State: the message and its dlc. *)
Inductive bus_call :=
| BModify (f : frame) (dlc : Z)
| BStop
| BSendPeriodic (f : frame) (dlc : Z) (period : Z).

Definition set_frame_data (f : frame) (d : list Z) : frame :=
  {| f_id := f_id f; f_data := d; f_remote := f_remote f; f_ext := f_ext f; f_err := f_err f; f_ts := f_ts f |}.

Definition periodic_update (modify : bool) (period : Z) (st : frame * Z) (d : list Z)
  : (frame * Z) * list bus_call :=
  let '(m, _) := st in
  let m' := set_frame_data m d in
  let dlc := Z.of_nat (length d) in
  if modify then ((m', dlc), [BModify m' dlc])
  else if list_Z_eqb d (f_data m) then ((m', dlc), [])
  else ((m', dlc), [BStop; BSendPeriodic m' dlc period]).

Fixpoint periodic_updates (modify : bool) (period : Z) (st : frame * Z) (ds : list (list Z))
  : list ((frame * Z) * list bus_call) :=
  match ds with
  | [] => []
  | d :: r => let '(st', calls) := periodic_update modify period st d in
              (st', calls) :: periodic_updates modify period st' r
  end.

Definition periodic_start (can_id : Z) (data : list Z) (remote : bool) : frame * Z :=
  let m := mk_frame can_id data remote in (m, Z.of_nat (length (f_data m))).

(* ------------------------------------------------------------------ Network state and operations *)
Record net := { subs : smap; nodes : nmap; scanned : list Z; chans : cmap }.

(* Network.__init__: subscribe(lss.LSS_RX_COBID, lss.on_message_received) *)
Definition init_net : net :=
  {| subs := subscribe LSS_RX_COBID HLss []; nodes := []; scanned := []; chans := [] |}.

(* one invocation callback(can_id, data, timestamp) *)
Definition delivery := (handler * Z * list Z * Z)%type.

(* Network.notify *)
Definition notify (c : Z) (data : list Z) (ts : Z) (s : net) : net * list delivery :=
  let log := match lookup c (subs s) with
             | Some l => map (fun h => (h, c, data, ts)) l
             | None => []
             end in
  ({| subs := subs s; nodes := nodes s; scanned := scan_step (scanned s) c; chans := chans s |}, log).

(* MessageListener.on_message_received *)
Definition listener (f : frame) (s : net) : net * list delivery :=
  if f_err f || f_remote f then (s, []) else notify (f_id f) (f_data f) (f_ts f) s.

(* Network.__setitem__(node.id, node)  (add_node / create_node with a node object) *)
Definition setitem (o : nobj) (s : net) : net * res unit :=
  let n := o_nid o in
  let '(m1, st) := match lookup_node n (nodes s) with
                   | Some old => unsub_seq (node_handlers (txs_of old (chans s)) old) (subs s)
                   | None => (subs s, Ok tt)
                   end in
  match st with
  | Ok _ => ({| subs := associate (txs_of o (chans s)) o m1; nodes := set_node n o (nodes s);
                scanned := scanned s; chans := chans s |}, Ok tt)
  | e => ({| subs := m1; nodes := nodes s; scanned := scanned s; chans := chans s |}, e)
  end.

(* Network.__delitem__(node_id) *)
Definition delitem (n : Z) (s : net) : net * res unit :=
  match lookup_node n (nodes s) with
  | None => (s, Err E_KEY)
  | Some old =>
      let '(m1, st) := unsub_seq (node_handlers (txs_of old (chans s)) old) (subs s) in
      match st with
      | Ok _ => ({| subs := m1; nodes := del_node n (nodes s); scanned := scanned s; chans := chans s |}, Ok tt)
      | e => ({| subs := m1; nodes := nodes s; scanned := scanned s; chans := chans s |}, e)
      end
  end.

(* node.has_network(): the object is associated, i.e. it is the one registered under its id
   (associate_network / remove_network are only called by __setitem__ / __delitem__) *)
Definition registered (o : nobj) (s : net) : bool :=
  match lookup_node (o_nid o) (nodes s) with Some o' => nobj_eqb o o' | None => false end.

(* RemoteNode.add_sdo(rx_cobid, tx_cobid): a new SdoClient appended to sdo_channels and, when the
   node has a network, subscribed at once.  LocalNode has no add_sdo (AttributeError). *)
Definition add_sdo (o : nobj) (rx tx : Z) (s : net) : net * res unit :=
  if o_local o then (s, Err E_ATTR)
  else
    let k := Z.of_nat (length (txs_of o (chans s))) + 1 in
    ({| subs := if registered o s then subscribe tx (HNode o (KSdoExtra k)) (subs s) else subs s;
        nodes := nodes s; scanned := scanned s; chans := add_tx o tx (chans s) |}, Ok tt).

Inductive op :=
| OSub (c : Z) (u : Z)                         (* net.subscribe(c, user_callback[u]) *)
| OUnsub (c : Z) (h : option handler)          (* net.unsubscribe(c[, callback]) *)
| OAdd (o : nobj)                              (* net.add_node(obj) / net.create_node(obj) *)
| ODel (n : Z)                                 (* del net[n] *)
| ONotify (c : Z) (data : list Z) (ts : Z)     (* net.notify(c, data, ts) *)
| ORecv (f : frame)                            (* net.listeners[0].on_message_received(msg) *)
| OScanReset                                   (* net.scanner.reset() *)
| OAddSdo (o : nobj) (rx tx : Z)               (* obj.add_sdo(rx, tx) *)
| OReassoc (o : nobj)                          (* if net.nodes.get(obj.id) is obj: obj.associate_network(net)
                                                  (a second associate_network of an attached node) *)
| OConnect                                     (* net.connect(...): bus + notifier; subscriptions untouched *)
| ODisconnect.                                 (* net.disconnect(): pdo.stop of every node, notifier, bus;
                                                  subscriptions, nodes, scanner untouched *)

Definition with_subs (s : net) (m : smap) : net :=
  {| subs := m; nodes := nodes s; scanned := scanned s; chans := chans s |}.

Definition lift_unit (r : res unit) : res (list delivery) :=
  match r with Ok _ => Ok [] | Err k => Err k | Abort k => Abort k end.

Definition step (o : op) (s : net) : net * res (list delivery) :=
  match o with
  | OSub c u => (with_subs s (subscribe c (HUser u) (subs s)), Ok [])
  | OUnsub c h =>
      match unsubscribe c h (subs s) with
      | Ok m => (with_subs s m, Ok [])
      | Err k => (s, Err k)
      | Abort k => (s, Abort k)
      end
  | OAdd o => let '(s', r) := setitem o s in (s', lift_unit r)
  | ODel n => let '(s', r) := delitem n s in (s', lift_unit r)
  | ONotify c data ts => let '(s', l) := notify c data ts s in (s', Ok l)
  | ORecv f => let '(s', l) := listener f s in (s', Ok l)
  | OScanReset => ({| subs := subs s; nodes := nodes s; scanned := []; chans := chans s |}, Ok [])
  | OAddSdo o rx tx => let '(s', r) := add_sdo o rx tx s in (s', lift_unit r)
  | OReassoc o =>
      if registered o s then (with_subs s (associate (txs_of o (chans s)) o (subs s)), Ok []) else (s, Ok [])
  | OConnect => (s, Ok [])
  | ODisconnect => (s, Ok [])
  end.

Fixpoint run_ops (ops : list op) (s : net) : net * list (res (list delivery)) :=
  match ops with
  | [] => (s, [])
  | o :: r => let '(s1, x) := step o s in let '(s2, xs) := run_ops r s1 in (s2, x :: xs)
  end.

(* ---- re-entrant callbacks: a user callback that, when invoked, performs one scripted operation on
   the same network (and swallows its exception).  Network.notify does (since fix 6860d47)
       for callback in list(self.subscribers[can_id]): callback(...)
   i.e. it walks a SNAPSHOT of the id's list taken when the frame arrives: exactly those callbacks
   are invoked, once each, in order, whatever they do to the table meanwhile; their operations take
   effect in that order and later frames follow the updated table. *)
Definition script_of (scripts : list (Z * op)) (h : handler) : option op :=
  match h with HUser u => zassoc u scripts | _ => None end.

Definition plain_op (o : op) : bool := match o with ONotify _ _ _ | ORecv _ => false | _ => true end.

Definition live_list (c : Z) (s : net) : list handler :=
  match lookup c (subs s) with Some l => l | None => [] end.

(* the operations performed by the callbacks of the snapshot, in order *)
Fixpoint dispatch_re (scripts : list (Z * op)) (l : list handler) (s : net) : net :=
  match l with
  | [] => s
  | h :: r =>
      let s' := match script_of scripts h with
                | Some o => if plain_op o then fst (step o s) else s
                | None => s
                end in
      dispatch_re scripts r s'
  end.

Definition notify_re (scripts : list (Z * op)) (c : Z) (data : list Z) (ts : Z) (s : net)
  : net * res (list delivery) :=
  let l := live_list c s in
  let s1 := dispatch_re scripts l s in
  ({| subs := subs s1; nodes := nodes s1; scanned := scan_step (scanned s1) c; chans := chans s1 |},
   Ok (map (fun h => (h, c, data, ts)) l)).

Definition step_re (scripts : list (Z * op)) (o : op) (s : net) : net * res (list delivery) :=
  match o with
  | ONotify c data ts => notify_re scripts c data ts s
  | ORecv f => if f_err f || f_remote f then (s, Ok []) else notify_re scripts (f_id f) (f_data f) (f_ts f) s
  | _ => step o s
  end.

Fixpoint run_ops_re (scripts : list (Z * op)) (ops : list op) (s : net) : net * list (res (list delivery)) :=
  match ops with
  | [] => (s, [])
  | o :: r => let '(s1, x) := step_re scripts o s in let '(s2, xs) := run_ops_re scripts r s1 in (s2, x :: xs)
  end.

(* the deliveries of one step (an operation that raised delivered nothing) *)
Definition log_of (r : res (list delivery)) : list delivery :=
  match r with Ok l => l | _ => [] end.

(* ------------------------------------------------------------------ runner for the correspondence *)
Definition hk_code (k : hkind) : Z :=
  match k with KSdoResp => 0 | KHeartbeat => 1 | KEmcy => 2 | KNmt => 3 | KSdoReq => 4 | KSdoExtra _ => 5 end.

Definition hk_val (k : hkind) : list val :=
  match k with KSdoExtra i => [VZ 5; VZ i] | _ => [VZ (hk_code k)] end.

Definition oval (o : nobj) : list val := [VZ (o_uid o); VZ (o_nid o); VBool (o_local o)].

Definition hval (h : handler) : val :=
  match h with
  | HUser u => VL [VZ 0; VZ u]
  | HLss => VL [VZ 1]
  | HNode o k => VL (VZ 2 :: oval o ++ hk_val k)
  end.

Definition dval (d : delivery) : val :=
  let '(h, c, data, ts) := d in VL [hval h; VZ c; VB data; VZ ts].

Definition fval (f : frame) : val :=
  VL [VZ (f_id f); VB (f_data f); VBool (f_remote f); VBool (f_ext f); VBool (f_err f);
      VZ (Z.of_nat (length (f_data f)))].

Definition dump (s : net) : val :=
  VL [VL (map (fun cl => VL [VZ (fst cl); VL (map hval (snd cl))]) (subs s));
      VL (map (fun no => VL (VZ (fst no) :: oval (snd no))) (nodes s));
      VL (map VZ (scanned s));
      VL (map (fun ol => VL (oval (fst ol) ++ [VL (map VZ (snd ol))])) (chans s))].

Definition fvald (f : frame) (dlc : Z) : val :=
  VL [VZ (f_id f); VB (f_data f); VBool (f_remote f); VBool (f_ext f); VBool (f_err f); VZ dlc].

Definition bcval (b : bus_call) : val :=
  match b with
  | BModify f dlc => VL [VZ 0; fvald f dlc]
  | BStop => VL [VZ 1]
  | BSendPeriodic f dlc p => VL [VZ 2; fvald f dlc; VZ p]
  end.

Inductive net_case :=
| CHist (ops : list op)
| CScan (ids : list Z)
| CSend (connected : bool) (c : Z) (data : list Z) (remote : bool)
| CPeriodic (c : Z) (data : list Z) (period : Z) (remote : bool)
| CPeriodicUpd (modify : bool) (c : Z) (data : list Z) (period : Z) (remote : bool) (updates : list (list Z))
| CReent (scripts : list (Z * op)) (ops : list op).

Definition run_net (c : net_case) : val :=
  match c with
  | CHist ops =>
      let '(s, rs) := run_ops ops init_net in
      VL (map (res_val (fun l => VL (map dval l))) rs ++ [dump s])
  | CScan ids => VL (map VZ (scan ids))
  | CSend b c d r => res_val (fun l => VL (map fval l)) (send_message b c d r)
  | CPeriodic c d p r =>
      let '(m, l) := periodic_task c d p r in
      VL [fval m; VL (map (fun mp => VL [fval (fst mp); VZ (snd mp)]) l)]
  | CPeriodicUpd modify c d p r ups =>
      let st := periodic_start c d r in
      VL [fvald (fst st) (snd st);
          VL (map (fun sc => VL [fvald (fst (fst sc)) (snd (fst sc)); VL (map bcval (snd sc))])
                  (periodic_updates modify p st ups))]
  | CReent scripts ops =>
      let '(s, rs) := run_ops_re scripts ops init_net in
      VL (map (res_val (fun l => VL (map dval l))) rs ++ [dump s])
  end.
