(* Model of PDO configuration save / read (C09).  Definitions only.
   Follows canopen/pdo/base.py: PdoMap.save, PdoMap.read (SDO and from_od variants),
   PdoMap.subscribe, PdoMap.add_variable / _get_variable / _fill_map / clear,
   PdoMaps.__init__ (indices, predefined COB-IDs), and the accessors used on the way
   (SdoRecord.__getitem__ -> KeyError, the raw setter of an SDO variable -> encode_raw range
   error -> ValueError, SdoClient.download/upload -> the peer).
   Not modelled: the SDO transport (peer functions dl / ul stand for SdoClient.download /
   upload), curtis_hack (assumed False), data buffer size, logging.
   Dictionary assumption: the PDO parameter objects have their CiA 301 types
   (sub 1 UNSIGNED32, 2 UNSIGNED8, 3/5 UNSIGNED16, 6 UNSIGNED8, count UNSIGNED8, entries
   UNSIGNED32) and top-level variables have sub-index 0. *)
From Coq Require Import ZArith List Bool.
From CV Require Import Base.Val Base.Bytes Base.Tys Gen.PdoTables Model.StrictDevice.
Import ListNotations.
Open Scope Z_scope.

(* ------------------------------------------------------------------ data *)
Definition entry := (Z * Z * Z)%type.            (* a mapped PDO variable: index, subindex, length in bits *)

Record cfg := mkCfg {
  c_cob : option Z;        (* PdoMap.cob_id (None until set) *)
  c_enabled : bool;        (* PdoMap.enabled *)
  c_rtr : bool;            (* PdoMap.rtr_allowed *)
  c_tt : option Z;         (* PdoMap.trans_type *)
  c_inhibit : option Z;    (* PdoMap.inhibit_time *)
  c_event : option Z;      (* PdoMap.event_timer *)
  c_sync : option Z;       (* PdoMap.sync_start_value *)
  c_map : list entry       (* PdoMap.map *)
}.

(* PdoMap.__init__ *)
Definition fresh_cfg : cfg := mkCfg None false true None None None None [].

Definition with_map (c : cfg) (m : list entry) : cfg :=
  mkCfg (c_cob c) (c_enabled c) (c_rtr c) (c_tt c) (c_inhibit c) (c_event c) (c_sync c) m.

(* what the object dictionary of the node says *)
Inductive objdesc :=
| OVar (bits : Z)                       (* top-level dictionary variable with len(od) = bits *)
| ORec (subs : list (Z * Z)).           (* ODRecord: sub-index -> bits *)

Record oddesc := mkOd {
  o_com : list Z;                       (* sub-indices present in the communication record *)
  o_nmap : Z;                           (* mapping record has sub 0 and sub 1..o_nmap *)
  o_objs : list (Z * objdesc)           (* the other objects (targets of mappings) *)
}.

Definition com_has (od : oddesc) (k : Z) : bool := zmem k (o_com od).
Definition map_has (od : oddesc) (k : Z) : bool := (0 <=? k) && (k <=? o_nmap od).

(* ------------------------------------------------------------------ PdoMaps.__init__ *)
Definition com_index (tpdo : bool) (n : Z) : Z := (if tpdo then TPDO_COM_OFFSET else RPDO_COM_OFFSET) + (n - 1).
Definition map_index (tpdo : bool) (n : Z) : Z := (if tpdo then TPDO_MAP_OFFSET else RPDO_MAP_OFFSET) + (n - 1).
Definition predefined_cob (tpdo : bool) (n node_id : Z) : option Z :=
  if n - 1 <? PDO_PREDEFINED_MAPS
  then Some ((if tpdo then TPDO_COB_BASE else RPDO_COB_BASE) + (n - 1) * 0x100 + node_id)
  else None.
Definition pdo_number_ok (n : Z) : bool := (1 <=? n) && (n <=? PDO_MAPS_MAX).

(* ------------------------------------------------------------------ add_variable *)
(* PdoMap._get_variable: object_dictionary[index], then [subindex] for records *)
Definition od_lookup (objs : list (Z * objdesc)) (idx sub : Z) : option Z :=
  match zassoc idx objs with
  | None => None                                   (* KeyError *)
  | Some (OVar b) => Some b
  | Some (ORec subs) => zassoc sub subs            (* KeyError if absent *)
  end.

(* PdoMap.add_variable(index, subindex, length): KeyError is logged, nothing is added *)
Definition add_variable (objs : list (Z * objdesc)) (m : list entry) (idx sub : Z) (len : option Z) : list entry :=
  match od_lookup objs idx sub with
  | Some b => m ++ [(idx, sub, match len with Some l => l | None => b end)]
  | None => m
  end.

Fixpoint add_variables (objs : list (Z * objdesc)) (m : list entry) (adds : list (Z * Z * option Z)) : list entry :=
  match adds with
  | [] => m
  | (i, s, l) :: t => add_variables objs (add_variable objs m i s l) t
  end.

(* ------------------------------------------------------------------ subscribe *)
(* Network.subscribe(cob_id, self.on_message): the COB-IDs this map's callback is registered for *)
Definition subscribe (c : cfg) (subs : list Z) : list Z :=
  if c_enabled c then
    match c_cob c with
    | Some cob => if zmem cob subs then subs else subs ++ [cob]
    | None => subs          (* not reachable from save/read: cob_id is set there *)
    end
  else subs.

(* ------------------------------------------------------------------ save *)
Definition entry_word (e : entry) : Z :=
  let '(i, s, l) := e in Z.lor (Z.lor (Z.shiftl i 16) (Z.shiftl s 8)) l.

Definition rtr_bit (c : cfg) : Z := if c_rtr c then 0 else RTR_NOT_ALLOWED.

(* the normal path as a pure list of SDO writes *)
Definition opt_write (i s : Z) (o : option Z) : list write :=
  match o with Some v => [(i, s, v)] | None => [] end.

Fixpoint entry_writes (mp k : Z) (m : list entry) : list write :=
  match m with
  | [] => []
  | e :: t => (mp, k, entry_word e) :: entry_writes mp (k + 1) t
  end.

Definition param_writes (com : Z) (c : cfg) : list write :=
  opt_write com 2 (c_tt c) ++ opt_write com 3 (c_inhibit c) ++
  opt_write com 5 (c_event c) ++ opt_write com 6 (c_sync c).

Definition final_writes (com : Z) (c : cfg) (cob : Z) : list write :=
  if c_enabled c then [(com, 1, Z.lor cob (rtr_bit c))] else [].

Definition save_writes (com mp : Z) (c : cfg) : list write :=
  match c_cob c with
  | None => []
  | Some cob =>
      (com, 1, Z.lor (Z.lor cob PDO_NOT_VALID) (rtr_bit c)) :: param_writes com c ++
      (mp, 0, 0) :: entry_writes mp 1 (c_map c) ++
      (mp, 0, zlen (c_map c)) :: final_writes com c cob
  end.

(* PdoMap._fill_map *)
Definition fill_map (m : list entry) (needed : Z) : list entry :=
  m ++ repeat (0, 0, 0) (Z.to_nat (needed - zlen m)).

(* the code itself, against a peer *)
Section SaveIO.
  Context {S : Type}.
  Context (dl : S -> Z -> Z -> Z -> S * option Z).    (* download: None = confirmed, Some code = abort *)
  Context (ul : S -> Z -> Z -> res Z).                (* upload of an integer entry *)
  Context (od : oddesc).

  Definition M (A : Type) : Type := S -> S * res A.
  Definition ret {A} (a : A) : M A := fun s => (s, Ok a).
  Definition bind {A B} (m : M A) (f : A -> M B) : M B :=
    fun s => let '(s1, r) := m s in
             match r with Ok a => f a s1 | Err k => (s1, Err k) | Abort c => (s1, Abort c) end.

  (* record[sub].raw = v : KeyError if the dictionary has no such sub-entry, ValueError if v does
     not fit the entry's type (struct.error in encode_raw), else the download *)
  Definition sdo_set (present : bool) (w i s v : Z) : M unit :=
    fun st =>
      if negb present then (st, Err E_KEY)
      else if negb (fits w v) then (st, Err E_VALUE)
      else let '(st1, a) := dl st i s v in
           (st1, match a with None => Ok tt | Some c => Abort c end).

  Definition set_opt (present : bool) (w i s : Z) (o : option Z) : M unit :=
    match o with Some v => sdo_set present w i s v | None => ret tt end.

  Fixpoint write_entries (mp k : Z) (m : list entry) : M unit :=
    match m with
    | [] => ret tt
    | e :: t => bind (sdo_set (map_has od k) 32 mp k (entry_word e)) (fun _ => write_entries mp (k + 1) t)
    end.

  (* try: map_array[0].raw = 0  except SdoAbortedError: self._fill_map(self.map_array[0].raw) *)
  Definition zero_count (mp : Z) (m : list entry) : M (list entry) :=
    fun st =>
      match sdo_set (map_has od 0) 8 mp 0 0 st with
      | (st1, Ok _) => (st1, Ok m)
      | (st1, Err k) => (st1, Err k)
      | (st1, Abort _) =>
          match ul st1 mp 0 with
          | Ok n => (st1, Ok (fill_map m n))
          | Err k => (st1, Err k)
          | Abort c => (st1, Abort c)
          end
      end.

  (* try: map_array[0].raw = len(self.map)  except SdoAbortedError as e: if e.code != 0x06010002: raise *)
  Definition set_count (mp n : Z) : M unit :=
    fun st =>
      match sdo_set (map_has od 0) 8 mp 0 n st with
      | (st1, Abort c) => if c =? 0x06010002 then (st1, Ok tt) else (st1, Abort c)
      | x => x
      end.

  (* PdoMap.save in three phases (the history runner needs to know how far a failing save got):
     1. invalidate, parameters, count := 0 (or the fixed-count workaround) -> the map, possibly filled;
     2. entries, count := n (after which the code calls _update_data_size);
     3. re-enable and subscribe, only if enabled. *)
  Definition save_prefix (com mp : Z) (c : cfg) (cob : Z) : M (list entry) :=
    bind (sdo_set (com_has od 1) 32 com 1 (Z.lor (Z.lor cob PDO_NOT_VALID) (rtr_bit c))) (fun _ =>
    bind (set_opt (com_has od 2) 8 com 2 (c_tt c)) (fun _ =>
    bind (set_opt (com_has od 3) 16 com 3 (c_inhibit c)) (fun _ =>
    bind (set_opt (com_has od 5) 16 com 5 (c_event c)) (fun _ =>
    bind (set_opt (com_has od 6) 8 com 6 (c_sync c)) (fun _ =>
    zero_count mp (c_map c)))))).

  Definition save_entries (mp : Z) (m1 : list entry) : M unit :=
    bind (write_entries mp 1 m1) (fun _ => set_count mp (zlen m1)).

  Definition save_validate (com : Z) (c1 : cfg) (cob : Z) (subs : list Z) : M (cfg * list Z) :=
    if c_enabled c1 then
      bind (sdo_set (com_has od 1) 32 com 1 (Z.lor cob (rtr_bit c1))) (fun _ =>
      ret (c1, subscribe c1 subs))
    else ret (c1, subs).

  (* PdoMap.save; result: the map object afterwards and the subscriptions of its callback *)
  Definition save_io (com mp : Z) (c : cfg) (subs : list Z) : M (cfg * list Z) :=
    match c_cob c with
    | None => ret (c, subs)
    | Some cob =>
        bind (save_prefix com mp c cob) (fun m1 =>
        bind (save_entries mp m1) (fun _ =>
        save_validate com (with_map c m1) cob subs))
    end.
End SaveIO.

(* ------------------------------------------------------------------ read *)
Section Read.
  (* _raw_from(record[sub]):  Err E_KEY = the dictionary has no such sub-entry, Abort = the device
     refused the upload, Ok None = from_od with neither value nor default *)
  Context (get : Z -> Z -> res (option Z)).
  Context (objs : list (Z * objdesc)).

  Definition need_int (o : option Z) : res Z :=
    match o with Some v => Ok v | None => Err E_TYPE end.     (* None & mask, None >= 254, None + 1 *)

  (* try: attr = _raw_from(com_record[k])  except (KeyError, SdoAbortedError): pass *)
  Definition read_opt (com k : Z) (prev : option Z) : res (option Z) :=
    match get com k with
    | Ok o => Ok o
    | Err e => if e =? E_KEY then Ok prev else Err e
    | Abort _ => Ok prev
    end.

  Fixpoint read_entries (mp k : Z) (fuel : nat) (m : list entry) : res (list entry) :=
    match fuel with
    | O => Ok m
    | S f =>
        rbind (get mp k) (fun o => rbind (need_int o) (fun v =>
        let index := Z.shiftr v 16 in
        let subindex := Z.land (Z.shiftr v 8) 0xFF in
        let size := Z.land v 0x7F in
        read_entries mp (k + 1) f
          (if (index =? 0) || (size =? 0) then m else add_variable objs m index subindex (Some size))))
    end.

  (* PdoMap.read; old = the map object before (its timers survive when not read) *)
  Definition read_cfg (com mp : Z) (old : cfg) (subs : list Z) : res (cfg * list Z) :=
    rbind (get com 1) (fun o1 => rbind (need_int o1) (fun cob_id =>
    rbind (get com 2) (fun o2 => rbind (need_int o2) (fun tt =>
    rbind (if tt >=? 254 then read_opt com 3 (c_inhibit old) else Ok (c_inhibit old)) (fun inh =>
    rbind (if tt >=? 254 then read_opt com 5 (c_event old) else Ok (c_event old)) (fun ev =>
    rbind (if tt >=? 254 then read_opt com 6 (c_sync old) else Ok (c_sync old)) (fun sy =>
    rbind (get mp 0) (fun o0 => rbind (need_int o0) (fun n =>
    rbind (read_entries mp 1 (Z.to_nat n) []) (fun m =>
    let c := mkCfg (Some (Z.land cob_id 0x1FFFFFFF))
                   (Z.land cob_id PDO_NOT_VALID =? 0)
                   (Z.land cob_id RTR_NOT_ALLOWED =? 0)
                   (Some tt) inh ev sy m in
    Ok (c, subscribe c subs))))))))))).
End Read.

(* the two sources of _raw_from *)
(* SDO: SdoRecord[sub] (KeyError) then upload from the device *)
Definition sdo_get (od : oddesc) (com mp : Z) (r : regs) (i s : Z) : res (option Z) :=
  if (if i =? com then com_has od s else if i =? mp then map_has od s else false) then
    match dev_read r i s with Some v => Ok (Some v) | None => Abort AB_NO_SUB end
  else Err E_KEY.

(* from_od: od.value if not None else od.default *)
Definition od_pick (value default : option Z) : option Z :=
  match value with Some v => Some v | None => default end.

Definition odvals := list ((Z * Z) * (option Z * option Z)).   (* (index, sub) -> (value, default) *)

Fixpoint odv_find (vals : odvals) (i s : Z) : option (option Z * option Z) :=
  match vals with
  | [] => None
  | ((i', s'), p) :: t => if (i =? i') && (s =? s') then Some p else odv_find t i s
  end.

Definition od_get (od : oddesc) (com mp : Z) (vals : odvals) (i s : Z) : res (option Z) :=
  if (if i =? com then com_has od s else if i =? mp then map_has od s else false) then
    match odv_find vals i s with
    | Some (v, d) => Ok (od_pick v d)
    | None => Ok None
    end
  else Err E_KEY.

(* ------------------------------------------------------------------ runner for the correspondence *)
Definition log_ul (st : lstate) (i s : Z) : res Z :=
  match dev_read (fst st) i s with Some v => Ok v | None => Abort AB_NO_SUB end.

Definition v_entry (e : entry) : val := let '(i, s, l) := e in VL [VZ i; VZ s; VZ l].
Definition v_cfg (c : cfg) (subs : list Z) : val :=
  VL [vopt VZ (c_cob c); VBool (c_enabled c); VBool (c_rtr c); vopt VZ (c_tt c);
      vopt VZ (c_inhibit c); vopt VZ (c_event c); vopt VZ (c_sync c);
      VL (map v_entry (c_map c));
      VBool (match c_cob c with Some cob => zmem cob subs | None => false end)].
Definition v_log (lg : list (write * option Z)) : val :=
  VL (map (fun x => let '((i, s, v), a) := x in VL [VZ i; VZ s; VZ v; vopt VZ a]) lg).
Definition v_regs (r : regs) (com mp : Z) : val :=
  VL (map (fun k => vopt VZ (rget r com k)) [1; 2; 3; 5; 6] ++
      map (fun k => vopt VZ (rget r mp k)) [0; 1; 2; 3; 4; 5; 6; 7; 8]).
Definition v_res (r : res (cfg * list Z)) : val :=
  res_val (fun p => v_cfg (fst p) (snd p)) r.

(* ------------------------------------------------------------------ histories on one Network *)
(* Several node objects (each behind its own device) and several maps share one Network.  A PdoMap
   object carries state from one operation to the next: its attributes, its map with the offsets given
   by add_variable, PdoMap.length, len(PdoMap.data) and the COB-IDs its callback is registered for.
   The device may be reset / reconfigured between operations and may abort the k-th download of an
   operation (0800 0022h) or every upload of one register (0800 0020h). *)
Definition AB_DEVICE : Z := 0x08000020.

Record pmap := mkPm {
  p_cfg : cfg;
  p_offs : list (option Z);      (* offset attribute of each mapped variable (None for _fill_map dummies) *)
  p_len : Z;                     (* PdoMap.length *)
  p_dlen : Z;                    (* len(PdoMap.data) *)
  p_subs : list Z                (* CAN ids for which on_message is subscribed on the network *)
}.

Definition fresh_pmap : pmap := mkPm fresh_cfg [] 0 0 [].

(* _update_data_size: int(math.ceil(length / 8.0)) *)
Definition data_size (len : Z) : Z := (len + 7) / 8.

(* clear(): map and length only *)
Definition pm_clear (p : pmap) : pmap :=
  mkPm (with_map (p_cfg p) []) [] 0 (p_dlen p) (p_subs p).

(* add_variable with its bookkeeping (the data buffer is resized even when the object is not found) *)
Definition pm_add (objs : list (Z * objdesc)) (p : pmap) (idx sub : Z) (len : option Z) : pmap :=
  match od_lookup objs idx sub with
  | Some b =>
      let l := match len with Some l => l | None => b end in
      mkPm (with_map (p_cfg p) (c_map (p_cfg p) ++ [(idx, sub, l)])) (p_offs p ++ [Some (p_len p)])
           (p_len p + l) (data_size (p_len p + l)) (p_subs p)
  | None => mkPm (p_cfg p) (p_offs p) (p_len p) (data_size (p_len p)) (p_subs p)
  end.

Fixpoint pm_adds (objs : list (Z * objdesc)) (p : pmap) (adds : list (Z * Z * option Z)) : pmap :=
  match adds with
  | [] => p
  | (i, s, l) :: t => pm_adds objs (pm_add objs p i s l) t
  end.

(* attributes assigned by the user *)
Definition pm_set (p : pmap) (a : cfg) : pmap :=
  mkPm (mkCfg (c_cob a) (c_enabled a) (c_rtr a) (c_tt a) (c_inhibit a) (c_event a) (c_sync a) (c_map (p_cfg p)))
       (p_offs p) (p_len p) (p_dlen p) (p_subs p).

(* the device with the k-th download of this operation aborted (k = 0: none) *)
Definition inj_write (d : device) (fail : Z) (st : lstate * Z) (i s v : Z) : (lstate * Z) * option Z :=
  let '(ls, n) := st in
  if n + 1 =? fail then
    let '(r, lg) := ls in (((r, lg ++ [((i, s, v), Some AB_STATE)]), n + 1), Some AB_STATE)
  else
    let '(ls', a) := log_write d ls i s v in ((ls', n + 1), a).

Definition inj_ul (st : lstate * Z) (i s : Z) : res Z := log_ul (fst st) i s.

(* save() on a map object; returns the object afterwards, the device afterwards, the log of this
   operation and the outcome.  The object keeps a filled map once phase 1 is through and gets its data
   buffer resized once phase 2 is through, whatever happens later. *)
Definition pm_save (od : oddesc) (d : device) (fail : Z) (com mp : Z) (p : pmap) (r : regs)
  : pmap * regs * list (write * option Z) * res unit :=
  let c := p_cfg p in
  match c_cob c with
  | None => (p, r, [], Ok tt)
  | Some cob =>
      let '(st1, x1) := save_prefix (inj_write d fail) inj_ul od com mp c cob ((r, []), 0) in
      match x1 with
      | Ok m1 =>
          let c1 := with_map c m1 in
          let offs1 := p_offs p ++ repeat None (length m1 - length (c_map c)) in
          let p1 := mkPm c1 offs1 (p_len p) (p_dlen p) (p_subs p) in
          let '(st2, x2) := save_entries (inj_write d fail) od mp m1 st1 in
          match x2 with
          | Ok _ =>
              let p2 := mkPm c1 offs1 (p_len p) (data_size (p_len p)) (p_subs p) in
              let '(st3, x3) := save_validate (inj_write d fail) od com c1 cob (p_subs p) st2 in
              match x3 with
              | Ok (c3, subs3) =>
                  (mkPm c3 offs1 (p_len p) (data_size (p_len p)) subs3, fst (fst st3), snd (fst st3), Ok tt)
              | Err k => (p2, fst (fst st3), snd (fst st3), Err k)
              | Abort a => (p2, fst (fst st3), snd (fst st3), Abort a)
              end
          | Err k => (p1, fst (fst st2), snd (fst st2), Err k)
          | Abort a => (p1, fst (fst st2), snd (fst st2), Abort a)
          end
      | Err k => (p, fst (fst st1), snd (fst st1), Err k)
      | Abort a => (p, fst (fst st1), snd (fst st1), Abort a)
      end
  end.

(* read() statement by statement, keeping what was assigned before an exception *)
Section ReadPartial.
  Context (get : Z -> Z -> res (option Z)) (objs : list (Z * objdesc)).

  Definition set_comm (p : pmap) (cob_id : Z) : pmap :=
    let c := p_cfg p in
    mkPm (mkCfg (Some (Z.land cob_id 0x1FFFFFFF)) (Z.land cob_id PDO_NOT_VALID =? 0)
                (Z.land cob_id RTR_NOT_ALLOWED =? 0) (c_tt c) (c_inhibit c) (c_event c) (c_sync c) (c_map c))
         (p_offs p) (p_len p) (p_dlen p) (p_subs p).

  Definition set_tt (p : pmap) (tt : option Z) : pmap :=
    let c := p_cfg p in
    mkPm (mkCfg (c_cob c) (c_enabled c) (c_rtr c) tt (c_inhibit c) (c_event c) (c_sync c) (c_map c))
         (p_offs p) (p_len p) (p_dlen p) (p_subs p).

  Definition set_timers (p : pmap) (inh ev sy : option Z) : pmap :=
    let c := p_cfg p in
    mkPm (mkCfg (c_cob c) (c_enabled c) (c_rtr c) (c_tt c) inh ev sy (c_map c))
         (p_offs p) (p_len p) (p_dlen p) (p_subs p).

  Fixpoint read_entries_p (mp k : Z) (fuel : nat) (p : pmap) : pmap * res unit :=
    match fuel with
    | O => (p, Ok tt)
    | S f =>
        match rbind (get mp k) need_int with
        | Ok v =>
            let index := Z.shiftr v 16 in
            let subindex := Z.land (Z.shiftr v 8) 0xFF in
            let size := Z.land v 0x7F in
            read_entries_p mp (k + 1) f
              (if (index =? 0) || (size =? 0) then p else pm_add objs p index subindex (Some size))
        | Err e => (p, Err e)
        | Abort a => (p, Abort a)
        end
    end.

  Definition read_partial (com mp : Z) (p : pmap) : pmap * res unit :=
    match rbind (get com 1) need_int with
    | Err e => (p, Err e)
    | Abort a => (p, Abort a)
    | Ok cob_id =>
        let p1 := set_comm p cob_id in
        match get com 2 with
        | Err e => (p1, Err e)
        | Abort a => (p1, Abort a)
        | Ok None => (set_tt p1 None, Err E_TYPE)
        | Ok (Some ty) =>
            let p2 := set_tt p1 (Some ty) in
            let c2 := p_cfg p2 in
            let step (k : Z) (prev : option Z) := if ty >=? 254 then read_opt get com k prev else Ok prev in
            match step 3 (c_inhibit c2) with
            | Err e => (p2, Err e)
            | Abort a => (p2, Abort a)
            | Ok inh =>
                match step 5 (c_event c2) with
                | Err e => (set_timers p2 inh (c_event c2) (c_sync c2), Err e)
                | Abort a => (set_timers p2 inh (c_event c2) (c_sync c2), Abort a)
                | Ok ev =>
                    match step 6 (c_sync c2) with
                    | Err e => (set_timers p2 inh ev (c_sync c2), Err e)
                    | Abort a => (set_timers p2 inh ev (c_sync c2), Abort a)
                    | Ok sy =>
                        let p3 := pm_clear (set_timers p2 inh ev sy) in
                        match rbind (get mp 0) need_int with
                        | Err e => (p3, Err e)
                        | Abort a => (p3, Abort a)
                        | Ok n =>
                            let '(p4, x) := read_entries_p mp 1 (Z.to_nat n) p3 in
                            match x with
                            | Ok _ => (mkPm (p_cfg p4) (p_offs p4) (p_len p4) (p_dlen p4)
                                            (subscribe (p_cfg p4) (p_subs p4)), Ok tt)
                            | e => (p4, e)
                            end
                        end
                    end
                end
            end
        end
    end.
End ReadPartial.

(* SDO source with every upload of register (fi, fs) aborted; the dictionary lookup comes first *)
Definition inj_get (od : oddesc) (com mp : Z) (r : regs) (fi fs : Z) (i s : Z) : res (option Z) :=
  match sdo_get od com mp r i s with
  | Err k => Err k
  | x => if (i =? fi) && (s =? fs) then Abort AB_DEVICE else x
  end.

Definition mapkey := (Z * bool * Z)%type.          (* node number in the case, TPDO?, PDO number *)

Definition key_eqb (a b : mapkey) : bool :=
  let '(n1, t1, k1) := a in let '(n2, t2, k2) := b in (n1 =? n2) && Bool.eqb t1 t2 && (k1 =? k2).

Fixpoint maps_get (ms : list (mapkey * pmap)) (k : mapkey) : pmap :=
  match ms with
  | [] => fresh_pmap
  | (k', p) :: t => if key_eqb k k' then p else maps_get t k
  end.

Fixpoint maps_set (ms : list (mapkey * pmap)) (k : mapkey) (p : pmap) : list (mapkey * pmap) :=
  match ms with
  | [] => []
  | (k', q) :: t => if key_eqb k k' then (k', p) :: t else (k', q) :: maps_set t k p
  end.

Fixpoint nregs_get (rs : list regs) (n : nat) : regs :=
  match rs, n with
  | r :: _, O => r
  | _ :: t, S m => nregs_get t m
  | [], _ => []
  end.

Fixpoint nregs_set (rs : list regs) (n : nat) (r : regs) : list regs :=
  match rs, n with
  | _ :: t, O => r :: t
  | x :: t, S m => x :: nregs_set t m r
  | [], _ => []
  end.

Inductive hop :=
| HSet (k : mapkey) (attrs : cfg)                       (* assign the seven attributes *)
| HMap (k : mapkey) (adds : list (Z * Z * option Z))    (* clear(); add_variable(...) ... *)
| HSave (k : mapkey) (fail : Z)                         (* save(), k-th download aborted (0 = none) *)
| HRead (k : mapkey) (fi fs : Z)                        (* read(), uploads of (fi, fs) aborted ((0,0) = none) *)
| HReset (node : Z) (r : regs)                          (* the device comes back with these registers *)
| HMove (node : Z) (net : Z)                            (* del cur_net[id]; nets[net].add_node(node) *)
| HUnsub (k : mapkey).                                  (* the application unsubscribes the map's callback from its COB-ID *)

Fixpoint zinsert (x : Z) (l : list Z) : list Z :=
  match l with
  | [] => [x]
  | y :: t => if x <=? y then x :: l else y :: zinsert x t
  end.
Definition zsort (l : list Z) : list Z := fold_right zinsert [] l.

Definition v_layout (p : pmap) : val :=
  VL [VZ (p_dlen p); VZ (p_len p); VL (map (vopt VZ) (p_offs p))].

(* Several Network objects: p_subs of a map is its subscription list on the network its node is attached to NOW;
   what it left behind on the other networks (remove_network does not touch PDO subscriptions) is kept in a stash
   keyed by (map, network). *)
Definition stash := list ((mapkey * Z) * list Z).

Fixpoint stash_get (st : stash) (k : mapkey) (net : Z) : list Z :=
  match st with
  | [] => []
  | ((k', n'), l) :: t => if key_eqb k k' && (net =? n') then l else stash_get t k net
  end.

Definition pm_with_subs (p : pmap) (subs : list Z) : pmap :=
  mkPm (p_cfg p) (p_offs p) (p_len p) (p_dlen p) subs.

Fixpoint zremove (x : Z) (l : list Z) : list Z :=
  match l with
  | [] => []
  | y :: t => if x =? y then t else y :: zremove x t
  end.

Definition key_indices (k : mapkey) : Z * Z :=
  let '(_, tp, n) := k in (com_index tp n, map_index tp n).
Definition key_node (k : mapkey) : nat := let '(nd, _, _) := k in Z.to_nat nd.

Fixpoint znth (l : list Z) (n : nat) : Z :=
  match l, n with
  | x :: _, O => x
  | _ :: t, S m => znth t m
  | [], _ => 0
  end.
Fixpoint zset_nth (l : list Z) (n : nat) (v : Z) : list Z :=
  match l, n with
  | _ :: t, O => v :: t
  | x :: t, S m => x :: zset_nth t m v
  | [], _ => []
  end.

Fixpoint zrange (n : nat) : list Z :=
  match n with O => [] | S m => zrange m ++ [Z.of_nat m] end.

(* the subscription tables of all networks: per map, per network, the sorted CAN ids of its callback; then per
   network the number of callbacks that are not PDO maps (LSS once; per attached node: SDO response, heartbeat,
   EMCY, NMT command) *)
Definition v_table (ms : list (mapkey * pmap)) (cur : list Z) (st : stash) (nnets : nat) : val :=
  VL (map (fun kp =>
             VL (map (fun j => VL (map VZ (zsort (if j =? znth cur (key_node (fst kp)) then p_subs (snd kp)
                                                  else stash_get st (fst kp) j))))
                     (zrange nnets))) ms ++
      [VL (map (fun j => VZ (1 + 4 * Z.of_nat (length (filter (fun c => c =? j) cur)))) (zrange nnets))]).

Definition v_unit (r : res unit) : val := res_val (fun _ => VNone) r.

(* node nd goes from network a to network b: every map of the node leaves its list on a and finds the one on b *)
Fixpoint move_maps (ms : list (mapkey * pmap)) (st : stash) (nd : nat) (a b : Z) : list (mapkey * pmap) * stash :=
  match ms with
  | [] => ([], st)
  | (k, p) :: t =>
      if Nat.eqb (key_node k) nd then
        let st1 := ((k, a), p_subs p) :: st in
        let '(t', st2) := move_maps t st1 nd a b in
        ((k, pm_with_subs p (stash_get st1 k b)) :: t', st2)
      else
        let '(t', st2) := move_maps t st nd a b in ((k, p) :: t', st2)
  end.

Fixpoint run_history (od : oddesc) (d : device) (nnets : nat) (ms : list (mapkey * pmap)) (cur : list Z) (st : stash)
                     (rs : list regs) (ops : list hop) : list val :=
  match ops with
  | [] => []
  | op :: rest =>
      match op with
      | HSet k a =>
          let p := pm_set (maps_get ms k) a in
          let ms' := maps_set ms k p in
          VL [VNone; VL []; v_cfg (p_cfg p) (p_subs p); v_layout p; v_table ms' cur st nnets]
            :: run_history od d nnets ms' cur st rs rest
      | HMap k adds =>
          let p := pm_adds (o_objs od) (pm_clear (maps_get ms k)) adds in
          let ms' := maps_set ms k p in
          VL [VNone; VL []; v_cfg (p_cfg p) (p_subs p); v_layout p; v_table ms' cur st nnets]
            :: run_history od d nnets ms' cur st rs rest
      | HSave k fail =>
          let '(com, mp) := key_indices k in
          let '(p, r', lg, x) := pm_save od d fail com mp (maps_get ms k) (nregs_get rs (key_node k)) in
          let ms' := maps_set ms k p in
          VL [v_unit x; v_log lg; v_cfg (p_cfg p) (p_subs p); v_layout p; v_table ms' cur st nnets]
            :: run_history od d nnets ms' cur st (nregs_set rs (key_node k) r') rest
      | HRead k fi fs =>
          let '(com, mp) := key_indices k in
          let p0 := maps_get ms k in
          let get := inj_get od com mp (nregs_get rs (key_node k)) fi fs in
          let '(p, x) := read_partial get (o_objs od) com mp p0 in
          (* on success the statement-by-statement version must agree with read_cfg (the function of the theorems) *)
          let agree := match read_cfg get (o_objs od) com mp (p_cfg p0) (p_subs p0), x with
                       | Ok (c', s'), Ok _ => val_eqb (v_cfg c' s') (v_cfg (p_cfg p) (p_subs p)) && list_Z_eqb s' (p_subs p)
                       | Ok _, _ => false
                       | _, Ok _ => false
                       | _, _ => true
                       end in
          let ms' := maps_set ms k p in
          VL [v_unit x; VBool agree; v_cfg (p_cfg p) (p_subs p); v_layout p; v_table ms' cur st nnets]
            :: run_history od d nnets ms' cur st rs rest
      | HReset nd r =>
          VL [VNone; VL []; VNone; VNone; v_table ms cur st nnets]
            :: run_history od d nnets ms cur st (nregs_set rs (Z.to_nat nd) r) rest
      | HMove nd b =>
          let a := znth cur (Z.to_nat nd) in
          let '(ms', st') := move_maps ms st (Z.to_nat nd) a b in
          let cur' := zset_nth cur (Z.to_nat nd) b in
          VL [VNone; VL []; VNone; VNone; v_table ms' cur' st' nnets]
            :: run_history od d nnets ms' cur' st' rs rest
      | HUnsub k =>
          let p0 := maps_get ms k in
          let p := match c_cob (p_cfg p0) with
                   | Some cob => pm_with_subs p0 (zremove cob (p_subs p0))
                   | None => p0
                   end in
          let ms' := maps_set ms k p in
          VL [VNone; VL []; v_cfg (p_cfg p) (p_subs p); v_layout p; v_table ms' cur st nnets]
            :: run_history od d nnets ms' cur st rs rest
      end
  end.

Inductive pdocfg_case :=
(* user sets the attributes of a fresh map (pre, with empty map), adds variables, saves against the
   device; a second fresh node reads back by SDO *)
| CSaveRead (tpdo : bool) (n : Z) (od : oddesc) (d : device) (r0 : regs) (pre : cfg) (adds : list (Z * Z * option Z))
(* read(from_od=False) of arbitrary device registers into a fresh map *)
| CRead (tpdo : bool) (n : Z) (od : oddesc) (r0 : regs)
(* read(from_od=True) into a fresh map, then save against the device, then SDO read-back by a fresh node *)
| CFromOd (tpdo : bool) (n : Z) (od : oddesc) (vals : odvals) (d : device) (r0 : regs)
(* PdoMaps.__init__: indices of map n and its predefined COB-ID *)
| CIndices (tpdo : bool) (n node_id : Z)
(* RemoteNode.load_configuration on a dictionary with RPDO n and TPDO n: pdo.read(from_od=True) of all
   maps (receive maps first), then pdo.save() of all maps; no other object carries a value *)
| CLoad (n : Z) (od : oddesc) (vals : odvals) (d : device) (r0 : regs)
(* a history of operations on the maps `keys` (all fresh at the start) of the node objects of one Network,
   node i behind device d with registers rs[i]; nnets Network objects, every node starts on network 0 *)
| CHistory (od : oddesc) (d : device) (nnets : Z) (keys : list mapkey) (rs : list regs) (ops : list hop).

Definition save_and_readback (od : oddesc) (d : device) (r0 : regs) (com mp : Z) (c : cfg) (subs : list Z) : val :=
  let '((r1, lg), sr) := save_io (log_write d) log_ul od com mp c subs (r0, []) in
  VL [res_val (fun p => v_cfg (fst p) (snd p)) sr;
      v_log lg;
      v_regs r1 com mp;
      v_res (read_cfg (sdo_get od com mp r1) (o_objs od) com mp fresh_cfg [])].

Definition v_err {A} (r : res A) : val := res_val (fun _ => VNone) r.

Definition load_configuration (n : Z) (od : oddesc) (vals : odvals) (d : device) (r0 : regs) : val :=
  let rc := com_index false n in
  let rm := map_index false n in
  let tc := com_index true n in
  let tm := map_index true n in
  match read_cfg (od_get od rc rm vals) (o_objs od) rc rm fresh_cfg [] with
  | Ok (c1, s1) =>
      match read_cfg (od_get od tc tm vals) (o_objs od) tc tm fresh_cfg [] with
      | Ok (c2, s2) =>
          let '(st1, x1) := save_io (log_write d) log_ul od rc rm c1 s1 (r0, []) in
          match x1 with
          | Ok _ =>
              let '(st2, x2) := save_io (log_write d) log_ul od tc tm c2 s2 st1 in
              VL [v_err x2; v_log (snd st2); v_regs (fst st2) rc rm; v_regs (fst st2) tc tm]
          | _ => VL [v_err x1; v_log (snd st1); v_regs (fst st1) rc rm; v_regs (fst st1) tc tm]
          end
      | Err k => VErr k
      | Abort a => VAbort a
      end
  | Err k => VErr k
  | Abort a => VAbort a
  end.

Definition run_pdocfg (c : pdocfg_case) : val :=
  match c with
  | CSaveRead tpdo n od d r0 pre adds =>
      let com := com_index tpdo n in
      let mp := map_index tpdo n in
      save_and_readback od d r0 com mp (with_map pre (add_variables (o_objs od) [] adds)) []
  | CRead tpdo n od r0 =>
      let com := com_index tpdo n in
      let mp := map_index tpdo n in
      v_res (read_cfg (sdo_get od com mp r0) (o_objs od) com mp fresh_cfg [])
  | CFromOd tpdo n od vals d r0 =>
      let com := com_index tpdo n in
      let mp := map_index tpdo n in
      match read_cfg (od_get od com mp vals) (o_objs od) com mp fresh_cfg [] with
      | Ok (c1, subs) => VL [v_cfg c1 subs; save_and_readback od d r0 com mp c1 subs]
      | Err k => VErr k
      | Abort a => VAbort a
      end
  | CIndices tpdo n node_id =>
      VL [VZ (com_index tpdo n); VZ (map_index tpdo n); vopt VZ (predefined_cob tpdo n node_id)]
  | CLoad n od vals d r0 => load_configuration n od vals d r0
  | CHistory od d nnets keys rs ops =>
      VL (run_history od d (Z.to_nat nnets) (map (fun k => (k, fresh_pmap)) keys) (map (fun _ => 0) rs) [] rs ops)
  end.
