(* Model of canopen/pdo/base.py: PdoMap.add_variable / _update_data_size (layout) and
   PdoVariable.get_data / set_data, composed with Variable.raw (ODVariable.decode_raw /
   encode_raw from Model/Codec.v).  Definitions only. *)
From Coq Require Import ZArith List Bool.
From CV Require Import Base.Val Base.Bytes Base.Bits Base.Tys Gen.Tables Model.Codec.
Import ListNotations.
Open Scope Z_scope.

(* one mapped object: its data type and the number of bits it occupies *)
Record entry := { e_dt : Z; e_len : Z }.

(* PdoMap.add_variable: var.offset = self.length; self.length += var.length *)
Fixpoint offsets_from (start : Z) (es : list entry) : list Z :=
  match es with
  | [] => []
  | e :: r => start :: offsets_from (start + e_len e) r
  end.
Definition offsets (es : list entry) : list Z := offsets_from 0 es.
Definition total_bits (es : list entry) : Z := fold_left (fun a e => a + e_len e) es 0.
(* PdoMap._update_data_size: bytearray(int(math.ceil(self.length / 8.0))) *)
Definition frame_len (es : list entry) : Z := (total_bits es + 7) / 8.

Definition is_signed (dt : Z) : bool := zmem dt SIGNED_TYPES.
Definition od_size (dt : Z) : Z := len_bits (Some dt) / 8.      (* len(self.od) // 8 *)

(* Python slice l[a:b] *)
Definition slice {A} (l : list A) (a b : Z) : list A := firstn (Z.to_nat (b - a)) (skipn (Z.to_nat a) l).

(* int.to_bytes(size, "little", signed=...) *)
Definition to_bytes (size : Z) (signed : bool) (v : Z) : res (list Z) :=
  if in_range signed (8 * size) v then Ok (le_encode (Z.to_nat size) v) else Err E_OVERFLOW.

(* PdoVariable.get_data *)
Definition pdo_get_data (frame : list Z) (dt off len : Z) : res (list Z) :=
  if negb (off mod 8 =? 0) || negb (len mod 8 =? 0) then
    let d := get_field (le_decode frame) off len in
    let d' := if is_signed dt && Z.testbit d (len - 1) then d - 2 ^ len else d in
    to_bytes (od_size dt) (is_signed dt) d'
  else Ok (slice frame (off / 8) (off / 8 + od_size dt)).

(* PdoVariable.set_data *)
Definition pdo_set_data (frame : list Z) (off len : Z) (data : list Z) : res (list Z) :=
  if negb (off mod 8 =? 0) || negb (len mod 8 =? 0) then
    to_bytes (zlen frame) false (set_field (le_decode frame) off len (le_decode data))
  else
    let a := off / 8 in
    Ok (firstn (Z.to_nat a) frame ++ data ++ skipn (Z.to_nat (a + zlen data)) frame).

(* PdoVariable.raw getter / setter *)
Definition pdo_read (frame : list Z) (dt off len : Z) : res pyval :=
  rbind (pdo_get_data frame dt off len) (decode_raw (Some dt)).
Definition pdo_write (frame : list Z) (dt off len : Z) (v : pyval) : res (list Z) :=
  rbind (encode_raw (Some dt) v) (pdo_set_data frame off len).

(* ---- runner: a layout, an initial frame, then a list of operations ---- *)
Inductive pdo_op :=
| OpRead (k : nat)                 (* read variable k *)
| OpWrite (k : nat) (v : pyval).   (* write variable k *)

Fixpoint run_ops (es : list entry) (frame : list Z) (ops : list pdo_op) : list val :=
  match ops with
  | [] => [VB frame]
  | OpRead k :: r =>
      match nth_error es k, nth_error (offsets es) k with
      | Some e, Some off => res_val pyval_val (pdo_read frame (e_dt e) off (e_len e)) :: run_ops es frame r
      | _, _ => [VErr E_FUEL]
      end
  | OpWrite k v :: r =>
      match nth_error es k, nth_error (offsets es) k with
      | Some e, Some off =>
          match pdo_write frame (e_dt e) off (e_len e) v with
          | Ok f' => VNone :: run_ops es f' r
          | Err k' => VErr k' :: run_ops es frame r
          | Abort c => VAbort c :: run_ops es frame r
          end
      | _, _ => [VErr E_FUEL]
      end
  end.

Inductive pdo_case := PdoCase (es : list entry) (frame : list Z) (ops : list pdo_op).

Definition run_pdo (c : pdo_case) : val :=
  match c with
  | PdoCase es frame ops =>
      VL (VZ (frame_len es) :: VL (map VZ (offsets es)) :: run_ops es frame ops)
  end.
