(* Independent reference writer for EDS/DCF documents (CiA 306), in Gallina: from a description
   of a device and a choice of spellings to the token document.  It is the peer of
   harness/ref/eds_writer.py (function [tokens]); it shares nothing with the import/export model
   except the digit functions.  [described] says what an importer has to find. Definitions only. *)
From Coq Require Import ZArith List Bool.
From Coq Require String.
Import String.StringSyntax.
From CV Require Import Base.Val Base.Tys Gen.Tables Model.Eds.
Import ListNotations.
Open Scope Z_scope.

(* ---- how a number is spelled ---- *)
Inductive spelling :=
| SpDec
| SpHex (upx low : bool) (pad : nat).     (* 0x / 0X prefix, lower-case digits, zero padding *)

Definition spell_nat (sp : spelling) (v : Z) : str :=           (* v >= 0 *)
  match sp with
  | SpDec => dec_u v
  | SpHex upx low pad => 48 :: (if upx then 88 else 120) :: pad0 pad (if low then hex_l v else hex_u v)
  end.
Definition spell (sp : spelling) (v : Z) : str :=
  if v <? 0 then 45 :: spell_nat sp (- v) else spell_nat sp v.

(* a limit: plain, or the two's complement bit pattern of the type's width (signed types) *)
Inductive limit_spelling := LPlain (sp : spelling) | LTwos (upx low : bool) (pad : nat).
Definition spell_limit (w : Z) (ls : limit_spelling) (v : Z) : str :=
  match ls with
  | LPlain sp => spell sp v
  | LTwos upx low pad => spell_nat (SpHex upx low pad) (v mod 2 ^ w)
  end.

(* ---- values ---- *)
Inductive dvalue :=
| DInt (z : Z) (sp : spelling)
| DRel (off : Z) (sp : spelling) (post spaces : bool)    (* $NODEID+off / off+$NODEID, optionally " + " *)
| DStr (t : str)
| DBytes (b : list Z) (up : bool)
| DFloat (f : Z * Z) (text : str).                         (* the text is the spelling *)

Definition hexbyte (up : bool) (b : Z) : str :=
  if up then [hexchar_u (b / 16); hexchar_u (b mod 16)] else [hexchar_l (b / 16); hexchar_l (b mod 16)].

Definition dvalue_text (d : dvalue) : str :=
  match d with
  | DInt z sp => spell sp z
  | DRel off sp post spaces =>
      let plus := if spaces then s " + " else s "+" in
      if post then spell sp off ++ plus ++ NODEID else NODEID ++ plus ++ spell sp off
  | DStr t => t
  | DBytes b up => flat_map (hexbyte up) b
  | DFloat _ t => t
  end.

Record vdesc := mkVd {
  d_name : str; d_sub : Z; d_dt : Z; d_dt_sp : spelling; d_access : str;
  d_pdo : option (bool * spelling); d_default : option dvalue; d_pvalue : option dvalue;
  d_low : option (Z * limit_spelling); d_high : option (Z * limit_spelling);
  d_storage : option str; d_factor : option ((Z * Z) * str); d_unit : option str; d_descr : option str }.

Definition signed_width (dt : Z) : Z :=      (* CiA 301 widths of the signed integer types *)
  if dt =? 2 then 8 else if dt =? 3 then 16 else if dt =? 16 then 24 else if dt =? 4 then 32
  else if dt =? 18 then 40 else if dt =? 19 then 48 else if dt =? 20 then 56 else if dt =? 21 then 64 else 0.

Definition var_keys (v : vdesc) : list (str * option str) :=
  [ (s "DataType", Some (spell (d_dt_sp v) (d_dt v)));
    (s "AccessType", Some (d_access v));
    (s "DefaultValue", option_map dvalue_text (d_default v));
    (k_PValue, option_map dvalue_text (d_pvalue v));
    (s "PDOMapping", option_map (fun p : bool * spelling => spell (snd p) (if fst p then 1 else 0)) (d_pdo v));
    (s "LowLimit", option_map (fun p : Z * limit_spelling => spell_limit (signed_width (d_dt v)) (snd p) (fst p)) (d_low v));
    (s "HighLimit", option_map (fun p : Z * limit_spelling => spell_limit (signed_width (d_dt v)) (snd p) (fst p)) (d_high v));
    (s "StorageLocation", d_storage v);
    (s "Factor", option_map snd (d_factor v));
    (s "Unit", d_unit v);
    (s "Description", d_descr v) ].

(* ---- objects ---- *)
Definition sec_name (lower_sec : bool) (index : Z) : str :=
  if lower_sec then lower (fmt_X 4 index) else fmt_X 4 index.

Inductive odesc :=
| DVar (index : Z) (lower_sec : bool) (objtype : option spelling) (domain : bool) (v : vdesc)
| DCont (k : ckind) (index : Z) (lower_sec : bool) (name : str) (storage : option str) (ot_sp : spelling)
        (cap_sub lower_sub : bool) (members : list vdesc)
| DCompact (index : Z) (lower_sec : bool) (ot_sp : spelling) (v : vdesc) (n : Z) (names : option (list (Z * str))).

Definition odesc_index (o : odesc) : Z :=
  match o with DVar i _ _ _ _ => i | DCont _ i _ _ _ _ _ _ _ => i | DCompact i _ _ _ _ _ => i end.
Definition odesc_name (o : odesc) : str :=
  match o with DVar _ _ _ _ v => d_name v | DCont _ _ _ n _ _ _ _ _ => n | DCompact _ _ _ v _ _ => d_name v end.

Definition write_obj (o : odesc) : list section :=
  match o with
  | DVar index lo ot domain v =>
      [ (sec_name lo index,
         kvs_of ((k_PName, Some (d_name v)) ::
                 (s "ObjectType", option_map (fun sp => spell sp (if domain then 2 else 7)) ot) :: var_keys v)) ]
  | DCont k index lo name storage ot_sp cap_sub lower_sub members =>
      (sec_name lo index,
       kvs_of [ (k_PName, Some name);
                (s "ObjectType", Some (spell ot_sp (match k with KArr => 8 | KRec => 9 end)));
                (s "SubNumber", Some (dec (Z.of_nat (length members))));
                (s "StorageLocation", storage) ]) ::
      map (fun m => (sec_name lo index ++ (if cap_sub then s "Sub" else s "sub") ++
                       (if lower_sub then lower (fmt_X 0 (d_sub m)) else fmt_X 0 (d_sub m)),
                     kvs_of ((k_PName, Some (d_name m)) :: var_keys m))) members
  | DCompact index lo ot_sp v n names =>
      (sec_name lo index,
       kvs_of ((k_PName, Some (d_name v)) :: (s "ObjectType", Some (spell ot_sp 8)) ::
               var_keys v ++ [(s "CompactSubObj", Some (dec n))])) ::
      match names with
      | None => []
      | Some l => [ (sec_name lo index ++ s "Name",
                     (s "NrOfEntries", dec n) :: map (fun p : Z * str => (dec (fst p), snd p)) l) ]
      end
  end.

(* ---- the document ---- *)
Inductive divalue := DiStr (t : str) | DiInt (z : Z) (sp : spelling) | DiBool (b : bool) (sp : spelling).

Record ddesc := mkDd {
  dd_extra : bool;                                        (* FileInfo, DummyUsage, object lists *)
  dd_devinfo : option (list (str * divalue) * list (Z * bool));   (* EDS key -> value; BaudRate_<r> flags *)
  dd_commissioning : option (option (Z * spelling) * option Z);   (* NodeID, Baudrate (kbit/s) *)
  dd_comments : option (list str);
  dd_objects : list odesc;
  dd_tail : bool * bool * bool }.     (* [DeviceInfo], [DeviceComissioning], [Comments] written AFTER the objects
                                         (the sections of an INI file are an unordered collection) *)

Fixpoint number_lines_from (i : Z) (ls : list str) : list (str * str) :=
  match ls with [] => [] | l :: r => (s "Line" ++ dec i, l) :: number_lines_from (i + 1) r end.

Definition divalue_text (v : divalue) : str :=
  match v with DiStr t => t | DiInt z sp => spell sp z | DiBool b sp => spell sp (if b then 1 else 0) end.

Definition head_fileinfo (b : bool) : list section :=
  if b then [ (s "FileInfo", [ (s "FileName", s "generated"); (s "FileVersion", s "1"); (s "EDSVersion", s "4.0") ]) ] else [].
Definition head_devinfo (o : option (list (str * divalue) * list (Z * bool))) : list section :=
  match o with
  | Some pb =>
      [ (s "DeviceInfo", map (fun p : str * divalue => (fst p, divalue_text (snd p))) (fst pb) ++
                         map (fun p : Z * bool => (s "BaudRate_" ++ dec (fst p), if snd p then s "1" else s "0")) (snd pb)) ]
  | None => [] end.
Definition commissioning_kv (c : option (Z * spelling) * option Z) : list (str * str) :=
  kvs_of [ (s "NodeID", option_map (fun p : Z * spelling => spell (snd p) (fst p)) (fst c));
           (s "Baudrate", option_map dec (snd c)) ].
Definition head_commissioning (o : option (option (Z * spelling) * option Z)) : list section :=
  match o with Some c => [ (s "DeviceComissioning", commissioning_kv c) ] | None => [] end.
Definition head_dummy (b : bool) : list section :=
  if b then [ (s "DummyUsage", map (fun i => (s "Dummy" ++ pad0 4 (dec i), s "0")) [1; 2; 3; 4; 5; 6; 7]) ] else [].
Definition comments_kv (ls : list str) : list (str * str) :=
  (s "Lines", dec (Z.of_nat (length ls))) :: number_lines_from 1 ls.
Definition head_comments (o : option (list str)) : list section :=
  match o with Some ls => [ (s "Comments", comments_kv ls) ] | None => [] end.

Definition pick (b : bool) (x : list section) : list section := if b then x else [].
Definition tail_di (d : ddesc) : bool := fst (fst (dd_tail d)).
Definition tail_co (d : ddesc) : bool := snd (fst (dd_tail d)).
Definition tail_cm (d : ddesc) : bool := snd (dd_tail d).

Definition write_head (d : ddesc) : list section :=
  head_fileinfo (dd_extra d) ++ pick (negb (tail_di d)) (head_devinfo (dd_devinfo d)) ++
  pick (negb (tail_co d)) (head_commissioning (dd_commissioning d)) ++
  head_dummy (dd_extra d) ++ pick (negb (tail_cm d)) (head_comments (dd_comments d)).
Definition write_tail (d : ddesc) : list section :=
  pick (tail_di d) (head_devinfo (dd_devinfo d)) ++ pick (tail_co d) (head_commissioning (dd_commissioning d)) ++
  pick (tail_cm d) (head_comments (dd_comments d)).

Definition write (d : ddesc) : doc := write_head d ++ flat_map write_obj (dd_objects d) ++ write_tail d.

(* ================================================================== what an importer has to find *)
Definition dvalue_sem (nid : option Z) (d : dvalue) : option pyv :=
  match d with
  | DInt z _ => Some (PVInt z)
  | DRel off _ _ _ => option_map (fun n => PVInt (off + n)) nid     (* nothing to resolve against: no value *)
  | DStr t => Some (PVStr t)
  | DBytes b _ => Some (PVBytes b)
  | DFloat f _ => Some (PVFloat (fst f) (snd f))
  end.
Definition is_rel (d : option dvalue) : bool := match d with Some (DRel _ _ _ _) => true | _ => false end.

Definition described_var (nid : option Z) (index sub : Z) (name : str) (v : vdesc) : odvar :=
  mkVar name index sub (d_dt v) (lower (d_access v))
        (match d_pdo v with Some (b, _) => b | None => false end)
        (match d_default v with Some x => dvalue_sem nid x | None => None end)
        (option_map fst (d_low v)) (option_map fst (d_high v))
        (match d_pvalue v with Some x => dvalue_sem nid x | None => None end)
        (option_map dvalue_text (d_default v)) (option_map dvalue_text (d_pvalue v))
        (match d_default v with Some x => contains NODEID (dvalue_text x) | None => false end)
        (d_storage v)
        (match d_factor v with Some (f, _) => f | None => (1, 0) end)
        (match d_unit v with Some t => t | None => [] end)
        (match d_descr v with Some t => t | None => [] end).

Definition described_obj (nid : option Z) (o : odesc) : odobj :=
  match o with
  | DVar index _ _ _ v => OVar (described_var nid index 0 (d_name v) v)
  | DCont k index _ name storage _ _ _ members =>
      build_cont k name index storage (map (fun m => described_var nid index (d_sub m) (d_name m) m) members)
  | DCompact index _ _ v n names =>
      let src := described_var nid index 1 (d_name v) v in
      build_cont KArr (d_name v) index (d_storage v)
        (number_of_entries index :: src ::
         match names with
         | None => []
         | Some l => map (fun p : Z * str => described_var nid index (fst p) (snd p) v) l
         end)
  end.

Definition node_id_in_force (d : ddesc) (nid : option Z) : option Z :=
  match nid with
  | Some n => Some n
  | None => match dd_commissioning d with Some (Some (n, _), _) => Some n | _ => None end
  end.

(* CiA 306 DeviceInfo entries: (kind, (EDS key, attribute of DeviceInformation)); kind 0 text, 1 number, 2 flag *)
Definition DEVINFO_ROWS : list (Z * (str * str)) :=
  [ (0, (s "VendorName", s "vendor_name")); (1, (s "VendorNumber", s "vendor_number"));
    (0, (s "ProductName", s "product_name")); (1, (s "ProductNumber", s "product_number"));
    (1, (s "RevisionNumber", s "revision_number")); (0, (s "OrderCode", s "order_code"));
    (2, (s "SimpleBootUpMaster", s "simple_boot_up_master")); (2, (s "SimpleBootUpSlave", s "simple_boot_up_slave"));
    (1, (s "Granularity", s "granularity")); (2, (s "DynamicChannelsSupported", s "dynamic_channels_supported"));
    (2, (s "GroupMessaging", s "group_messaging")); (1, (s "NrOfRXPDO", s "nr_of_RXPDO"));
    (1, (s "NrOfTXPDO", s "nr_of_TXPDO")); (2, (s "LSS_Supported", s "LSS_supported")) ].
Definition STD_RATES : list Z := [10; 20; 50; 125; 250; 500; 800; 1000].

Definition described_devinfo (d : ddesc) : list (str * pyv) * list str * list Z :=
  match dd_devinfo d with
  | None => ([], [], [])
  | Some pb =>
      let props := fst pb in let baud := snd pb in
      let find k := sassoc k props in
      let '(di, bl) :=
        fold_right (fun row acc =>
                      let '(kind, (ep, op)) := row in
                      match find ep with
                      | Some (DiStr t) => ((op, PVStr t) :: fst acc, snd acc)
                      | Some (DiInt z _) => ((op, PVInt z) :: fst acc, snd acc)
                      | Some (DiBool b _) => ((op, PVInt (if b then 1 else 0)) :: fst acc, op :: snd acc)
                      | None => acc
                      end) ([], []) DEVINFO_ROWS in
      (di, bl, map (fun r => r * 1000) (filter (fun r => match zassoc r baud with Some true => true | _ => false end) STD_RATES))
  end.

Definition described (d : ddesc) (nid : option Z) : odict :=
  let eff := node_id_in_force d nid in
  let '(di, bl, baud) := described_devinfo d in
  build_od (map (described_obj eff) (dd_objects d))
           (match dd_comments d with Some ls => join_nl ls | None => [] end)
           (match dd_commissioning d with
            | Some (_, Some r) => if r =? 0 then None else Some (r * 1000)
            | _ => None end)
           (match dd_commissioning d with Some _ => eff | None => None end)
           di bl baud.

(* ================================================================== runner for the correspondence (C08) *)
(* the document without the sections the reference writer in Python adds for completeness *)
Definition frame_only (n : str) : bool :=
  streq n (s "FileInfo") || streq n (s "MandatoryObjects") || streq n (s "OptionalObjects") || streq n (s "ManufacturerObjects").
Definition strip_frame (d : doc) : doc := filter (fun sec => negb (frame_only (fst sec))) d.

Inductive ref_case :=
| RC (c : eds_case)
| RDesc (d : ddesc) (nid : option Z) (keys : list (key * option key)).
    (* write the description with the Gallina writer, import the result; the last component ties the Gallina
       writer to the Python writer (same token document) *)

Definition run_ref_full (c : ref_case) : val :=
  match c with
  | RC c => run_eds_full c
  | RDesc d nid keys =>
      res_val (fun od => VL [VBool true; od_val od; VL (map (fun k => lookup od (fst k) (snd k)) keys);
                             doc_val (strip_frame (write d))]) (import_ini (write d) nid)
  end.
Definition run_ref (c : ref_case) : val :=
  match c with
  | RC c => run_eds c
  | RDesc _ _ _ => dg 3 (run_ref_full c)
  end.

(* typed constructors for the generated case files *)
Definition sp_opt (b : bool) (sp : spelling) : option (bool * spelling) := Some (b, sp).
Definition lim (v : Z) (ls : limit_spelling) : option (Z * limit_spelling) := Some (v, ls).
Definition fac (m e : Z) (t : str) : option ((Z * Z) * str) := Some ((m, e), t).
Definition nm (k : Z) (t : str) : Z * str := (k, t).
Definition di (k : str) (v : divalue) : str * divalue := (k, v).
Definition bd (r : Z) (b : bool) : Z * bool := (r, b).
Definition devinfo_of (p : list (str * divalue)) (b : list (Z * bool)) : option (list (str * divalue) * list (Z * bool)) := Some (p, b).
Definition tail_of (a b c : bool) : bool * bool * bool := (a, b, c).
Definition comm_of (n : option (Z * spelling)) (r : option Z) : option (option (Z * spelling) * option Z) := Some (n, r).
Definition nid_sp (n : Z) (sp : spelling) : option (Z * spelling) := Some (n, sp).
