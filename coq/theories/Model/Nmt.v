(* Model of canopen/nmt.py (NmtBase, NmtMaster, NmtSlave) as wired up by
   node/remote.py (RemoteNode.nmt = NmtMaster, subscribed to CAN id 0 and 0x700+id) and
   node/local.py (LocalNode.nmt = NmtSlave, subscribed to CAN id 0, write callback for 0x1017),
   on one synchronous bus.  Tables from Gen/NmtTables.v (regenerated from the source).
   Definitions only. *)
From Coq Require Import ZArith List Bool.
From CV Require Import Base.Val Base.Tys Gen.NmtTables Model.RefNmt.
Import ListNotations.
Open Scope Z_scope.

(* dict lookup with a str key *)
Fixpoint sassoc {A} (k : list Z) (l : list (list Z * A)) : option A :=
  match l with
  | [] => None
  | (k', a) :: r => if list_Z_eqb k k' then Some a else sassoc k r
  end.

(* decimal text of an int, for f"UNKNOWN STATE '{self._state}'" *)
Fixpoint dec_digits (fuel : nat) (n : Z) (acc : list Z) : list Z :=
  match fuel with
  | O => acc
  | S f => let acc' := (48 + n mod 10) :: acc in
           if n <? 10 then acc' else dec_digits f (n / 10) acc'
  end.
Definition dec (n : Z) : list Z :=
  if n <? 0 then 45 :: dec_digits 40 (- n) [] else dec_digits 40 n [].

(* ---- NmtBase ---- *)
(* NMT_STATES[new_state] inside the logger.info(...) argument lists is evaluated eagerly: KeyError
   if COMMAND_TO_STATE maps to a number that is not a key of NMT_STATES (the old state is printed
   through the [state] property, which never raises) *)
Definition known (st : Z) : bool :=
  match zassoc st NMT_STATES with Some _ => true | None => false end.

(* send_command: if code in COMMAND_TO_STATE: new_state = COMMAND_TO_STATE[code];
   logger.info(..., self.state, NMT_STATES[new_state]); self._state = new_state.
   None = KeyError *)
Definition base_send (st code : Z) : option Z :=
  match zassoc code COMMAND_TO_STATE with
  | Some s => if known s then Some s else None
  | None => Some st
  end.

(* struct.unpack_from("BB", data) *)
Definition unpack_BB (data : list Z) : res (Z * Z) :=
  match data with c :: n :: _ => Ok (c, n) | _ => Err E_STRUCT end.

(* on_command, after a successful unpack: node_id in (self.id, 0); cmd in COMMAND_TO_STATE;
   if new_state != self._state: logger.info(..., NMT_STATES[new_state], self.state).
   None = KeyError *)
Definition cmd_apply (id st cmd nid : Z) : option Z :=
  if (nid =? id) || (nid =? 0) then
    match zassoc cmd COMMAND_TO_STATE with
    | Some new => if (new =? st) || known new then Some new else None
    | None => Some st
    end
  else Some st.

Definition on_command (id st : Z) (data : list Z) : res Z :=
  rbind (unpack_BB data) (fun p =>
    match cmd_apply id st (fst p) (snd p) with Some s => Ok s | None => Err E_KEY end).

(* the state of a node object after a list of received frames (a frame that raises changes nothing) *)
Definition rx_fold (id st : Z) (frames : list (list Z)) : Z :=
  fold_left (fun s d => match on_command id s d with Ok s' => s' | _ => s end) frames st.

(* state property getter *)
Definition unknown_prefix : list Z := [85; 78; 75; 78; 79; 87; 78; 32; 83; 84; 65; 84; 69; 32; 39]. (* "UNKNOWN STATE '" *)
Definition state_name (st : Z) : list Z :=
  match zassoc st NMT_STATES with
  | Some n => n
  | None => unknown_prefix ++ dec st ++ [39]
  end.

(* state property setter: the command code, or ValueError *)
Definition name_code (name : list Z) : res Z :=
  match sassoc name NMT_COMMANDS with Some c => Ok c | None => Err E_VALUE end.

(* ---- NmtMaster.on_heartbeat on (_state, _state_received); also returns the callback argument ---- *)
Definition hb_state (b : Z) : Z :=
  let s := Z.land b 127 in if s =? 0 then 127 else s.

Definition on_heartbeat (m : Z * option Z) (data : list Z) : res ((Z * option Z) * Z) :=
  match data with
  | [] => Err E_STRUCT                      (* struct.unpack_from("B", b"") *)
  | b :: _ => Ok ((hb_state b, Some (Z.land b 127)), Z.land b 127)
  end.

(* ---- the simulated system ---- *)
Record world := mkW {
  w_m : Z;                       (* RemoteNode(own).nmt._state *)
  w_recv : option Z;             (* RemoteNode(own).nmt._state_received *)
  w_o : Z;                       (* RemoteNode(oth).nmt._state *)
  w_b : Z;                       (* Network.nmt._state (NmtMaster(0)) *)
  w_s : Z;                       (* LocalNode(own).nmt._state *)
  w_task : option (list Z * Z);  (* running cyclic heartbeat task of the slave: payload, period in ms *)
  w_od : Z                       (* value of object 0x1017 of the slave *)
}.

Definition init_world (od0 : Z) : world := mkW 0 None 0 0 0 None od0.

Definition frame := (Z * list Z)%type.                          (* CAN id, data *)
Definition out := (list frame * list Z * option Z)%type.        (* frames sent, heartbeat callback arguments, exception *)

Definition set_m (w : world) (m : Z * option Z) : world :=
  mkW (fst m) (snd m) (w_o w) (w_b w) (w_s w) (w_task w) (w_od w).
Definition set_s (w : world) (s : Z) : world :=
  mkW (w_m w) (w_recv w) (w_o w) (w_b w) s (w_task w) (w_od w).
Definition set_task (w : world) (t : option (list Z * Z)) : world :=
  mkW (w_m w) (w_recv w) (w_o w) (w_b w) (w_s w) t (w_od w).
Definition set_od (w : world) (v : Z) : world :=
  mkW (w_m w) (w_recv w) (w_o w) (w_b w) (w_s w) (w_task w) v.
Definition set_master (w : world) (m : who) (st : Z) : world :=
  match m with
  | MOwn => mkW st (w_recv w) (w_o w) (w_b w) (w_s w) (w_task w) (w_od w)
  | MOth => mkW (w_m w) (w_recv w) st (w_b w) (w_s w) (w_task w) (w_od w)
  | MBc => mkW (w_m w) (w_recv w) (w_o w) st (w_s w) (w_task w) (w_od w)
  end.
Definition get_master (w : world) (m : who) : Z :=
  match m with MOwn => w_m w | MOth => w_o w | MBc => w_b w end.

(* NmtSlave.update_heartbeat: a running task gets the new state as payload *)
Definition update_hb (w : world) : world :=
  match w_task w with
  | Some (_, p) => set_task w (Some ([w_s w], p))
  | None => w
  end.

(* NmtSlave.start_heartbeat: stop the old task, start a new one if the time is > 0 *)
Definition start_hb (w : world) (t : Z) : world :=
  set_task w (if 0 <? t then Some ([w_s w], t) else None).

(* a frame on CAN id 0 reaches the subscribers in subscription order: LocalNode(own).nmt.on_command
   (NmtSlave: then update_heartbeat), RemoteNode(own).nmt.on_command, RemoteNode(oth).nmt.on_command.
   An exception in one callback propagates out of Network.notify: the later callbacks do not run.
   A frame shorter than 2 bytes raises struct.error in the first callback; nothing has changed. *)
Definition deliver0 (own oth : Z) (w : world) (data : list Z) : world * option Z :=
  match unpack_BB data with
  | Ok (cmd, nid) =>
      match cmd_apply own (w_s w) cmd nid with
      | None => (w, Some E_KEY)
      | Some s' =>
          let w1 := update_hb (set_s w s') in
          match cmd_apply own (w_m w1) cmd nid with
          | None => (w1, Some E_KEY)
          | Some m' =>
              let w2 := set_master w1 MOwn m' in
              match cmd_apply oth (w_o w2) cmd nid with
              | None => (w2, Some E_KEY)
              | Some o' => (set_master w2 MOth o', None)
              end
          end
      end
  | Err k => (w, Some k)
  | Abort _ => (w, Some E_FUEL)
  end.

(* a frame on CAN id 0x700 + own reaches RemoteNode(own).nmt.on_heartbeat *)
Definition deliver_hb (w : world) (data : list Z) : world * list Z * option Z :=
  match on_heartbeat (w_m w, w_recv w) data with
  | Ok (m, cb) => (set_m w m, [cb], None)
  | Err k => (w, [], Some k)
  | Abort _ => (w, [], Some E_FUEL)
  end.

(* [lp] (loop-back): whether the bus hands a frame sent through the Network to the subscribers of
   that same Network (the simulated synchronous bus of the property: yes; a python-can bus with
   receive_own_messages=False: no, the frame only leaves).
   NmtMaster.send_command: NmtBase.send_command (may raise KeyError: nothing sent), then
   network.send_message(0, [code, self.id]); a code outside 0..255 cannot be put in a CAN frame:
   ValueError after the state assignment.  The frame is on the bus before the subscribers run. *)
Definition master_send (lp : bool) (own oth : Z) (w : world) (m : who) (code : Z) : world * out :=
  match base_send (get_master w m) code with
  | None => (w, ([], [], Some E_KEY))
  | Some st =>
      let w1 := set_master w m st in
      if is_byte code then
        let fr := [code; mid own oth m] in
        let (w2, e) := if lp then deliver0 own oth w1 fr else (w1, None) in
        (w2, ([(0, fr)], [], e))
      else (w1, ([], [], Some E_VALUE))
  end.

(* NmtSlave.send_command *)
Definition slave_send (lp : bool) (own : Z) (w : world) (code : Z) : world * out :=
  let old := w_s w in
  match base_send old code with
  | None => (w, ([], [], Some E_KEY))
  | Some new =>
      let w1 := set_s w new in
      let '(w2, frames, cbs, e) :=
        if new =? 0 then
          let '(w', cbs, e) := if lp then deliver_hb w1 [0] else (w1, [], None) in
          (w', [(1792 + own, [0])], cbs, e)   (* boot-up *)
        else (w1, [], [], None) in
      let w3 := if (old =? 0) && (new =? 127) then start_hb w2 (w_od w2) else update_hb w2 in
      (w3, (frames, cbs, e))
  end.

(* local_node.sdo[0x1017].raw = t : UNSIGNED16 encode, write callback NmtSlave.on_write, store *)
Definition slave_set_hb (w : world) (t : Z) : world * out :=
  if (0 <=? t) && (t <? 65536) then
    let w1 := if t =? 0 then set_task w None else start_hb w t in
    (set_od w1 t, ([], [], None))
  else (w, ([], [], Some E_VALUE)).

Definition step (lp : bool) (own oth : Z) (w : world) (e : event) : world * out :=
  match e with
  | ECmd m code => master_send lp own oth w m code
  | EName m name =>
      match name_code name with
      | Ok code => master_send lp own oth w m code
      | Err k => (w, ([], [], Some k))
      | Abort _ => (w, ([], [], Some E_FUEL))
      end
  | ERaw data => let (w', e) := deliver0 own oth w data in (w', ([], [], e))
  | EHb data => let '(w', cbs, e) := deliver_hb w data in (w', ([], cbs, e))
  | ESCmd code => slave_send lp own w code
  | ESName name =>
      match name_code name with
      | Ok code => slave_send lp own w code
      | Err k => (w, ([], [], Some k))
      | Abort _ => (w, ([], [], Some E_FUEL))
      end
  | ESetHb t => slave_set_hb w t
  | ETick =>
      match w_task w with
      | Some (d, _) =>
          let '(w', cbs, e) := if lp then deliver_hb w d else (w, [], None) in
          (w', ([(1792 + own, d)], cbs, e))
      | None => (w, ([], [], None))
      end
  end.

Definition run (lp : bool) (own oth : Z) (w : world) (evs : list event) : world :=
  fold_left (fun w e => fst (step lp own oth w e)) evs w.

(* ---- the wait functions of NmtMaster as scans (the condition variable and the clock are
   not modelled: what arrives during each wait, and whether the deadline has passed when an
   iteration starts, are given) ---- *)
Definition hb_fold (m : Z * option Z) (arrivals : list Z) : Z * option Z :=
  fold_left (fun m b => match on_heartbeat m [b] with Ok (m', _) => m' | _ => m end) arrivals m.

(* wait_for_heartbeat: _state_received = None; wait (arrivals are processed); None -> NmtError *)
Definition wait_for_heartbeat (m : Z * option Z) (arrivals : list Z) : (Z * option Z) * res (list Z) :=
  let m' := hb_fold (fst m, None) arrivals in
  (m', match snd m' with None => Err E_NMT | Some _ => Ok (state_name (fst m')) end).

(* wait_for_bootup: one list element per loop iteration: (now > end_time, arrivals during the wait) *)
Fixpoint wait_for_bootup (m : Z * option Z) (slices : list (bool * list Z)) : (Z * option Z) * res unit :=
  match slices with
  | [] => (m, Err E_FUEL)
  | (late, arr) :: r =>
      let m' := hb_fold (fst m, None) arr in
      if late then (m', Err E_NMT)
      else match snd m' with
           | Some 0 => (m', Ok tt)
           | _ => wait_for_bootup m' r
           end
  end.

(* ---- runner for the correspondence check ---- *)
Inductive nmt_case :=
| CSeq (lp : bool) (own oth od0 : Z) (evs : list event)
| CWaitHb (pre arrivals : list Z)
| CWaitBoot (pre : list Z) (slices : list (bool * list Z)).

Definition frame_val (f : frame) : val := VL [VZ (fst f); VB (snd f)].
Definition task_val (t : option (list Z * Z)) : val :=
  match t with Some (d, p) => VL [VB d; VZ p] | None => VNone end.
Definition err_val (e : option Z) : val := match e with Some k => VErr k | None => VNone end.

(* a reported state name; the six standard names are abbreviated to their index in
   RefNmt.all_states (an injective recoding that keeps the generated case files small;
   the harness does the same with its own list of the six names) *)
Fixpoint name_index (n : list Z) (l : list nmt_st) (i : Z) : option Z :=
  match l with
  | [] => None
  | s :: r => if list_Z_eqb n (str_codes (st_name s)) then Some i else name_index n r (i + 1)
  end.
Definition name_val (n : list Z) : val :=
  match name_index n all_states 0 with Some i => VZ i | None => VS n end.

Definition obs_step (w : world) (o : out) : val :=
  let '(frames, cbs, e) := o in
  VL [name_val (state_name (w_m w)); name_val (state_name (w_s w)); name_val (state_name (w_o w)); name_val (state_name (w_b w));
      VL (map frame_val frames); VL (map VZ cbs); err_val e; task_val (w_task w)].

Fixpoint run_obs (lp : bool) (own oth : Z) (w : world) (evs : list event) : list val :=
  match evs with
  | [] => []
  | e :: r => let (w', o) := step lp own oth w e in obs_step w' o :: run_obs lp own oth w' r
  end.

Definition run_nmt (c : nmt_case) : val :=
  match c with
  | CSeq lp own oth od0 evs => VL (run_obs lp own oth (init_world od0) evs)
  | CWaitHb pre arrivals =>
      let (m, r) := wait_for_heartbeat (hb_fold (0, None) pre) arrivals in
      VL [res_val name_val r; name_val (state_name (fst m))]
  | CWaitBoot pre slices =>
      let (m, r) := wait_for_bootup (hb_fold (0, None) pre) slices in
      VL [res_val (fun _ => VNone) r; name_val (state_name (fst m))]
  end.
