(* Model for C15: PdoMap.transmit / on_message / add_callback / remote_request / subscribe and
   Network.subscribe / notify as far as PDO reception is concerned.  Variables are read and
   written with Model/Pdo.v.  Definitions only. *)
From Coq Require Import ZArith List Bool.
From CV Require Import Base.Val Base.Bytes Base.Bits Base.Tys Gen.Tables Model.Codec Model.Pdo.
Import ListNotations.
Open Scope Z_scope.

(* one PdoMap object *)
Record pmap := {
  m_cob : Z;
  m_enabled : bool;
  m_rtr : bool;                  (* rtr_allowed *)
  m_layout : list entry;
  m_data : list Z;
  m_ts : option Z;               (* timestamp of the last received frame *)
  m_period : option Z;
  m_received : bool;
  m_task : bool;                 (* a periodic transmission is running (_task is not None) *)
  m_cbs : list Z;                (* registered callbacks (ids), in registration order *)
}.

Definition set_data (m : pmap) (d : list Z) : pmap :=
  {| m_cob := m_cob m; m_enabled := m_enabled m; m_rtr := m_rtr m; m_layout := m_layout m; m_data := d;
     m_ts := m_ts m; m_period := m_period m; m_received := m_received m; m_task := m_task m; m_cbs := m_cbs m |}.

(* PdoMap.on_message: returns the new map and the callbacks invoked (in order) *)
Definition on_message (m : pmap) (can_id : Z) (data : list Z) (ts : Z) : pmap * list Z :=
  if (can_id =? m_cob m) && negb (m_task m) then
    ({| m_cob := m_cob m; m_enabled := m_enabled m; m_rtr := m_rtr m; m_layout := m_layout m;
        m_data := data;
        m_ts := Some ts;
        m_period := match m_ts m with Some old => Some (ts - old) | None => m_period m end;
        m_received := true; m_task := m_task m; m_cbs := m_cbs m |}, m_cbs m)
  else (m, []).

(* the world: consumer maps (indexed by position), the network's subscriber table restricted to
   PDO handlers (can id -> map indices, in subscription order, no duplicates), the frames sent,
   and the log of callback invocations (map index, callback id) *)
Record world := {
  w_maps : list pmap;
  w_subs : list (Z * nat);
  w_sent : list (Z * list Z * bool);     (* can id, data, remote *)
  w_cblog : list (nat * Z);
}.

Fixpoint has_sub (subs : list (Z * nat)) (c : Z) (k : nat) : bool :=
  match subs with
  | [] => false
  | (c', k') :: r => ((c =? c') && Nat.eqb k k') || has_sub r c k
  end.

Fixpoint upd {A} (l : list A) (k : nat) (x : A) : list A :=
  match l, k with
  | [], _ => []
  | _ :: r, O => x :: r
  | y :: r, S k' => y :: upd r k' x
  end.

(* Network.notify restricted to PDO handlers: every subscribed handler of this id, in order *)
Fixpoint deliver (maps : list pmap) (subs : list (Z * nat)) (can_id : Z) (data : list Z) (ts : Z)
  : list pmap * list (nat * Z) :=
  match subs with
  | [] => (maps, [])
  | (c, k) :: r =>
      if c =? can_id then
        match nth_error maps k with
        | Some m =>
            let '(m', cbs) := on_message m can_id data ts in
            let '(maps', log) := deliver (upd maps k m') r can_id data ts in
            (maps', map (fun cb => (k, cb)) cbs ++ log)
        | None => deliver maps r can_id data ts
        end
      else deliver maps r can_id data ts
  end.

Inductive link_op :=
| LWrite (k : nat) (var : nat) (v : pyval)      (* consumer/producer map k: variable var := v *)
| LRead (k : nat) (var : nat)
| LTransmit (k : nat) (ts : Z)                  (* map k transmits; the bus stamps the frame with ts *)
| LFrame (can_id : Z) (data : list Z) (ts : Z)  (* a foreign frame arrives *)
| LRtr (k : nat)                                (* remote_request *)
| LSubscribe (k : nat)                          (* PdoMap.subscribe *)
| LSetCob (k : nat) (cob : Z) (enabled rtr : bool)
| LAddCb (k : nat) (cb : Z)
| LTask (k : nat) (on : bool)                   (* start / stop periodic transmission *)
| LState (k : nat)                              (* observe (received, timestamp, period, data) *)
| LRemap (k : nat) (layout : list entry)        (* clear() and add_variable() for a new layout *)
| LStartNoPeriod (k : nat).                     (* start() without a period argument *)

Definition with_map (w : world) (k : nat) (f : pmap -> world * val) : world * val :=
  match nth_error (w_maps w) k with
  | Some m => f m
  | None => (w, VErr E_FUEL)
  end.

Definition put (w : world) (k : nat) (m : pmap) : world :=
  {| w_maps := upd (w_maps w) k m; w_subs := w_subs w; w_sent := w_sent w; w_cblog := w_cblog w |}.

Definition arrive (w : world) (can_id : Z) (data : list Z) (ts : Z) : world :=
  let '(maps', log) := deliver (w_maps w) (w_subs w) can_id data ts in
  {| w_maps := maps'; w_subs := w_subs w; w_sent := w_sent w; w_cblog := w_cblog w ++ log |}.

Definition step (w : world) (op : link_op) : world * val :=
  match op with
  | LWrite k var v =>
      with_map w k (fun m =>
        match nth_error (m_layout m) var, nth_error (offsets (m_layout m)) var with
        | Some e, Some off =>
            match pdo_write (m_data m) (e_dt e) off (e_len e) v with
            | Ok d => (put w k (set_data m d), VNone)
            | Err c => (w, VErr c)
            | Abort c => (w, VAbort c)
            end
        | _, _ => (w, VErr E_FUEL)
        end)
  | LRead k var =>
      with_map w k (fun m =>
        match nth_error (m_layout m) var, nth_error (offsets (m_layout m)) var with
        | Some e, Some off => (w, res_val pyval_val (pdo_read (m_data m) (e_dt e) off (e_len e)))
        | _, _ => (w, VErr E_FUEL)
        end)
  | LTransmit k ts =>
      with_map w k (fun m =>
        let w1 := {| w_maps := w_maps w; w_subs := w_subs w;
                     w_sent := w_sent w ++ [(m_cob m, m_data m, false)]; w_cblog := w_cblog w |} in
        (arrive w1 (m_cob m) (m_data m) ts, VNone))
  | LFrame c d ts => (arrive w c d ts, VNone)
  | LRtr k =>
      with_map w k (fun m =>
        if m_enabled m && m_rtr m then
          ({| w_maps := w_maps w; w_subs := w_subs w;
              w_sent := w_sent w ++ [(m_cob m, [], true)]; w_cblog := w_cblog w |}, VNone)
        else (w, VNone))
  | LSubscribe k =>
      with_map w k (fun m =>
        if m_enabled m && negb (has_sub (w_subs w) (m_cob m) k) then
          ({| w_maps := w_maps w; w_subs := w_subs w ++ [(m_cob m, k)];
              w_sent := w_sent w; w_cblog := w_cblog w |}, VNone)
        else (w, VNone))
  | LSetCob k cob en rtr =>
      with_map w k (fun m =>
        (put w k {| m_cob := cob; m_enabled := en; m_rtr := rtr; m_layout := m_layout m; m_data := m_data m;
                    m_ts := m_ts m; m_period := m_period m; m_received := m_received m;
                    m_task := m_task m; m_cbs := m_cbs m |}, VNone))
  | LAddCb k cb =>
      with_map w k (fun m =>
        (put w k {| m_cob := m_cob m; m_enabled := m_enabled m; m_rtr := m_rtr m; m_layout := m_layout m;
                    m_data := m_data m; m_ts := m_ts m; m_period := m_period m; m_received := m_received m;
                    m_task := m_task m; m_cbs := m_cbs m ++ [cb] |}, VNone))
  | LTask k on =>
      with_map w k (fun m =>
        (put w k {| m_cob := m_cob m; m_enabled := m_enabled m; m_rtr := m_rtr m; m_layout := m_layout m;
                    m_data := m_data m; m_ts := m_ts m;
                    m_period := if on then Some 1 else m_period m;   (* start(1) records the period *)
                    m_received := m_received m;
                    m_task := on; m_cbs := m_cbs m |}, VNone))
  | LState k =>
      with_map w k (fun m =>
        (w, VL [VBool (m_received m); vopt VZ (m_ts m); vopt VZ (m_period m); VB (m_data m)]))
  | LRemap k layout =>
      (* clear(); add_variable(...) for every entry: _update_data_size allocates a zeroed frame *)
      with_map w k (fun m =>
        (put w k {| m_cob := m_cob m; m_enabled := m_enabled m; m_rtr := m_rtr m; m_layout := layout;
                    m_data := repeat 0 (Z.to_nat (frame_len layout));
                    m_ts := m_ts m; m_period := m_period m; m_received := m_received m;
                    m_task := m_task m; m_cbs := m_cbs m |}, VNone))
  | LStartNoPeriod k =>
      (* start(): stop() first; no period known (None or 0) -> ValueError, the map is then not transmitting *)
      with_map w k (fun m =>
        let known := match m_period m with Some p => negb (p =? 0) | None => false end in
        (put w k {| m_cob := m_cob m; m_enabled := m_enabled m; m_rtr := m_rtr m; m_layout := m_layout m;
                    m_data := m_data m; m_ts := m_ts m; m_period := m_period m; m_received := m_received m;
                    m_task := known; m_cbs := m_cbs m |},
         if known then VNone else VErr E_VALUE))
  end.

Fixpoint run_steps (w : world) (ops : list link_op) : world * list val :=
  match ops with
  | [] => (w, [])
  | op :: r => let '(w1, v) := step w op in let '(w2, vs) := run_steps w1 r in (w2, v :: vs)
  end.

Definition fresh_map (cob : Z) (en rtr : bool) (layout : list entry) : pmap :=
  {| m_cob := cob; m_enabled := en; m_rtr := rtr; m_layout := layout;
     m_data := repeat 0 (Z.to_nat (frame_len layout));
     m_ts := None; m_period := None; m_received := false; m_task := false; m_cbs := [] |}.

Inductive link_case := LinkCase (maps : list (Z * bool * bool * list entry)) (ops : list link_op).

Definition run_link (c : link_case) : val :=
  match c with
  | LinkCase ms ops =>
      let w0 := {| w_maps := map (fun '(cob, en, rtr, lay) => fresh_map cob en rtr lay) ms;
                   w_subs := []; w_sent := []; w_cblog := [] |} in
      let '(w, vs) := run_steps w0 ops in
      VL [VL vs;
          VL (map (fun '(c, d, r) => VL [VZ c; VB d; VBool r]) (w_sent w));
          VL (map (fun '(k, cb) => VL [VZ (Z.of_nat k); VZ cb]) (w_cblog w))]
  end.
