(* Model of canopen/profiles/p402.py (State402, OperationMode, BaseNode402 state / op_mode).
   Definitions only.  Tables: Gen/P402Tables.v, regenerated from /repo on every run.

   Python str = Coq string; Python None = option; exceptions = res / PFail with the error enum.
   The wall-clock time-outs (the TIMEOUT_xxx class attributes) are NOT modelled: a loop that the code leaves by time-out
   runs out of fuel here (PFail E_FUEL / Err E_FUEL). *)
From Coq Require Import ZArith List Bool String Ascii.
From CV Require Import Base.Val Base.Tys Gen.P402Tables Model.RefDrive.
Import ListNotations.
Open Scope Z_scope.

(* ------------------------------------------------------------------ strings *)
Definition str_val (s : string) : val := VS (map (fun a => Z.of_N (N_of_ascii a)) (list_ascii_of_string s)).

(* Python `a in b` for two str: substring test *)
Fixpoint is_substr (a b : string) : bool :=
  prefix a b || match b with EmptyString => false | String _ r => is_substr a r end.

Definition str_mem (s : string) (l : list string) : bool := existsb (String.eqb s) l.

Definition ostr_eqb (a b : option string) : bool :=
  match a, b with
  | Some x, Some y => String.eqb x y
  | None, None => true
  | _, _ => false
  end.

(* ------------------------------------------------------------------ BaseNode402.state (getter)
   for state, mask_val_pair in State402.SW_MASK.items():
       bitmask, bits = mask_val_pair
       if self.statusword & bitmask == bits: return state
   return 'UNKNOWN' *)
Fixpoint decode_in (tbl : list (string * (Z * Z))) (sw : Z) : string :=
  match tbl with
  | [] => "UNKNOWN"%string
  | (name, (m, v)) :: r => if Z.land sw m =? v then name else decode_in r sw
  end.

Definition decode_state (sw : Z) : string := decode_in SW_MASK sw.

(* ------------------------------------------------------------------ State402.next_state_indirect
   for cond, next_state in State402.NEXTSTATE2ANY.items():
       if _from in cond: return next_state
   (falls off the end: None) *)
Definition key_matches (from : string) (k : n2a_key) : bool :=
  match k with
  | KStr s => is_substr from s
  | KTuple l => str_mem from l
  end.

Fixpoint indirect_in (tbl : list (n2a_key * string)) (from : string) : option string :=
  match tbl with
  | [] => None
  | (k, nxt) :: r => if key_matches from k then Some nxt else indirect_in r from
  end.

Definition next_state_indirect (from : string) : option string := indirect_in NEXTSTATE2ANY from.

(* State402.TRANSITIONTABLE[(a, b)]; a key whose second component is None is never present *)
Fixpoint tt_in (tbl : list ((string * string) * Z)) (a b : string) : option Z :=
  match tbl with
  | [] => None
  | ((x, y), cw) :: r => if String.eqb a x && String.eqb b y then Some cw else tt_in r a b
  end.

Definition tt_lookup (a : string) (b : option string) : option Z :=
  match b with Some b' => tt_in TRANSITIONTABLE a b' | None => None end.

(* ------------------------------------------------------------------ BaseNode402._next_state
   if target_state in ('NOT READY TO SWITCH ON', 'FAULT REACTION ACTIVE', 'FAULT'): raise ValueError
   from_state = self.state
   if (from_state, target_state) in TRANSITIONTABLE: return target_state
   else: return State402.next_state_indirect(from_state) *)
Definition uncommandable (target : string) : bool :=
  str_mem target ["NOT READY TO SWITCH ON"; "FAULT REACTION ACTIVE"; "FAULT"]%string.

Definition next_state_from (target from : string) : option string :=
  match tt_in TRANSITIONTABLE from target with
  | Some _ => Some target
  | None => next_state_indirect from
  end.

(* ------------------------------------------------------------------ the state setter
   The setter, _next_state and _change_state are one sequential program whose only interaction
   with the drive is: read the statusword (property `statusword`; the `state` getter reads it
   ONCE per evaluation and decodes that reading), check_statusword(), write the controlword.
   It is modelled as a machine that performs exactly ONE status read per step; program points:

   PLoop       state.setter   : while self.state != target_state:           (read)
                                  [_next_state: uncommandable target -> ValueError]
   PNext       _next_state    : from_state = self.state                     (read)
   PChange n   _change_state  : from_state = self.state                     (read)
                                  if from_state == n: return True  (-> continue -> PLoop)
                                  self.controlword = TRANSITIONTABLE[(from_state, n)]  / ValueError
   PWait n     _change_state  : while self.state != n:                      (read)
                                  [time-out: not modelled]   True -> continue -> PLoop
   PCheck n    _change_state  :     self.check_statusword()                 (read, value dropped)
   PDone / PFail k            : the assignment returned / raised. *)
Inductive pc :=
| PLoop
| PNext
| PChange (n : option string)
| PWait (n : option string)
| PCheck (n : option string)
| PDone
| PFail (k : Z).

(* the library's reaction to the state name [cur] just read: next program point, controlword written *)
Definition lib_step (target : string) (p : pc) (cur : string) : pc * option Z :=
  match p with
  | PLoop =>
      if String.eqb cur target then (PDone, None)
      else if uncommandable target then (PFail E_VALUE, None)
      else (PNext, None)
  | PNext => (PChange (next_state_from target cur), None)
  | PChange n =>
      if ostr_eqb (Some cur) n then (PLoop, None)
      else match tt_lookup cur n with
           | Some cw => (PWait n, Some cw)
           | None => (PFail E_VALUE, None)
           end
  | PWait n => if ostr_eqb (Some cur) n then (PLoop, None) else (PCheck n, None)
  | PCheck n => (PWait n, None)
  | PDone => (PDone, None)
  | PFail k => (PFail k, None)
  end.

(* transport of statusword / controlword: `statusword` property, check_statusword(), controlword setter *)
Record world_ops (W : Type) := mkOps {
  w_sw : W -> W * Z;        (* self.statusword *)
  w_check : W -> W;         (* self.check_statusword(), result unused by the setter *)
  w_cw : W -> Z -> W        (* self.controlword = value *)
}.
Arguments w_sw {W}. Arguments w_check {W}. Arguments w_cw {W}. Arguments mkOps {W}.

Section Setter.
  Context {W : Type} (ops : world_ops W).

  Definition step (target : string) (p : pc) (w : W) : pc * W :=
    match p with
    | PDone | PFail _ => (p, w)
    | PCheck n => (PWait n, w_check ops w)
    | _ =>
        let '(w1, sw) := w_sw ops w in
        let '(p', cw) := lib_step target p (decode_state sw) in
        (p', match cw with Some c => w_cw ops w1 c | None => w1 end)
    end.

  Definition is_final (p : pc) : bool := match p with PDone | PFail _ => true | _ => false end.

  Fixpoint run (fuel : nat) (target : string) (p : pc) (w : W) : pc * W :=
    if is_final p then (p, w)
    else match fuel with
         | O => (PFail E_FUEL, w)
         | S f => let '(p', w') := step target p w in run f target p' w'
         end.

  (* node.state = target *)
  Definition set_state (fuel : nat) (target : string) (w : W) : pc * W := run fuel target PLoop w.
End Setter.

(* 0x6041 / 0x6040 by SDO: every access reaches the drive *)
Definition sdo_ops : world_ops drive :=
  mkOps rd_status (fun d => fst (rd_status d)) wr_cw.

(* 0x6041 in an event-driven TPDO: tpdo_values[0x6041] holds the last statusword received; the
   drive sends the TPDO whenever its state changes (so also when an automatic transition fires,
   which may happen before any read of the cached value); check_statusword() of a non-periodic
   TPDO reads 0x6041 by SDO and returns that value WITHOUT storing it. *)
Definition tpdo_update (old new : drive) (cache : Z) : Z :=
  if dstate_eqb (d_st old) (d_st new) then cache else sw_of (d_st new) (d_extra new).

Definition pdo_ops : world_ops (drive * Z) :=
  mkOps (fun w => let '(d, c) := w in
                  let d' := fst (rd_status d) in
                  let c' := tpdo_update d d' c in ((d', c'), c'))
        (fun w => let '(d, c) := w in
                  let d' := fst (rd_status d) in (d', tpdo_update d d' c))
        (fun w cw => let '(d, c) := w in
                     let d' := wr_cw d cw in (d', tpdo_update d d' c)).

(* ------------------------------------------------------------------ operation mode
   is_op_mode_supported: bits = OperationMode.SUPPORTED[mode]; return support & bits == bits *)
Fixpoint sassoc {A} (k : string) (l : list (string * A)) : option A :=
  match l with
  | [] => None
  | (k', a) :: r => if String.eqb k k' then Some a else sassoc k r
  end.

Definition is_op_mode_supported (mode : string) (support : Z) : res bool :=
  match sassoc mode OM_SUPPORTED with
  | None => Err E_KEY
  | Some bits => Ok (Z.land support bits =? bits)
  end.

(* op_mode setter up to the write: TypeError when unsupported, else the value written to 0x6060 *)
Definition op_mode_value (mode : string) (support : Z) : res Z :=
  rbind (is_op_mode_supported mode support) (fun ok =>
    if ok then match sassoc mode OM_NAME2CODE with Some c => Ok c | None => Err E_KEY end
    else Err E_TYPE).

(* op_mode getter: OperationMode.CODE2NAME[code] *)
Definition op_mode_name (code : Z) : res string :=
  match zassoc code OM_CODE2NAME with Some n => Ok n | None => Err E_KEY end.

(* while self.op_mode != mode: [time-out not modelled] *)
Fixpoint op_mode_confirm (fuel : nat) (mode : string) (d : mdrive) : res unit * mdrive :=
  match fuel with
  | O => (Err E_FUEL, d)
  | S f =>
      let '(d1, code) := m_read_display d in
      match op_mode_name code with
      | Ok n => if String.eqb n mode then (Ok tt, d1) else op_mode_confirm f mode d1
      | Err k => (Err k, d1)
      | Abort c => (Abort c, d1)
      end
  end.

(* node.op_mode = mode   (the supported-modes object 0x6502 is read from the drive) *)
Definition set_op_mode (fuel : nat) (mode : string) (d : mdrive) : res unit * mdrive :=
  match op_mode_value mode (m_support d) with
  | Ok code => op_mode_confirm fuel mode (m_write d code)
  | Err k => (Err k, d)
  | Abort c => (Abort c, d)
  end.

(* ------------------------------------------------------------------ runner for the correspondence *)
Inductive p402_case :=
| CDecode (sw : Z)                                         (* node.state for a statusword *)
| CIndirect (from : string)                                (* State402.next_state_indirect *)
| CSet (sw_by_pdo : bool) (start : Z) (target : string) (sched : list bool) (extra : Z)
| COpMode (mode : string) (support : Z) (display : Z) (lag : nat)
| CSupported (mode : string) (support : Z)
(* two assignments node.op_mode = mode; the drive aborts the upload of 0x6502 with [code] during the first one
   only, or always.  self.sdo[0x6502].raw raises SdoAbortedError, which none of the setter's except clauses
   catches and which leaves _op_mode_support unset: nothing is written, the next assignment reads 0x6502 again. *)
| COpModeAbort (always : bool) (code : Z) (mode : string) (support : Z) (display : Z) (lag : nat).

Definition pc_val (p : pc) : val :=
  match p with
  | PDone => VNone
  | PFail k => VErr k
  | _ => VErr E_OTHER
  end.

Definition drive_val (p : pc) (d : drive) : val :=
  VL [pc_val p; VL (map VZ (rev (d_cws d))); VZ (dstate_idx (d_st d));
      VL (map (fun s => VZ (dstate_idx s)) (rev (d_trace d))); VZ (d_reads d)].

Definition setter_fuel : nat := 400.

Definition run_p402 (c : p402_case) : val :=
  match c with
  | CDecode sw => str_val (decode_state sw)
  | CIndirect from => vopt str_val (next_state_indirect from)
  | CSet false start target sched extra =>
      let '(p, d) := set_state sdo_ops setter_fuel target (drive_init (dstate_of_idx start) sched extra) in
      drive_val p d
  | CSet true start target sched extra =>
      let d0 := drive_init (dstate_of_idx start) sched extra in
      let '(p, (d, _)) := set_state pdo_ops setter_fuel target (d0, sw_of (d_st d0) extra) in
      drive_val p d
  | COpMode mode support display lag =>
      let '(r, d) := set_op_mode 600 mode (mdrive_init support display lag) in
      VL [res_val (fun _ => VNone) r; VL (map VZ (rev (m_writes d))); VZ (m_reads d)]
  | CSupported mode support => res_val VBool (is_op_mode_supported mode support)
  | COpModeAbort always code mode support display lag =>
      if always then VL [VAbort code; VAbort code; VL []; VZ 0]
      else
        let '(r, d) := set_op_mode 600 mode (mdrive_init support display lag) in
        VL [VAbort code; res_val (fun _ => VNone) r; VL (map VZ (rev (m_writes d))); VZ (m_reads d)]
  end.
