(* Small library of Python built-ins used by the generated definitions in Gen/Src.v. *)
From Coq Require Import ZArith List Bool.
Import ListNotations.
Open Scope Z_scope.

(* min(l) for a non-empty list (Python raises on an empty one; 0 here, never used by the theorems) *)
Definition list_min (l : list Z) : Z :=
  match l with
  | [] => 0
  | x :: r => fold_left Z.min r x
  end.

From CV Require Import Base.Val Base.Bytes.

(* l[a:b] and l[a:a+len(d)] = d on lists (indices non-negative) *)
Definition py_slice {A} (l : list A) (a b : Z) : list A := firstn (Z.to_nat (b - a)) (skipn (Z.to_nat a) l).
Definition py_splice (l : list Z) (a : Z) (d : list Z) : list Z :=
  firstn (Z.to_nat a) l ++ d ++ skipn (Z.to_nat (a + zlen d)) l.

(* int.to_bytes(size, "little", signed=...) : OverflowError when the value does not fit *)
Definition py_to_bytes (size : Z) (signed : bool) (v : Z) : res (list Z) :=
  if (if signed then (- 2 ^ (8 * size - 1) <=? v) && (v <? 2 ^ (8 * size - 1))
      else (0 <=? v) && (v <? 2 ^ (8 * size)))
  then Ok (le_encode (Z.to_nat size) v) else Err E_OVERFLOW.
