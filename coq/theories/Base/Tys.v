(* Types shared by the regenerated tables (Gen/Tables.v) and the models. *)
From Coq Require Import ZArith List.
Open Scope Z_scope.

(* what ODVariable.STRUCT_TYPES maps a data type to *)
Inductive packer :=
| PStruct (signed : bool) (bits : Z)   (* struct.Struct("<h") and friends *)
| PBool                                (* struct.Struct("?") *)
| PReal (bits : Z)                     (* "<f" / "<d" *)
| PIntN (bits : Z)                     (* datatypes.IntegerN(width) *)
| PUintN (bits : Z).                   (* datatypes.UnsignedN(width) *)

Fixpoint zassoc {A} (k : Z) (l : list (Z * A)) : option A :=
  match l with
  | nil => None
  | (k', a) :: r => if Z.eqb k k' then Some a else zassoc k r
  end.

Fixpoint zmem (k : Z) (l : list Z) : bool :=
  match l with nil => false | x :: r => if Z.eqb k x then true else zmem k r end.
