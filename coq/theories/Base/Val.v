(* Universal observation type shared by every model runner and by the harness.
   The implementation side prints its canonical observation as a [val]; the
   model side computes a [val]; [mismatches] lists the cases where they differ. *)
From Coq Require Import ZArith List Bool.
Import ListNotations.
Open Scope Z_scope.

Inductive val :=
| VZ (z : Z)              (* Python int *)
| VB (b : list Z)         (* bytes *)
| VS (s : list Z)         (* str as code points *)
| VBool (b : bool)
| VNone
| VErr (k : Z)            (* exception class, canonical enum (see harness/lib/obs.py) *)
| VAbort (code : Z)       (* SdoAbortedError with its code *)
| VL (l : list val).      (* list / tuple *)

Fixpoint list_Z_eqb (a b : list Z) : bool :=
  match a, b with
  | [], [] => true
  | x :: a', y :: b' => (x =? y) && list_Z_eqb a' b'
  | _, _ => false
  end.

Fixpoint val_eqb (a b : val) {struct a} : bool :=
  match a, b with
  | VZ x, VZ y => x =? y
  | VB x, VB y => list_Z_eqb x y
  | VS x, VS y => list_Z_eqb x y
  | VBool x, VBool y => Bool.eqb x y
  | VNone, VNone => true
  | VErr x, VErr y => x =? y
  | VAbort x, VAbort y => x =? y
  | VL x, VL y =>
      (fix go (x : list val) (y : list val) {struct x} : bool :=
         match x, y with
         | [], [] => true
         | a :: x', b :: y' => val_eqb a b && go x' y'
         | _, _ => false
         end) x y
  | _, _ => false
  end.

(* error-kind enum, mirrored in harness/lib/obs.py *)
Definition E_VALUE : Z := 1.
Definition E_KEY : Z := 2.
Definition E_TYPE : Z := 3.
Definition E_OD : Z := 4.       (* ObjectDictionaryError *)
Definition E_SDOCOMM : Z := 5.  (* SdoCommunicationError *)
Definition E_LSS : Z := 6.
Definition E_NMT : Z := 7.
Definition E_RUNTIME : Z := 8.
Definition E_OTHER : Z := 9.
Definition E_STRUCT : Z := 10.  (* struct.error *)
Definition E_INDEX : Z := 11.   (* IndexError *)
Definition E_OVERFLOW : Z := 12.
Definition E_IO : Z := 13.      (* OSError / IOError *)
Definition E_ATTR : Z := 14.
Definition E_FUEL : Z := 99.    (* model ran out of fuel: never expected *)

Section Mismatch.
  Context {C : Type} (run : C -> val).
  Fixpoint mism (i : Z) (cs : list (C * val)) : list (Z * val) :=
    match cs with
    | [] => []
    | (c, e) :: r =>
        let m := run c in
        if val_eqb m e then mism (i + 1) r else (i, m) :: mism (i + 1) r
    end.
  Definition mismatches (cs : list (C * val)) : list (Z * val) := mism 0 cs.
  Definition mismatch_idx (cs : list (C * val)) : list Z := map fst (mismatches cs).
End Mismatch.

(* option / result helpers used by the models *)
Inductive res (A : Type) := Ok (a : A) | Err (k : Z) | Abort (code : Z).
Arguments Ok {A} a.
Arguments Err {A} k.
Arguments Abort {A} code.

Definition rbind {A B} (r : res A) (f : A -> res B) : res B :=
  match r with Ok a => f a | Err k => Err k | Abort c => Abort c end.

Definition res_val {A} (f : A -> val) (r : res A) : val :=
  match r with Ok a => f a | Err k => VErr k | Abort c => VAbort c end.

Definition vopt {A} (f : A -> val) (o : option A) : val :=
  match o with Some a => f a | None => VNone end.
