(* Bit fields of Python ints (Z). *)
From Coq Require Import ZArith List Lia Bool.
Import ListNotations.
Open Scope Z_scope.

Definition get_field (w off len : Z) : Z := Z.land (Z.shiftr w off) (Z.ones len).
Definition set_field (old off len v : Z) : Z :=
  Z.lor (Z.land old (Z.lnot (Z.shiftl (Z.ones len) off))) (Z.shiftl (Z.land v (Z.ones len)) off).

Lemma get_field_spec w off len i : 0 <= off -> 0 <= len -> 0 <= i ->
  Z.testbit (get_field w off len) i = if i <? len then Z.testbit w (i + off) else false.
Proof.
  intros Ho Hl Hi. unfold get_field. rewrite Z.land_spec, Z.shiftr_spec by lia.
  destruct (i <? len) eqn:E.
  - rewrite Z.ones_spec_low by lia. apply andb_true_r.
  - rewrite Z.ones_spec_high by lia. apply andb_false_r.
Qed.

Lemma get_field_range w off len : 0 <= off -> 0 <= len -> 0 <= get_field w off len < 2 ^ len.
Proof.
  intros Ho Hl. unfold get_field. rewrite Z.land_ones by lia. apply Z.mod_pos_bound.
  apply Z.pow_pos_nonneg; lia.
Qed.

Lemma set_field_spec old off len v i : 0 <= off -> 0 <= len -> 0 <= i ->
  Z.testbit (set_field old off len v) i =
  if (off <=? i) && (i <? off + len) then Z.testbit v (i - off) else Z.testbit old i.
Proof.
  intros Ho Hl Hi. unfold set_field.
  rewrite Z.lor_spec, Z.land_spec, Z.lnot_spec by lia.
  rewrite !Z.shiftl_spec by lia. rewrite Z.land_spec.
  destruct (off <=? i) eqn:E1; destruct (i <? off + len) eqn:E2; cbn [andb].
  - rewrite Z.ones_spec_low by lia. cbn. rewrite andb_false_r. cbn. now rewrite andb_true_r.
  - rewrite Z.ones_spec_high by lia. cbn. now rewrite andb_true_r, andb_false_r, orb_false_r.
  - rewrite (Z.testbit_neg_r _ (i-off)) by lia. cbn. rewrite andb_true_r. rewrite (Z.testbit_neg_r _ (i-off)) by lia. now rewrite orb_false_r.
  - rewrite (Z.testbit_neg_r _ (i-off)) by lia. cbn. rewrite andb_true_r. rewrite (Z.testbit_neg_r _ (i-off)) by lia. now rewrite orb_false_r.
Qed.

Lemma get_set old off len v : 0 <= off -> 0 <= len ->
  get_field (set_field old off len v) off len = Z.land v (Z.ones len).
Proof.
  intros. apply Z.bits_inj'. intros i Hi.
  rewrite get_field_spec, Z.land_spec by lia. rewrite set_field_spec by lia.
  destruct (i <? len) eqn:E.
  - replace (off <=? i+off) with true by lia. replace (i + off <? off + len) with true by lia. cbn.
    replace (i+off-off) with i by lia. rewrite Z.ones_spec_low by lia. now rewrite andb_true_r.
  - rewrite Z.ones_spec_high by lia. now rewrite andb_false_r.
Qed.

(* writing one field leaves every disjoint field as it was *)
Lemma get_set_other old off len v off' len' : 0 <= off -> 0 <= len -> 0 <= off' -> 0 <= len' ->
  off' + len' <= off \/ off + len <= off' ->
  get_field (set_field old off len v) off' len' = get_field old off' len'.
Proof.
  intros Ho Hl Ho' Hl' Hd. apply Z.bits_inj'. intros i Hi.
  rewrite !get_field_spec by lia.
  destruct (i <? len') eqn:E; [|reflexivity].
  rewrite set_field_spec by lia.
  destruct ((off <=? i + off') && (i + off' <? off + len)) eqn:C; [lia|reflexivity].
Qed.

Lemma set_field_nonneg old off len v : 0 <= old -> 0 <= off -> 0 <= len -> 0 <= set_field old off len v.
Proof.
  intros. unfold set_field. apply Z.lor_nonneg. split.
  - apply Z.land_nonneg. now left.
  - apply Z.shiftl_nonneg. apply Z.land_nonneg. right. rewrite Z.ones_equiv. pose proof (Z.pow_pos_nonneg 2 len); lia.
Qed.

(* a field written inside the first n bits keeps the number inside n bits *)
Lemma set_field_bound old off len v n : 0 <= old < 2 ^ n -> 0 <= off -> 0 <= len -> off + len <= n ->
  0 <= set_field old off len v < 2 ^ n.
Proof.
  intros Hold Ho Hl Hn. split; [apply set_field_nonneg; lia|].
  assert (Hnn : 0 <= n) by lia.
  destruct (Z.eq_dec (set_field old off len v) 0) as [->|Hne]; [apply Z.pow_pos_nonneg; lia|].
  assert (Hpos : 0 < set_field old off len v) by (pose proof (set_field_nonneg old off len v); lia).
  apply Z.log2_lt_pow2; [assumption|].
  destruct (Z_lt_le_dec (Z.log2 (set_field old off len v)) n) as [L|L]; [assumption|exfalso].
  pose proof (Z.bit_log2 _ Hpos) as Hb.
  rewrite set_field_spec in Hb by (try lia; apply Z.log2_nonneg).
  destruct ((off <=? Z.log2 (set_field old off len v)) && (Z.log2 (set_field old off len v) <? off + len)) eqn:C; [lia|].
  destruct (Z.eq_dec old 0) as [->|Ho0]; [now rewrite Z.bits_0 in Hb|].
  assert (Z.log2 old < n) by (apply Z.log2_lt_pow2; lia).
  rewrite Z.bits_above_log2 in Hb by lia. discriminate.
Qed.

Lemma land_ones_small v len : 0 <= len -> 0 <= v < 2 ^ len -> Z.land v (Z.ones len) = v.
Proof. intros. rewrite Z.land_ones by lia. apply Z.mod_small; lia. Qed.
