(* Little-endian byte strings as [list Z]; Python int = Z. *)
From Coq Require Import ZArith List Bool Lia ZifyBool.
Import ListNotations.
Open Scope Z_scope.
Ltac Zify.zify_post_hook ::= Z.to_euclidean_division_equations.

Definition byte_ok (b : Z) : Prop := 0 <= b < 256.
Definition bytes_ok (l : list Z) : Prop := Forall byte_ok l.
Definition byte_okb (b : Z) : bool := (0 <=? b) && (b <? 256).
Definition bytes_okb (l : list Z) : bool := forallb byte_okb l.

Fixpoint le_encode (n : nat) (v : Z) : list Z :=
  match n with
  | O => []
  | S n' => (v mod 256) :: le_encode n' (v / 256)
  end.

Fixpoint le_decode (l : list Z) : Z :=
  match l with
  | [] => 0
  | b :: r => b + 256 * le_decode r
  end.

(* two's-complement reinterpretation of an unsigned w-bit number *)
Definition sext (w u : Z) : Z := if u <? 2 ^ (w - 1) then u else u - 2 ^ w.

Definition zlen {A} (l : list A) : Z := Z.of_nat (length l).

Lemma bytes_okb_spec l : bytes_okb l = true <-> bytes_ok l.
Proof.
  unfold bytes_okb, bytes_ok. rewrite forallb_forall, Forall_forall.
  unfold byte_okb, byte_ok. split; intros H x Hx; specialize (H x Hx); lia.
Qed.

Lemma le_encode_length n v : length (le_encode n v) = n.
Proof. revert v; induction n as [|n IH]; intros v; cbn; [reflexivity|now rewrite IH]. Qed.

Lemma le_encode_ok n v : bytes_ok (le_encode n v).
Proof.
  revert v; induction n as [|n IH]; intros v; cbn; constructor.
  - unfold byte_ok. lia.
  - apply IH.
Qed.

Lemma pow8S n : 2 ^ (8 * Z.of_nat (S n)) = 256 * 2 ^ (8 * Z.of_nat n).
Proof.
  replace (8 * Z.of_nat (S n)) with (8 + 8 * Z.of_nat n) by lia.
  rewrite Z.pow_add_r by lia. reflexivity.
Qed.

Lemma le_decode_encode n v : le_decode (le_encode n v) = v mod 2 ^ (8 * Z.of_nat n).
Proof.
  revert v; induction n as [|n IH]; intros v.
  - cbn. now rewrite Z.mod_1_r.
  - cbn [le_encode le_decode]. rewrite IH, pow8S.
    assert (0 < 2 ^ (8 * Z.of_nat n)) by (apply Z.pow_pos_nonneg; lia).
    rewrite Z.rem_mul_r by lia. reflexivity.
Qed.

Lemma le_decode_range l : bytes_ok l -> 0 <= le_decode l < 2 ^ (8 * zlen l).
Proof.
  unfold zlen. induction 1 as [|b r Hb Hr IH].
  - cbn. lia.
  - cbn [le_decode length]. rewrite pow8S. unfold byte_ok in Hb. lia.
Qed.

Lemma le_encode_decode l : bytes_ok l -> le_encode (length l) (le_decode l) = l.
Proof.
  induction 1 as [|b r Hb Hr IH]; [reflexivity|].
  cbn [le_decode length le_encode]. unfold byte_ok in Hb.
  remember (le_decode r) as x eqn:Ex.
  assert (H1 : (b + 256 * x) mod 256 = b) by lia.
  assert (H2 : (b + 256 * x) / 256 = x) by lia.
  rewrite H1, H2, IH. reflexivity.
Qed.

Lemma le_encode_mod n v : le_encode n (v mod 2 ^ (8 * Z.of_nat n)) = le_encode n v.
Proof.
  rewrite <- le_decode_encode.
  rewrite <- (le_encode_length n v) at 1.
  apply le_encode_decode, le_encode_ok.
Qed.

Lemma le_decode_inj a b : bytes_ok a -> bytes_ok b -> length a = length b ->
  le_decode a = le_decode b -> a = b.
Proof.
  intros Ha Hb Hl He.
  rewrite <- (le_encode_decode a Ha), <- (le_encode_decode b Hb), Hl, He. reflexivity.
Qed.

Lemma le_decode_app a b : le_decode (a ++ b) = le_decode a + 2 ^ (8 * zlen a) * le_decode b.
Proof.
  unfold zlen. induction a as [|x a IH].
  - cbn [app le_decode length]. change (2 ^ (8 * Z.of_nat 0)) with 1. ring.
  - cbn [app le_decode length]. rewrite IH, pow8S. ring.
Qed.

(* bit-level characterisation: bit i of the number is bit (i mod 8) of byte (i / 8) *)
Lemma le_decode_testbit l i : bytes_ok l -> 0 <= i ->
  Z.testbit (le_decode l) i = Z.testbit (nth (Z.to_nat (i / 8)) l 0) (i mod 8).
Proof.
  intros Hl. revert i. induction Hl as [|b r Hb Hr IH]; intros i Hi.
  - cbn. rewrite Z.testbit_0_l. destruct (Z.to_nat (i / 8)); now rewrite Z.testbit_0_l.
  - cbn [le_decode]. unfold byte_ok in Hb.
    remember (le_decode r) as x eqn:Ex.
    destruct (i <? 8) eqn:E.
    + rewrite <- (Z.mod_pow2_bits_low (b + 256 * x) 8 i) by lia.
      replace ((b + 256 * x) mod 2 ^ 8) with b by (change (2 ^ 8) with 256; lia).
      replace (i / 8) with 0 by lia. replace (i mod 8) with i by lia. reflexivity.
    + replace i with ((i - 8) + 8) at 1 by lia.
      rewrite <- Z.div_pow2_bits by lia.
      replace ((b + 256 * x) / 2 ^ 8) with x by (change (2 ^ 8) with 256; lia).
      rewrite IH by lia.
      replace (Z.to_nat (i / 8)) with (S (Z.to_nat ((i - 8) / 8))) by lia.
      cbn [nth]. f_equal. lia.
Qed.

Lemma sext_range w u : 0 < w -> 0 <= u < 2 ^ w -> - 2 ^ (w - 1) <= sext w u < 2 ^ (w - 1).
Proof.
  intros Hw Hu. unfold sext.
  assert (E : 2 ^ w = 2 * 2 ^ (w - 1)).
  { replace w with (1 + (w - 1)) at 1 by lia. rewrite Z.pow_add_r by lia. reflexivity. }
  destruct (u <? 2 ^ (w - 1)) eqn:C; lia.
Qed.

Lemma sext_mod w v : 0 < w -> - 2 ^ (w - 1) <= v < 2 ^ (w - 1) -> sext w (v mod 2 ^ w) = v.
Proof.
  intros Hw Hv. unfold sext.
  assert (E : 2 ^ w = 2 * 2 ^ (w - 1)).
  { replace w with (1 + (w - 1)) at 1 by lia. rewrite Z.pow_add_r by lia. reflexivity. }
  assert (0 < 2 ^ (w - 1)) by (apply Z.pow_pos_nonneg; lia).
  destruct (0 <=? v) eqn:S.
  - rewrite Z.mod_small by lia. destruct (v <? 2 ^ (w - 1)) eqn:C; lia.
  - replace (v mod 2 ^ w) with (v + 2 ^ w).
    2:{ symmetry. rewrite <- (Z.mod_add v 1 (2 ^ w)) by lia. rewrite Z.mul_1_l. apply Z.mod_small. lia. }
    destruct (v + 2 ^ w <? 2 ^ (w - 1)) eqn:C; lia.
Qed.

Lemma mod_sext w u : 0 < w -> 0 <= u < 2 ^ w -> (sext w u) mod 2 ^ w = u.
Proof.
  intros Hw Hu. unfold sext.
  assert (0 < 2 ^ w) by (apply Z.pow_pos_nonneg; lia).
  destruct (u <? 2 ^ (w - 1)).
  - apply Z.mod_small; lia.
  - replace (u - 2 ^ w) with (u + (-1) * 2 ^ w) by ring. rewrite Z.mod_add by lia.
    apply Z.mod_small; lia.
Qed.
