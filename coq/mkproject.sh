#!/bin/sh
# regenerate _CoqProject and Makefile from the files present (no cases/)
cd "$(dirname "$0")"
{ echo "-Q theories CV"; find theories -name '*.v' | sort; } > _CoqProject.new
if ! cmp -s _CoqProject.new _CoqProject; then mv _CoqProject.new _CoqProject; coq_makefile -f _CoqProject -o Makefile >/dev/null; else rm _CoqProject.new; [ -f Makefile ] || coq_makefile -f _CoqProject -o Makefile >/dev/null; fi
