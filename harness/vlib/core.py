"""The check driver: proofs + correspondence + oracle -> verdict, replay, evidence."""
import logging
import hashlib, importlib, json, os, random, sys, time, traceback, zlib

from . import coqrun
from .coqrun import VERIF, InfraError
from .obs import gval, jsonable

KNOWN = os.path.join(VERIF, "known_findings.json")

BASE_TRUST = [
    "Coq 8.16.1 kernel and coqc; vm_compute (bytecode VM) used in proofs over finite domains and to evaluate the model; no native_compute",
    "axioms: none (every theorem must print 'Closed under the global context'; checked on each run)",
    "tools/gen_tables.py (translator for constants/tables) and the Gallina printers of harness/vlib",
    "the correspondence harness (generators, canonicaliser) and the independent Python oracle of this property",
    "CPython and its C modules as used by the library (struct, int.to_bytes/from_bytes, codecs, queue, threading); python-can Message",
]


def load_known(prop):
    try:
        data = json.load(open(KNOWN))
    except FileNotFoundError:
        return []
    return [e for e in data.get("entries", []) if e.get("property") == prop]


def case_key(case):
    return hashlib.sha1(json.dumps(case, sort_keys=True, default=str).encode()).hexdigest()[:12]


class Run:
    def __init__(self, mod, tier, seed):
        self.mod, self.tier, self.seed = mod, tier, seed
        self.prop = mod.PROP
        self.t0 = time.time()
        self.rng = random.Random(seed ^ zlib.crc32(self.prop.encode()))

    # ---------------------------------------------------------------- implementation + oracle
    def run_impl(self, cases):
        """returns list of (case, obs, oracle_failure_or_None)"""
        out = []
        limit = int(getattr(self.mod, "CASE_TIMEOUT", 120))
        for c in cases:
            try:
                o = run_with_timeout(lambda cc: call_impl(self.mod, cc), c, limit)
            except Exception as e:  # harness bug, not an observation
                raise InfraError(f"impl runner crashed on {c!r}: {traceback.format_exc()[-1500:]}")
            try:
                f = self.mod.oracle(c, o)
            except Exception:
                raise InfraError(f"oracle crashed on {c!r} obs={o!r}: {traceback.format_exc()[-1500:]}")
            out.append((c, o, f))
        return out

    def write_replay(self, kind, payload):
        os.makedirs(os.path.join(VERIF, "replays"), exist_ok=True)
        h = hashlib.sha1(json.dumps(payload, sort_keys=True, default=str).encode()).hexdigest()[:10]
        path = os.path.join(VERIF, "replays", f"{self.prop}-{kind}-{h}.json")
        payload = dict(property=self.prop, kind=kind, seed=self.seed, tier=self.tier, **payload)
        with open(path, "w") as f:
            json.dump(jsonable(payload), f, indent=1)
        return path

    def shrink(self, case, sig):
        sh = getattr(self.mod, "shrink", None)
        if sh is None:
            return case
        budget = 200
        improved = True
        while improved and budget > 0:
            improved = False
            for cand in sh(case):
                budget -= 1
                if budget <= 0:
                    break
                try:
                    if case.get("debug_log"): cand["debug_log"] = True
                    o = timed_impl(self.mod, cand)
                    f = self.mod.oracle(cand, o)
                except Exception:
                    continue
                if f is not None and sigof(f) == sig:
                    case = cand
                    improved = True
                    break
        return case

    # ---------------------------------------------------------------- main
    def main(self):
        mod, prop = self.mod, self.prop
        known = load_known(prop)
        known_sigs = {e["signature"]: e for e in known if e.get("status") == "finding"}
        violations = []     # (line, replay)
        known_hits = {}

        # 1+2. tables and proofs
        proofs = coqrun.check_proofs(prop)

        # 3. cases
        corpus = load_corpus(prop)
        gen = mod.gen_cases(self.rng, self.tier)
        # modelled source that differs from the recorded fingerprint: widen the correspondence
        changed_anchors = []
        anchors = getattr(mod, "ANCHORS", [])
        if anchors:
            now = coqrun.fingerprints(anchors)
            try:
                rec = json.load(open(os.path.join(VERIF, "fingerprints.json"))).get(prop, {})
            except FileNotFoundError:
                rec = {}
            changed_anchors = sorted(k for k, v in now.items() if rec.get(k) != v)
            if changed_anchors and self.tier == "quick":
                rngx = random.Random(self.seed * 31 + 5 ^ zlib.crc32(prop.encode()))
                gen = gen + mod.gen_cases(rngx, "search")
        # every fourth generated case runs with the canopen logger at DEBUG (see call_impl)
        if getattr(mod, "DEBUG_LOG_CASES", True):
            for i, c in enumerate(gen):
                if i % 4 == 3 and isinstance(c, dict):
                    c["debug_log"] = True
        cases = corpus + gen
        dist = {}
        for c in cases:
            k = c.get("kind", "?")
            dist[k] = dist.get(k, 0) + 1

        # 4. implementation + oracle
        results = self.run_impl(cases)
        fails = [(c, o, f) for c, o, f in results if f is not None]

        # 5. model
        ok_model = True
        mism = {}
        model_note = ""
        modelled = [(i, c, o) for i, (c, o, f) in enumerate(results) if c.get("model", True)]
        try:
            for vo in mod.MODEL_VO:
                okb, outb = coqrun.ensure_model_built(vo)
                if not okb:
                    ok_model = False
                    model_note = "model does not build: " + outb[-800:]
            if ok_model:
                items = [(mod.coq_case(c), gval(o)) for _, c, o in modelled]
                mm, raw = coqrun.run_model(prop, mod.COQ_IMPORTS, mod.COQ_RUN, mod.COQ_CASE_TYPE, items)
                mism = {modelled[k][0]: v for k, v in mm.items()}
        except InfraError:
            raise

        # 6. verdict
        new_fails = []
        for c, o, f in fails:
            s = sigof(f)
            if s in known_sigs:
                known_hits.setdefault(s, (c, o, f))
            else:
                new_fails.append((c, o, f))
        search_stats = None
        if new_fails:
            seen = set()
            for c, o, f in new_fails:
                s = sigof(f)
                if s in seen:
                    continue
                seen.add(s)
                c2 = self.shrink(c, s)
                o2 = timed_impl(mod, c2)
                f2 = mod.oracle(c2, o2)
                path = self.write_replay("oracle", dict(case=c2, impl_obs=o2, what=f2 if f2 else f,
                                                        signature=s))
                violations.append((f"VIOLATION property={prop} replay={path}", path))
                if len(violations) >= 5:
                    break
        elif (not proofs["ok"]) or mism or not ok_model:
            # model no longer shown to describe the code: search the implementation for a failing input
            rng2 = random.Random(self.seed * 7919 + 17 ^ zlib.crc32(prop.encode()))
            extra = mod.gen_cases(rng2, "search")
            # concentrate around disagreeing cases
            near = getattr(mod, "neighbours", None)
            if near:
                for i in list(mism)[:20]:
                    extra = list(near(results[i][0], rng2)) + extra
            if getattr(mod, "DEBUG_LOG_CASES", True):
                for i, c in enumerate(extra):
                    if i % 4 == 3 and isinstance(c, dict):
                        c["debug_log"] = True
            sres = self.run_impl(extra)
            sf = [(c, o, f) for c, o, f in sres if f is not None and sigof(f) not in known_sigs]
            search_stats = dict(cases=len(extra), failures=len(sf))
            if sf:
                c, o, f = sf[0]
                c2 = self.shrink(c, sigof(f))
                o2 = timed_impl(mod, c2)
                f2 = mod.oracle(c2, o2)
                path = self.write_replay("oracle", dict(case=c2, impl_obs=o2, what=f2 if f2 else f,
                                                        signature=sigof(f), found_by="failing-input search",
                                                        trigger=("proof" if not proofs["ok"] else "correspondence")))
                violations.append((f"VIOLATION property={prop} replay={path}", path))
            else:
                if not proofs["ok"]:
                    payload = dict(what="proof obligation no longer checks", failing=proofs["failing"],
                                   log=proofs["log"][-3000:])
                    kind = "proof"
                elif not ok_model:
                    payload = dict(what="model does not build", failing=model_note)
                    kind = "proof"
                else:
                    i = sorted(mism)[0]
                    c, o, f = results[i]
                    payload = dict(what="correspondence: model and implementation disagree",
                                   model_function=mod.COQ_RUN, case=c, coq_case=mod.coq_case(c),
                                   impl_obs=o, impl_obs_val=gval(o), model_obs=mism[i],
                                   n_disagreements=len(mism),
                                   other_cases=[results[j][0] for j in sorted(mism)[1:6]])
                    kind = "corr"
                path = self.write_replay(kind, payload)
                violations.append((f"VIOLATION property={prop} replay={path} no-failing-input-found", path))

        for s, (c, o, f) in known_hits.items():
            print(f"KNOWN-FINDING: property={prop} {known_sigs[s].get('what', s)}")

        # 6b. independent re-check of the proofs (thorough tier)
        chk = None
        if self.tier == "thorough" and proofs["ok"]:
            chk = coqrun.coqchk(prop)
            if not chk["ok"]:
                path = self.write_replay("proof", dict(what="coqchk does not accept the development or reports axioms",
                                                       failing=chk["summary"]))
                violations.append((f"VIOLATION property={prop} replay={path} no-failing-input-found", path))

        # 7. evidence
        nontriv = set()
        for c, o, f in results:
            if mod.nontrivial(c):
                nontriv.add(case_key(c))
        samples = [dict(case=c, impl_obs=o) for c, o, f in (results[:2] + results[len(results) // 2:len(results) // 2 + 2] + results[-2:])]
        trusted = BASE_TRUST + list(getattr(mod, "TRUSTED", []))
        ev = dict(
            property_id=prop, tier=self.tier, seed=self.seed, level="proof",
            coverage=dict(
                obligations=proofs["obligations"], discharged=proofs["discharged"],
                checker_cmd=proofs["checker_cmd"] or "make (not reached)",
                trusted_base=trusted,
                theorems=proofs["theorems"], proof_failure=proofs["failing"], tables=proofs["tables"],
                evaluations=len(results), distinct_nontrivial=len(nontriv),
                rule=getattr(mod, "RULE", ""),
                traces_validated_against_impl=len(modelled),
                disagreements_checked=len(modelled), disagreements=len(mism),
                oracle_failures=len(fails), known_findings_reproduced=sorted(known_hits),
                generator_distribution=dist, corpus_cases=len(corpus),
                modelled_source_changed=changed_anchors, coqchk=chk,
                failing_input_search=search_stats,
                samples=samples,
                exhaustive=bool(getattr(mod, "EXHAUSTIVE", {}).get(self.tier, False)),
                explanation=getattr(mod, "EXPLANATION", ""),
            ),
            assumptions=list(getattr(mod, "ASSUMPTIONS", [])),
            wall_s=round(time.time() - self.t0, 2),
            violations=len(violations),
        )
        if proofs["discharged"] == 0:
            # no obligation is discharged on this tree (the development does not build): the proof keys of the schema
            # do not apply to this run; what remains is what the correspondence and the oracle covered
            del ev["coverage"]["discharged"]
            ev["coverage"]["discharged_on_this_tree"] = 0
        # runs against a changed tree (tools/try_seed.sh) keep their evidence out of /verif/evidence
        evdir = os.environ.get("VERIF_SEED_EVIDENCE_DIR") or os.path.join(VERIF, "evidence")
        os.makedirs(evdir, exist_ok=True)
        with open(os.path.join(evdir, f"{prop}.json"), "w") as f:
            json.dump(jsonable(ev), f, indent=1)
        for line, _ in violations:
            print(line)
        print(f"[{prop}] tier={self.tier} seed={self.seed} proofs={proofs['discharged']}/{proofs['obligations']} "
              f"cases={len(results)} modelled={len(modelled)} disagreements={len(mism)} oracle_failures={len(fails)} "
              f"known={len(known_hits)} violations={len(violations)} wall={ev['wall_s']}s")
        return 1 if violations else 0


class _Swallow(logging.Handler):
    """formats every record (so that logging arguments are really evaluated) and drops it"""
    def emit(self, record):
        try:
            record.getMessage()
        except Exception:
            pass


def timed_impl(mod, c):
    """call_impl under the per-case watchdog (also used by the shrinker, the search and replay)"""
    return run_with_timeout(lambda cc: call_impl(mod, cc), c, int(getattr(mod, "CASE_TIMEOUT", 120)))


def call_impl(mod, c):
    """Run the implementation on a case.  Cases marked "debug_log" run with the `canopen` logger at DEBUG (records are
    formatted and dropped): the log level is configuration an application is free to choose and must not change
    any observable behaviour, so the same oracles and the same model apply."""
    if not (isinstance(c, dict) and c.get("debug_log")):
        return mod.impl(c)
    lg = logging.getLogger("canopen")
    h = _Swallow(level=logging.DEBUG)
    old_disable = logging.root.manager.disable
    old_level, old_prop = lg.level, lg.propagate
    logging.disable(logging.NOTSET)
    lg.setLevel(logging.DEBUG); lg.propagate = False; lg.addHandler(h)
    try:
        return mod.impl(c)
    finally:
        lg.removeHandler(h); lg.setLevel(old_level); lg.propagate = old_prop
        logging.disable(old_disable)


class _CaseTimeout(BaseException):
    pass


_HANGS = [0]


def run_with_timeout(f, c, seconds):
    """A case on which the implementation does not come back (e.g. a loop that never reaches its time-out check)
    becomes the observation Err(other, 'no result within N s') instead of hanging the check."""
    import signal, threading
    from .obs import Err, E_OTHER
    if threading.current_thread() is not threading.main_thread() or not hasattr(signal, "setitimer"):
        return f(c)
    def handler(signum, frame):
        raise _CaseTimeout()
    # after several cases did not come back (which already is a violation) the others get a short leash,
    # so that a check against a tree that blocks does not take hours
    if _HANGS[0] >= 5:
        seconds = min(seconds, 3)
    old = signal.signal(signal.SIGALRM, handler)
    signal.setitimer(signal.ITIMER_REAL, seconds)
    try:
        return f(c)
    except _CaseTimeout:
        _HANGS[0] += 1
        return Err(E_OTHER, f"no result within {seconds} s")
    finally:
        signal.setitimer(signal.ITIMER_REAL, 0)
        signal.signal(signal.SIGALRM, old)


def sigof(f):
    """oracle failures are either a string 'sig: detail' or (sig, detail)"""
    if isinstance(f, tuple):
        return f[0]
    return str(f).split(":", 1)[0]


def load_corpus(prop):
    d = os.path.join(VERIF, "corpus", prop)
    out = []
    if os.path.isdir(d):
        for fn in sorted(os.listdir(d)):
            if fn.endswith(".json"):
                j = json.load(open(os.path.join(d, fn)))
                out.extend(j if isinstance(j, list) else [j])
    return out


def load_mod(prop):
    return importlib.import_module(f"props.{prop.lower()}")


def replay(path):
    j = json.load(open(path))
    mod = load_mod(j["property"])
    print(f"replay {path}: property={j['property']} kind={j['kind']} what={j.get('what')}")
    if "case" not in j:
        print("no concrete input recorded (proof obligation / model build): failing =", j.get("failing"))
        pr = coqrun.check_proofs(j["property"])
        print("proof status now:", "ok" if pr["ok"] else pr["failing"])
        return 0 if pr["ok"] else 1
    c = j["case"]
    o = timed_impl(mod, c)
    f = mod.oracle(c, o)
    print("case:", json.dumps(c))
    print("implementation observation:", repr(o))
    print("oracle:", "holds" if f is None else f)
    if c.get("model", True):
        try:
            for vo in mod.MODEL_VO:
                coqrun.ensure_model_built(vo)
            mm, raw = coqrun.run_model(j["property"], mod.COQ_IMPORTS, mod.COQ_RUN, mod.COQ_CASE_TYPE,
                                       [(mod.coq_case(c), gval(o))], tag="replay")
            print("model:", "agrees with implementation" if not mm else f"differs: model gives {mm[0]}")
            if mm and f is None:
                return 1
        except InfraError as e:
            print("model not evaluated:", e)
    return 0 if f is None else 1


def main(argv):
    if len(argv) >= 2 and argv[0] == "replay":
        return replay(argv[1])
    if len(argv) >= 2 and argv[0] == "run":
        prop = argv[1]
        tier = os.environ.get("VERIF_TIER", "quick")
        if "--tier" in argv:
            tier = argv[argv.index("--tier") + 1]
        seed = int(os.environ.get("VERIF_SEED", "20260923"))
        if "--seed" in argv:
            seed = int(argv[argv.index("--seed") + 1])
        mod = load_mod(prop)
        for attempt in (1, 2):
            try:
                return Run(mod, tier, seed).main()
            except InfraError as e:
                print(f"[{prop}] internal error (attempt {attempt}): {e}", file=sys.stderr)
                if attempt == 2:
                    return 3
            except Exception:
                print(f"[{prop}] internal error (attempt {attempt}): {traceback.format_exc()[-3000:]}", file=sys.stderr)
                if attempt == 2:
                    return 3
        return 3
    print("usage: vcheck run CXX [--tier quick|thorough] | vcheck replay <file>")
    return 2
