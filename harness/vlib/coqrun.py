"""Driving Coq: table regeneration, proof obligations, model evaluation."""
import fcntl, os, re, subprocess, sys, time, hashlib, shutil
from concurrent.futures import ThreadPoolExecutor

VERIF = os.path.dirname(os.path.dirname(os.path.dirname(os.path.abspath(__file__))))
COQ = os.path.join(VERIF, "coq")
REPO = os.environ.get("CANOPEN_REPO", "/repo")
PY = "/venv/bin/python"
CHUNK = 300


class InfraError(Exception):
    """A failure of the machinery itself (never reported as a violation)."""


def _env():
    e = dict(os.environ)
    e["PYTHONPATH"] = REPO
    e["PYTHONHASHSEED"] = "0"
    return e


class CoqLock:
    def __enter__(self):
        self.f = open(os.path.join(COQ, ".lock"), "w")
        fcntl.flock(self.f, fcntl.LOCK_EX)
        return self
    def __exit__(self, *a):
        fcntl.flock(self.f, fcntl.LOCK_UN)
        self.f.close()


def regen_tables():
    """Tie (a): regenerate Gen/Tables.v from the current source. Returns (ok, message)."""
    p = subprocess.run([PY, os.path.join(VERIF, "tools", "gen_tables.py")], env=_env(),
                       capture_output=True, text=True, timeout=120)
    if p.returncode != 0:
        return False, (p.stdout + p.stderr)[-2000:]
    return True, "; ".join(l for l in p.stdout.strip().splitlines() if not l.startswith(" "))[-1500:]


def make(target, timeout=1500):
    """make one target (with dependencies) under the project lock. Returns (ok, output)."""
    subprocess.run(["sh", os.path.join(COQ, "mkproject.sh")], check=True)
    cmd = ["timeout", str(timeout), "make", "-C", COQ, "-j16", target]
    p = subprocess.run(cmd, capture_output=True, text=True)
    return p.returncode == 0, p.stdout + p.stderr, " ".join(cmd)


def coqc(path, timeout=600):
    cmd = ["timeout", str(timeout), "coqc", "-q", "-Q", os.path.join(COQ, "theories"), "CV", path]
    p = subprocess.run(cmd, capture_output=True, text=True, cwd=os.path.dirname(path))
    return p.returncode, p.stdout, p.stderr, " ".join(cmd)


THEOREM_RE = re.compile(r"^\s*(Theorem|Example)\s+([A-Za-z0-9_']+)", re.M)


def check_proofs(prop):
    """Tie (a) continued + the theorems: build Properties/<prop>.vo from the current tables and
    recompile the property file itself to capture this run's Print Assumptions output.

    Returns dict(obligations, discharged, theorems=[{name, assumptions}], ok, failing, checker_cmd, log)."""
    src = os.path.join(COQ, "theories", "Properties", f"{prop}.v")
    res = dict(obligations=0, discharged=0, theorems=[], ok=False, failing=None, checker_cmd="", log="",
               tables="")
    lint = subprocess.run(["python3", os.path.join(VERIF, "tools", "lint_coq.py")], capture_output=True, text=True)
    if lint.returncode != 0:
        res["failing"] = "forbidden construct in the development: " + lint.stdout[-800:]
        text = open(src).read() if os.path.exists(src) else ""
        res["obligations"] = len([m for m in THEOREM_RE.finditer(text) if m.group(1) == "Theorem"])
        return res
    with CoqLock():
        ok, msg = regen_tables()
        res["tables"] = msg
        if not ok:
            res["failing"] = "tools/gen_tables.py: " + msg[-600:]
            res["log"] = msg
            text = open(src).read() if os.path.exists(src) else ""
            res["obligations"] = len([m for m in THEOREM_RE.finditer(text) if m.group(1) == "Theorem"])
            return res
        if not os.path.exists(src):
            raise InfraError(f"{src} missing")
        text = open(src).read()
        names = [m.group(2) for m in THEOREM_RE.finditer(text) if m.group(1) == "Theorem"]
        res["obligations"] = len(names)
        ok, out, cmd = make(f"theories/Properties/{prop}.vo")
        res["checker_cmd"] = cmd
        res["log"] = out[-6000:]
        if not ok:
            if "Error" not in out and ("Killed" in out or "Terminated" in out):
                raise InfraError("make did not finish: " + out[-500:])
            m = re.search(r'File "([^"]+)", line (\d+)[^\n]*\n(Error:.*?)(?:\n\n|\Z)', out, re.S)
            res["failing"] = (f"{m.group(1)}:{m.group(2)}: {m.group(3)[:600]}" if m else out[-800:])
            # which theorems of the property file still check: those stated before the failing point
            if m and m.group(1).endswith(f"Properties/{prop}.v"):
                line = int(m.group(2))
                upto = "\n".join(text.splitlines()[:line])
                done = [x.group(2) for x in THEOREM_RE.finditer(upto) if x.group(1) == "Theorem"]
                res["discharged"] = max(0, len(done) - 1)
            else:
                res["discharged"] = 0
            return res
        # fresh compile of the property file for this run's Print Assumptions
        tmpdir = os.path.join(COQ, "cases", f"pa_{prop}_{os.getpid()}")
        os.makedirs(tmpdir, exist_ok=True)
        try:
            tmp = os.path.join(tmpdir, f"{prop}_pa.v")
            shutil.copy(src, tmp)
            rc, so, se, cmd2 = coqc(tmp)
            res["checker_cmd"] += " && " + cmd2
            if rc != 0:
                res["failing"] = (so + se)[-800:]
                return res
        finally:
            shutil.rmtree(tmpdir, ignore_errors=True)
    # parse Print Assumptions blocks: they appear in order of the Print Assumptions commands
    pa_names = re.findall(r"Print Assumptions\s+([A-Za-z0-9_']+)\s*\.", text)
    blocks = re.split(r"(?=Closed under the global context|Axioms:)", so)
    blocks = [b.strip() for b in blocks if b.strip().startswith(("Closed under", "Axioms:"))]
    pa = {}
    for n, b in zip(pa_names, blocks):
        pa[n] = "closed" if b.startswith("Closed under") else b[:1500]
    missing = [n for n in names if n not in pa]
    res["theorems"] = [dict(name=n, assumptions=pa.get(n, "no Print Assumptions")) for n in names]
    bad = [t for t in res["theorems"] if t["assumptions"] != "closed"]
    if missing or bad or len(blocks) != len(pa_names):
        res["failing"] = f"assumptions not closed or missing: {[t['name'] for t in bad] + missing}"
        res["discharged"] = len(names) - len(bad) - len(missing)
        return res
    res["discharged"] = len(names)
    res["ok"] = True
    return res


def run_model(prop, imports, run, case_type, items, tag="m"):
    """items: list of (coq_case_text, expected_val_text). Returns (mismatch_indices, raw_texts).

    Evaluates the model inside Coq (vm_compute) and compares with the implementation's
    observation there; only the indices of differing cases (and the model's value) come back."""
    if not items:
        return {}, ""
    d = os.path.join(COQ, "cases", f"{prop}_{tag}_{os.getpid()}")
    shutil.rmtree(d, ignore_errors=True)
    os.makedirs(d)
    # the model .vo must exist
    files = []
    for k in range(0, len(items), CHUNK):
        chunk = items[k:k + CHUNK]
        p = os.path.join(d, f"cases_{k // CHUNK}.v")
        with open(p, "w") as f:
            f.write("From Coq Require Import ZArith List Bool String.\n")
            f.write("From CV Require Import Base.Val Base.Tys.\n" + imports + "\n")
            f.write("Import ListNotations.\nOpen Scope Z_scope.\nSet Printing Depth 1000000.\nSet Printing Width 1000000.\n")
            f.write(f"Definition cases : list ({case_type} * val) := [\n")
            f.write(";\n".join(f" ({c}, {e})" for c, e in chunk))
            f.write("\n].\n")
            f.write(f"Eval vm_compute in (mismatches ({run}) cases).\n")
        files.append((k, p))

    def one(kp):
        k, p = kp
        rc, so, se, cmd = coqc(p, timeout=1200)
        return k, rc, so, se

    mism = {}
    raw = []
    try:
        with ThreadPoolExecutor(max_workers=16) as ex:
            for k, rc, so, se in ex.map(one, files):
                if rc != 0:
                    raise InfraError(f"model evaluation failed (chunk {k}): {(so + se)[-1500:]}")
                body = so.split("=", 1)[1] if "=" in so else ""
                body = body.rsplit(": list", 1)[0]
                for m in re.finditer(r"\((\d+), (V.*?)\)(?=; \(\d+, V|\]\s*$)", body.strip(), re.S):
                    mism[k + int(m.group(1))] = " ".join(m.group(2).split())
                if body.strip() not in ("[]", "nil") and not re.search(r"\(\d+, V", body):
                    raise InfraError("cannot parse Coq output: " + so[:500])
                raw.append(so)
    finally:
        shutil.rmtree(d, ignore_errors=True)
    return mism, "\n".join(raw)


def ensure_model_built(target_vo):
    with CoqLock():
        ok, out, cmd = make(target_vo)
    return ok, out


def coqchk(prop, timeout=1500):
    """Independent re-check of the compiled property file and everything it depends on (thorough tier)."""
    cmd = ["timeout", str(timeout), "coqchk", "-silent", "-o", "-Q", os.path.join(COQ, "theories"), "CV",
           f"CV.Properties.{prop}"]
    with CoqLock():
        # the generated files are shared by every run in this directory: bring them (and the compiled files) back in
        # line with THIS run's source tree before the re-check, under the same lock (another run, e.g. tools/try_seed.sh
        # against a changed tree, may have regenerated or removed them since this run's proof step)
        okt, msg = regen_tables()
        okm, mout, _ = make(f"theories/Properties/{prop}.vo") if okt else (False, msg, "")
        if not okm:
            return dict(ok=False, returncode=2, axioms="?", summary="the development no longer builds at coqchk time: "
                        + " ".join(mout.split())[-600:], cmd=" ".join(cmd))
        p = subprocess.run(cmd, capture_output=True, text=True, cwd=COQ)
    out = p.stdout + p.stderr
    summary = out[out.find("CONTEXT SUMMARY"):] if "CONTEXT SUMMARY" in out else out[-1500:]
    axioms = re.search(r"\* Axioms:(.*?)\n\s*\n\* Constants/Inductives relying on type-in-type", summary, re.S)
    ax = " ".join(axioms.group(1).split()) if axioms else "?"
    clean = (p.returncode == 0 and ax == "<none>" and summary.count("<none>") >= 4)
    return dict(ok=clean, returncode=p.returncode, axioms=ax, summary=" ".join(summary.split())[:1200], cmd=" ".join(cmd))


def fingerprints(anchors):
    """sha1 of the AST of each anchored function/class of the CURRENT source: {"mod:qualname": hash}."""
    import ast, importlib, inspect, textwrap
    out = {}
    for mod, qual in anchors:
        key = f"{mod}:{qual}"
        try:
            o = importlib.import_module(mod)
            for part in qual.split("."):
                o = getattr(o, part)
            if isinstance(o, property):
                src = "".join(inspect.getsource(f) for f in (o.fget, o.fset) if f is not None)
            elif inspect.isfunction(o) or inspect.isclass(o) or inspect.ismethod(o):
                src = inspect.getsource(o)
            else:
                src = repr(o)
            try:
                src = ast.dump(ast.parse(textwrap.dedent(src)))
            except SyntaxError:
                pass
            out[key] = hashlib.sha1(src.encode()).hexdigest()[:16]
        except Exception as e:  # missing anchor = changed code
            out[key] = f"missing:{type(e).__name__}"
    return out
